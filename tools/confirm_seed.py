#!/usr/bin/env python3
"""confirm_seed.py <seed-out-dir (…/Cxx-out/mN)> <id>: confirm an independently produced breaking change in a scratch
worktree: the demonstration passes without the change and fails with it, the tree builds, and the existing tests of
the touched packages still pass; then store it under /verif/seeded/<id>/ (patch.diff, demo, meta.json, confirm.json)."""
import json, os, re, shutil, subprocess, sys, time
src, sid = os.path.abspath(sys.argv[1]), sys.argv[2]
env = dict(os.environ, GOFLAGS="-mod=mod", GOPROXY="off", GOSUMDB="off", GOTOOLCHAIN="local")
wt = "/var/tmp/confirm/" + sid
subprocess.run(["git", "-C", "/repo", "worktree", "remove", "--force", wt], stderr=subprocess.DEVNULL)
os.makedirs("/var/tmp/confirm", exist_ok=True)
subprocess.check_call(["git", "-C", "/repo", "worktree", "add", "-q", "--detach", wt, "HEAD"])
res = {"id": sid, "at_repo_commit": subprocess.check_output(["git", "-C", "/repo", "rev-parse", "--short", "HEAD"]).decode().strip()}
try:
    meta = json.load(open(os.path.join(src, "meta.json")))
    pkgtxt = open(os.path.join(src, "demo_pkg.txt")).read()
    pkg = pkgtxt.split()[0].strip().rstrip("/")
    if pkg.startswith("./"): pkg = pkg[2:]
    m = re.search(r"-run\s+'?\"?([\w^$|()]+)", pkgtxt)
    run = m.group(1) if m else "SeedDemo|Seed"
    demo = os.path.join(wt, pkg, "zz_seed_demo_test.go")
    shutil.copy(os.path.join(src, "demo_test.go"), demo)
    def gotest(args, timeout=1500):
        t = time.time()
        p = subprocess.run(["go", "test", "-vet=off", "-count=1"] + args, cwd=wt, env=env, stdout=subprocess.PIPE, stderr=subprocess.STDOUT, timeout=timeout)
        return p.returncode, p.stdout.decode("utf-8", "replace")[-1500:], round(time.time() - t, 1)
    rc0, out0, t0 = gotest(["-run", run, "./" + pkg])
    res["demo_without_change"] = {"rc": rc0, "s": t0}
    ap = subprocess.run(["git", "-C", wt, "apply", os.path.join(src, "patch.diff")], stderr=subprocess.PIPE)
    res["patch_applies"] = ap.returncode == 0
    if ap.returncode != 0:
        res["apply_err"] = ap.stderr.decode()[:300]
    else:
        rc1, out1, t1 = gotest(["-run", run, "./" + pkg])
        res["demo_with_change"] = {"rc": rc1, "s": t1, "tail": out1[-400:]}
        os.remove(demo)
        b = subprocess.run(["go", "build", "./..."], cwd=wt, env=env, stdout=subprocess.PIPE, stderr=subprocess.STDOUT)
        res["build_with_change"] = b.returncode
        pkgs = sorted({"./" + os.path.dirname(f) for f in meta.get("files", []) if f.endswith(".go")})
        p = subprocess.run(["go", "test", "-json", "-vet=off", "-count=1"] + pkgs, cwd=wt, env=env, stdout=subprocess.PIPE, stderr=subprocess.DEVNULL, timeout=2400)
        base = json.load(open("/root/.vp/BASELINE.json")); stable = set(base["stable_pass"]); r = {}
        for l in p.stdout.decode("utf-8", "replace").splitlines():
            try: e = json.loads(l)
            except ValueError: continue
            if e.get("Test") and e.get("Action") in ("pass", "fail", "skip"): r[e["Package"] + "::" + e["Test"]] = e["Action"]
        res["existing_tests_with_change"] = {"packages": pkgs, "ran": len(r), "stable_not_passing": sorted(t for t in r if t in stable and r[t] != "pass")}
    res["confirmed"] = bool(res.get("patch_applies") and res["demo_without_change"]["rc"] == 0 and res.get("demo_with_change", {}).get("rc", 0) != 0
                            and res.get("build_with_change") == 0 and not res["existing_tests_with_change"]["stable_not_passing"])
    if res["confirmed"]:
        dst = "/verif/seeded/" + sid
        os.makedirs(dst, exist_ok=True)
        for f in ("patch.diff", "demo_test.go", "demo_pkg.txt"):
            shutil.copy(os.path.join(src, f), dst)
        meta["confirmed"] = res
        json.dump(meta, open(os.path.join(dst, "meta.json"), "w"), indent=1)
finally:
    subprocess.run(["git", "-C", "/repo", "worktree", "remove", "--force", wt])
print(json.dumps(res)[:700])
