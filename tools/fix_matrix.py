#!/usr/bin/env python3
"""fix_matrix.py [--jobs N] [--seed S]: for every "fixed:" line of known-findings.jsonl, take the repair out again (reverse patch
of the fix commit, applied in a scratch worktree and handed to the checks as a build overlay; /repo is never touched) and
run the quick check of the property the line names: the violation must be reported again (exit 1).
Writes /verif/seeded/FIXMATRIX.json: "<finding> <commit>" -> {property: {rc, kinds}}."""
import concurrent.futures as cf, json, os, re, subprocess, sys
jobs = int(sys.argv[sys.argv.index("--jobs") + 1]) if "--jobs" in sys.argv else 3
seed = sys.argv[sys.argv.index("--seed") + 1] if "--seed" in sys.argv else "1"
only = [a for a in sys.argv[1:] if re.match(r"^[0-9a-f]{7}$", a)]
items = []
for l in open("/verif/known-findings.jsonl"):
    m = re.match(r"fixed: property=(C\d\d) ([0-9a-f]{7}) (\S+)", l)
    if m and (not only or m.group(2) in only):
        items.append((m.group(1), m.group(2), m.group(3)))
byc = {}
for prop, c, fid in items:
    byc.setdefault(c, {"props": [], "ids": []})
    byc[c]["props"].append(prop) if prop not in byc[c]["props"] else None
    byc[c]["ids"].append(fid)
outp = "/verif/seeded/FIXMATRIX.json" if seed == "1" else "/verif/seeded/FIXMATRIX-seed%s.json" % seed
mat = json.load(open(outp)) if os.path.exists(outp) else {}


def one(c):
    d = "/var/tmp/seed/rev-" + c
    os.makedirs(d, exist_ok=True)
    files = [f for f in subprocess.check_output(["git", "-C", "/repo", "diff", "--name-only", c + "~1", c]).decode().split() if not f.endswith("_test.go")]
    hand = "/verif/seeded/reverts/%s.diff" % c          # hand-made where later commits touched the same lines
    patch = open(hand, "rb").read() if os.path.exists(hand) else subprocess.check_output(["git", "-C", "/repo", "diff", c, c + "~1", "--"] + files)
    open(os.path.join(d, "patch.diff"), "wb").write(patch)
    p = subprocess.run(["python3", "/verif/tools/try_seed.py", d] + byc[c]["props"], stdout=subprocess.PIPE, stderr=subprocess.STDOUT,
                       timeout=7200, env=dict(os.environ, VERIF_SEED=seed))
    res = {}
    for l in p.stdout.decode().splitlines():
        m = re.match(r"(\S+) (C\d\d) rc=(-?\d+)\s+(VIOLATION)?\s*(\[.*?\]) (\[.*\])$", l)
        if m:
            res[m.group(2)] = {"rc": int(m.group(3)), "kinds": eval(m.group(5)), "note": eval(m.group(6))}
        elif "PATCH DOES NOT APPLY" in l:
            res["_error"] = l[:300]
    return c, res


with cf.ThreadPoolExecutor(max_workers=jobs) as ex:
    for c, res in ex.map(one, sorted(byc)):
        key = "%s %s" % ("/".join(byc[c]["ids"]), c)
        mat[key] = res
        json.dump(mat, open(outp, "w"), indent=1, sort_keys=True)
        print(key, {k: (v["rc"] if isinstance(v, dict) else v) for k, v in res.items()}, flush=True)
