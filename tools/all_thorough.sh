#!/bin/bash
# run every claimed check's thorough command, three side by side; one summary line each
cd "$(dirname "$0")/.."
mkdir -p out
props=$(python3 -c "import json;print(' '.join(c['property_id'] for c in json.load(open('MANIFEST.json'))['checks']))")
one() { p=$1; s=$(date +%s); ./check $p --tier thorough > out/thorough-$p.log 2>&1; rc=$?
  echo "$p rc=$rc $(( $(date +%s) - s ))s $(grep -c KNOWN-FINDING out/thorough-$p.log) known $(grep -E 'VIOLATION|INCONCLUSIVE' out/thorough-$p.log | head -1 | cut -c1-200)"; }
n=0
for p in $props; do one $p & n=$((n+1)); if [ $((n % 3)) -eq 0 ]; then wait; fi; done; wait
