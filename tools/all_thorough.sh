#!/bin/bash
# run every claimed check's thorough command one after the other; one summary line each
cd "$(dirname "$0")/.."
mkdir -p out
for p in $(python3 -c "import json;print(' '.join(c['property_id'] for c in json.load(open('MANIFEST.json'))['checks']))"); do
  s=$(date +%s); ./check $p --tier thorough > out/thorough-$p.log 2>&1; rc=$?
  echo "$p rc=$rc $(( $(date +%s) - s ))s $(grep -c KNOWN-FINDING out/thorough-$p.log) known $(grep -E 'VIOLATION|INCONCLUSIVE' out/thorough-$p.log | head -1 | cut -c1-200)"
done
