#!/usr/bin/env python3
"""Seeded mutations for the C15 engine (engines/serialize.py), as `go build -overlay` files -- /repo is never touched.

    tools/c15_mutations.py /var/tmp/<you>/c15mut        # writes <dir>/<id>/{overlay.json, desc.txt, <mutated file>}
    VERIF_OVERLAY=/var/tmp/<you>/c15mut/M1/overlay.json ./check C15 --tier quick     # expect exit 1 (R1: exit 0)

Expected signatures (notes/serialize.md): M1 unlocked-access:CreateContainer, M2 unlocked-access:UpdateContainer,
M3 unlocked-access:StopContainer, M4 Act_ReadSeesFetch/read-after-insert-missed-the-fetched-value,
M5 Act_Terminates/did-not-return-holding-the-lock:StartContainer, M6a/b/c unlocked-access:StopPodSandbox / Synchronize /
RemovePodSandbox, M7 unlocked-access:StopContainer (+ race-between-lock-holders), R1 (refactor) no violation.
"""
import json
import os
import sys

REPO = os.environ.get("VERIF_REPO", "/repo")
NRI = os.path.join(REPO, "pkg/resmgr/nri.go")
POD = os.path.join(REPO, "pkg/resmgr/cache/pod.go")
LOCK = "\tm.Lock()\n\tdefer m.Unlock()\n"


def mutate_fn(src, name, f):
    a = src.index("func (p *nriPlugin) %s(" % name)
    b = src.index("\n}\n", a) + 3
    body = src[a:b]
    nb = f(body)
    if nb == body:
        raise SystemExit("mutation of %s does not apply any more" % name)
    return src[:a] + nb + src[b:]


def main(out):
    nri = open(NRI).read()
    pod = open(POD).read()

    def write(mid, path, content, desc):
        d = os.path.join(out, mid)
        os.makedirs(d, exist_ok=True)
        fp = os.path.join(d, os.path.basename(path))
        open(fp, "w").write(content)
        json.dump({"Replace": {path: fp}}, open(os.path.join(d, "overlay.json"), "w"))
        open(os.path.join(d, "desc.txt"), "w").write(desc + "\n")

    write("M1", NRI, mutate_fn(nri, "CreateContainer", lambda b: b.replace(LOCK, "", 1)), "CreateContainer: m.Lock()/defer m.Unlock() removed")
    write("M2", NRI, mutate_fn(nri, "UpdateContainer", lambda b: b.replace(LOCK, "\tm.RLock()\n\tdefer m.RUnlock()\n", 1)),
          "UpdateContainer: RLock()/RUnlock() instead of Lock()/Unlock()")

    rel = "\tif err := m.policy.ReleaseResources(c); err != nil {\n\t\treturn nil, fmt.Errorf(\"failed to release resources: %w\", err)\n\t}\n"

    def m3(b):
        return b.replace(LOCK, "", 1).replace(rel, rel + "\n" + LOCK, 1)
    write("M3", NRI, mutate_fn(nri, "StopContainer", m3), "StopContainer: lookup, unmap and policy.ReleaseResources moved before m.Lock()")

    old = "\tp.podResCh = ch\n\tp.waitResCh = make(chan struct{})\n\tgo func() {\n\t\tdefer close(p.waitResCh)\n"
    new = "\tgo func() {\n\t\tp.podResCh = ch\n\t\tp.waitResCh = make(chan struct{})\n\t\tdefer close(p.waitResCh)\n"
    if old not in pod:
        raise SystemExit("mutation M4 does not apply any more")
    write("M4", POD, pod.replace(old, new), "pod.go goFetchPodResources: wait channel created inside the goroutine again (pre-ced198d)")

    write("M5", NRI, mutate_fn(nri, "StartContainer", lambda b: b.replace(LOCK, LOCK + LOCK, 1)), "StartContainer: takes the (non re-entrant) lock twice")
    write("M6a", NRI, mutate_fn(nri, "StopPodSandbox", lambda b: b.replace(LOCK, "", 1)), "StopPodSandbox: lock of 06edfe4 removed")
    write("M6b", NRI, mutate_fn(nri, "Synchronize", lambda b: b.replace(LOCK, "", 1)), "Synchronize: lock of 06edfe4 removed")

    blk = LOCK + "\tb := metrics.Block()\n\tdefer b.Done()\n\n"

    def m6c(b):
        return b.replace(blk, "", 1).replace("\tm.cache.DeletePod(podSandbox.GetId())", blk + "\tm.cache.DeletePod(podSandbox.GetId())", 1)
    write("M6c", NRI, mutate_fn(nri, "RemovePodSandbox", m6c), "RemovePodSandbox: lock taken only before DeletePod again (pre-06edfe4)")

    def m7(b):
        b = b.replace(LOCK, "\tm.Lock()\n", 1)
        b = b.replace("\tc, ok := m.cache.LookupContainer(container.Id)\n\tif !ok {\n\t\treturn nil, nil\n\t}\n",
                      "\tc, ok := m.cache.LookupContainer(container.Id)\n\tif !ok {\n\t\tm.Unlock()\n\t\treturn nil, nil\n\t}\n", 1)
        b = b.replace("\tif err := m.policy.ReleaseResources(c); err != nil {\n\t\treturn nil, fmt.Errorf",
                      "\tif err := m.policy.ReleaseResources(c); err != nil {\n\t\tm.Unlock()\n\t\treturn nil, fmt.Errorf", 1)
        return b.replace("\tc.UpdateState(cache.ContainerStateExited)\n\tm.updateTopologyZones()\n",
                         "\tm.Unlock()\n\tc.UpdateState(cache.ContainerStateExited)\n\tm.updateTopologyZones()\n", 1)
    write("M7", NRI, mutate_fn(nri, "StopContainer", m7), "StopContainer: releases the lock after policy.ReleaseResources; the rest runs outside")

    src = nri
    for name in ("CreateContainer", "StopPodSandbox", "UpdateContainer", "Synchronize"):
        src = mutate_fn(src, name, lambda b: b.replace(LOCK, "\tunlock := p.lockAll()\n\tdefer unlock()\n", 1))
    src += ("\n// lockAll takes the resource manager lock and returns the function releasing it.\n"
            "func (p *nriPlugin) lockAll() func() {\n\tm := p.resmgr\n\tm.Lock()\n\treturn func() { m.Unlock() }\n}\n")
    write("R1", NRI, src, "refactor (behaviour preserving): four handlers take the lock through a helper returning the unlock function")
    print("written:", " ".join(sorted(os.listdir(out))))


if __name__ == "__main__":
    if len(sys.argv) != 2:
        raise SystemExit(__doc__)
    main(sys.argv[1])
