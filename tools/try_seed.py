#!/usr/bin/env python3
"""try_seed.py <dir-with-patch.diff> <Cxx> [<Cxx> ...] [--tier quick] : run checks against a seeded change WITHOUT touching /repo:
the patch is applied in a scratch worktree and handed to the Go tool as an overlay (VERIF_OVERLAY)."""
import json, os, subprocess, sys, shutil
args = [a for a in sys.argv[1:] if not a.startswith("--")]
tier = "quick"
if "--tier" in sys.argv: tier = sys.argv[sys.argv.index("--tier") + 1]; args.remove(tier)
d, props = os.path.abspath(args[0]), args[1:]
name = os.path.basename(os.path.dirname(d)) + "-" + os.path.basename(d) if os.path.basename(d).startswith("m") else os.path.basename(d)
wt = "/var/tmp/mut/" + name
subprocess.run(["git", "-C", "/repo", "worktree", "remove", "--force", wt], stderr=subprocess.DEVNULL)
os.makedirs("/var/tmp/mut", exist_ok=True)
subprocess.check_call(["git", "-C", "/repo", "worktree", "add", "-q", "--detach", wt, "HEAD"])
try:
    r = subprocess.run(["git", "-C", wt, "apply", os.path.join(d, "patch.diff")], stderr=subprocess.PIPE)
    if r.returncode != 0:
        print("PATCH DOES NOT APPLY:", r.stderr.decode()[:400]); sys.exit(3)
    files = subprocess.check_output(["git", "-C", wt, "diff", "--name-only"]).decode().split()
    new = subprocess.check_output(["git", "-C", wt, "ls-files", "--others", "--exclude-standard"]).decode().split()
    ov = {"Replace": {os.path.join("/repo", f): os.path.join(wt, f) for f in files + new}}
    ovp = os.path.join(wt, "overlay.json"); json.dump(ov, open(ovp, "w"))
    procs = []
    for p in props:
        env = dict(os.environ, VERIF_OVERLAY=ovp, VERIF_OUT_SUFFIX="-" + name)
        procs.append((p, subprocess.Popen(["./check", p, "--tier", tier], cwd="/verif", env=env, stdout=subprocess.PIPE, stderr=subprocess.PIPE)))
    for p, pr in procs:
        out, err = pr.communicate()
        v = [l for l in out.decode().splitlines() if l.startswith(("VIOLATION", "KNOWN"))]
        kinds = sorted({l.split('"pred": "')[1].split('"')[0] + "/" + l.split('"sig": "')[1].split('"')[0] for l in err.decode().splitlines() if "violation:" in l and '"sig": "' in l})
        inc = [l for l in err.decode().splitlines() if "INCONCLUSIVE" in l]
        print("%s %s rc=%d %s %s %s" % (name, p, pr.returncode, "VIOLATION" if any(x.startswith("VIOLATION") for x in v) else "", kinds[:6], inc[:1]))
finally:
    subprocess.run(["git", "-C", "/repo", "worktree", "remove", "--force", wt])
    for p in props:
        shutil.rmtree("/verif/out/%s-%s-%s" % (p, tier, name), ignore_errors=True)
    import glob
    for f in glob.glob("/verif/harness/bin/*-" + name):
        os.remove(f)
