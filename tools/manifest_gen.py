#!/usr/bin/env python3
"""Regenerate MANIFEST.json from tools/manifest_src.json (per-property texts) -- keeps it schema-valid."""
import json, os, sys
ROOT = os.path.dirname(os.path.dirname(os.path.abspath(__file__)))
src = json.load(open(os.path.join(ROOT, "tools", "manifest_src.json")))
props = [json.loads(l)["id"] for l in open(os.path.join(ROOT, "properties.jsonl"))]
checks, na = [], []
for p in props:
    c = src["checks"].get(p)
    if c:
        checks.append({"property_id": p, "quick_cmd": "./check %s --tier quick" % p,
                       "thorough_cmd": "./check %s --tier thorough" % p,
                       "evidence_file": "/verif/evidence/%s.json" % p,
                       "replay_cmd_template": "./check %s --replay {path}" % p,
                       "engine": c["engine"],
                       "level_claimed": {"category": c.get("category", "model_checking"), "text": c["text"], "design_ref": c["design_ref"]},
                       "level_note": c["note"], "technique": c["technique"]})
    else:
        na.append({"property_id": p, "reason": src["not_applicable"].get(p, "engine not built yet (work in progress; planned per DESIGN.md section 5)")})
m = {"version": 1, "setup_cmd": src["setup_cmd"], "hooks": src["hooks"], "engines": src["engines"], "checks": checks,
     "notes": src["notes"], "not_applicable": na}
json.dump(m, open(os.path.join(ROOT, "MANIFEST.json"), "w"), indent=1)
print("checks:", [c["property_id"] for c in checks], "not_applicable:", [n["property_id"] for n in na])
