#!/bin/sh
# Offline setup: build the harness once (warms the Go build cache) and parse every TLA+ module.
set -e
cd "$(dirname "$0")/.."
export GOFLAGS=-mod=mod GOPROXY=off GOSUMDB=off GOTOOLCHAIN=local
mkdir -p out harness/bin evidence
cp /repo/go.sum harness/go.sum
for d in harness/cmd/*/; do
  n=$(basename "$d")
  (cd harness && go build -tags verif -o bin/"$n" ./cmd/"$n")
done
for f in spec/*.tla; do
  m=$(basename "$f" .tla)
  java -DTLA-Library=spec -cp /opt/veriftools/tla/tla2tools.jar:/opt/veriftools/tla/CommunityModules-deps.jar tla2sany.SANY "$f" > out/sany-$m.log 2>&1 || { echo "SANY failed for $m"; tail -20 out/sany-$m.log; exit 1; }
done
echo setup ok
