#!/usr/bin/env python3
"""seed_table.py: render seeded/MATRIX.json (+ MATRIX-seed<N>.json, FIXMATRIX.json) as the markdown tables of DESIGN.md
section 10.7 (between the markers <!-- SEED_TABLE_BEGIN --> and <!-- SEED_TABLE_END -->)."""
import glob, json, os, re
R = "/verif/seeded/"
mat = json.load(open(R + "MATRIX.json"))
others = {os.path.basename(f)[len("MATRIX-seed"):-5]: json.load(open(f)) for f in sorted(glob.glob(R + "MATRIX-seed*.json"))}
FIRST_MISSED = {
    "C02-m1": "generator: hideHyperthreads worlds + idle sharing; predicate OneThreadPerCore",
    "C02-m2": "generator: CPU classes per type; predicate Inv_CpuClass",
    "C03-m1": "generator: fill histories (machine kept at capacity)",
    "C03-m2": "predicates Inv_SharedHasNoIsolated / Inv_IsolatedOnlyByGrant (before: only C09 saw it)",
    "C04-m1": "generator: memory-pressure histories (before: only C06 saw it)",
    "C05-m1": "signature refinement (was reported as a known finding)",
    "C08-m2": "machine mixed-cache8 (CPUs disagree on the grouping cache level)",
    "C09-m2": "valid reconfigurations in C09 histories, stale-holder predicate",
    "C10-m1": "save after an interrupted save (crash2 records), file content model",
    "C10-m2": "second/third generation round trips (rt2 records)",
    "C12-m1": "cold start completion (ColdDone), narrower F-C12-2 signature",
    "C12-m2": "reference = configuration in force, pinning-switch reconfigurations at a higher rate",
    "C13-m2": "top-up to exactly 100 % with shares-exact Guaranteed requests",
    "C14-m1": "side-plugin event sequences (engines/sideplug.py)",
    "C14-m2": "affinity annotations under their real keys",
    "C04-m3": "generator: libmem pressure-realloc histories (overlapping zones, Realloc pushed beyond its request); C04 gained the libmem returned-zone component check",
    "C14-m3": "generator: requests with absent optional resource sub-messages (quota without period, no shares, no CPU block, no resources) - which first found F-C14-5 on the unchanged tree",
}


def cell(r):
    if not isinstance(r, dict):
        return "?"
    if r["rc"] == 1:
        k = r["kinds"][0] if r["kinds"] else "VIOLATION"
        return "**caught** `%s`%s" % (k, " (+%d)" % (len(r["kinds"]) - 1) if len(r["kinds"]) > 1 else "")
    if r["rc"] == 0:
        return "missed"
    return "inconclusive (exit %d)" % r["rc"]


rows = ["| change | touches | own property (quick, seed 1) | other checks | seeds 2.. | first missed: what was strengthened |", "|---|---|---|---|---|---|"]
for sid in sorted(mat):
    m = json.load(open(R + sid + "/meta.json")) if os.path.exists(R + sid + "/meta.json") else {}
    files = ", ".join(os.path.basename(f) for f in m.get("files", [])) or "-"
    own = sid[:3]
    res = mat[sid]
    oth = "; ".join("%s: %s" % (p, "caught" if isinstance(r, dict) and r["rc"] == 1 else "missed") for p, r in sorted(res.items()) if p != own and p.startswith("C"))
    sd = "; ".join("s%s: %s" % (s, {1: "caught", 0: "missed"}.get(o[sid][own]["rc"], "exit %s" % o[sid][own]["rc"])) for s, o in sorted(others.items()) if sid in o and own in o[sid])
    rows.append("| %s | %s | %s | %s | %s | %s |" % (sid, files, cell(res.get(own)), oth or "-", sd or "-", FIRST_MISSED.get(sid, "-")))
out = "\n".join(rows)
n = sum(1 for s in mat if isinstance(mat[s].get(s[:3]), dict) and mat[s][s[:3]]["rc"] == 1)
out += "\n\n%d of %d kept changes are caught by the quick check of the property they were written against.\n" % (n, len(mat))
if os.path.exists(R + "FIXMATRIX.json"):
    fm = json.load(open(R + "FIXMATRIX.json"))
    out += "\nRepairs taken out again (reverse patch of the fix commit as an overlay; `tools/fix_matrix.py`):\n\n| finding, commit | result |\n|---|---|\n"
    for k in sorted(fm):
        out += "| %s | %s |\n" % (k, "; ".join("%s: %s" % (p, cell(r)) for p, r in sorted(fm[k].items()) if p.startswith("C")) or fm[k].get("_error", "?"))
p = "/verif/DESIGN.md"
s = open(p).read()
if "SEED_TABLE_PLACEHOLDER" in s:
    s = s.replace("SEED_TABLE_PLACEHOLDER", "<!-- SEED_TABLE_BEGIN -->\n" + out + "\n<!-- SEED_TABLE_END -->")
else:
    s = re.sub(r"<!-- SEED_TABLE_BEGIN -->.*<!-- SEED_TABLE_END -->", lambda m: "<!-- SEED_TABLE_BEGIN -->\n" + out + "\n<!-- SEED_TABLE_END -->", s, flags=re.S)
open(p, "w").write(s)
print(out[:3000])
