#!/bin/bash
# seedsweep.sh "<props>" "<seeds>" [tier]: every property runs its seeds one after the other (they share an out dir);
# up to 3 properties run side by side.  One summary line per run on stdout.
cd /verif
props="$1"; seeds="$2"; tier="${3:-quick}"
mkdir -p out/sweep
one() { p=$1; for s in $seeds; do VERIF_SEED=$s ./check $p --tier $tier > out/sweep/$p-$s.log 2>&1; echo "$p seed=$s rc=$? $(grep -c KNOWN out/sweep/$p-$s.log) known; $(grep -E 'VIOLATION|INCONCLUSIVE' out/sweep/$p-$s.log | head -1 | cut -c1-160)"; done; }
n=0
for p in $props; do one $p & n=$((n+1)); if [ $((n % 3)) -eq 0 ]; then wait; fi; done; wait
