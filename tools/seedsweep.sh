#!/bin/bash
# seedsweep.sh "<props>" "<seeds>" [tier]: run checks for several seeds, 3 at a time; summary on stdout
cd /verif
props="$1"; seeds="$2"; tier="${3:-quick}"
mkdir -p out/sweep
run() { p=$1; s=$2; VERIF_SEED=$s ./check $p --tier $tier > out/sweep/$p-$s.log 2>&1; echo "$p seed=$s rc=$? $(grep -c KNOWN out/sweep/$p-$s.log) known; $(grep -E 'VIOLATION|INCONCLUSIVE' out/sweep/$p-$s.log | head -1 | cut -c1-160)"; }
n=0
for s in $seeds; do for p in $props; do
  # one property at a time per out dir: different props in parallel only
  run $p $s &
  n=$((n+1)); if [ $((n % 3)) -eq 0 ]; then wait; fi
done; wait; done
