#!/usr/bin/env python3
"""seed_matrix.py [--jobs N] [ids...]: run the quick check of the property each kept seeded change (/verif/seeded/<id>/)
was written against (plus the extra properties named in EXTRA) with the change applied as a build overlay in a scratch
worktree (tools/try_seed.py; /repo is never touched) and write /verif/seeded/MATRIX.json: id -> {property: {rc, kinds}}."""
import concurrent.futures as cf, glob, json, os, re, subprocess, sys
args = [a for a in sys.argv[1:] if not a.startswith("--")]
jobs = int(sys.argv[sys.argv.index("--jobs") + 1]) if "--jobs" in sys.argv else 3
if "--jobs" in sys.argv: args = [a for a in args if a != str(jobs)]
seed = sys.argv[sys.argv.index("--seed") + 1] if "--seed" in sys.argv else "1"
if "--seed" in sys.argv: args = [a for a in args if a != seed]
EXTRA = {"C01-m1": ["C09"], "C03-m2": ["C09", "C01"], "C04-m1": ["C06"], "C05-m1": ["C13"], "C07-m1": ["C06"], "C09-m1": ["C03"],
         "C11-m2": ["C05"], "C14-m2": ["C19"], "C19-m2": ["C02"], "C04-m3": ["C07"], "C14-m3": ["C20"]}
ids = args or sorted(os.path.basename(d) for d in glob.glob("/verif/seeded/C*") if os.path.isdir(d))
outp = "/verif/seeded/MATRIX.json" if seed == "1" else "/verif/seeded/MATRIX-seed%s.json" % seed
mat = json.load(open(outp)) if os.path.exists(outp) else {}


def one(sid):
    props = [sid[:3]] + EXTRA.get(sid, [])
    p = subprocess.run(["python3", "/verif/tools/try_seed.py", "/verif/seeded/" + sid] + props, stdout=subprocess.PIPE, stderr=subprocess.STDOUT,
                       timeout=7200, env=dict(os.environ, VERIF_SEED=seed))
    res = {}
    for l in p.stdout.decode().splitlines():
        m = re.match(r"(\S+) (C\d\d) rc=(-?\d+)\s+(VIOLATION)?\s*(\[.*?\]) (\[.*\])$", l)
        if m:
            res[m.group(2)] = {"rc": int(m.group(3)), "kinds": eval(m.group(5)), "note": eval(m.group(6))}
        elif "PATCH DOES NOT APPLY" in l:
            res["_error"] = l[:300]
    return sid, res


with cf.ThreadPoolExecutor(max_workers=jobs) as ex:
    for sid, res in ex.map(one, ids):
        mat[sid] = res
        json.dump(mat, open(outp, "w"), indent=1, sort_keys=True)
        print(sid, {k: (v["rc"] if isinstance(v, dict) else v) for k, v in res.items()}, flush=True)
