#!/usr/bin/env python3
"""showhist.py trace.ndjson h [upto_k]: print the events of one history compactly"""
import json, sys
tp, h = sys.argv[1], int(sys.argv[2]); upto = int(sys.argv[3]) if len(sys.argv) > 3 else 10**9
for l in open(tp):
    e = json.loads(l)
    if e.get("h") != h: continue
    if e["ev"] == "reset":
        print("WORLD", e["world"]["name"], json.dumps(e["world"]["config"]));
        for p in e["st"]["pol"].get("pools", []): print("   pool", p["name"], "parent", p["parent"], "shar", p["shar"], "rsv", p["rsv"], "isol", p["isol"])
        continue
    if e.get("k", 0) > upto: break
    st = e.get("st") or {}
    d = {k: e[k] for k in ("k", "ev", "pod", "c", "err", "tag") if k in e}
    if e.get("msg"): d["msg"] = e["msg"][:160]
    if e.get("ctrspec"): d["spec"] = e["ctrspec"]
    if e.get("pods"): d["pods"] = e["pods"]
    if e.get("adj"): d["adj"] = e["adj"]
    if e.get("upd"): d["upd"] = e["upd"]
    if e.get("pushed"): d["pushed"] = e["pushed"]
    if e.get("rtctrs"): d["rtctrs"] = e["rtctrs"]
    print(json.dumps(d))
    if st:
        print("     ctr:", {c: (v["st"], v["cpus"], v["mems"], v["shares"], "P" if v["pending"] else "") for c, v in st["ctr"].items()}, "pend", st["pend"])
        pol = st["pol"]
        if "grants" in pol: print("     grants:", [(g["c"], g["pool"], g["excl"], g["ctype"], g["portion"]) for g in pol["grants"]], " fshar:", {p["name"]: p["fshar"] for p in pol["pools"]})
        if "balloons" in pol: print("     balloons:", [(b["name"], b["cpus"], b["shared"], b["ctrs"]) for b in pol["balloons"]], "free", pol["free"])
