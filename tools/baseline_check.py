#!/usr/bin/env python3
"""Run the pinned baseline suite of /repo with the verif tag OFF and compare with BASELINE.json
(every stable_pass test must pass).  Usage: baseline_check.py [pkg-pattern ...]"""
import json, os, subprocess, sys
b = json.load(open("/root/.vp/BASELINE.json"))
stable = set(b["stable_pass"])
env = dict(os.environ, GOFLAGS="-mod=mod", GOPROXY="off", GOSUMDB="off", GOTOOLCHAIN="local")
res = {}
pk = sys.argv[1:] or ["./..."]
for mod in [".", "./pkg/topology"]:
    if mod != "." and sys.argv[1:]:
        continue
    p = subprocess.run(["go", "test", "-json", "-vet=off", "-count=1", "-timeout", "25m"] + pk,
                       cwd=os.path.join("/repo", mod), env=env, stdout=subprocess.PIPE, stderr=subprocess.DEVNULL)
    for l in p.stdout.decode("utf-8", "replace").splitlines():
        try:
            e = json.loads(l)
        except ValueError:
            continue
        if e.get("Test") and e.get("Action") in ("pass", "fail", "skip"):
            res[e["Package"] + "::" + e["Test"]] = e["Action"]
bad = sorted(t for t in stable if res.get(t) not in ("pass",) and (not sys.argv[1:] or t in res))
missing = sorted(t for t in stable if t not in res) if not sys.argv[1:] else []
print("ran %d tests, stable_pass %d, not passing: %d, missing: %d" % (len(res), len(stable), len(bad), len(missing)))
for t in bad[:40]:
    print("  NOT PASSING:", t, res.get(t))
sys.exit(1 if bad else 0)
