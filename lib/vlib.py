"""Driver library: process runner, Go harness build, TLC runner, known-findings matcher,
evidence writer.  Everything is offline; scratch data lives under /verif/out (git-ignored)."""
import fcntl
import json
import os
import re
import shutil
import subprocess
import sys
import time

ROOT = os.path.dirname(os.path.dirname(os.path.abspath(__file__)))
REPO = os.environ.get("VERIF_REPO", "/repo")
SPEC = os.path.join(ROOT, "spec")
OUT = os.path.join(ROOT, "out")
HARNESS = os.path.join(ROOT, "harness")
TLA_CP = "/opt/veriftools/tla/tla2tools.jar:/opt/veriftools/tla/CommunityModules-deps.jar"
NCPU = os.cpu_count() or 4

EXIT_OK, EXIT_VIOLATION, EXIT_INCONCLUSIVE = 0, 1, 2


class Inconclusive(Exception):
    """Raised when a check cannot reach a verdict (build break, dead driver, timeout)."""


def log(*a):
    print("[verif]", *a, file=sys.stderr, flush=True)


def go_env(extra=None):
    env = dict(os.environ)
    env.update({"GOFLAGS": "-mod=mod", "GOPROXY": "off", "GOSUMDB": "off", "GOTOOLCHAIN": "local",
                "CGO_ENABLED": env.get("CGO_ENABLED", "1")})
    if extra:
        env.update(extra)
    return env


def sh(cmd, timeout=600, env=None, cwd=None, check=False, stdin=None):
    """Run a command, return (rc, stdout+stderr).  rc=124 on timeout."""
    t0 = time.time()
    try:
        p = subprocess.run(cmd, shell=isinstance(cmd, str), cwd=cwd, env=env, timeout=timeout,
                           stdout=subprocess.PIPE, stderr=subprocess.STDOUT, input=stdin)
        rc, out = p.returncode, p.stdout.decode("utf-8", "replace")
    except subprocess.TimeoutExpired as e:
        rc, out = 124, (e.stdout or b"").decode("utf-8", "replace") + "\n[timeout]"
    if check and rc != 0:
        raise Inconclusive("command failed rc=%d (%.1fs): %s\n%s" % (rc, time.time() - t0, cmd, out[-4000:]))
    return rc, out


class Ctx:
    def __init__(self, pid, tier, seed, replay=None):
        self.pid, self.tier, self.seed, self.replay = pid, tier, seed, replay
        self.t0 = time.time()
        # VERIF_OUT_SUFFIX lets several runs of the same check (self-tests with overlays) work side by side
        self.out = os.path.join(OUT, "%s-%s%s" % (pid, tier, os.environ.get("VERIF_OUT_SUFFIX", "")))
        shutil.rmtree(self.out, ignore_errors=True)
        os.makedirs(self.out, exist_ok=True)
        self.replay_dir = os.path.join(OUT, "replay")
        os.makedirs(self.replay_dir, exist_ok=True)

    def path(self, *a):
        p = os.path.join(self.out, *a)
        os.makedirs(os.path.dirname(p), exist_ok=True)
        return p

    @property
    def quick(self):
        return self.tier == "quick"


# --------------------------------------------------------------------------- harness build

def sync_gomod():
    """go.mod of the harness mirrors /repo's replace lines; go.sum is copied from /repo."""
    src = os.path.join(REPO, "go.sum")
    dst = os.path.join(HARNESS, "go.sum")
    try:
        if not os.path.exists(dst) or open(src, "rb").read() != open(dst, "rb").read():
            shutil.copyfile(src, dst)
    except OSError as e:
        raise Inconclusive("cannot copy go.sum: %s" % e)


def build_harness(race=False, tags="verif", cmd="nrpverif"):
    """Build /verif/harness/bin/<cmd>[-race] (package ./cmd/<cmd>) from /repo's *current working tree*.
    Each engine may have its own command directory so that engines do not break each other's build."""
    os.makedirs(os.path.join(HARNESS, "bin"), exist_ok=True)
    # self-test runs (VERIF_OUT_SUFFIX) get their own binary: they may be built with a different overlay
    name = cmd + ("-race" if race else "") + os.environ.get("VERIF_OUT_SUFFIX", "")
    binp = os.path.join(HARNESS, "bin", name)
    lock = open(os.path.join(HARNESS, "bin", ".lock-" + name), "w")
    fcntl.flock(lock, fcntl.LOCK_EX)
    try:
        sync_gomod()
        gocmd = ["go", "build", "-tags", tags] + (["-race"] if race else []) + overlay_args() + ["-o", binp, "./cmd/" + cmd]
        rc, out = sh(gocmd, timeout=1200, env=go_env(), cwd=HARNESS)
        if rc != 0:
            raise Inconclusive("harness build failed:\n" + out[-6000:])
    finally:
        fcntl.flock(lock, fcntl.LOCK_UN)
        lock.close()
    return binp


def overlay_args():
    """Self-test support: VERIF_OVERLAY=<overlay.json> builds with `go build -overlay` so that a mutated copy of a
    repository source file can be checked without touching /repo (see ENGINE_GUIDE.md).  Never set in MANIFEST commands."""
    ov = os.environ.get("VERIF_OVERLAY")
    return ["-overlay", ov] if ov else []


def go_test_pkg(pkg_rel, run, env_extra=None, timeout=900, tags="verif", race=False):
    """Run an in-package verif test living in /repo (files tagged `verif`) -- used for package-main plugins and
    unexported internals.  Returns (rc, output)."""
    cmd = ["go", "test", "-tags", tags, "-count=1", "-vet=off"] + (["-race"] if race else []) + overlay_args() + \
          ["-run", run, "./" + pkg_rel]
    return sh(cmd, timeout=timeout, env=go_env(env_extra), cwd=REPO)


# --------------------------------------------------------------------------- TLC

_RE_STATES = re.compile(r"(\d+) states generated, (\d+) distinct states found, (\d+) states left on queue")
_RE_DEPTH = re.compile(r"The depth of the complete state graph search is (\d+)")
_RE_INV = re.compile(r"Invariant (\S+) is violated")
_RE_PROP = re.compile(r"(?:Action property|Temporal properties|property) (\S+)? ?(?:is|were) violated")


MIN_TLC_TIMEOUT = int(os.environ.get("VERIF_MIN_TLC_TIMEOUT", "900"))


def tlc(module, cfg, metadir, workers=None, timeout=900, env=None, simulate=None, depth=None,
        seed=None, extra=None, deadlock=False, coverage=False, heap=None, dfs=False):
    """Run TLC on /verif/spec/<module>.tla with /verif/spec/<cfg>.  Returns a dict."""
    # a timeout is an inconclusive run (exit 2), never a verdict: be generous, the box may be loaded
    timeout = max(timeout, MIN_TLC_TIMEOUT)
    os.makedirs(metadir, exist_ok=True)
    jopts = ["-XX:+UseParallelGC", "-Xss64m", "-DTLA-Library=" + SPEC]
    jopts.append("-Xmx" + (heap or os.environ.get("VERIF_TLC_HEAP", "6g")))
    if dfs:
        jopts.append("-Dtlc2.tool.queue.IStateQueue=StateDeque")
    cmd = ["java"] + jopts + ["-cp", TLA_CP, "tlc2.TLC", "-noGenerateSpecTE", "-metadir", metadir,
                              "-config", os.path.join(SPEC, cfg)]
    cmd += ["-workers", str(workers or "auto")]
    if not deadlock:
        cmd.append("-deadlock")   # -deadlock DISABLES deadlock checking
    if simulate:
        cmd += ["-simulate", simulate]
    if depth:
        cmd += ["-depth", str(depth)]
    if seed is not None:
        cmd += ["-seed", str(seed)]
    if coverage:
        cmd += ["-coverage", "1"]
    if extra:
        cmd += extra
    cmd.append(os.path.join(SPEC, module + ".tla"))
    e = dict(os.environ)
    e.pop("JAVA_TOOL_OPTIONS", None)
    if env:
        e.update({k: str(v) for k, v in env.items()})
    t0 = time.time()
    rc, out = sh(cmd, timeout=timeout, env=e, cwd=metadir)
    res = {"rc": rc, "out": out, "wall_s": round(time.time() - t0, 2), "generated": 0, "distinct": 0,
           "queue": 0, "depth": 0, "violated": None, "ok": False, "timeout": rc == 124}
    for m in _RE_STATES.finditer(out):
        res["generated"], res["distinct"], res["queue"] = int(m.group(1)), int(m.group(2)), int(m.group(3))
    m = _RE_DEPTH.search(out)
    if m:
        res["depth"] = int(m.group(1))
    m = _RE_INV.search(out)
    if m:
        res["violated"] = m.group(1)
    elif "is violated" in out or "was violated" in out:
        m = re.search(r"(\S+) (?:is|was) violated", out)
        res["violated"] = m.group(1) if m else "?"
    res["ok"] = (rc == 0 and "Model checking completed. No error has been found." in out) or \
                (simulate is not None and rc == 0 and res["violated"] is None and "Error:" not in out)
    res["error"] = None
    if not res["ok"] and res["violated"] is None:
        m = re.search(r"Error: (.*)", out)
        res["error"] = m.group(1) if m else ("rc=%d" % rc)
    if coverage:
        res["coverage"] = parse_coverage(out)
    shutil.rmtree(os.path.join(metadir, "states"), ignore_errors=True)
    return res


def parse_coverage(out):
    """Per-action counts from `-coverage 1`: lines like `<Allocate line 12, col 1 ... of module M>: 12:345`."""
    cov = {}
    for m in re.finditer(r"^<(\w+) line \d+, col \d+ to line \d+, col \d+ of module (\w+)>: (\d+):(\d+)", out, re.M):
        cov[m.group(1)] = {"distinct": int(m.group(3)), "taken": int(m.group(4))}
    return cov


def tlc_prints(out, tag):
    """Extract JSON payloads printed by the spec as  PrintT("<tag> " \\o ToJson(x)).
    TLC prints a string value quoted with escapes, i.e. a JSON string literal."""
    res = []
    for line in out.splitlines():
        line = line.strip()
        if not line.startswith('"' + tag + " "):
            continue
        try:
            s = json.loads(line)
        except ValueError:
            # TLC escapes only \" and \\ ; fall back to manual unescape
            s = line[1:-1].replace('\\"', '"').replace("\\\\", "\\")
        payload = s[len(tag) + 1:]
        try:
            res.append(json.loads(payload))
        except ValueError:
            res.append({"raw": payload})
    return res


def sany(module):
    cmd = ["java", "-DTLA-Library=" + SPEC, "-cp", TLA_CP, "tla2sany.SANY", os.path.join(SPEC, module + ".tla")]
    rc, out = sh(cmd, timeout=120, cwd=SPEC)
    return rc == 0 and "Semantic errors" not in out and "***Parse Error***" not in out, out


# --------------------------------------------------------------------------- traces

def read_ndjson(path):
    with open(path) as f:
        return [json.loads(l) for l in f if l.strip()]


def write_ndjson(path, recs):
    with open(path, "w") as f:
        for r in recs:
            f.write(json.dumps(r, separators=(",", ":"), sort_keys=True) + "\n")


def validate_trace(module, cfg, trace_path, metadir, timeout=900, env=None, heap=None):
    """Run a Trace_* spec (single worker, high-water-mark postcondition) on one ndjson file.

    Contract with the trace specs:
      * the file name is read from env TRACE_FILE, violations are written (ndjson) to env VIOL_FILE
        by the spec's POSTCONDITION (register 2 accumulates them), the number of consumed lines is
        printed as  "CONSUMED n".
    Returns dict(consumed, total, viols[list], res)."""
    timeout = max(timeout, MIN_TLC_TIMEOUT)
    viol_path = os.path.join(metadir, "viols.ndjson")
    os.makedirs(metadir, exist_ok=True)
    if os.path.exists(viol_path):
        os.remove(viol_path)
    e = {"TRACE_FILE": trace_path, "VIOL_FILE": viol_path}
    if env:
        e.update(env)
    total = sum(1 for l in open(trace_path) if l.strip())
    res = tlc(module, cfg, metadir, workers=1, timeout=timeout, env=e, heap=heap)
    consumed = None
    m = re.search(r'"?CONSUMED (\d+)"?', res["out"])
    if m:
        consumed = int(m.group(1))
    viols = read_ndjson(viol_path) if os.path.exists(viol_path) else []
    return {"consumed": consumed, "total": total, "viols": viols, "res": res}


# --------------------------------------------------------------------------- known findings

def load_known_findings():
    p = os.path.join(ROOT, "known-findings.jsonl")
    kfs = []
    if os.path.exists(p):
        for l in open(p):
            l = l.strip()
            if l and not l.startswith("#") and not l.startswith("fixed:"):
                kfs.append(json.loads(l))
    return kfs


def match_kf(kfs, pid, viol):
    """A violation instance matches an *open* finding when property, predicate and signature agree.
    `fixed` entries suppress nothing."""
    for kf in kfs:
        if kf.get("status") != "open" or kf.get("property") != pid:
            continue
        mt = kf.get("match", {})
        if all(viol.get(k) == v for k, v in mt.items()):
            return kf
    return None


# --------------------------------------------------------------------------- verdict + evidence

def write_evidence(ctx, level, coverage, assumptions, violations):
    if os.environ.get("VERIF_OUT_SUFFIX"):
        return          # self-test runs do not touch the evidence files
    ev = {"property_id": ctx.pid, "tier": ctx.tier, "seed": int(ctx.seed), "level": level,
          "coverage": coverage, "assumptions": assumptions, "wall_s": round(time.time() - ctx.t0, 2),
          "violations": violations}
    os.makedirs(os.path.join(ROOT, "evidence"), exist_ok=True)
    with open(os.path.join(ROOT, "evidence", ctx.pid + ".json"), "w") as f:
        json.dump(ev, f, indent=1, sort_keys=True, default=str)
        f.write("\n")


def verdict(ctx, viols, level, coverage, assumptions, replay_payload=None):
    """viols: list of dicts with at least pred, sig.  Prints KNOWN-FINDING / VIOLATION lines, writes
    evidence, returns the exit code."""
    kfs = load_known_findings()
    known, fresh = {}, []
    for v in viols:
        kf = match_kf(kfs, ctx.pid, v)
        if kf:
            known.setdefault(kf["id"], [kf, 0])[1] += 1
        else:
            fresh.append(v)
    for kid, (kf, n) in sorted(known.items()):
        print("KNOWN-FINDING: property=%s %s (%s; %d instance(s) this run)" % (ctx.pid, kid, kf.get("what", ""), n))
    coverage = dict(coverage)
    coverage["known_findings_matched"] = {k: n for k, (kf, n) in known.items()}
    rc = EXIT_OK
    if fresh:
        rp = os.path.join(ctx.replay_dir, "%s-%s-%d.json" % (ctx.pid, ctx.tier, int(ctx.seed)))
        with open(rp, "w") as f:
            json.dump({"property": ctx.pid, "tier": ctx.tier, "seed": ctx.seed, "violations": fresh[:50],
                       "replay": replay_payload}, f, indent=1, default=str)
        seen = set()
        for v in fresh:
            key = (v.get("pred"), v.get("sig"))
            if key in seen:
                continue
            seen.add(key)
            log("violation: %s" % json.dumps(v, default=str)[:600])
        print("VIOLATION property=%s replay=%s" % (ctx.pid, rp))
        coverage["violation_kinds"] = sorted({"%s/%s" % (v.get("pred"), v.get("sig")) for v in fresh})
        rc = EXIT_VIOLATION
    write_evidence(ctx, level, coverage, assumptions, len(fresh))
    return rc


def distinct_count(items):
    return len({json.dumps(i, sort_keys=True, default=str) for i in items})
