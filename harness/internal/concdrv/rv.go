package concdrv

// The pod-resource rendezvous (cache/pod.go: goFetchPodResources / GetPodResources) on a real cache:
// InsertPod(pod, ch) starts the asynchronous fetch; a GetPodResources() that starts after InsertPod returned must
// return what the fetch delivers (the value, or nil when the channel is closed without one).

import (
	"fmt"
	"math/rand"
	"os"
	"path/filepath"
	"runtime"
	"time"

	"github.com/containerd/nri/pkg/api"
	kubeletapi "k8s.io/kubelet/pkg/apis/podresources/v1"

	"github.com/containers/nri-plugins/pkg/agent/podresapi"
	"github.com/containers/nri-plugins/pkg/resmgr/cache"

	"verifharness/internal/tr"
)

type rvRead struct {
	Who  string `json:"who"`  // same | other
	Got  bool   `json:"got"`  // returned the delivered value
	Nil  bool   `json:"nil"`  // returned nil
	Hang bool   `json:"hang"` // did not return
}

func rendezvous(w *tr.Writer, rounds int, seed int64, scratch string) error {
	dir := filepath.Join(scratch, "rv")
	if err := os.MkdirAll(dir, 0o700); err != nil {
		return err
	}
	defer os.RemoveAll(dir)
	cch, err := cache.NewCache(cache.Options{CacheDir: dir})
	if err != nil {
		return err
	}
	rnd := rand.New(rand.NewSource(seed))
	modes := []string{"before", "later", "closed-empty", "nil-channel"}
	for i := 0; i < rounds; i++ {
		gmp := []int{1, 0, 2}[i%3]
		if gmp == 0 {
			gmp = runtime.NumCPU()
		}
		prev := runtime.GOMAXPROCS(gmp)
		mode := modes[(i/3)%len(modes)]
		id := fmt.Sprintf("rvpod%d", i)
		pod := &api.PodSandbox{Id: id, Name: id, Uid: "uid-" + id, Namespace: "default",
			Linux: &api.LinuxPodSandbox{CgroupParent: "/kubepods.slice/kubepods-pod" + id + ".slice"}}
		val := &podresapi.PodResources{PodResources: &kubeletapi.PodResources{Name: id, Namespace: "default"}}
		var ch chan *podresapi.PodResources
		expect := false
		delay := time.Duration(rnd.Intn(400)) * time.Microsecond
		spins := rnd.Intn(3)
		switch mode {
		case "before": // the fetch has completed before InsertPod is called
			ch = make(chan *podresapi.PodResources, 1)
			ch <- val
			close(ch)
			expect = true
		case "later": // delivered some time after InsertPod
			ch = make(chan *podresapi.PodResources, 1)
			expect = true
			go func() {
				for n := spins; n > 0; n-- {
					runtime.Gosched()
				}
				time.Sleep(delay)
				ch <- val
				close(ch)
			}()
		case "closed-empty": // the agent gave up (timeout / error): the channel is closed without a value
			ch = make(chan *podresapi.PodResources, 1)
			go func() {
				time.Sleep(delay)
				close(ch)
			}()
		case "nil-channel": // no pod resources client: no fetch at all
			ch = nil
		}
		var rc <-chan *podresapi.PodResources
		if ch != nil {
			rc = ch
		}
		p := cch.InsertPod(pod, rc)
		// InsertPod has returned: every read from here on is "later"
		reads := []rvRead{}
		read := func(who string) rvRead {
			res := make(chan *podresapi.PodResources, 1)
			go func() { res <- p.GetPodResources() }()
			select {
			case v := <-res:
				return rvRead{Who: who, Got: v == val, Nil: v == nil}
			case <-time.After(5 * time.Second):
				return rvRead{Who: who, Hang: true}
			}
		}
		other := make(chan rvRead, 1)
		go func() { other <- read("other") }()
		// the reader on the inserting goroutine itself (a hang here ends the process with a hang record)
		done := make(chan struct{})
		go func() {
			select {
			case <-done:
			case <-time.After(5 * time.Second):
				w.Emit(tr.M{"ev": "rv", "i": i, "mode": mode, "gmp": gmp, "expect": expect, "race": RaceBuild,
					"reads": []rvRead{{Who: "same", Hang: true}}})
				w.Flush()
				os.Exit(0)
			}
		}()
		x := p.GetPodResources()
		close(done)
		reads = append(reads, rvRead{Who: "same", Got: x == val, Nil: x == nil})
		reads = append(reads, <-other)
		// a second insertion saves the cache (json.Marshal of every pod) -- what any later locked handler does
		cch.DeletePod(id)
		w.Emit(tr.M{"ev": "rv", "i": i, "mode": mode, "gmp": gmp, "expect": expect, "reads": reads, "race": RaceBuild})
		runtime.GOMAXPROCS(prev)
	}
	w.Flush()
	fmt.Printf("concdrv: %d rendezvous rounds, race=%v\n", rounds, RaceBuild)
	return nil
}
