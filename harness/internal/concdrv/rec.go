package concdrv

// Recording without synchronisation.
//
// The recorder must not order the goroutines it observes: every mutex or atomic shared between two request goroutines
// would add a happens-before edge and hide races from the race detector (and perturb the schedule).  So:
//   * every request goroutine owns a slot; the slot table is written before the round's start barrier and is read-only
//     during the round; a goroutine finds its slot by its goroutine id (runtime.Stack, no synchronisation);
//   * events are appended to the slot's private buffer by the owning goroutine only (the lock tracer and the cache /
//     policy decorators run on the goroutine that issued the request);
//   * the only shared word is `mirror`, an atomic copy of the lock sequence number, written by the tracer under the
//     resource manager's lock.  It is read outside the lock only in the build WITHOUT the race detector (to decide
//     whether an unlocked access overlapped a critical section); the race build never reads it outside the lock.

import (
	"os"
	"runtime"
	"sync/atomic"

	"github.com/containerd/nri/pkg/api"

	"github.com/containers/nri-plugins/pkg/agent/podresapi"
	"github.com/containers/nri-plugins/pkg/resmgr/cache"
	"github.com/containers/nri-plugins/pkg/resmgr/events"
	"github.com/containers/nri-plugins/pkg/resmgr/policy"

	"verifharness/internal/l2"
	"verifharness/internal/tr"
)

// Event is one recorded event of a request (program order within the request).
type Event struct {
	E   string `json:"e"`             // start | acc | lock | unlock | end
	M   string `json:"m,omitempty"`   // acc: cache.<Method> | policy.<Method>
	Seq uint64 `json:"seq,omitempty"` // lock/unlock: sequence number written under the lock
	B   int64  `json:"b"`             // mirror value before (start, acc, end); -1 = not read (race build)
	A   int64  `json:"a"`             // mirror value after (acc)
	H   bool   `json:"h"`             // acc: the request held the lock
}

// Req is one request of a round.
type Req struct {
	Q       int      // index within the round
	G       int      // goroutine slot
	K       int      // index within the goroutine's program
	Op      l2.Op    // what was asked
	Kind    string   // handler name
	Events  []Event  // program order
	Reply   l2.Reply // what came back
	Ended   bool     // the handler returned
	Skipped bool     // not issued: the container's creation was refused (consistent runtime)
	Pushed  [][]*api.ContainerUpdate
	St      tr.M   // state projected under the lock right before the request released it (nil: no lock or panic)
	StErr   string // panic of the projection
	prep    *l2.Prepared
}

type slot struct {
	goid    uint64
	cur     *Req
	held    int          // lock depth of the current request (0 or 1; Go's RWMutex is not re-entrant)
	quiet   bool         // the harness itself is reading (state projection): do not record
	started atomic.Int64 // unix nanoseconds when the current request started, 0 = idle (watchdog only)
	_       [64]byte
}

const maxSlots = 16

var (
	slots    [maxSlots]slot
	nslots   int
	mirror   atomic.Int64
	curWorld *l2.World // the world of the running round (read-only during the round)
)

func goid() uint64 {
	var buf [40]byte
	n := runtime.Stack(buf[:], false)
	// "goroutine 123 [running]:"
	var id uint64
	for i := len("goroutine "); i < n; i++ {
		c := buf[i]
		if c < '0' || c > '9' {
			break
		}
		id = id*10 + uint64(c-'0')
	}
	return id
}

func mySlot() *slot {
	id := goid()
	for i := 0; i < nslots; i++ {
		if slots[i].goid == id {
			return &slots[i]
		}
	}
	return nil
}

func readMirror() int64 {
	if RaceBuild {
		return -1
	}
	return mirror.Load()
}

// tracer is called by the shadowing Lock()/Unlock() of the resource manager with the lock held.
func tracer(ev string, seq uint64) {
	mirror.Store(int64(seq))
	s := mySlot()
	if s == nil || s.cur == nil {
		return
	}
	r := s.cur
	r.Events = append(r.Events, Event{E: ev, Seq: seq, B: -1, A: -1})
	if ev == "lock" {
		s.held++
		return
	}
	// about to release: project the state and collect what was pushed to the runtime in this critical section
	if s.held == 1 && curWorld != nil {
		s.quiet = true
		r.St, r.StErr = curWorld.SafeState()
		r.Pushed = append(r.Pushed, curWorld.H.TakePushed()...)
		s.quiet = false
	}
	s.held--
}

func access(m string) func() {
	s := mySlot()
	if s == nil || s.cur == nil || s.quiet {
		return func() {}
	}
	r, held, b := s.cur, s.held > 0, readMirror()
	i := len(r.Events)
	r.Events = append(r.Events, Event{E: "acc", M: m, H: held, B: b, A: b})
	return func() { r.Events[i].A = readMirror() }
}

// ---------------------------------------------------------------------------------------------
// decorators: only the methods the request handlers call directly are recorded; everything else passes through

type recCache struct{ cache.Cache }

func (c recCache) InsertPod(p *api.PodSandbox, ch <-chan *podresapi.PodResources) cache.Pod {
	defer access("cache.InsertPod")()
	return c.Cache.InsertPod(p, ch)
}
func (c recCache) DeletePod(id string) cache.Pod {
	defer access("cache.DeletePod")()
	return c.Cache.DeletePod(id)
}
func (c recCache) LookupPod(id string) (cache.Pod, bool) {
	defer access("cache.LookupPod")()
	return c.Cache.LookupPod(id)
}
func (c recCache) InsertContainer(ctr *api.Container, o ...cache.InsertContainerOption) (cache.Container, error) {
	defer access("cache.InsertContainer")()
	return c.Cache.InsertContainer(ctr, o...)
}
func (c recCache) DeleteContainer(id string) cache.Container {
	defer access("cache.DeleteContainer")()
	return c.Cache.DeleteContainer(id)
}
func (c recCache) LookupContainer(id string) (cache.Container, bool) {
	defer access("cache.LookupContainer")()
	return c.Cache.LookupContainer(id)
}
func (c recCache) GetPendingContainers() []cache.Container {
	defer access("cache.GetPendingContainers")()
	return c.Cache.GetPendingContainers()
}
func (c recCache) GetContainers() []cache.Container {
	defer access("cache.GetContainers")()
	return c.Cache.GetContainers()
}
func (c recCache) GetPods() []cache.Pod {
	defer access("cache.GetPods")()
	return c.Cache.GetPods()
}
func (c recCache) RefreshPods(p []*api.PodSandbox, ch <-chan *podresapi.PodResourcesList) ([]cache.Pod, []cache.Pod, []cache.Container) {
	defer access("cache.RefreshPods")()
	return c.Cache.RefreshPods(p, ch)
}
func (c recCache) RefreshContainers(cs []*api.Container) ([]cache.Container, []cache.Container) {
	defer access("cache.RefreshContainers")()
	return c.Cache.RefreshContainers(cs)
}
func (c recCache) ConfigureRDTControl(b bool) {
	defer access("cache.ConfigureRDTControl")()
	c.Cache.ConfigureRDTControl(b)
}
func (c recCache) ConfigureBlockIOControl(b bool) {
	defer access("cache.ConfigureBlockIOControl")()
	c.Cache.ConfigureBlockIOControl(b)
}
func (c recCache) ContainerDirectory(id string) string {
	defer access("cache.ContainerDirectory")()
	return c.Cache.ContainerDirectory(id)
}
func (c recCache) Save() error {
	defer access("cache.Save")()
	return c.Cache.Save()
}

type recPolicy struct{ policy.Policy }

func (p recPolicy) Reconfigure(c interface{}) error {
	defer access("policy.Reconfigure")()
	return p.Policy.Reconfigure(c)
}
func (p recPolicy) Sync(a, d []cache.Container) error {
	defer access("policy.Sync")()
	return p.Policy.Sync(a, d)
}
func (p recPolicy) AllocateResources(c cache.Container) error {
	defer access("policy.AllocateResources")()
	return p.Policy.AllocateResources(c)
}
func (p recPolicy) ReleaseResources(c cache.Container) error {
	defer access("policy.ReleaseResources")()
	return p.Policy.ReleaseResources(c)
}
func (p recPolicy) UpdateResources(c cache.Container) error {
	defer access("policy.UpdateResources")()
	return p.Policy.UpdateResources(c)
}
func (p recPolicy) HandleEvent(e *events.Policy) (bool, error) {
	defer access("policy.HandleEvent")()
	return p.Policy.HandleEvent(e)
}
func (p recPolicy) ExportResourceData(c cache.Container) {
	defer access("policy.ExportResourceData")()
	p.Policy.ExportResourceData(c)
}
func (p recPolicy) GetTopologyZones() []*policy.TopologyZone {
	defer access("policy.GetTopologyZones")()
	return p.Policy.GetTopologyZones()
}

func instrument(w *l2.World) {
	if os.Getenv("VERIF_C15_NODECOR") != "" {
		return
	}
	w.H.VerifWrapCache(func(c cache.Cache) cache.Cache { return recCache{c} })
	w.H.VerifWrapPolicy(func(p policy.Policy) policy.Policy { return recPolicy{p} })
}
