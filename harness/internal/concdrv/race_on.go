//go:build race

package concdrv

// RaceBuild tells whether the binary was built with the race detector.
const RaceBuild = true
