// Package concdrv issues requests CONCURRENTLY on one real resource manager (harness/internal/l2 World: real cache,
// real policy back-end, the real NRI handler methods and reconfigure()) and records, per request, start / lock /
// unlock / end events (the lock events carry the sequence number the shadowing Lock()/Unlock() of verif builds write
// under the lock), the cache and policy calls the handler made and whether it held the lock while making them.
// After every round the requests are put into the order of their lock sequence numbers and replayed SEQUENTIALLY on a
// twin world; replies and final projected states are compared.  The verdict is not computed here: the records go to
// TLC (spec/Trace_Serialize.tla), the serialized history goes to spec/Trace_L2.tla.
package concdrv

import (
	"crypto/sha256"
	"encoding/hex"
	"encoding/json"
	"flag"
	"fmt"
	"math/rand"
	"os"
	"path/filepath"
	"runtime"
	"sort"
	"strings"
	"time"

	"github.com/containers/nri-plugins/pkg/resmgr"

	"verifharness/internal/l2"
	"verifharness/internal/tr"
)

// Round is one concurrent phase: every inner list is the program of one goroutine.
type Round struct {
	GMP   int       `json:"gmp"`
	Seed  int64     `json:"seed"`
	Procs [][]l2.Op `json:"procs"`
	Bulk  bool      `json:"bulk,omitempty"` // contains a request whose outcome is not a function of the order (Synchronize
	// re-allocates in map order): compare the coarse projection and end the session
}

// Session is a world and its rounds.
type Session struct {
	World  l2.WorldSpec `json:"world"`
	Rounds []Round      `json:"rounds"`
}

var kindOf = map[string]string{
	"RunPod": "RunPodSandbox", "StopPod": "StopPodSandbox", "RemovePod": "RemovePodSandbox", "Create": "CreateContainer",
	"Start": "StartContainer", "Update": "UpdateContainer", "Stop": "StopContainer", "Remove": "RemoveContainer",
	"Sync": "Synchronize", "Reconfigure": "Reconfigure",
}

var hangAfter = 20 * time.Second

// nControls is the number of independent sequential control replays made when the determined part differs.
var nControls = 12

// ---------------------------------------------------------------------------------------------

type runner struct {
	out, l2out *tr.Writer
	scratch    string
	shared     string
	control    bool // always run the control replay (determinism measurement)
	nl2        int  // L2 history index
}

func canon(v interface{}) string {
	b, err := json.Marshal(v)
	if err != nil {
		return "marshal-error:" + err.Error()
	}
	// through a generic value so that map keys are sorted at every level
	var g interface{}
	if err := json.Unmarshal(b, &g); err != nil {
		return "unmarshal-error:" + err.Error()
	}
	b, _ = json.Marshal(g)
	return string(b)
}

func hash(s string) string {
	h := sha256.Sum256([]byte(s))
	return hex.EncodeToString(h[:8])
}

// coarse: what is determined by the set of requests alone whenever a bulk re-allocation took part (which CPUs and
// pools a container gets then depends on map iteration order, sequentially too)
func coarse(st tr.M) tr.M {
	out := tr.M{"pods": st["pods"]}
	cs := tr.M{}
	if m, ok := st["ctr"].(tr.M); ok {
		for id, v := range m {
			c, _ := v.(tr.M)
			cs[id] = tr.M{"pod": c["pod"], "st": c["st"], "qos": c["qos"], "cpureq": c["cpureq"], "cpulim": c["cpulim"],
				"memreq_u": c["memreq_u"], "memlim_u": c["memlim_u"]}
		}
	}
	out["ctr"] = cs
	return out
}

// normReply: the order of the updates in a reply follows map iteration; compare them as a set
func normReply(v tr.M) string {
	if u, ok := v["upd"].([]tr.M); ok {
		s := append([]tr.M{}, u...)
		sort.SliceStable(s, func(i, j int) bool { return fmt.Sprint(s[i]["c"]) < fmt.Sprint(s[j]["c"]) })
		v["upd"] = s
	}
	return canon(v)
}

func diffSummary(a, b tr.M) string {
	var out []string
	var walk func(p string, x, y interface{})
	walk = func(p string, x, y interface{}) {
		if len(out) >= 6 {
			return
		}
		xm, xo := x.(map[string]interface{})
		ym, yo := y.(map[string]interface{})
		if xo && yo {
			keys := map[string]bool{}
			for k := range xm {
				keys[k] = true
			}
			for k := range ym {
				keys[k] = true
			}
			ks := []string{}
			for k := range keys {
				ks = append(ks, k)
			}
			sort.Strings(ks)
			for _, k := range ks {
				xv, ok1 := xm[k]
				yv, ok2 := ym[k]
				if !ok1 || !ok2 {
					out = append(out, p+"/"+k+":only-in-"+map[bool]string{true: "concurrent", false: "sequential"}[ok1])
					continue
				}
				walk(p+"/"+k, xv, yv)
			}
			return
		}
		if canon(x) != canon(y) {
			s := fmt.Sprintf("%s: concurrent=%s sequential=%s", p, canon(x), canon(y))
			if len(s) > 240 {
				s = s[:240] + "..."
			}
			out = append(out, s)
		}
	}
	var ga, gb interface{}
	json.Unmarshal([]byte(canon(a)), &ga)
	json.Unmarshal([]byte(canon(b)), &gb)
	walk("", ga, gb)
	return strings.Join(out, "; ")
}

// ---------------------------------------------------------------------------------------------

// runRound executes one concurrent round on w. It returns the requests (index = Q) and whether a request hung.
func runRound(w *l2.World, rd Round) (reqs []*Req, hung bool, stacks string) {
	gmp := rd.GMP
	if gmp <= 0 {
		gmp = runtime.NumCPU()
	}
	prev := runtime.GOMAXPROCS(gmp)
	defer runtime.GOMAXPROCS(prev)

	// sequential preparation, program order
	progs := make([][]*Req, len(rd.Procs))
	// (a runtime that is consistent with its own bookkeeping: a container whose creation the plugin refused does not
	// exist -- no further lifecycle events for it, and it is left out of Synchronize lists; cf. l2.RunHistory)
	for g, ops := range rd.Procs {
		for k, o := range ops {
			switch o.Op {
			case "Start", "Update", "Stop", "Remove":
				if w.Refused[o.C] {
					continue
				}
			case "Sync":
				ctrs := map[string]string{}
				for id, st := range o.Ctrs {
					if !w.Refused[id] {
						ctrs[id] = st
					}
				}
				o.Ctrs = ctrs
			}
			r := &Req{Q: len(reqs), G: g, K: k, Op: o, Kind: kindOf[o.Op], prep: w.Prepare(o)}
			reqs = append(reqs, r)
			progs[g] = append(progs[g], r)
		}
	}
	w.H.TakePushed()
	curWorld = w
	nslots = len(progs)
	for i := range slots[:nslots] {
		slots[i].goid, slots[i].cur, slots[i].held, slots[i].quiet = 0, nil, 0, false
		slots[i].started.Store(0)
	}
	ready := make(chan int, nslots)
	start := make(chan struct{})
	done := make(chan int, nslots)
	for g := range progs {
		go func(g int) {
			s := &slots[g]
			s.goid = goid()
			rnd := rand.New(rand.NewSource(rd.Seed*131 + int64(g)))
			ready <- g
			<-start
			refused := map[string]bool{} // own containers whose creation was refused in this round
			for _, r := range progs[g] {
				switch r.Op.Op {
				case "Start", "Update", "Stop", "Remove":
					if refused[r.Op.C] {
						r.Skipped = true
						continue
					}
				}
				for n := rnd.Intn(4); n > 0; n-- {
					runtime.Gosched()
				}
				if rnd.Intn(8) == 0 {
					time.Sleep(time.Duration(rnd.Intn(300)) * time.Microsecond)
				}
				s.cur = r
				s.started.Store(time.Now().UnixNano())
				r.Events = append(r.Events, Event{E: "start", B: readMirror(), A: -1})
				r.Reply = r.prep.Call()
				r.Events = append(r.Events, Event{E: "end", B: readMirror(), A: -1})
				r.Ended = true
				s.started.Store(0)
				s.cur = nil
				if r.Op.Op == "Create" && (r.Reply.Err != nil || r.Reply.Panic != nil) {
					refused[r.Op.C] = true
				}
			}
			done <- g
		}(g)
	}
	for range progs {
		<-ready
	}
	close(start)
	left := len(progs)
	tick := time.NewTicker(50 * time.Millisecond)
	defer tick.Stop()
	for left > 0 {
		select {
		case <-done:
			left--
		case <-tick.C:
			now := time.Now().UnixNano()
			for i := 0; i < nslots; i++ {
				if t := slots[i].started.Load(); t != 0 && time.Duration(now-t) > hangAfter {
					hung = true
				}
			}
			if hung {
				buf := make([]byte, 1<<20)
				n := runtime.Stack(buf, true)
				return reqs, true, string(buf[:n])
			}
		}
	}
	nslots = 0
	curWorld = nil
	return reqs, false, ""
}

// key orders the requests of a round: locked requests by their first lock sequence number; requests that never took
// the lock right after the last lock event they can have seen (start mirror) and after their predecessor in program
// order.  Ties keep program order.
func serialOrder(reqs []*Req) []*Req {
	type kr struct {
		key float64
		r   *Req
	}
	lastKey := map[int]float64{}
	ks := []kr{}
	// requests are listed goroutine by goroutine in program order
	for _, r := range reqs {
		if !r.Ended || r.Skipped {
			continue
		}
		key := -1.0
		for _, e := range r.Events {
			if e.E == "lock" {
				key = float64(e.Seq)
				break
			}
		}
		if key < 0 {
			key = lastKey[r.G]
			if len(r.Events) > 0 && r.Events[0].B >= 0 && float64(r.Events[0].B) > key {
				key = float64(r.Events[0].B)
			}
			key += 0.001 * float64(r.K+1)
		}
		lastKey[r.G] = key
		ks = append(ks, kr{key, r})
	}
	sort.SliceStable(ks, func(i, j int) bool { return ks[i].key < ks[j].key })
	out := make([]*Req, len(ks))
	for i, k := range ks {
		out[i] = k.r
	}
	return out
}

func reqRecord(r *Req) tr.M {
	m := tr.M{"q": r.Q, "g": r.G, "k": r.K, "kind": r.Kind, "op": r.Op.Op, "ev": r.Events, "ended": r.Ended,
		"err": r.Reply.Err != nil, "panic": r.Reply.Panic != nil}
	if r.Op.Pod != "" {
		m["pod"] = r.Op.Pod
	}
	if r.Op.C != "" {
		m["c"] = r.Op.C
	}
	if r.Reply.Panic != nil {
		m["panicmsg"] = fmt.Sprint(r.Reply.Panic)
	}
	if r.Reply.Err != nil {
		m["msg"] = r.Reply.Err.Error()
	}
	if r.StErr != "" {
		m["statepanic"] = r.StErr
	}
	return m
}

func (x *runner) session(si int, s Session) (stop bool) {
	dir := filepath.Join(x.scratch, fmt.Sprintf("s%d", si))
	defer os.RemoveAll(dir)
	w, err := l2.NewWorld(s.World, filepath.Join(dir, "w"), x.shared)
	if err != nil {
		x.out.Emit(tr.M{"ev": "session", "s": si, "world": s.World.Name, "policy": s.World.Policy, "booterr": err.Error()})
		return false
	}
	defer w.Close()
	instrument(w)
	var twin *l2.World
	if !RaceBuild {
		if twin, err = l2.NewWorld(s.World, filepath.Join(dir, "t"), x.shared); err != nil {
			x.out.Emit(tr.M{"ev": "session", "s": si, "world": s.World.Name, "policy": s.World.Policy, "booterr": "twin: " + err.Error()})
			return false
		}
		defer twin.Close()
	}
	x.out.Emit(tr.M{"ev": "session", "s": si, "world": s.World.Name, "policy": s.World.Policy, "race": RaceBuild, "rounds": len(s.Rounds)})
	hidx := x.nl2
	x.nl2++
	var resetState interface{}
	if x.l2out != nil {
		rl := w.ResetLine(hidx)
		resetState = rl["st"]
		x.l2out.Emit(rl)
	}
	history := []l2.Op{}  // the serialized history of the whole session (for the control replay)
	sessLines := []tr.M{} // the L2 lines of the session so far (for the sequential baseline of a coarse round)
	k := 0
	for ri, rd := range s.Rounds {
		reqs, hung, stacks := runRound(w, rd)
		rec := tr.M{"ev": "round", "s": si, "r": ri, "gmp": rd.GMP, "race": RaceBuild, "ngo": len(rd.Procs), "bulk": rd.Bulk, "hang": hung}
		rr := []tr.M{}
		for _, r := range reqs {
			if !r.Skipped && len(r.Events) > 0 { // (after a hang: requests that were never issued have no events)
				rr = append(rr, reqRecord(r))
			}
		}
		rec["reqs"] = rr
		if hung {
			rec["stacks"] = trimStacks(stacks)
			rec["equiv"] = tr.M{"checked": false}
			x.out.Emit(rec)
			x.out.Flush()
			return true // the lock is lost: this process cannot go on
		}
		order := serialOrder(reqs)
		ord := []int{}
		for _, r := range order {
			ord = append(ord, r.Q)
		}
		rec["order"] = ord
		end, endErr := w.SafeState()
		if endErr != "" {
			rec["statepanic"] = endErr
		}
		left := w.H.TakePushed() // pushed outside any critical section (never expected)
		rec["pushed_outside_lock"] = len(left)

		// the serialized history, as an ordinary L2 trace: replies and states are those of the CONCURRENT run (the state
		// of a request = the projection made under the lock right before it released it; the round's last line carries
		// the state projected after all goroutines were joined)
		var last tr.M
		roundStart := len(sessLines)
		for i, r := range order {
			st := r.St
			if st == nil {
				st = last // a request that never held the lock: no linearization point of its own
			}
			if i == len(order)-1 && end != nil {
				st = end
			}
			if x.l2out != nil {
				ln := w.Line(r.Op, r.Reply, r.Pushed, hidx, k, st)
				x.l2out.Emit(ln)
				sessLines = append(sessLines, ln)
			}
			k++
			if st != nil {
				last = st
			}
			w.Commit(r.Op, r.Reply, r.Pushed)
			history = append(history, r.Op)
		}

		eq := tr.M{"checked": false}
		diverged := end == nil
		if twin != nil && end != nil {
			sameReplies, firstReply := true, ""
			twinHang := false
			twinLines := []tr.M{}
			flagsConc, flagsSeq := []interface{}{}, []interface{}{}
			var firstDiff tr.M
			for _, r := range order {
				line, err := twin.Step(r.Op, hidx, 0)
				if err == l2.ErrHang {
					twinHang = true
					break
				}
				twinLines = append(twinLines, line)
				// (whether a bulk re-allocation -- Synchronize, Reconfigure: every container, in map order -- succeeds is not a
				// function of the request order either: measured, a Reconfigure from identical full states fails in about half
				// of the sequential replays when pools are tight; its error flag is not part of the determined part)
				bulkOp := r.Op.Op == "Sync" || r.Op.Op == "Reconfigure"
				flagsConc = append(flagsConc, []interface{}{r.Reply.Err != nil && !bulkOp, r.Reply.Panic != nil, r.Reply.Adj != nil})
				flagsSeq = append(flagsSeq, []interface{}{line["err"] == true && !bulkOp, line["panic"], line["hasadj"]})
				a := normReply(l2.ReplyView(r.Reply))
				b := normReply(tr.M{"err": line["err"], "panic": line["panic"], "adj": line["adj"], "hasadj": line["hasadj"], "upd": line["upd"]})
				if a != b && sameReplies {
					sameReplies = false
					firstReply = fmt.Sprintf("q=%d %s %s%s: concurrent=%s sequential=%s", r.Q, r.Op.Op, r.Op.Pod, "/"+r.Op.C, a, b)
					if len(firstReply) > 600 {
						firstReply = firstReply[:600] + "..."
					}
				}
				// step by step: the FIRST request after which the two runs differ.  Up to it they went through identical full
				// states, so that request alone is responsible for the difference.
				if firstDiff == nil {
					var sa, sb tr.M
					sa = r.St
					if x, ok := line["st"].(tr.M); ok {
						sb = x
					}
					stepFull := a == b
					stepDet := fmt.Sprint(flagsConc[len(flagsConc)-1]) == fmt.Sprint(flagsSeq[len(flagsSeq)-1])
					if sa != nil && sb != nil {
						stepFull = stepFull && canon(sa) == canon(sb)
						stepDet = stepDet && canon(coarse(sa)) == canon(coarse(sb))
					}
					if !stepFull {
						firstDiff = tr.M{"i": len(twinLines) - 1, "q": r.Q, "op": r.Op.Op, "kind": r.Kind, "det_same": stepDet}
						if sa != nil && sb != nil {
							if stepDet {
								firstDiff["diff"] = diffSummary(sa, sb)
							} else {
								firstDiff["diff"] = diffSummary(tr.M{"st": coarse(sa), "flags": flagsConc[len(flagsConc)-1]}, tr.M{"st": coarse(sb), "flags": flagsSeq[len(flagsSeq)-1]})
							}
						}
					}
				}
			}
			if twinHang {
				eq = tr.M{"checked": false, "twinhang": true}
				diverged = true
			} else {
				ts, terr := twin.SafeState()
				if terr != "" {
					ts = tr.M{"statepanic": terr}
				}
				// two projections: the full state, and its DETERMINED part (pods, containers, lifecycle states, resource
				// requests; error/panic flags of the replies).  Which CPUs and memory nodes a container gets is not a function
				// of the request order alone (tie-breaking follows map iteration order, sequentially too), so only a difference
				// in the determined part can be a verdict; a bulk round (Synchronize) is compared on the determined part only.
				level := "full"
				fa, fb := canon(end), canon(ts)
				da, db := canon(tr.M{"st": coarse(end), "flags": flagsConc}), canon(tr.M{"st": coarse(ts), "flags": flagsSeq})
				sameFull := fa == fb && sameReplies && firstDiff == nil
				sameDet := da == db
				if firstDiff != nil && firstDiff["det_same"] == true {
					// the runs parted on a choice the request order does not determine (which CPUs / memory nodes): whatever
					// differs afterwards follows from that choice
					sameDet = true
				}
				eq = tr.M{"checked": true, "level": level, "same_full": sameFull, "same_det": sameDet,
					"h_conc": hash(fa), "h_seq": hash(fb), "hd_conc": hash(da), "hd_seq": hash(db)}
				if firstDiff != nil {
					eq["first_diff"] = firstDiff
				}
				if !sameDet {
					eq["diff"] = diffSummary(tr.M{"st": coarse(end), "flags": flagsConc}, tr.M{"st": coarse(ts), "flags": flagsSeq})
				} else if !sameFull {
					eq["diff"] = diffSummary(end, ts)
					if firstReply != "" {
						eq["reply_diff"] = firstReply
					}
				}
				if !sameDet || x.control {
					// determinism guard: independent sequential replays of the whole serialized session must all agree with the
					// first one on the determined part, and none of them may reproduce the concurrent outcome; otherwise the
					// difference says nothing
					agree, explained := true, false
					hs := []string{}
					for ci := 0; ci < nControls; ci++ {
						cdir := filepath.Join(dir, fmt.Sprintf("c%d_%d", ri, ci))
						ctl, cerr := l2.NewWorld(s.World, cdir, x.shared)
						if cerr != nil {
							agree = false
							eq["ctlerr"] = cerr.Error()
							break
						}
						fl := []interface{}{}
						for _, o := range history {
							line, err := ctl.Step(o, hidx, 0)
							if err == l2.ErrHang {
								break
							}
							fl = append(fl, []interface{}{line["err"] == true && o.Op != "Sync" && o.Op != "Reconfigure", line["panic"], line["hasadj"]})
						}
						// the flags of this round's requests are the last len(order) entries
						if len(fl) >= len(order) {
							fl = fl[len(fl)-len(order):]
						}
						cs, _ := ctl.SafeState()
						dc := "no-state"
						if cs != nil {
							dc = canon(tr.M{"st": coarse(cs), "flags": fl})
						}
						hs = append(hs, hash(dc))
						if dc != db {
							agree = false
						}
						if dc == da {
							explained = true
						}
						ctl.Close()
						os.RemoveAll(cdir)
					}
					eq["ctl_agree"], eq["ctl_explains"], eq["hd_ctl"], eq["nctl"] = agree, explained, hs, nControls
				}
				same := sameFull
				if !same || rd.Bulk {
					diverged = true
				}
				if (rd.Bulk || !sameFull) && x.l2out != nil {
					// sequential baseline: the same session with this round replayed sequentially (history index + 1000000);
					// an invariant that the sequential run breaks too is not a matter of concurrency
					base := w.ResetLine(hidx + 1000000)
					base["st"] = resetState
					x.l2out.Emit(base)
					kk := 0
					for _, ln := range sessLines[:roundStart] {
						c := tr.M{}
						for a, b := range ln {
							c[a] = b
						}
						c["h"], c["k"] = hidx+1000000, kk
						x.l2out.Emit(c)
						kk++
					}
					for _, ln := range twinLines {
						ln["h"], ln["k"] = hidx+1000000, kk
						x.l2out.Emit(ln)
						kk++
					}
				}
			}
		}
		rec["equiv"] = eq
		x.out.Emit(rec)
		x.out.Flush()
		if diverged {
			break // the twin no longer mirrors the concurrent world
		}
	}
	return false
}

func trimStacks(s string) string {
	// keep the goroutines that are inside the resource manager
	parts := strings.Split(s, "\n\n")
	keep := []string{}
	for _, p := range parts {
		if strings.Contains(p, "pkg/resmgr") {
			lines := strings.Split(p, "\n")
			if len(lines) > 24 {
				lines = lines[:24]
			}
			keep = append(keep, strings.Join(lines, "\n"))
		}
	}
	out := strings.Join(keep, "\n\n")
	if len(out) > 20000 {
		out = out[:20000]
	}
	return out
}

// Main: concdrv run --script sessions.json --out rounds.ndjson --l2out l2.ndjson --scratch dir [--from a --to b]
//
//	concdrv rv --rounds n --out rv.ndjson --scratch dir --seed s
//	concdrv --machines
func Main(args []string) error {
	if len(args) > 0 && args[0] == "--machines" {
		return l2.Main(args)
	}
	if len(args) == 0 {
		return fmt.Errorf("usage: concdrv run|rv ...")
	}
	mode := args[0]
	fs := flag.NewFlagSet("concdrv", flag.ContinueOnError)
	out := fs.String("out", "", "round records (ndjson, for Trace_Serialize)")
	l2out := fs.String("l2out", "", "serialized histories as an L2 trace (ndjson, for Trace_L2)")
	script := fs.String("script", "", "JSON file: {sessions: [...]}")
	scratch := fs.String("scratch", "", "private scratch directory")
	shared := fs.String("shared", "", "directory for unpacked fixtures")
	from := fs.Int("from", 0, "first session")
	to := fs.Int("to", -1, "one past the last session")
	control := fs.Bool("control", false, "always run the control replay")
	hangms := fs.Int("hang-ms", 20000, "a request that has not returned after this many ms is a hang")
	rounds := fs.Int("rounds", 200, "rv: number of rounds")
	seed := fs.Int64("seed", 1, "rv: seed")
	if err := fs.Parse(args[1:]); err != nil {
		return err
	}
	hangAfter = time.Duration(*hangms) * time.Millisecond
	if *shared == "" {
		*shared = *scratch
	}
	w, err := tr.NewWriter(*out)
	if err != nil {
		return err
	}
	defer w.Close()
	switch mode {
	case "rv":
		return rendezvous(w, *rounds, *seed, *scratch)
	case "run":
	default:
		return fmt.Errorf("unknown mode %q", mode)
	}
	var sc struct {
		Sessions []Session `json:"sessions"`
	}
	if err := tr.ReadJSON(*script, &sc); err != nil {
		return err
	}
	x := &runner{out: w, scratch: *scratch, shared: *shared, control: *control}
	if *l2out != "" {
		if x.l2out, err = tr.NewWriter(*l2out); err != nil {
			return err
		}
		defer x.l2out.Close()
	}
	resmgr.VerifSetLockTracer(tracer)
	n := 0
	for i, s := range sc.Sessions {
		if i < *from || (*to >= 0 && i >= *to) {
			continue
		}
		x.nl2 = i
		stop := x.session(i, s)
		if x.l2out != nil {
			x.l2out.Flush()
		}
		n++
		if stop {
			fmt.Printf("concdrv: stopped after a hang in session %d\n", i)
			break
		}
	}
	fmt.Printf("concdrv: %d sessions, %d records, race=%v\n", n, w.N, RaceBuild)
	return nil
}
