// Package exprdrv drives the real match-expression code (pkg/apis/resmgr/v1alpha1), the real affinity
// annotation parser (pkg/resmgr/cache) and the real balloon-type selection (balloons policy, chooseBalloonDef
// through a verif-tagged hook, plus AllocateResources/GetTopologyZones end to end) over the input domain that
// the TLA+ module ExprDom defines and ExprGen serialises, and records one ndjson line per domain point.
//
// The driver contains no expression semantics: it builds the subjects the domain describes as real cache
// pods/containers, hands the rendered expressions to the real code under recover(), and records what came
// back.  The only values it computes itself are results of the standard library's filepath.Match for
// (pattern, string) pairs the specification asks for (the supplied glob relation, trusted base).
package exprdrv

import (
	"encoding/json"
	"flag"
	"fmt"
	"os"
	"path/filepath"
	"strings"
	"sync"
	"sync/atomic"
	"time"

	nri "github.com/containerd/nri/pkg/api"

	balloons "github.com/containers/nri-plugins/cmd/plugins/balloons/policy"
	bcfg "github.com/containers/nri-plugins/pkg/apis/config/v1alpha1/resmgr/policy/balloons"
	resmgr "github.com/containers/nri-plugins/pkg/apis/resmgr/v1alpha1"
	"github.com/containers/nri-plugins/pkg/kubernetes"
	logger "github.com/containers/nri-plugins/pkg/log"
	"github.com/containers/nri-plugins/pkg/resmgr/cache"
	policyapi "github.com/containers/nri-plugins/pkg/resmgr/policy"
	"github.com/containers/nri-plugins/pkg/sysfs"

	"verifharness/internal/tr"
)

// ---------------------------------------------------------------------------------------------
// the domain file (written by TLC: ExprGen.tla)

type podJ struct {
	Kind   string      `json:"kind"`
	ID     string      `json:"id"`
	Name   string      `json:"name"`
	NS     string      `json:"ns"`
	QoS    string      `json:"qos"`
	UID    string      `json:"uid"`
	Labels [][2]string `json:"labels"`
}

type subjJ struct {
	Kind   string      `json:"kind"`
	ID     string      `json:"id"`
	Name   string      `json:"name"`
	Labels [][2]string `json:"labels"`
	Tags   [][2]string `json:"tags"`
	Pod    *podJ       `json:"pod"`
	AnnKV  [][2]string `json:"annkv"`
	// pod subjects
	NS  string `json:"ns"`
	QoS string `json:"qos"`
	UID string `json:"uid"`
}

type keyJ struct {
	Str  string   `json:"str"`
	Subs []string `json:"subs"`
	Kind string   `json:"kind"`
}

type kvJ struct {
	Present bool   `json:"present"`
	Val     string `json:"val"`
}

type extraJ struct {
	Key keyJ     `json:"key"`
	S   int      `json:"s"`
	VL  []string `json:"vl"`
	KV  kvJ      `json:"kv"`
}

type weightJ struct {
	Anti   bool  `json:"anti"`
	W      int64 `json:"w"`
	Scope  bool  `json:"scope"`
	Simple bool  `json:"simple"`
}

type exprJ struct {
	Key  string   `json:"key"`
	Op   string   `json:"op"`
	Vals []string `json:"vals"`
}

type defJ struct {
	Name  string   `json:"name"`
	NSs   []string `json:"nss"`
	Exprs []exprJ  `json:"exprs"`
}

type deflistJ struct {
	Defs []defJ   `json:"defs"`
	Rsv  []string `json:"rsv"`
	E2E  bool     `json:"e2e"`
}

type domJ struct {
	Subjects []subjJ     `json:"subjects"`
	Keys     []keyJ      `json:"keys"`
	VLs      [][]string  `json:"vls"`
	KV       [][]kvJ     `json:"kv"`
	Extra    []extraJ    `json:"extra"`
	Weights  []weightJ   `json:"weights"`
	CCtrs    []subjJ     `json:"cctrs"`
	DefLists []deflistJ  `json:"deflists"`
	Pairs    [][2]string `json:"pairs"`
	Ops      []string    `json:"ops"`
	NEval    int         `json:"neval"`
	NWeight  int         `json:"nweight"`
	NChoose  int         `json:"nchoose"`
	Total    int         `json:"total"`
}

// ---------------------------------------------------------------------------------------------

type driver struct {
	dom     domJ
	scratch string
	mu      sync.Mutex
	w       *tr.Writer
	idx     int          // global record index
	beat    atomic.Int64 // progress counter for the watchdog
	cur     atomic.Value // description of the call in flight
	ncache  int
}

func (d *driver) emit(m tr.M) {
	d.mu.Lock()
	defer d.mu.Unlock()
	d.w.Emit(m)
}

func qosDir(q string) string {
	switch q {
	case "BestEffort":
		return "/kubepods/besteffort/pod"
	case "Burstable":
		return "/kubepods/burstable/pod"
	}
	return "/kubepods/pod"
}

func toMap(ps [][2]string) map[string]string {
	m := map[string]string{}
	for _, p := range ps {
		m[p[0]] = p[1]
	}
	return m
}

func (d *driver) newCache() (cache.Cache, error) {
	d.ncache++
	dir := filepath.Join(d.scratch, fmt.Sprintf("cache%d", d.ncache))
	return cache.NewCache(cache.Options{CacheDir: dir})
}

func insertPod(cch cache.Cache, p *podJ, ann map[string]string) (cache.Pod, error) {
	pod := cch.InsertPod(&nri.PodSandbox{
		Id: p.ID, Name: p.Name, Uid: p.UID, Namespace: p.NS,
		Labels:      toMap(p.Labels),
		Annotations: ann,
		Linux:       &nri.LinuxPodSandbox{CgroupParent: qosDir(p.QoS) + p.UID},
	}, nil)
	if pod == nil {
		return nil, fmt.Errorf("InsertPod(%s) returned nil", p.ID)
	}
	// the object must be what the domain says (a driver fault otherwise, never a verdict)
	if pod.GetID() != p.ID || pod.GetName() != p.Name || pod.GetNamespace() != p.NS || pod.GetUID() != p.UID ||
		string(pod.GetQOSClass()) != p.QoS {
		return nil, fmt.Errorf("pod %s was not built as specified: %s/%s uid %s qos %s", p.ID, pod.GetNamespace(),
			pod.GetName(), pod.GetUID(), pod.GetQOSClass())
	}
	for _, l := range p.Labels {
		if v, ok := pod.GetLabel(l[0]); !ok || v != l[1] {
			return nil, fmt.Errorf("pod %s label %q not as specified", p.ID, l[0])
		}
	}
	return pod, nil
}

func insertCtr(cch cache.Cache, s *subjJ) (cache.Container, error) {
	if _, err := insertPod(cch, s.Pod, toMap(s.AnnKV)); err != nil {
		return nil, err
	}
	c, err := cch.InsertContainer(&nri.Container{Id: s.ID, PodSandboxId: s.Pod.ID, Name: s.Name, Labels: toMap(s.Labels)})
	if err != nil {
		return nil, err
	}
	for _, t := range s.Tags {
		c.SetTag(t[0], t[1])
	}
	if c.GetID() != s.ID || c.GetName() != s.Name || c.GetNamespace() != s.Pod.NS || string(c.GetQOSClass()) != s.Pod.QoS {
		return nil, fmt.Errorf("container %s was not built as specified", s.ID)
	}
	for _, l := range s.Labels {
		if v, ok := c.GetLabel(l[0]); !ok || v != l[1] {
			return nil, fmt.Errorf("container %s label %q not as specified", s.ID, l[0])
		}
	}
	for _, t := range s.Tags {
		if v, ok := c.GetTag(t[0]); !ok || v != t[1] {
			return nil, fmt.Errorf("container %s tag %q not as specified", s.ID, t[0])
		}
	}
	return c, nil
}

// ---------------------------------------------------------------------------------------------
// expressions

type opRes struct {
	Valid bool `json:"valid"`
	Res   bool `json:"res"`
	Panic bool `json:"panic"`
}

func callValidate(e *resmgr.Expression) (ok bool, panicked bool) {
	defer func() {
		if r := recover(); r != nil {
			ok, panicked = false, true
		}
	}()
	return e.Validate() == nil, false
}

func callEvaluate(e *resmgr.Expression, s resmgr.Evaluable) (res bool, panicked bool) {
	defer func() {
		if r := recover(); r != nil {
			res, panicked = false, true
		}
	}()
	return e.Evaluate(s), false
}

func callKeyValue(key string, s resmgr.Evaluable) (m tr.M) {
	defer func() {
		if r := recover(); r != nil {
			m = tr.M{"val": "", "ok": false, "panic": true}
		}
	}()
	v, ok := resmgr.KeyValue(key, s)
	return tr.M{"val": v, "ok": ok, "panic": false}
}

func callResolve(s resmgr.Evaluable, sub string) (m tr.M) {
	defer func() {
		if r := recover(); r != nil {
			m = tr.M{"val": "", "ok": false, "err": true, "panic": true}
		}
	}()
	v, ok, err := resmgr.ResolveRef(s, sub)
	return tr.M{"val": v, "ok": ok, "err": err != nil, "panic": false}
}

func globs(patterns []string, s string) []bool {
	out := make([]bool, len(patterns))
	for i, p := range patterns {
		m, err := filepath.Match(p, s)
		out[i] = err == nil && m
	}
	return out
}

func (d *driver) evalOne(key *keyJ, subj resmgr.Evaluable, vl []string, kv kvJ) {
	d.cur.Store(fmt.Sprintf("eval key=%q values=%q", key.Str, vl))
	ops := make([]opRes, len(d.dom.Ops))
	for i, op := range d.dom.Ops {
		vals := append([]string{}, vl...)
		if len(vals) == 0 {
			vals = nil
		}
		e := &resmgr.Expression{Key: key.Str, Op: resmgr.Operator(op), Values: vals}
		valid, vp := callValidate(e)
		res, ep := callEvaluate(e, subj)
		ops[i] = opRes{Valid: valid, Res: res, Panic: vp || ep}
	}
	subs := make([]tr.M, len(key.Subs))
	for i, s := range key.Subs {
		subs[i] = callResolve(subj, s)
	}
	kvr := callKeyValue(key.Str, subj)
	// m: glob results on the key value the specification expects (the supplied relation of the oracle);
	// mr: on the key value the real code resolved (only used to classify a deviation)
	d.emit(tr.M{"ev": "eval", "i": d.idx, "sp": kv.Present, "sv": kv.Val, "m": globs(vl, kv.Val),
		"mr": globs(vl, kvr["val"].(string)), "kvr": kvr, "subs": subs, "ops": ops})
	d.idx++
	d.beat.Add(1)
}

func (d *driver) runEval() error {
	cch, err := d.newCache()
	if err != nil {
		return err
	}
	subjects := make([]resmgr.Evaluable, len(d.dom.Subjects))
	for i := range d.dom.Subjects {
		s := &d.dom.Subjects[i]
		if s.Kind == "ctr" {
			c, err := insertCtr(cch, s)
			if err != nil {
				return err
			}
			subjects[i] = c
		} else {
			p, err := insertPod(cch, &podJ{Kind: "pod", ID: s.ID, Name: s.Name, NS: s.NS, QoS: s.QoS, UID: s.UID, Labels: s.Labels}, nil)
			if err != nil {
				return err
			}
			subjects[i] = p
		}
	}
	for k := range d.dom.Keys {
		for s := range subjects {
			for v := range d.dom.VLs {
				d.evalOne(&d.dom.Keys[k], subjects[s], d.dom.VLs[v], d.dom.KV[k][s])
			}
		}
	}
	for i := range d.dom.Extra {
		x := &d.dom.Extra[i]
		if x.S < 1 || x.S > len(subjects) {
			return fmt.Errorf("extra eval %d: subject index %d out of range", i, x.S)
		}
		d.evalOne(&x.Key, subjects[x.S-1], x.VL, x.KV)
	}
	if d.idx != d.dom.NEval {
		return fmt.Errorf("eval section: %d records, domain says %d", d.idx, d.dom.NEval)
	}
	return nil
}

// ---------------------------------------------------------------------------------------------
// affinity weights

func weightAnnotation(w *weightJ) (key, value string) {
	key = kubernetes.ResmgrKey("affinity")
	if w.Anti {
		key = kubernetes.ResmgrKey("anti-affinity")
	}
	if w.Simple {
		return key, "c: [ peer ]\n"
	}
	b := &strings.Builder{}
	b.WriteString("c:\n")
	first := "  - "
	if w.Scope {
		b.WriteString(first + "scope:\n      key: pod/name\n      operator: Exists\n")
		first = "    "
	}
	b.WriteString(first + "match:\n      key: name\n      operator: In\n      values: [ peer, other ]\n")
	// weight 0 and an omitted weight are the same input; write it out only together with an explicit scope
	if w.W != 0 || w.Scope {
		fmt.Fprintf(b, "    weight: %d\n", w.W)
	}
	return key, b.String()
}

func (d *driver) runWeights() error {
	var cch cache.Cache
	var err error
	for i := range d.dom.Weights {
		w := &d.dom.Weights[i]
		if i%64 == 0 {
			if cch, err = d.newCache(); err != nil {
				return err
			}
		}
		d.cur.Store(fmt.Sprintf("weight %+v", *w))
		key, val := weightAnnotation(w)
		pid, cid := fmt.Sprintf("wp%d", i), fmt.Sprintf("wc%d", i)
		if _, err := insertPod(cch, &podJ{ID: pid, Name: pid, NS: "a", QoS: "Burstable", UID: "wu" + pid}, map[string]string{key: val}); err != nil {
			return err
		}
		c, err := cch.InsertContainer(&nri.Container{Id: cid, PodSandboxId: pid, Name: "c"})
		if err != nil {
			return err
		}
		rec := tr.M{"ev": "weight", "i": d.idx, "got": []int{}, "err": false, "panic": false}
		func() {
			defer func() {
				if r := recover(); r != nil {
					rec["panic"] = true
				}
			}()
			affs, err := c.GetAffinity()
			if err != nil {
				rec["err"] = true
				return
			}
			got := []int{}
			for _, a := range affs {
				got = append(got, int(a.Weight))
			}
			rec["got"] = got
		}()
		d.emit(rec)
		d.idx++
		d.beat.Add(1)
	}
	return nil
}

// ---------------------------------------------------------------------------------------------
// balloon-type selection

func (d *driver) runChoose() error {
	root := filepath.Join(d.scratch, "sysroot")
	if err := writeTinySysfs(root); err != nil {
		return err
	}
	sysfs.SetSysRoot(root)
	sys, err := sysfs.DiscoverSystemAt(filepath.Join(root, "sys"))
	if err != nil {
		return fmt.Errorf("sysfs discovery: %v", err)
	}
	cch, err := d.newCache()
	if err != nil {
		return err
	}
	ctrs := make([]cache.Container, len(d.dom.CCtrs))
	for i := range d.dom.CCtrs {
		if ctrs[i], err = insertCtr(cch, &d.dom.CCtrs[i]); err != nil {
			return err
		}
	}
	yes := true
	for di := range d.dom.DefLists {
		dl := &d.dom.DefLists[di]
		cfg := &bcfg.Config{ShowContainersInNrt: &yes}
		if len(dl.Rsv) > 0 {
			cfg.ReservedPoolNamespaces = append([]string{}, dl.Rsv...)
		}
		for _, dj := range dl.Defs {
			def := &bcfg.BalloonDef{Name: dj.Name, Namespaces: append([]string{}, dj.NSs...)}
			for _, e := range dj.Exprs {
				def.MatchExpressions = append(def.MatchExpressions,
					resmgr.Expression{Key: e.Key, Op: resmgr.Operator(e.Op), Values: append([]string{}, e.Vals...)})
			}
			cfg.BalloonDefs = append(cfg.BalloonDefs, def)
		}
		d.cur.Store(fmt.Sprintf("balloons setup deflist %d", di))
		// the configuration goes through the same validation the agent applies before it reaches the policy
		if err := cfg.Validate(); err != nil {
			return fmt.Errorf("deflist %d: configuration rejected by Validate: %v", di, err)
		}
		be := balloons.New()
		if err := be.Setup(&policyapi.BackendOptions{Cache: cch, System: sys, Config: cfg,
			SendEvent: func(interface{}) error { return nil }}); err != nil {
			return fmt.Errorf("deflist %d: Setup failed: %v", di, err)
		}
		if err := be.Start(); err != nil {
			return fmt.Errorf("deflist %d: Start failed: %v", di, err)
		}
		eff := balloons.VerifEffectiveDefNames(be)
		for ci, c := range ctrs {
			d.cur.Store(fmt.Sprintf("choose deflist %d container %d", di, ci))
			rec := tr.M{"ev": "choose", "i": d.idx, "name": "", "err": false, "panic": false, "eff": eff}
			func() {
				defer func() {
					if r := recover(); r != nil {
						rec["panic"] = true
					}
				}()
				name, err := balloons.VerifChooseBalloonDef(be, c)
				rec["name"], rec["err"] = name, err != nil
			}()
			land := tr.M{"done": false, "name": "", "err": false, "panic": false}
			if dl.E2E {
				land["done"] = true
				func() {
					defer func() {
						if r := recover(); r != nil {
							land["panic"] = true
						}
					}()
					if err := be.AllocateResources(c); err != nil {
						land["err"] = true
						land["msg"] = err.Error()
						return
					}
					for _, z := range be.GetTopologyZones() {
						if z.Type == policyapi.ContainerAllocationZoneType && z.Name == c.PrettyName() {
							parent := z.Parent
							if k := strings.LastIndex(parent, "["); k >= 0 {
								parent = parent[:k]
							}
							land["name"] = parent
						}
					}
					if err := be.ReleaseResources(c); err != nil {
						land["relerr"] = err.Error()
					}
				}()
			}
			rec["land"] = land
			d.emit(rec)
			d.idx++
			d.beat.Add(1)
		}
	}
	return nil
}

// ---------------------------------------------------------------------------------------------

func (d *driver) header() {
	glob := make([][]interface{}, 0, len(d.dom.Pairs))
	for _, p := range d.dom.Pairs {
		m, err := filepath.Match(p[0], p[1])
		glob = append(glob, []interface{}{p[0], p[1], err == nil && m})
	}
	d.emit(tr.M{"ev": "hdr", "glob": glob, "total": d.dom.Total})
}

// watchdog: a call into the real code that does not return is recorded as a "hang" line (the trace then ends)
func (d *driver) watchdog(limit time.Duration) {
	last, since := d.beat.Load(), time.Now()
	for {
		time.Sleep(500 * time.Millisecond)
		if b := d.beat.Load(); b != last {
			last, since = b, time.Now()
			continue
		}
		if time.Since(since) > limit {
			cur, _ := d.cur.Load().(string)
			d.emit(tr.M{"ev": "hang", "i": d.idx, "what": cur})
			d.mu.Lock()
			d.w.Close()
			os.Exit(0)
		}
	}
}

// Main: exprdrv --dom dom.json --out trace.ndjson --scratch dir
func Main(args []string) error {
	fs := flag.NewFlagSet("exprdrv", flag.ContinueOnError)
	domPath := fs.String("dom", "", "domain file written by ExprGen (TLC)")
	out := fs.String("out", "", "ndjson trace to write")
	scratch := fs.String("scratch", "", "scratch directory (cache state, synthetic sysfs)")
	hang := fs.Duration("hang", 30*time.Second, "a call that takes longer is recorded as a hang")
	if err := fs.Parse(args); err != nil {
		return err
	}
	if *domPath == "" || *out == "" || *scratch == "" {
		return fmt.Errorf("--dom, --out and --scratch are required")
	}
	logger.SetLevel(logger.LevelPanic)
	kubernetes.SetMemoryCapacity(16 << 30)

	d := &driver{scratch: *scratch}
	b, err := os.ReadFile(*domPath)
	if err != nil {
		return err
	}
	if err := json.Unmarshal(b, &d.dom); err != nil {
		return fmt.Errorf("%s: %v", *domPath, err)
	}
	if err := os.MkdirAll(*scratch, 0o755); err != nil {
		return err
	}
	if d.w, err = tr.NewWriter(*out); err != nil {
		return err
	}
	d.cur.Store("start")
	go d.watchdog(*hang)

	d.header()
	if err := d.runEval(); err != nil {
		return fmt.Errorf("eval section: %v", err)
	}
	if err := d.runWeights(); err != nil {
		return fmt.Errorf("weight section: %v", err)
	}
	if err := d.runChoose(); err != nil {
		return fmt.Errorf("choose section: %v", err)
	}
	d.mu.Lock()
	defer d.mu.Unlock()
	if d.idx != d.dom.Total {
		return fmt.Errorf("%d records written, domain has %d", d.idx, d.dom.Total)
	}
	return d.w.Close()
}
