package exprdrv

import (
	"fmt"
	"os"
	"path/filepath"
)

// writeTinySysfs writes a minimal synthetic sysfs tree (1 package, 1 die, 1 NUMA node, 4 cores x 2 threads)
// that pkg/sysfs discovery, the balloons CPU tree (needs L2 cache indexes) and libmem accept.
// Balloon-type selection does not depend on the machine; the tree only has to let Setup() succeed.
func writeTinySysfs(root string) error {
	const ncpu = 8
	w := func(rel, content string) error {
		p := filepath.Join(root, rel)
		if err := os.MkdirAll(filepath.Dir(p), 0o755); err != nil {
			return err
		}
		return os.WriteFile(p, []byte(content+"\n"), 0o644)
	}
	all := fmt.Sprintf("0-%d", ncpu-1)
	files := map[string]string{
		"sys/devices/system/cpu/possible":           all,
		"sys/devices/system/cpu/present":            all,
		"sys/devices/system/cpu/online":             all,
		"sys/devices/system/cpu/isolated":           "",
		"sys/devices/system/cpu/offline":            "",
		"sys/devices/system/node/online":            "0",
		"sys/devices/system/node/possible":          "0",
		"sys/devices/system/node/has_memory":        "0",
		"sys/devices/system/node/has_normal_memory": "0",
		"sys/devices/system/node/has_cpu":           "0",
		"sys/devices/system/node/node0/cpulist":     all,
		"sys/devices/system/node/node0/distance":    "10",
		"sys/devices/system/node/node0/meminfo": "Node 0 MemTotal:       16777216 kB\nNode 0 MemFree:        14680064 kB\n" +
			"Node 0 MemUsed:         2097152 kB",
	}
	for rel, c := range files {
		if err := w(rel, c); err != nil {
			return err
		}
	}
	for cpu := 0; cpu < ncpu; cpu++ {
		core := cpu / 2
		sib := fmt.Sprintf("%d-%d", core*2, core*2+1)
		d := fmt.Sprintf("sys/devices/system/cpu/cpu%d/", cpu)
		cf := map[string]string{
			d + "online":                        "1",
			d + "topology/physical_package_id":  "0",
			d + "topology/die_id":               "0",
			d + "topology/cluster_id":           fmt.Sprint(core),
			d + "topology/core_id":              fmt.Sprint(core),
			d + "topology/core_cpus_list":       sib,
			d + "topology/thread_siblings_list": sib,
			d + "topology/core_siblings_list":   all,
			d + "topology/die_cpus_list":        all,
			d + "topology/package_cpus_list":    all,
			d + "cpufreq/cpuinfo_min_freq":      "800000",
			d + "cpufreq/cpuinfo_max_freq":      "3000000",
			d + "cpufreq/base_frequency":        "2000000",
		}
		caches := []struct {
			idx         int
			level, kind string
			shared      string
			id          int
			size        string
		}{
			{0, "1", "Data", sib, core, "32K"},
			{1, "1", "Instruction", sib, core, "32K"},
			{2, "2", "Unified", sib, core, "1024K"},
			{3, "3", "Unified", all, 0, "16384K"},
		}
		for _, c := range caches {
			cd := fmt.Sprintf("%scache/index%d/", d, c.idx)
			cf[cd+"id"] = fmt.Sprint(c.id)
			cf[cd+"level"] = c.level
			cf[cd+"type"] = c.kind
			cf[cd+"shared_cpu_list"] = c.shared
			cf[cd+"size"] = c.size
		}
		for rel, c := range cf {
			if err := w(rel, c); err != nil {
				return err
			}
		}
		if err := os.MkdirAll(filepath.Join(root, d, "node0"), 0o755); err != nil {
			return err
		}
	}
	return nil
}
