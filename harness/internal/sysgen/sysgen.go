// Package sysgen writes synthetic sysfs trees (sys/devices/system/{cpu,node}/...) from a
// machine description, so that pkg/sysfs discovery and the policies can be run on machines
// that no recorded fixture provides (several dies, sub-NUMA clustering, CPU-less PMEM/HBM
// nodes, memory-less CPU nodes, offline and isolated CPUs, hyperthreading on/off).
//
// The description is the JSON shape of DESIGN.md Appendix B:
//
//	{"name":"T1","packages":[{"id":0,"dies":[{"id":0,"nodes":[
//	    {"id":0,"mem":"4G","normal":true,"type":"dram","cores":[{"id":0,"cpus":[0,1]},{"id":1,"cpus":[2,3]}]}, ...]}]}],
//	 "cpuless_nodes":[{"id":2,"mem":"8G","type":"pmem","normal":false}],
//	 "distance":[[10,21,17],[21,10,28],[17,28,10]],"offline":[],"isolated":[7]}
//
// What is written mirrors what a Linux kernel shows (and what pkg/sysfs reads):
//   - cpu/{possible,present,online,offline,isolated}; possible = present = all CPUs of the description
//   - cpu/cpuN/nodeM (a directory: discovery globs for node[0-9]*) for every CPU, online or not
//   - for ONLINE CPUs only: cpuN/topology/{physical_package_id,die_id,cluster_id,core_id,core_cpus_list,
//     thread_siblings_list} and cpuN/cache/index{0,1,2,3}/{id,level,type,shared_cpu_list,size}; sibling/sharing
//     lists contain online CPUs only (WriteExtras adds the files pkg/sysfs does not read)
//   - node/{possible,online,has_cpu,has_memory,has_normal_memory}, node/nodeN/{cpulist (online CPUs),distance,meminfo}
//
// pkg/sysfs decides the memory type of a node by a heuristic (pkg/sysfs/system.go discoverNodes): a node with
// (online) CPUs is DRAM; a node without CPUs that is listed in has_memory is PMEM when its MemTotal is >= the
// average MemTotal of the DRAM nodes that have memory, otherwise HBM.  Validate() checks that the declared
// types of the description agree with that rule, so that "type" in a description is what discovery must report.
package sysgen

import (
	"encoding/json"
	"fmt"
	"os"
	"path/filepath"
	"sort"
	"strconv"
	"strings"
)

// Size is a memory size in bytes; JSON form is a string like "4G", "512M", "64K" or "0".
type Size uint64

const (
	KiB Size = 1 << 10
	MiB Size = 1 << 20
	GiB Size = 1 << 30
)

func (s Size) String() string {
	switch {
	case s == 0:
		return "0"
	case s%GiB == 0:
		return fmt.Sprintf("%dG", uint64(s/GiB))
	case s%MiB == 0:
		return fmt.Sprintf("%dM", uint64(s/MiB))
	case s%KiB == 0:
		return fmt.Sprintf("%dK", uint64(s/KiB))
	}
	return strconv.FormatUint(uint64(s), 10)
}

// MiB returns the size in MiB (rounded down).
func (s Size) MiB() int { return int(s / MiB) }

func (s Size) MarshalJSON() ([]byte, error) { return json.Marshal(s.String()) }

func (s *Size) UnmarshalJSON(b []byte) error {
	var str string
	if len(b) > 0 && b[0] == '"' {
		if err := json.Unmarshal(b, &str); err != nil {
			return err
		}
	} else {
		str = string(b)
	}
	v, err := ParseSize(str)
	if err != nil {
		return err
	}
	*s = v
	return nil
}

// ParseSize parses "4G", "512M", "64K", "1T" or a plain number of bytes.
func ParseSize(str string) (Size, error) {
	str = strings.TrimSpace(str)
	if str == "" {
		return 0, nil
	}
	mult := uint64(1)
	switch str[len(str)-1] {
	case 'K', 'k':
		mult, str = 1<<10, str[:len(str)-1]
	case 'M':
		mult, str = 1<<20, str[:len(str)-1]
	case 'G':
		mult, str = 1<<30, str[:len(str)-1]
	case 'T':
		mult, str = 1<<40, str[:len(str)-1]
	}
	v, err := strconv.ParseUint(str, 10, 64)
	if err != nil {
		return 0, fmt.Errorf("sysgen: bad size %q: %v", str, err)
	}
	return Size(v * mult), nil
}

// Memory types of a description.
const (
	DRAM = "dram"
	PMEM = "pmem"
	HBM  = "hbm"
)

// Machine is the description of one machine.
type Machine struct {
	Name     string    `json:"name"`
	Packages []Package `json:"packages"`
	CPUless  []MemNode `json:"cpuless_nodes"`
	// Distance is the NUMA distance matrix, indexed by the position of the node id in the sorted
	// list of all node ids (= the node id itself when ids are 0..n-1).  nil: DefaultDistance().
	Distance [][]int `json:"distance,omitempty"`
	Offline  []int   `json:"offline"`
	Isolated []int   `json:"isolated"`
	// LLCGroups lists the CPU groups that share a last-level (L3) cache.  nil: one group per die.
	LLCGroups [][]int `json:"llc_groups,omitempty"`
	// CoreKinds optionally lists hybrid core kinds: "performance" and/or "efficient" -> CPUs
	// (written to sys/devices/cpu_core/cpus and sys/devices/cpu_atom/cpus).  Empty: files absent.
	CoreKinds map[string][]int `json:"core_kinds,omitempty"`
}

// Package is a CPU socket.
type Package struct {
	ID   int   `json:"id"`
	Dies []Die `json:"dies"`
}

// Die is a die of a package (die ids are per package, like in sysfs).
type Die struct {
	ID    int    `json:"id"`
	Nodes []Node `json:"nodes"`
}

// Node is a NUMA node with CPUs.  Mem may be 0 (memory-less CPU node).
type Node struct {
	ID     int    `json:"id"`
	Mem    Size   `json:"mem"`
	Free   *Size  `json:"free,omitempty"` // MemFree; nil: 7/8 of Mem
	Normal bool   `json:"normal"`
	Type   string `json:"type"` // always "dram" for nodes with CPUs
	Cores  []Core `json:"cores"`
}

// Core is a physical core (core ids are per package, like in sysfs); CPUs are its hardware threads.
type Core struct {
	ID      int   `json:"id"`
	CPUs    []int `json:"cpus"`
	Cluster *int  `json:"cluster,omitempty"` // cluster_id; nil: the core id
}

// MemNode is a NUMA node without CPUs (PMEM or HBM).
type MemNode struct {
	ID     int    `json:"id"`
	Mem    Size   `json:"mem"`
	Free   *Size  `json:"free,omitempty"`
	Type   string `json:"type"`   // "pmem" or "hbm"
	Normal bool   `json:"normal"` // false: movable memory only (not in has_normal_memory)
	// Near lists the CPU-bearing nodes this node is attached to; only used by DefaultDistance().
	Near []int `json:"near,omitempty"`
}

// ---------------------------------------------------------------------------------------------
// flat views

// CPUInfo is the flattened description of one CPU.
type CPUInfo struct {
	ID, Package, Die, Node, Core, Cluster int
	Online, Isolated                      bool
	Threads                               []int // online hardware threads of the same core (incl. itself if online)
	AllThreads                            []int // all hardware threads of the core
}

// NodeInfo is the flattened description of one NUMA node.
type NodeInfo struct {
	ID       int
	Package  int // -1 for CPU-less nodes
	Die      int // -1 for CPU-less nodes
	Mem      Size
	Free     Size
	Normal   bool
	Type     string
	CPUs     []int // all CPUs of the node
	Online   []int // online CPUs of the node (the content of cpulist)
	Distance []int // row of the distance matrix
}

func sortedCopy(in []int) []int {
	out := append([]int{}, in...)
	sort.Ints(out)
	return out
}

func toSet(in []int) map[int]bool {
	s := map[int]bool{}
	for _, v := range in {
		s[v] = true
	}
	return s
}

// CPUs returns the flattened CPU table sorted by CPU id.
func (m *Machine) CPUs() []CPUInfo {
	off, iso := toSet(m.Offline), toSet(m.Isolated)
	var out []CPUInfo
	for _, p := range m.Packages {
		for _, d := range p.Dies {
			for _, n := range d.Nodes {
				for _, c := range n.Cores {
					cl := c.ID
					if c.Cluster != nil {
						cl = *c.Cluster
					}
					var on []int
					for _, id := range c.CPUs {
						if !off[id] {
							on = append(on, id)
						}
					}
					for _, id := range c.CPUs {
						out = append(out, CPUInfo{ID: id, Package: p.ID, Die: d.ID, Node: n.ID, Core: c.ID, Cluster: cl,
							Online: !off[id], Isolated: iso[id], Threads: sortedCopy(on), AllThreads: sortedCopy(c.CPUs)})
					}
				}
			}
		}
	}
	sort.Slice(out, func(i, j int) bool { return out[i].ID < out[j].ID })
	return out
}

// CPUIDs returns all CPU ids, sorted.
func (m *Machine) CPUIDs() []int {
	var ids []int
	for _, c := range m.CPUs() {
		ids = append(ids, c.ID)
	}
	return ids
}

// OnlineCPUs returns the online CPU ids, sorted.
func (m *Machine) OnlineCPUs() []int {
	ids := []int{}
	for _, c := range m.CPUs() {
		if c.Online {
			ids = append(ids, c.ID)
		}
	}
	return ids
}

// NodeIDs returns all NUMA node ids, sorted.
func (m *Machine) NodeIDs() []int {
	var ids []int
	for _, p := range m.Packages {
		for _, d := range p.Dies {
			for _, n := range d.Nodes {
				ids = append(ids, n.ID)
			}
		}
	}
	for _, n := range m.CPUless {
		ids = append(ids, n.ID)
	}
	sort.Ints(ids)
	return ids
}

// Nodes returns the flattened node table sorted by node id.
func (m *Machine) Nodes() []NodeInfo {
	off := toSet(m.Offline)
	ids := m.NodeIDs()
	idx := map[int]int{}
	for i, id := range ids {
		idx[id] = i
	}
	dist := m.Distance
	if dist == nil {
		dist = m.DefaultDistance()
	}
	free := func(mem Size, f *Size) Size {
		if f != nil {
			return *f
		}
		return mem - mem/8
	}
	var out []NodeInfo
	for _, p := range m.Packages {
		for _, d := range p.Dies {
			for _, n := range d.Nodes {
				ni := NodeInfo{ID: n.ID, Package: p.ID, Die: d.ID, Mem: n.Mem, Free: free(n.Mem, n.Free), Normal: n.Normal && n.Mem > 0,
					Type: DRAM, CPUs: []int{}, Online: []int{}}
				for _, c := range n.Cores {
					for _, id := range c.CPUs {
						ni.CPUs = append(ni.CPUs, id)
						if !off[id] {
							ni.Online = append(ni.Online, id)
						}
					}
				}
				sort.Ints(ni.CPUs)
				sort.Ints(ni.Online)
				out = append(out, ni)
			}
		}
	}
	for _, n := range m.CPUless {
		out = append(out, NodeInfo{ID: n.ID, Package: -1, Die: -1, Mem: n.Mem, Free: free(n.Mem, n.Free), Normal: n.Normal && n.Mem > 0,
			Type: n.Type, CPUs: []int{}, Online: []int{}})
	}
	sort.Slice(out, func(i, j int) bool { return out[i].ID < out[j].ID })
	for i := range out {
		if k, ok := idx[out[i].ID]; ok && k < len(dist) {
			out[i].Distance = append([]int{}, dist[k]...)
		}
	}
	return out
}

// DefaultDistance derives a symmetric distance matrix: 10 to itself, 11 within a die, 21 within a
// package, 31 across packages; a CPU-less node is at 17 from the nodes in its Near list (default:
// the lowest CPU-bearing node id) and at 28 from every other node.
func (m *Machine) DefaultDistance() [][]int {
	ids := m.NodeIDs()
	idx := map[int]int{}
	for i, id := range ids {
		idx[id] = i
	}
	type loc struct{ pkg, die int }
	where := map[int]loc{}
	first := -1
	for _, p := range m.Packages {
		for _, d := range p.Dies {
			for _, n := range d.Nodes {
				where[n.ID] = loc{p.ID, d.ID}
				if first < 0 || n.ID < first {
					first = n.ID
				}
			}
		}
	}
	near := map[int]map[int]bool{}
	for _, n := range m.CPUless {
		nn := n.Near
		if len(nn) == 0 && first >= 0 {
			nn = []int{first}
		}
		near[n.ID] = toSet(nn)
	}
	d := make([][]int, len(ids))
	for i, a := range ids {
		d[i] = make([]int, len(ids))
		for j, b := range ids {
			la, aok := where[a]
			lb, bok := where[b]
			switch {
			case a == b:
				d[i][j] = 10
			case aok && bok && la == lb:
				d[i][j] = 11
			case aok && bok && la.pkg == lb.pkg:
				d[i][j] = 21
			case aok && bok:
				d[i][j] = 31
			case !aok && bok && near[a][b], aok && !bok && near[b][a]:
				d[i][j] = 17
			default:
				d[i][j] = 28
			}
		}
	}
	return d
}

// DramAvg is the threshold pkg/sysfs uses to tell PMEM (>=) from HBM (<): the sum of MemTotal of the
// nodes with online CPUs divided by the number of such nodes that have memory.  0 if undefined.
func (m *Machine) DramAvg() Size {
	var total Size
	cnt := 0
	for _, n := range m.Nodes() {
		if len(n.Online) > 0 {
			total += n.Mem
			if n.Mem > 0 {
				cnt++
			}
		}
	}
	if cnt == 0 {
		return 0
	}
	return total / Size(cnt)
}

// Validate checks that the description is one pkg/sysfs can represent and that the declared memory
// types agree with the discovery heuristic.
func (m *Machine) Validate() error {
	seenCPU, seenNode := map[int]bool{}, map[int]bool{}
	if len(m.Packages) == 0 {
		return fmt.Errorf("sysgen: %s: no packages", m.Name)
	}
	seenPkg := map[int]bool{}
	for _, p := range m.Packages {
		if seenPkg[p.ID] {
			return fmt.Errorf("sysgen: %s: duplicate package %d", m.Name, p.ID)
		}
		seenPkg[p.ID] = true
		seenDie, seenCore := map[int]bool{}, map[int]bool{}
		if len(p.Dies) == 0 {
			return fmt.Errorf("sysgen: %s: package %d without dies", m.Name, p.ID)
		}
		for _, d := range p.Dies {
			if seenDie[d.ID] {
				return fmt.Errorf("sysgen: %s: duplicate die %d in package %d", m.Name, d.ID, p.ID)
			}
			seenDie[d.ID] = true
			if len(d.Nodes) == 0 {
				return fmt.Errorf("sysgen: %s: die %d/%d without nodes", m.Name, p.ID, d.ID)
			}
			for _, n := range d.Nodes {
				if seenNode[n.ID] {
					return fmt.Errorf("sysgen: %s: duplicate node %d", m.Name, n.ID)
				}
				seenNode[n.ID] = true
				if n.Type != "" && n.Type != DRAM {
					return fmt.Errorf("sysgen: %s: node %d has CPUs, its type must be dram", m.Name, n.ID)
				}
				if len(n.Cores) == 0 {
					return fmt.Errorf("sysgen: %s: node %d without cores (use cpuless_nodes)", m.Name, n.ID)
				}
				for _, c := range n.Cores {
					if seenCore[c.ID] {
						return fmt.Errorf("sysgen: %s: duplicate core %d in package %d", m.Name, c.ID, p.ID)
					}
					seenCore[c.ID] = true
					if len(c.CPUs) == 0 {
						return fmt.Errorf("sysgen: %s: core %d without cpus", m.Name, c.ID)
					}
					for _, id := range c.CPUs {
						if id < 0 || seenCPU[id] {
							return fmt.Errorf("sysgen: %s: bad or duplicate cpu %d", m.Name, id)
						}
						seenCPU[id] = true
					}
				}
			}
		}
	}
	for _, n := range m.CPUless {
		if seenNode[n.ID] {
			return fmt.Errorf("sysgen: %s: duplicate node %d", m.Name, n.ID)
		}
		seenNode[n.ID] = true
		if n.Mem == 0 {
			return fmt.Errorf("sysgen: %s: node %d has neither CPUs nor memory (discovery rejects such nodes)", m.Name, n.ID)
		}
		if n.Type != PMEM && n.Type != HBM {
			return fmt.Errorf("sysgen: %s: cpuless node %d: type must be pmem or hbm", m.Name, n.ID)
		}
	}
	for _, id := range m.Offline {
		if !seenCPU[id] {
			return fmt.Errorf("sysgen: %s: offline cpu %d does not exist", m.Name, id)
		}
	}
	off := toSet(m.Offline)
	for _, id := range m.Isolated {
		if !seenCPU[id] || off[id] {
			return fmt.Errorf("sysgen: %s: isolated cpu %d does not exist or is offline", m.Name, id)
		}
	}
	nodes := m.Nodes()
	dramWithMem := 0
	for _, n := range nodes {
		if n.Package >= 0 && len(n.Online) == 0 {
			return fmt.Errorf("sysgen: %s: all CPUs of node %d are offline (it would be discovered as a CPU-less node)", m.Name, n.ID)
		}
		if n.Package >= 0 && n.Mem > 0 {
			dramWithMem++
		}
		if n.Free > n.Mem {
			return fmt.Errorf("sysgen: %s: node %d: more free than total memory", m.Name, n.ID)
		}
		if n.Mem%KiB != 0 {
			return fmt.Errorf("sysgen: %s: node %d: memory must be a multiple of 1K", m.Name, n.ID)
		}
	}
	if dramWithMem == 0 {
		return fmt.Errorf("sysgen: %s: no CPU-bearing node has memory", m.Name)
	}
	avg := m.DramAvg()
	for _, n := range m.CPUless {
		if n.Type == PMEM && n.Mem < avg {
			return fmt.Errorf("sysgen: %s: node %d declared pmem but %s < average DRAM node %s (discovered as HBM)", m.Name, n.ID, n.Mem, avg)
		}
		if n.Type == HBM && n.Mem >= avg {
			return fmt.Errorf("sysgen: %s: node %d declared hbm but %s >= average DRAM node %s (discovered as PMEM)", m.Name, n.ID, n.Mem, avg)
		}
	}
	ids := m.NodeIDs()
	if m.Distance != nil {
		if len(m.Distance) != len(ids) {
			return fmt.Errorf("sysgen: %s: distance matrix has %d rows, %d nodes", m.Name, len(m.Distance), len(ids))
		}
		for i, row := range m.Distance {
			if len(row) != len(ids) {
				return fmt.Errorf("sysgen: %s: distance row %d has %d entries, %d nodes", m.Name, i, len(row), len(ids))
			}
		}
	}
	if m.LLCGroups != nil {
		cnt := map[int]int{}
		for _, g := range m.LLCGroups {
			for _, id := range g {
				cnt[id]++
			}
		}
		for id := range seenCPU {
			if cnt[id] != 1 {
				return fmt.Errorf("sysgen: %s: cpu %d is in %d llc_groups", m.Name, id, cnt[id])
			}
		}
	}
	return nil
}

// ---------------------------------------------------------------------------------------------
// caches

// CacheInfo describes one cache index of a CPU as written to sysfs.
type CacheInfo struct {
	Index  int    `json:"index"`
	ID     int    `json:"id"`
	Level  int    `json:"level"`
	Type   string `json:"type"` // Data, Instruction, Unified
	Size   string `json:"size"` // e.g. 32K
	Shared []int  `json:"shared"`
}

// Caches returns, for every ONLINE CPU, the four cache indexes written to sysfs: L1d, L1i and L2 shared by the
// online threads of the core, L3 shared by the online CPUs of the CPU's LLC group (default: its die).
func (m *Machine) Caches() map[int][]CacheInfo {
	cpus := m.CPUs()
	off := toSet(m.Offline)
	coreIdx := map[[2]int]int{} // (package, core) -> global core index
	groupOf := map[int]int{}    // cpu -> llc group index
	groups := map[int][]int{}   // group index -> online cpus
	if m.LLCGroups != nil {
		for gi, g := range m.LLCGroups {
			for _, id := range g {
				groupOf[id] = gi
			}
		}
	} else {
		dieIdx := map[[2]int]int{}
		for _, p := range m.Packages {
			for _, d := range p.Dies {
				dieIdx[[2]int{p.ID, d.ID}] = len(dieIdx)
			}
		}
		for _, c := range cpus {
			groupOf[c.ID] = dieIdx[[2]int{c.Package, c.Die}]
		}
	}
	for _, p := range m.Packages {
		for _, d := range p.Dies {
			for _, n := range d.Nodes {
				for _, c := range n.Cores {
					coreIdx[[2]int{p.ID, c.ID}] = len(coreIdx)
				}
			}
		}
	}
	for _, c := range cpus {
		if !off[c.ID] {
			groups[groupOf[c.ID]] = append(groups[groupOf[c.ID]], c.ID)
		}
	}
	out := map[int][]CacheInfo{}
	for _, c := range cpus {
		if !c.Online {
			continue
		}
		ci := coreIdx[[2]int{c.Package, c.Core}]
		out[c.ID] = []CacheInfo{
			{Index: 0, ID: ci, Level: 1, Type: "Data", Size: "48K", Shared: c.Threads},
			{Index: 1, ID: ci, Level: 1, Type: "Instruction", Size: "32K", Shared: c.Threads},
			{Index: 2, ID: ci, Level: 2, Type: "Unified", Size: "2048K", Shared: c.Threads},
			{Index: 3, ID: groupOf[c.ID], Level: 3, Type: "Unified", Size: "30720K", Shared: sortedCopy(groups[groupOf[c.ID]])},
		}
	}
	return out
}

// ---------------------------------------------------------------------------------------------
// writing

// ListString formats a sorted id list the way the kernel prints cpu/node lists ("0-3,8,10-11").
func ListString(ids []int) string {
	ids = sortedCopy(ids)
	var sb strings.Builder
	for i := 0; i < len(ids); {
		j := i
		for j+1 < len(ids) && ids[j+1] == ids[j]+1 {
			j++
		}
		if sb.Len() > 0 {
			sb.WriteByte(',')
		}
		if j > i {
			fmt.Fprintf(&sb, "%d-%d", ids[i], ids[j])
		} else {
			fmt.Fprintf(&sb, "%d", ids[i])
		}
		i = j + 1
	}
	return sb.String()
}

type writer struct {
	err error
}

func (w *writer) file(path, content string) {
	if w.err != nil {
		return
	}
	if err := os.MkdirAll(filepath.Dir(path), 0o755); err != nil {
		w.err = err
		return
	}
	w.err = os.WriteFile(path, []byte(content+"\n"), 0o644)
}

func (w *writer) dir(path string) {
	if w.err != nil {
		return
	}
	w.err = os.MkdirAll(path, 0o755)
}

// WriteExtras makes Write also create files that pkg/sysfs never reads (cpuN/online, topology/{core_siblings_list,
// package_cpus_list,die_cpus_list}, cache/indexK/coherency_line_size, cpu/kernel_max).  Off by default: file creation
// dominates the cost of a generated machine.
var WriteExtras = false

// SysDir returns the directory to hand to sysfs.DiscoverSystemAt for a tree written at root.
func SysDir(root string) string { return filepath.Join(root, "sys") }

// Write validates the description and creates <root>/sys/devices/system/{cpu,node}/... .
func (m *Machine) Write(root string) error {
	if err := m.Validate(); err != nil {
		return err
	}
	w := &writer{}
	cpus := m.CPUs()
	nodes := m.Nodes()
	caches := m.Caches()
	cpuBase := filepath.Join(root, "sys", "devices", "system", "cpu")
	nodeBase := filepath.Join(root, "sys", "devices", "system", "node")

	var all, online, offline, isolated []int
	pkgCPUs, dieCPUs := map[int][]int{}, map[[2]int][]int{}
	for _, c := range cpus {
		all = append(all, c.ID)
		if c.Online {
			online = append(online, c.ID)
			pkgCPUs[c.Package] = append(pkgCPUs[c.Package], c.ID)
			dieCPUs[[2]int{c.Package, c.Die}] = append(dieCPUs[[2]int{c.Package, c.Die}], c.ID)
		} else {
			offline = append(offline, c.ID)
		}
		if c.Isolated {
			isolated = append(isolated, c.ID)
		}
	}
	w.file(filepath.Join(cpuBase, "possible"), ListString(all))
	w.file(filepath.Join(cpuBase, "present"), ListString(all))
	w.file(filepath.Join(cpuBase, "online"), ListString(online))
	w.file(filepath.Join(cpuBase, "offline"), ListString(offline))
	w.file(filepath.Join(cpuBase, "isolated"), ListString(isolated))
	if WriteExtras {
		w.file(filepath.Join(cpuBase, "kernel_max"), strconv.Itoa(maxOf(all)))
	}

	for _, c := range cpus {
		cd := filepath.Join(cpuBase, fmt.Sprintf("cpu%d", c.ID))
		w.dir(filepath.Join(cd, fmt.Sprintf("node%d", c.Node)))
		if WriteExtras {
			w.file(filepath.Join(cd, "online"), map[bool]string{true: "1", false: "0"}[c.Online])
		}
		if !c.Online {
			continue // the kernel removes topology/ and cache/ of an offline CPU
		}
		td := filepath.Join(cd, "topology")
		w.file(filepath.Join(td, "physical_package_id"), strconv.Itoa(c.Package))
		w.file(filepath.Join(td, "die_id"), strconv.Itoa(c.Die))
		w.file(filepath.Join(td, "cluster_id"), strconv.Itoa(c.Cluster))
		w.file(filepath.Join(td, "core_id"), strconv.Itoa(c.Core))
		w.file(filepath.Join(td, "core_cpus_list"), ListString(c.Threads))
		w.file(filepath.Join(td, "thread_siblings_list"), ListString(c.Threads))
		if WriteExtras {
			w.file(filepath.Join(td, "core_siblings_list"), ListString(pkgCPUs[c.Package]))
			w.file(filepath.Join(td, "package_cpus_list"), ListString(pkgCPUs[c.Package]))
			w.file(filepath.Join(td, "die_cpus_list"), ListString(dieCPUs[[2]int{c.Package, c.Die}]))
		}
		for _, ch := range caches[c.ID] {
			id := filepath.Join(cd, "cache", fmt.Sprintf("index%d", ch.Index))
			w.file(filepath.Join(id, "id"), strconv.Itoa(ch.ID))
			w.file(filepath.Join(id, "level"), strconv.Itoa(ch.Level))
			w.file(filepath.Join(id, "type"), ch.Type)
			w.file(filepath.Join(id, "size"), ch.Size)
			w.file(filepath.Join(id, "shared_cpu_list"), ListString(ch.Shared))
			if WriteExtras {
				w.file(filepath.Join(id, "coherency_line_size"), "64")
			}
		}
	}

	var nids, hasCPU, hasMem, hasNormal []int
	for _, n := range nodes {
		nids = append(nids, n.ID)
		if len(n.Online) > 0 {
			hasCPU = append(hasCPU, n.ID)
		}
		if n.Mem > 0 {
			hasMem = append(hasMem, n.ID)
			if n.Normal {
				hasNormal = append(hasNormal, n.ID)
			}
		}
	}
	w.file(filepath.Join(nodeBase, "possible"), ListString(nids))
	w.file(filepath.Join(nodeBase, "online"), ListString(nids))
	w.file(filepath.Join(nodeBase, "has_cpu"), ListString(hasCPU))
	w.file(filepath.Join(nodeBase, "has_memory"), ListString(hasMem))
	w.file(filepath.Join(nodeBase, "has_normal_memory"), ListString(hasNormal))
	for _, n := range nodes {
		nd := filepath.Join(nodeBase, fmt.Sprintf("node%d", n.ID))
		w.file(filepath.Join(nd, "cpulist"), ListString(n.Online))
		ds := make([]string, len(n.Distance))
		for i, d := range n.Distance {
			ds[i] = strconv.Itoa(d)
		}
		w.file(filepath.Join(nd, "distance"), strings.Join(ds, " "))
		// pkg/sysfs parses "Node <id> <key>: <value> kB" lines and stops after MemTotal and MemFree
		w.file(filepath.Join(nd, "meminfo"), fmt.Sprintf(
			"Node %d MemTotal:       %d kB\nNode %d MemFree:        %d kB\nNode %d MemUsed:        %d kB",
			n.ID, uint64(n.Mem/KiB), n.ID, uint64(n.Free/KiB), n.ID, uint64((n.Mem-n.Free)/KiB)))
	}

	if len(m.CoreKinds) > 0 {
		if p, ok := m.CoreKinds["performance"]; ok {
			w.file(filepath.Join(root, "sys", "devices", "cpu_core", "cpus"), ListString(p))
		}
		if e, ok := m.CoreKinds["efficient"]; ok {
			w.file(filepath.Join(root, "sys", "devices", "cpu_atom", "cpus"), ListString(e))
		}
	}
	return w.err
}

func maxOf(ids []int) int {
	mx := 0
	for _, v := range ids {
		if v > mx {
			mx = v
		}
	}
	return mx
}

// JSON returns the compact JSON form of the description.
func (m *Machine) JSON() string {
	b, err := json.Marshal(m)
	if err != nil {
		panic(err)
	}
	return string(b)
}

// FromJSON parses a description.
func FromJSON(b []byte) (*Machine, error) {
	m := &Machine{}
	if err := json.Unmarshal(b, m); err != nil {
		return nil, err
	}
	if m.Offline == nil {
		m.Offline = []int{}
	}
	if m.Isolated == nil {
		m.Isolated = []int{}
	}
	if m.CPUless == nil {
		m.CPUless = []MemNode{}
	}
	return m, nil
}

// Load reads a description from a JSON file.
func Load(path string) (*Machine, error) {
	b, err := os.ReadFile(path)
	if err != nil {
		return nil, err
	}
	return FromJSON(b)
}

// Features summarises what kind of machine this is (used by vacuity guards).
type Features struct {
	Packages    int  `json:"packages"`
	MultiDie    bool `json:"multi_die"`   // some package has more than one die
	SNC         bool `json:"snc"`         // some die has more than one NUMA node
	PMEM        int  `json:"pmem"`        // CPU-less PMEM nodes
	HBM         int  `json:"hbm"`         // CPU-less HBM nodes
	Movable     int  `json:"movable"`     // nodes with memory but without normal memory
	MemlessCPU  int  `json:"memless_cpu"` // CPU nodes without memory
	Offline     int  `json:"offline"`
	Isolated    int  `json:"isolated"`
	HT          bool `json:"ht"`    // some core has more than one thread
	NoHT        bool `json:"no_ht"` // some core has exactly one thread
	CPUs        int  `json:"cpus"`
	Nodes       int  `json:"nodes"`
	TiedClosest bool `json:"tied_closest"` // some CPU-less node has several closest CPU-bearing nodes
}

// Features computes the feature summary.
func (m *Machine) Features() Features {
	f := Features{Packages: len(m.Packages), Offline: len(m.Offline), Isolated: len(m.Isolated)}
	for _, p := range m.Packages {
		if len(p.Dies) > 1 {
			f.MultiDie = true
		}
		for _, d := range p.Dies {
			if len(d.Nodes) > 1 {
				f.SNC = true
			}
			for _, n := range d.Nodes {
				if n.Mem == 0 {
					f.MemlessCPU++
				}
				for _, c := range n.Cores {
					if len(c.CPUs) > 1 {
						f.HT = true
					} else {
						f.NoHT = true
					}
					f.CPUs += len(c.CPUs)
				}
			}
		}
	}
	nodes := m.Nodes()
	f.Nodes = len(nodes)
	pos := map[int]int{}
	for i, n := range nodes {
		pos[n.ID] = i
	}
	for _, n := range nodes {
		if n.Mem > 0 && !n.Normal {
			f.Movable++
		}
		if n.Package >= 0 {
			continue
		}
		if n.Type == PMEM {
			f.PMEM++
		} else {
			f.HBM++
		}
		best, cnt := -1, 0
		for _, o := range nodes {
			if o.Package < 0 || len(o.Online) == 0 || pos[o.ID] >= len(n.Distance) {
				continue
			}
			d := n.Distance[pos[o.ID]]
			if best < 0 || d < best {
				best, cnt = d, 1
			} else if d == best {
				cnt++
			}
		}
		if cnt > 1 {
			f.TiedClosest = true
		}
	}
	return f
}
