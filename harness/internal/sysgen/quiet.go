package sysgen

import (
	"flag"
	"io"

	"k8s.io/klog/v2"
)

// Quiet silences the repository's logging (klog): nothing goes to stderr, everything else is discarded.
// Drivers that run thousands of discoveries call it once; messages printed directly to stderr by
// dependencies (e.g. goresctrl's "[ sst ] DEBUG") are not affected -- redirect fd 2 for those.
func Quiet() {
	fs := flag.NewFlagSet("klog", flag.ContinueOnError)
	klog.InitFlags(fs)
	_ = fs.Set("logtostderr", "false")
	_ = fs.Set("alsologtostderr", "false")
	_ = fs.Set("stderrthreshold", "FATAL")
	klog.SetOutput(io.Discard)
}
