package sysgen

import (
	"fmt"
	"math/rand"
	"sort"
)

// helper constructors -------------------------------------------------------------------------

func core(id int, cpus ...int) Core { return Core{ID: id, CPUs: cpus} }

func dnode(id int, mem Size, cores ...Core) Node {
	return Node{ID: id, Mem: mem, Normal: mem > 0, Type: DRAM, Cores: cores}
}

func pkg(id int, dies ...Die) Package { return Package{ID: id, Dies: dies} }

func die(id int, nodes ...Node) Die { return Die{ID: id, Nodes: nodes} }

// Builtins returns the named machines (fresh copies).
func Builtins() []*Machine {
	return []*Machine{t1(), t2(), t3(), t4(), t5(), t6(), t7(), t8(), t9(), t10()}
}

// Builtin returns a named machine.
func Builtin(name string) (*Machine, bool) {
	for _, m := range Builtins() {
		if m.Name == name {
			return m, true
		}
	}
	return nil, false
}

// T1: 1 socket, 2 NUMA nodes x 4 CPUs (2 cores x 2 threads), 1 CPU-less PMEM node closest to node 0.
func t1() *Machine {
	return &Machine{Name: "T1",
		Packages: []Package{pkg(0, die(0,
			dnode(0, 4*GiB, core(0, 0, 1), core(1, 2, 3)),
			dnode(1, 4*GiB, core(2, 4, 5), core(3, 6, 7))))},
		CPUless:  []MemNode{{ID: 2, Mem: 8 * GiB, Type: PMEM, Normal: false, Near: []int{0}}},
		Distance: [][]int{{10, 21, 17}, {21, 10, 28}, {17, 28, 10}},
		Offline:  []int{}, Isolated: []int{}}
}

// T10: T1's shape with every PMEM node holding normal (not movable-only) memory: the only kind of machine on which the
// topology-aware policy leaves cold start enabled.  One PMEM node next to each DRAM node.
func t10() *Machine {
	return &Machine{Name: "T10",
		Packages: []Package{pkg(0, die(0,
			dnode(0, 4*GiB, core(0, 0, 1), core(1, 2, 3)),
			dnode(1, 4*GiB, core(2, 4, 5), core(3, 6, 7))))},
		CPUless: []MemNode{{ID: 2, Mem: 8 * GiB, Type: PMEM, Normal: true, Near: []int{0}},
			{ID: 3, Mem: 8 * GiB, Type: PMEM, Normal: true, Near: []int{1}}},
		Distance: [][]int{{10, 21, 17, 28}, {21, 10, 28, 17}, {17, 28, 10, 28}, {28, 17, 28, 10}},
		Offline:  []int{}, Isolated: []int{}}
}

// T2: 2 sockets x 2 NUMA nodes x 2 CPUs (2 single-thread cores per node).
func t2() *Machine {
	return &Machine{Name: "T2",
		Packages: []Package{
			pkg(0, die(0, dnode(0, 2*GiB, core(0, 0), core(1, 1)), dnode(1, 2*GiB, core(2, 2), core(3, 3)))),
			pkg(1, die(0, dnode(2, 2*GiB, core(0, 4), core(1, 5)), dnode(3, 2*GiB, core(2, 6), core(3, 7))))},
		CPUless: []MemNode{}, Offline: []int{}, Isolated: []int{}}
}

// T3: 1 socket, 2 dies (one NUMA node each), hyperthreads numbered the Linux way (siblings n, n+4), CPU 7 isolated.
func t3() *Machine {
	return &Machine{Name: "T3",
		Packages: []Package{pkg(0,
			die(0, dnode(0, 4*GiB, core(0, 0, 4), core(1, 1, 5))),
			die(1, dnode(1, 4*GiB, core(2, 2, 6), core(3, 3, 7))))},
		CPUless: []MemNode{}, Offline: []int{}, Isolated: []int{7}}
}

// T4: a single NUMA node, 2 cores x 2 threads.
func t4() *Machine {
	return &Machine{Name: "T4",
		Packages: []Package{pkg(0, die(0, dnode(0, 8*GiB, core(0, 0, 1), core(1, 2, 3))))},
		CPUless:  []MemNode{}, Offline: []int{}, Isolated: []int{}}
}

// T5: 1 socket, 2 NUMA nodes x 4 CPUs, an HBM node next to each DRAM node and one movable PMEM node equally close to both.
func t5() *Machine {
	return &Machine{Name: "T5",
		Packages: []Package{pkg(0, die(0,
			dnode(0, 8*GiB, core(0, 0, 1), core(1, 2, 3)),
			dnode(1, 8*GiB, core(2, 4, 5), core(3, 6, 7))))},
		CPUless: []MemNode{
			{ID: 2, Mem: 2 * GiB, Type: HBM, Normal: true, Near: []int{0}},
			{ID: 3, Mem: 2 * GiB, Type: HBM, Normal: true, Near: []int{1}},
			{ID: 4, Mem: 32 * GiB, Type: PMEM, Normal: false, Near: []int{0, 1}}},
		Distance: [][]int{
			{10, 12, 13, 20, 17},
			{12, 10, 20, 13, 17},
			{13, 20, 10, 24, 28},
			{20, 13, 24, 10, 28},
			{17, 17, 28, 28, 10}},
		Offline: []int{}, Isolated: []int{}}
}

// T6: 2 sockets x 2 dies x 2 NUMA nodes (SNC) x 1 core x 2 threads; CPU 15 isolated, CPU 13 offline;
// one PMEM node per socket.
func t6() *Machine {
	m := &Machine{Name: "T6", CPUless: []MemNode{
		{ID: 8, Mem: 16 * GiB, Type: PMEM, Normal: false, Near: []int{0, 1}},
		{ID: 9, Mem: 16 * GiB, Type: PMEM, Normal: true, Near: []int{6}}},
		Offline: []int{13}, Isolated: []int{15}}
	cpu, node := 0, 0
	for p := 0; p < 2; p++ {
		pk := Package{ID: p}
		coreID := 0
		for d := 0; d < 2; d++ {
			di := Die{ID: d}
			for n := 0; n < 2; n++ {
				di.Nodes = append(di.Nodes, dnode(node, 4*GiB, core(coreID, cpu, cpu+8)))
				node++
				coreID++
				cpu++
			}
			pk.Dies = append(pk.Dies, di)
		}
		m.Packages = append(m.Packages, pk)
	}
	return m
}

// T7: 1 socket, 3 NUMA nodes of which node 1 has CPUs but no memory; HT off.
func t7() *Machine {
	return &Machine{Name: "T7",
		Packages: []Package{pkg(0, die(0,
			dnode(0, 4*GiB, core(0, 0), core(1, 1)),
			dnode(1, 0, core(2, 2), core(3, 3)),
			dnode(2, 4*GiB, core(4, 4), core(5, 5))))},
		CPUless: []MemNode{}, Offline: []int{}, Isolated: []int{}}
}

// T8: 2 single-node sockets, different sizes, one offline CPU, one HBM node close to socket 1.
func t8() *Machine {
	return &Machine{Name: "T8",
		Packages: []Package{
			pkg(0, die(0, dnode(0, 8*GiB, core(0, 0, 1), core(1, 2, 3), core(2, 4, 5)))),
			pkg(1, die(0, dnode(1, 4*GiB, core(0, 6, 7))))},
		CPUless: []MemNode{{ID: 2, Mem: 1 * GiB, Type: HBM, Normal: true, Near: []int{1}}},
		Offline: []int{5}, Isolated: []int{}}
}

// T9: 2 sockets x 2 NUMA nodes x 2 CPUs (HT off); node 1 (socket 0) has CPUs but no memory.
func t9() *Machine {
	return &Machine{Name: "T9",
		Packages: []Package{
			pkg(0, die(0, dnode(0, 2*GiB, core(0, 0), core(1, 1)), dnode(1, 0, core(2, 2), core(3, 3)))),
			pkg(1, die(0, dnode(2, 2*GiB, core(0, 4), core(1, 5)), dnode(3, 2*GiB, core(2, 6), core(3, 7))))},
		CPUless: []MemNode{}, Offline: []int{}, Isolated: []int{}}
}

// Random generates an irregular machine (the generator of property C16):
// 1-2 packages x 1-2 dies x 1-2 NUMA nodes (sub-NUMA clustering) x 1-2 cores x 1-2 threads, not necessarily the
// same shape in every package; CPU-less PMEM/HBM nodes (normal or movable-only, possibly equally close to several
// CPU-bearing nodes); memory-less CPU nodes; offline and isolated CPUs; two CPU numbering schemes; per-package core
// and die ids; optionally permuted node ids; a symmetric distance matrix.  Every generated machine passes Validate().
func Random(rnd *rand.Rand) *Machine {
	for {
		m := random(rnd)
		if m.Validate() == nil {
			return m
		}
	}
}

func pick(rnd *rand.Rand, pct int) bool { return rnd.Intn(100) < pct }

func random(rnd *rand.Rand) *Machine {
	m := &Machine{Name: fmt.Sprintf("R%08x", rnd.Uint32()), CPUless: []MemNode{}, Offline: []int{}, Isolated: []int{}}
	npkg := 1 + rnd.Intn(2)
	uniform := pick(rnd, 60) // all packages/dies/nodes/cores have the same shape
	ndie, nnode, ncore, nthr := 1+rnd.Intn(2), 1+rnd.Intn(2), 1+rnd.Intn(2), 1+rnd.Intn(2)
	mixedHT := !uniform && pick(rnd, 30)
	shape := func(v int) int {
		if uniform {
			return v
		}
		return 1 + rnd.Intn(2)
	}
	memChoices := []Size{1 * GiB, 2 * GiB, 4 * GiB, 8 * GiB, 3 * GiB, 1536 * MiB}
	baseMem := memChoices[rnd.Intn(len(memChoices))]

	// cores first, CPU ids afterwards (two numbering schemes)
	type coreRef struct{ p, d, n, c, threads int }
	var cores []coreRef
	nodeID := 0
	for p := 0; p < npkg; p++ {
		pk := Package{ID: p}
		coreID := 0
		nd := shape(ndie)
		for d := 0; d < nd; d++ {
			di := Die{ID: d}
			nn := shape(nnode)
			for n := 0; n < nn; n++ {
				mem := baseMem
				if !uniform && pick(rnd, 40) {
					mem = memChoices[rnd.Intn(len(memChoices))]
				}
				no := Node{ID: nodeID, Mem: mem, Normal: true, Type: DRAM}
				nodeID++
				nc := shape(ncore)
				for c := 0; c < nc; c++ {
					t := nthr
					if mixedHT {
						t = 1 + rnd.Intn(2)
					}
					no.Cores = append(no.Cores, Core{ID: coreID})
					cores = append(cores, coreRef{p, d, n, c, t})
					coreID++
				}
				di.Nodes = append(di.Nodes, no)
			}
			pk.Dies = append(pk.Dies, di)
		}
		m.Packages = append(m.Packages, pk)
	}
	if pick(rnd, 15) && len(m.Packages) == 2 {
		// package ids need not be 0,1
		m.Packages[1].ID = 2 + rnd.Intn(2)
	}
	if pick(rnd, 15) {
		// die ids need not start at 0
		for p := range m.Packages {
			for d := range m.Packages[p].Dies {
				m.Packages[p].Dies[d].ID += 1
			}
		}
	}
	if pick(rnd, 20) {
		// sparse core ids (as on real hardware)
		for p := range m.Packages {
			for d := range m.Packages[p].Dies {
				for n := range m.Packages[p].Dies[d].Nodes {
					for c := range m.Packages[p].Dies[d].Nodes[n].Cores {
						m.Packages[p].Dies[d].Nodes[n].Cores[c].ID *= 4
					}
				}
			}
		}
	}
	// CPU numbering: adjacent siblings (0,1 | 2,3) or Linux style (first threads of all cores, then second threads)
	adjacent := pick(rnd, 50)
	cpu := 0
	assign := func(cr coreRef, id int) {
		c := &m.Packages[cr.p].Dies[cr.d].Nodes[cr.n].Cores[cr.c]
		c.CPUs = append(c.CPUs, id)
	}
	if adjacent {
		for _, cr := range cores {
			for t := 0; t < cr.threads; t++ {
				assign(cr, cpu)
				cpu++
			}
		}
	} else {
		for t := 0; t < 2; t++ {
			for _, cr := range cores {
				if t < cr.threads {
					assign(cr, cpu)
					cpu++
				}
			}
		}
	}
	ncpu := cpu
	ncpuNodes := nodeID

	// memory-less CPU node (keep at least one CPU node with memory)
	if ncpuNodes > 1 && pick(rnd, 22) {
		k := rnd.Intn(ncpuNodes)
		forEachNode(m, func(n *Node) {
			if n.ID == k {
				n.Mem, n.Normal = 0, false
			}
		})
		if ncpuNodes > 2 && pick(rnd, 25) {
			k2 := rnd.Intn(ncpuNodes)
			forEachNode(m, func(n *Node) {
				if n.ID == k2 {
					n.Mem, n.Normal = 0, false
				}
			})
		}
	}
	// a DRAM node with only movable memory (rare)
	if pick(rnd, 5) {
		k := rnd.Intn(ncpuNodes)
		forEachNode(m, func(n *Node) {
			if n.ID == k {
				n.Normal = false
			}
		})
	}

	// CPU-less nodes
	ncl := 0
	switch r := rnd.Intn(100); {
	case r < 45:
		ncl = 0
	case r < 75:
		ncl = 1
	case r < 93:
		ncl = 2
	default:
		ncl = 3
	}
	for i := 0; i < ncl; i++ {
		n := MemNode{ID: nodeID, Normal: pick(rnd, 50)}
		nodeID++
		if pick(rnd, 55) {
			n.Type = PMEM
		} else {
			n.Type = HBM
		}
		k := 1
		if pick(rnd, 30) {
			k = 2
		}
		for j := 0; j < k; j++ {
			n.Near = appendUnique(n.Near, rnd.Intn(ncpuNodes))
		}
		m.CPUless = append(m.CPUless, n)
	}

	// offline CPUs: never all CPUs of a node
	if pick(rnd, 30) {
		k := 1 + rnd.Intn(2)
		for i := 0; i < k; i++ {
			id := rnd.Intn(ncpu)
			m.Offline = appendUnique(m.Offline, id)
		}
		for _, n := range m.Nodes() {
			if n.Package >= 0 && len(n.Online) == 0 {
				// bring the first CPU of the node back online
				m.Offline = remove(m.Offline, n.CPUs[0])
			}
		}
	}
	sort.Ints(m.Offline)
	// isolated CPUs (online ones); sometimes a whole core, sometimes a whole node
	if pick(rnd, 35) {
		off := toSet(m.Offline)
		cpus := m.CPUs()
		c := cpus[rnd.Intn(len(cpus))]
		switch r := rnd.Intn(100); {
		case r < 50:
			m.Isolated = appendUnique(m.Isolated, c.ID)
		case r < 80:
			for _, id := range c.AllThreads {
				m.Isolated = appendUnique(m.Isolated, id)
			}
		case r < 90:
			for _, o := range cpus {
				if o.Node == c.Node {
					m.Isolated = appendUnique(m.Isolated, o.ID)
				}
			}
		default:
			m.Isolated = appendUnique(m.Isolated, c.ID)
			m.Isolated = appendUnique(m.Isolated, cpus[rnd.Intn(len(cpus))].ID)
		}
		var iso []int
		for _, id := range m.Isolated {
			if !off[id] {
				iso = append(iso, id)
			}
		}
		m.Isolated = sortedCopy(iso)
		// never isolate every online CPU (the policy could not reserve anything on such a machine)
		if on := m.OnlineCPUs(); len(m.Isolated) >= len(on) {
			m.Isolated = remove(m.Isolated, on[0])
		}
	}

	// optionally permute node ids (a CPU-less node may have a lower id than a CPU node)
	if pick(rnd, 20) && nodeID > 1 {
		perm := rnd.Perm(nodeID)
		forEachNode(m, func(n *Node) { n.ID = perm[n.ID] })
		for i := range m.CPUless {
			m.CPUless[i].ID = perm[m.CPUless[i].ID]
			for j := range m.CPUless[i].Near {
				m.CPUless[i].Near[j] = perm[m.CPUless[i].Near[j]]
			}
		}
	}

	// sizes of CPU-less nodes relative to the discovery threshold
	avg := m.DramAvg()
	for i := range m.CPUless {
		n := &m.CPUless[i]
		if n.Type == PMEM {
			n.Mem = avg * Size(1+rnd.Intn(4))
			if pick(rnd, 20) {
				n.Mem = roundUpKiB(avg) // exactly the threshold: still PMEM
			}
		} else {
			n.Mem = avg / Size(2+rnd.Intn(3))
			if pick(rnd, 15) {
				n.Mem = roundUpKiB(avg) - KiB // just below the threshold
			}
		}
		n.Mem = roundUpKiB(n.Mem)
	}

	// distances: the default matrix, optionally perturbed symmetrically
	d := m.DefaultDistance()
	if pick(rnd, 40) {
		ids := m.NodeIDs()
		for i := range ids {
			for j := i + 1; j < len(ids); j++ {
				if pick(rnd, 30) {
					v := d[i][j] + rnd.Intn(7) - 3
					if v < 11 {
						v = 11
					}
					d[i][j], d[j][i] = v, v
				}
			}
		}
	}
	m.Distance = d
	return m
}

func roundUpKiB(s Size) Size { return (s + KiB - 1) / KiB * KiB }

func forEachNode(m *Machine, f func(n *Node)) {
	for p := range m.Packages {
		for d := range m.Packages[p].Dies {
			for n := range m.Packages[p].Dies[d].Nodes {
				f(&m.Packages[p].Dies[d].Nodes[n])
			}
		}
	}
}

func appendUnique(s []int, v int) []int {
	for _, x := range s {
		if x == v {
			return s
		}
	}
	return append(s, v)
}

func remove(s []int, v int) []int {
	out := s[:0]
	for _, x := range s {
		if x != v {
			out = append(out, x)
		}
	}
	return out
}
