//go:build verif

package sysgen

import (
	"encoding/json"
	"math/rand"
	"os"
	"reflect"
	"testing"

	ta "github.com/containers/nri-plugins/cmd/plugins/topology-aware/policy"
	policycfg "github.com/containers/nri-plugins/pkg/apis/config/v1alpha1/resmgr/policy"
	tacfg "github.com/containers/nri-plugins/pkg/apis/config/v1alpha1/resmgr/policy/topologyaware"
	"github.com/containers/nri-plugins/pkg/kubernetes"
	"github.com/containers/nri-plugins/pkg/resmgr/cache"
	policyapi "github.com/containers/nri-plugins/pkg/resmgr/policy"
	"github.com/containers/nri-plugins/pkg/sysfs"
)

func scratch(t *testing.T) string {
	base := os.Getenv("SYSGEN_SCRATCH")
	if base == "" {
		base = "/var/tmp/eng-c16"
	}
	if err := os.MkdirAll(base, 0o755); err != nil {
		t.Fatal(err)
	}
	d, err := os.MkdirTemp(base, "sysgen-test-")
	if err != nil {
		t.Fatal(err)
	}
	t.Cleanup(func() { os.RemoveAll(d) })
	return d
}

func machines() []*Machine {
	ms := Builtins()
	rnd := rand.New(rand.NewSource(1))
	for i := 0; i < 200; i++ {
		ms = append(ms, Random(rnd))
	}
	return ms
}

// every builtin and 200 random machines: the tree is accepted by sysfs.DiscoverSystemAt, the memory types are
// discovered as declared, and the topology-aware policy can Setup on it.
func TestDiscoverAndSetup(t *testing.T) {
	Quiet()
	kubernetes.SetMemoryCapacity(64 << 30)
	dir := scratch(t)
	feat := map[string]int{}
	for i, m := range machines() {
		root := dir + "/m"
		os.RemoveAll(root)
		if err := m.Write(root); err != nil {
			t.Fatalf("machine %d %s: write: %v\n%s", i, m.Name, err, m.JSON())
		}
		sys, err := sysfs.DiscoverSystemAt(SysDir(root))
		if err != nil {
			t.Fatalf("machine %d %s: discovery: %v\n%s", i, m.Name, err, m.JSON())
		}
		if got, want := len(sys.CPUIDs()), len(m.CPUIDs()); got != want {
			t.Fatalf("%s: %d cpus discovered, %d described", m.Name, got, want)
		}
		for _, n := range m.Nodes() {
			sn := sys.Node(n.ID)
			if sn == nil {
				t.Fatalf("%s: node %d not discovered", m.Name, n.ID)
			}
			want := map[string]sysfs.MemoryType{DRAM: sysfs.MemoryTypeDRAM, PMEM: sysfs.MemoryTypePMEM, HBM: sysfs.MemoryTypeHBM}[n.Type]
			if sn.GetMemoryType() != want {
				t.Fatalf("%s: node %d type %v, described %s\n%s", m.Name, n.ID, sn.GetMemoryType(), n.Type, m.JSON())
			}
			mi, err := sn.MemoryInfo()
			if err != nil || mi.MemTotal != uint64(n.Mem) {
				t.Fatalf("%s: node %d meminfo %v %v, described %d", m.Name, n.ID, mi, err, n.Mem)
			}
		}
		c, err := cache.NewCache(cache.Options{CacheDir: dir + "/cache"})
		if err != nil {
			t.Fatal(err)
		}
		be := ta.New()
		err = be.Setup(&policyapi.BackendOptions{Cache: c, System: sys, SendEvent: func(interface{}) error { return nil },
			Config: &tacfg.Config{ReservedResources: policycfg.Constraints{policycfg.CPU: "750m"}}})
		if err != nil {
			t.Fatalf("machine %d %s: TA setup: %v\n%s", i, m.Name, err, m.JSON())
		}
		snap := ta.VerifSnapshot(be)
		if snap == nil || len(snap.Pools) == 0 {
			t.Fatalf("%s: no pools", m.Name)
		}
		os.RemoveAll(dir + "/cache")
		f := m.Features()
		if f.Packages > 1 {
			feat["multi-socket"]++
		}
		if f.MultiDie {
			feat["multi-die"]++
		}
		if f.SNC {
			feat["snc"]++
		}
		if f.PMEM > 0 {
			feat["pmem"]++
		}
		if f.HBM > 0 {
			feat["hbm"]++
		}
		if f.MemlessCPU > 0 {
			feat["memless"]++
		}
		if f.Offline > 0 {
			feat["offline"]++
		}
		if f.Isolated > 0 {
			feat["isolated"]++
		}
		if f.HT {
			feat["ht"]++
		}
		if f.NoHT {
			feat["noht"]++
		}
		if f.TiedClosest {
			feat["tied"]++
		}
		if f.Movable > 0 {
			feat["movable"]++
		}
	}
	t.Logf("features over %d machines: %v", len(machines()), feat)
	for _, k := range []string{"multi-socket", "multi-die", "snc", "pmem", "hbm", "memless", "offline", "isolated", "ht", "noht", "tied", "movable"} {
		if feat[k] == 0 {
			t.Errorf("generator never produced feature %s", k)
		}
	}
}

func TestJSONRoundTrip(t *testing.T) {
	for _, m := range machines() {
		b, err := json.Marshal(m)
		if err != nil {
			t.Fatal(err)
		}
		m2, err := FromJSON(b)
		if err != nil {
			t.Fatalf("%s: %v", m.Name, err)
		}
		if !reflect.DeepEqual(m.Nodes(), m2.Nodes()) || !reflect.DeepEqual(m.CPUs(), m2.CPUs()) || m.JSON() != m2.JSON() {
			t.Fatalf("%s: JSON round trip differs\n%s\n%s", m.Name, m.JSON(), m2.JSON())
		}
	}
}

func TestAppendixBExample(t *testing.T) {
	src := `{"name":"T1","packages":[{"id":0,"dies":[{"id":0,"nodes":[
   {"id":0,"mem":"4G","normal":true,"type":"dram","cores":[{"id":0,"cpus":[0,1]},{"id":1,"cpus":[2,3]}]},
   {"id":1,"mem":"4G","normal":true,"type":"dram","cores":[{"id":2,"cpus":[4,5]},{"id":3,"cpus":[6,7]}]}]}]}],
 "cpuless_nodes":[{"id":2,"mem":"8G","type":"pmem","normal":false}],
 "distance":[[10,21,17],[21,10,28],[17,28,10]],
 "offline":[],"isolated":[7],"llc_groups":[[0,1,2,3],[4,5,6,7]],"core_kinds":{}}`
	m, err := FromJSON([]byte(src))
	if err != nil {
		t.Fatal(err)
	}
	if err := m.Validate(); err != nil {
		t.Fatal(err)
	}
	if got := m.Caches()[5][3].Shared; !reflect.DeepEqual(got, []int{4, 5, 6, 7}) {
		t.Fatalf("llc group of cpu 5: %v", got)
	}
}
