package l2

import (
	"encoding/json"
	"flag"
	"fmt"
	"os"
	"path/filepath"

	"verifharness/internal/sysgen"
	"verifharness/internal/tr"
)

// RunHistory executes one history in a fresh world and emits its trace lines.
func RunHistory(w *tr.Writer, h History, hidx int, scratch, shared string) (hang bool, err error) {
	dir := filepath.Join(scratch, fmt.Sprintf("h%d", hidx))
	defer os.RemoveAll(dir)
	world, err := NewWorld(h.World, dir, shared)
	if err != nil {
		// a world the real code refuses to start with is recorded, not fatal
		w.Emit(tr.M{"ev": "reset", "h": hidx, "world": h.World, "booterr": err.Error()})
		return false, nil
	}
	defer world.Close()
	w.Emit(world.ResetLine(hidx))
	for k, o := range h.Ops {
		if h.Consistent {
			switch o.Op {
			case "Start", "Update", "Stop", "Remove":
				if world.Refused[o.C] {
					continue
				}
			case "Sync":
				ctrs := map[string]string{}
				for id, st := range o.Ctrs {
					if !world.Refused[id] {
						ctrs[id] = st
					}
				}
				o.Ctrs = ctrs
			}
		}
		if o.Op == "ColdDone" && !world.ColdStartArmed(o.C) {
			continue // no timer armed by the policy: nothing would ever fire
		}
		line, err := world.Step(o, hidx, k)
		w.Emit(line)
		if err == ErrHang {
			return true, nil
		}
	}
	return false, nil
}

// Main: nrpverif l2 --script histories.json --out trace.ndjson --scratch dir
func Main(args []string) error {
	fs := flag.NewFlagSet("l2", flag.ContinueOnError)
	out := fs.String("out", "", "trace output (ndjson)")
	script := fs.String("script", "", "JSON file: list of histories {world, ops}")
	scratch := fs.String("scratch", "", "private scratch directory")
	shared := fs.String("shared", "", "directory for unpacked fixtures (shared, read-only after first use)")
	from := fs.Int("from", 0, "first history index to run")
	to := fs.Int("to", -1, "one past the last history index to run (-1 = all)")
	machines := fs.Bool("machines", false, "print the builtin generated machines as JSON and exit")
	if err := fs.Parse(args); err != nil {
		return err
	}
	if *machines {
		ms := map[string]*sysgen.Machine{}
		for _, m := range sysgen.Builtins() {
			ms[m.Name] = m
		}
		b, _ := json.Marshal(ms)
		fmt.Println("MACHINES " + string(b))
		return nil
	}
	if *shared == "" {
		*shared = *scratch
	}
	hs := []History{}
	if err := tr.ReadJSON(*script, &hs); err != nil {
		return err
	}
	w, err := tr.NewWriter(*out)
	if err != nil {
		return err
	}
	defer w.Close()
	hangs := 0
	n := 0
	for i, h := range hs {
		if i < *from || (*to >= 0 && i >= *to) {
			continue
		}
		hang, err := RunHistory(w, h, i, *scratch, *shared)
		if err != nil {
			return err
		}
		n++
		if hang {
			if hangs++; hangs >= 2 {
				break
			}
		}
	}
	fmt.Printf("l2: %d histories, %d trace lines\n", n, w.N)
	return nil
}
