// Package l2 drives a REAL resource manager (pkg/resmgr built with the verif tag: real cache, real
// policy backend, real NRI handler methods, a recording stub instead of the runtime socket) with
// request histories and records one ndjson trace line per request: the request, the reply
// (adjustment, updates, pushed updates, error, panic) and the abstract state projected from the
// real objects (cache view of every container, pending set, policy snapshot, allocator zones).
package l2

import (
	"context"
	"encoding/json"
	"fmt"
	"os"
	"path/filepath"
	"sort"
	"strconv"
	"strings"
	"time"

	"github.com/containerd/nri/pkg/api"
	corev1 "k8s.io/api/core/v1"

	balloons "github.com/containers/nri-plugins/cmd/plugins/balloons/policy"
	ta "github.com/containers/nri-plugins/cmd/plugins/topology-aware/policy"
	"github.com/containers/nri-plugins/pkg/agent"
	cfgapi "github.com/containers/nri-plugins/pkg/apis/config/v1alpha1"
	"github.com/containers/nri-plugins/pkg/kubernetes"
	"github.com/containers/nri-plugins/pkg/resmgr"
	"github.com/containers/nri-plugins/pkg/resmgr/cache"
	"github.com/containers/nri-plugins/pkg/resmgr/events"
	cpucontrol "github.com/containers/nri-plugins/pkg/resmgr/control/cpu"
	libmem "github.com/containers/nri-plugins/pkg/resmgr/lib/memory"
	policyapi "github.com/containers/nri-plugins/pkg/resmgr/policy"
	"github.com/containers/nri-plugins/pkg/sysfs"
	"github.com/containers/nri-plugins/pkg/utils"
	"github.com/containers/nri-plugins/pkg/utils/cpuset"

	"verifharness/internal/sysgen"
	"verifharness/internal/tr"
)

// MemUnit is the unit memory amounts are logged in (TLC has 32-bit integers).
const MemUnit = int64(1) << 20

// FixedMemCapacity makes Burstable memory estimates independent of the host running the check.
const FixedMemCapacity = int64(16) << 30

// WorldSpec describes the machine, the policy and its configuration.
type WorldSpec struct {
	Policy  string          `json:"policy"`            // "ta" | "balloons"
	Fixture string          `json:"fixture,omitempty"` // recorded sysfs fixture: desktop | server | 4-socket-server-nosnc
	Machine *sysgen.Machine `json:"machine,omitempty"` // generated machine (instead of Fixture)
	Config  json.RawMessage `json:"config"`            // policy configuration (JSON form of the CR's spec.config)
	Name    string          `json:"name,omitempty"`
}

// PodSpec describes a pod of a history.
type PodSpec struct {
	NS   string            `json:"ns"`
	QoS  string            `json:"qos"` // Guaranteed | Burstable | BestEffort
	Ann  map[string]string `json:"ann,omitempty"`
	Lbl  map[string]string `json:"lbl,omitempty"`
	Name string            `json:"name,omitempty"`
}

// CtrSpec describes the resources of a container.
type CtrSpec struct {
	CPUReq int    `json:"cpureq"`          // mCPU (shares)
	CPULim int    `json:"cpulim"`          // mCPU (quota), 0 = none
	MemLim int64  `json:"memlim"`          // in MemUnit, 0 = none
	MemReq int64  `json:"memreq"`          // in MemUnit (Burstable: drives oom_score_adj)
	NoMem  bool   `json:"nomem,omitempty"` // leave Linux.Resources.Memory nil
	NoRes  bool   `json:"nores,omitempty"` // leave Linux.Resources nil
	// optional sub-messages of LinuxCPU left out (well-formed NRI: Shares, Quota and Period are optional wrappers)
	NoPeriod bool `json:"noperiod,omitempty"` // quota (if any) without a period
	NoShares bool `json:"noshares,omitempty"` // no cpu.shares
	NoCPU    bool `json:"nocpu,omitempty"`    // Linux.Resources.Cpu nil (memory only)
	Cpus0  string `json:"cpus0,omitempty"` // cpuset.cpus the runtime created the container with
	Mems0  string `json:"mems0,omitempty"` // cpuset.mems the runtime created the container with
}

// Op is one request of a history.
type Op struct {
	Op   string   `json:"op"`
	Pod  string   `json:"pod,omitempty"`
	C    string   `json:"c,omitempty"`
	PodS *PodSpec `json:"pods,omitempty"`
	Ctr  *CtrSpec `json:"ctr,omitempty"`
	// Sync: what the runtime reports
	Pods []string          `json:"pods_list,omitempty"`
	Ctrs map[string]string `json:"ctrs,omitempty"` // id -> state (created|running|stopped...)
	// Sync: pods and containers the runtime has that the environment has not mentioned before
	NewPods map[string]PodSpec `json:"newpods,omitempty"`
	NewCtrs map[string]NewCtr  `json:"newctrs,omitempty"`
	// Reconfigure
	Config json.RawMessage `json:"config,omitempty"`
	Tag    string          `json:"tag,omitempty"` // free-form label carried into the trace
	// RestartMid: restart from one of the cache snapshots saved in the MIDDLE of the previous request (0 <= pick < 1)
	Pick float64 `json:"pick,omitempty"`
}

// NewCtr is a container that first appears in a Synchronize list.
type NewCtr struct {
	Pod string  `json:"pod"`
	Ctr CtrSpec `json:"ctr"`
}

// History is a world plus requests.
type History struct {
	World WorldSpec `json:"world"`
	Ops   []Op      `json:"ops"`
	// Consistent: the environment behaves like a runtime that is consistent with its own bookkeeping: a container
	// whose creation the plugin refused does not exist, so later lifecycle events for it are dropped and it is
	// left out of Synchronize lists (the generator cannot know in advance which creations will be refused).
	Consistent bool `json:"consistent,omitempty"`
}

// ---------------------------------------------------------------------------------------------

type podRec struct {
	spec PodSpec
	nri  *api.PodSandbox
}

type ctrRec struct {
	pod  string
	spec CtrSpec
	nri  *api.Container
}

// World is a running resource manager plus the environment's bookkeeping.
type World struct {
	Spec      WorldSpec
	Dir       string
	SysRoot   string
	StateDir  string
	H         *resmgr.VerifHarness
	agent     *agent.Agent
	pods      map[string]*podRec
	ctrs      map[string]*ctrRec
	cfgGen    int64
	Refused   map[string]bool // containers whose creation the plugin refused
	curCfg    json.RawMessage // the configuration in force
	saves     [][]byte        // cache file contents saved during the request being executed
	prevSaves [][]byte        // ... during the previous request
	midInfo   tr.M
}

var fixturesDir string

func fixtureRoot(base, name string) (string, error) {
	if fixturesDir == "" {
		dir := filepath.Join(base, "fixtures")
		if _, err := os.Stat(filepath.Join(dir, "sysfs")); err != nil {
			if err := os.MkdirAll(dir, 0o755); err != nil {
				return "", err
			}
			tb := "/repo/cmd/plugins/topology-aware/policy/testdata/sysfs.tar.bz2"
			if r := os.Getenv("VERIF_REPO"); r != "" {
				tb = filepath.Join(r, "cmd/plugins/topology-aware/policy/testdata/sysfs.tar.bz2")
			}
			if err := utils.UncompressTbz2(tb, dir); err != nil {
				return "", err
			}
		}
		fixturesDir = dir
	}
	root := filepath.Join(fixturesDir, "sysfs", name)
	if _, err := os.Stat(filepath.Join(root, "sys")); err != nil {
		return "", fmt.Errorf("unknown fixture %q", name)
	}
	return root, nil
}

func (w *World) mkConfig(raw json.RawMessage) (cfgapi.ResmgrConfig, error) {
	w.cfgGen++
	switch w.Spec.Policy {
	case "ta":
		c := &cfgapi.TopologyAwarePolicy{}
		c.Name, c.Generation = "verif", w.cfgGen
		if err := json.Unmarshal(raw, &c.Spec.Config); err != nil {
			return nil, err
		}
		return c, nil
	case "balloons":
		c := &cfgapi.BalloonsPolicy{}
		c.Name, c.Generation = "verif", w.cfgGen
		if err := json.Unmarshal(raw, &c.Spec.Config); err != nil {
			return nil, err
		}
		return c, nil
	}
	return nil, fmt.Errorf("unknown policy %q", w.Spec.Policy)
}

func (w *World) backend() policyapi.Backend {
	if w.Spec.Policy == "balloons" {
		return balloons.New()
	}
	return ta.New()
}

// NewWorld prepares directories and starts a resource manager.  scratch is a private directory.
func NewWorld(spec WorldSpec, scratch, shared string) (*World, error) {
	kubernetes.SetMemoryCapacity(FixedMemCapacity)
	w := &World{Spec: spec, Dir: scratch, pods: map[string]*podRec{}, ctrs: map[string]*ctrRec{}, Refused: map[string]bool{}}
	if err := os.MkdirAll(scratch, 0o755); err != nil {
		return nil, err
	}
	if spec.Machine != nil {
		w.SysRoot = filepath.Join(scratch, "machine")
		if err := spec.Machine.Write(w.SysRoot); err != nil {
			return nil, err
		}
	} else {
		r, err := fixtureRoot(shared, spec.Fixture)
		if err != nil {
			return nil, err
		}
		w.SysRoot = r
	}
	w.StateDir = filepath.Join(scratch, "state")
	if err := os.MkdirAll(w.StateDir, 0o700); err != nil {
		return nil, err
	}
	if err := w.Boot(); err != nil {
		return nil, err
	}
	return w, nil
}

// Boot (re)starts the resource manager on the state directory: a restart of the plugin.
func (w *World) Boot() error {
	if w.H != nil {
		w.H.Close()
		w.H = nil
	}
	ta.VerifResetGlobals() // a (re)started plugin is a new process
	cfgFile := filepath.Join(w.Dir, "config.yaml")
	if err := os.WriteFile(cfgFile, []byte("{}\n"), 0o600); err != nil {
		return err
	}
	var cif agent.ConfigInterface
	if w.Spec.Policy == "balloons" {
		cif = agent.BalloonsConfigInterface()
	} else {
		cif = agent.TopologyAwareConfigInterface()
	}
	a, err := agent.New(cif, agent.WithConfigFile(cfgFile))
	if err != nil {
		return err
	}
	w.agent = a
	cfg, err := w.mkConfig(w.Spec.Config)
	if err != nil {
		return err
	}
	h, err := resmgr.NewVerifHarness(w.backend(), a, cfg, w.StateDir, w.SysRoot)
	if err != nil {
		return err
	}
	w.H = h
	w.curCfg = w.Spec.Config
	return nil
}

// Close releases the world.
func (w *World) Close() {
	if w.H != nil {
		w.H.Close()
	}
}

// ---------------------------------------------------------------------------------------------
// NRI objects

func cgroupParent(qos, uid string) string {
	switch strings.ToLower(qos) {
	case "besteffort":
		return "/kubepods.slice/kubepods-besteffort.slice/kubepods-besteffort-pod" + uid + ".slice"
	case "burstable":
		return "/kubepods.slice/kubepods-burstable.slice/kubepods-burstable-pod" + uid + ".slice"
	}
	return "/kubepods.slice/kubepods-pod" + uid + ".slice"
}

func (w *World) mkPod(id string, s PodSpec) *api.PodSandbox {
	uid := "uid-" + id
	name := s.Name
	if name == "" {
		name = id
	}
	ann := map[string]string{}
	for k, v := range s.Ann {
		ann[k] = v
	}
	lbl := map[string]string{}
	for k, v := range s.Lbl {
		lbl[k] = v
	}
	return &api.PodSandbox{
		Id: id, Name: name, Uid: uid, Namespace: s.NS, Labels: lbl, Annotations: ann,
		Linux: &api.LinuxPodSandbox{CgroupParent: cgroupParent(s.QoS, uid)},
	}
}

func oomAdj(qos string, memReq int64) int64 {
	switch strings.ToLower(qos) {
	case "guaranteed":
		return -997
	case "besteffort":
		return 1000
	}
	// kubelet: 1000 - (1000*memoryRequest)/memoryCapacity, clamped to [3, 999]
	adj := 1000 - (1000*memReq*MemUnit)/FixedMemCapacity
	if adj < 3 {
		adj = 3
	}
	if adj > 999 {
		adj = 999
	}
	return adj
}

func linuxResources(s CtrSpec) *api.LinuxResources {
	if s.NoRes {
		return nil
	}
	r := &api.LinuxResources{Cpu: &api.LinuxCPU{}}
	r.Cpu.Shares = api.UInt64(uint64(kubernetes.MilliCPUToShares(int64(s.CPUReq))))
	r.Cpu.Period = api.UInt64(100000)
	r.Cpu.Cpus, r.Cpu.Mems = s.Cpus0, s.Mems0
	if s.CPULim > 0 {
		q, _ := kubernetes.MilliCPUToQuota(int64(s.CPULim))
		r.Cpu.Quota = api.Int64(q)
	}
	if s.NoPeriod {
		r.Cpu.Period = nil
	}
	if s.NoShares {
		r.Cpu.Shares = nil
	}
	if s.NoCPU {
		r.Cpu = nil
	}
	if !s.NoMem {
		r.Memory = &api.LinuxMemory{}
		if s.MemLim > 0 {
			r.Memory.Limit = api.Int64(s.MemLim * MemUnit)
		}
	}
	return r
}

func (w *World) mkCtr(id, pod string, s CtrSpec, state api.ContainerState) *api.Container {
	qos := "BestEffort"
	if p, ok := w.pods[pod]; ok {
		qos = p.spec.QoS
	}
	c := &api.Container{
		Id: id, PodSandboxId: pod, Name: id, State: state,
		Labels: map[string]string{}, Annotations: map[string]string{},
		Linux: &api.LinuxContainer{
			Resources:   linuxResources(s),
			OomScoreAdj: api.Int(int(oomAdj(qos, s.MemReq))),
			CgroupsPath: "",
		},
	}
	return c
}

// ---------------------------------------------------------------------------------------------
// Projection of the real state

func cpuList(s string) []int {
	if s == "" {
		return []int{}
	}
	cs, err := cpuset.Parse(s)
	if err != nil {
		return []int{-1}
	}
	return tr.Ints(cs.List())
}

func stateName(s cache.ContainerState) string {
	switch s {
	case cache.ContainerStateCreating:
		return "creating"
	case cache.ContainerStateCreated:
		return "created"
	case cache.ContainerStateRunning:
		return "running"
	case cache.ContainerStateExited:
		return "exited"
	case cache.ContainerStateStale:
		return "stale"
	}
	return "state" + strconv.Itoa(int(s))
}

func qtyMilli(rl corev1.ResourceList, name corev1.ResourceName) int64 {
	if q, ok := rl[name]; ok {
		return q.MilliValue()
	}
	return 0
}

func qtyUnits(rl corev1.ResourceList, name corev1.ResourceName) int64 {
	if q, ok := rl[name]; ok {
		return q.Value() / MemUnit
	}
	return 0
}

var annKeys = map[string]string{
	"rsv":     "prefer-reserved-cpus.resource-policy.nri.io",
	"isol":    "prefer-isolated-cpus.resource-policy.nri.io",
	"shared":  "prefer-shared-cpus.resource-policy.nri.io",
	"pcpu":    "cpu.preserve.resource-policy.nri.io",
	"pmem":    "memory.preserve.resource-policy.nri.io",
	"memtype": "memory-type.resource-policy.nri.io",
	"hideht":  "hide-hyperthreads.resource-policy.nri.io",
	"balloon": "balloon.balloons.resource-policy.nri.io",
}

// reservedNS tells whether the namespace is kube-system or matches a configured reserved namespace glob
// (filepath.Match is the trusted base for glob matching).
func (w *World) reservedNS(ns string) bool {
	if ns == "kube-system" {
		return true
	}
	var cfg struct {
		A []string `json:"reservedPoolNamespaces"`
	}
	if err := json.Unmarshal(w.curCfg, &cfg); err != nil {
		return false
	}
	for _, pat := range cfg.A {
		if ok, err := filepath.Match(pat, ns); err == nil && ok {
			return true
		}
	}
	return false
}

// CtrView is the cache's record of one container, as the spec sees it.
func (w *World) ctrView(c cache.Container) tr.M {
	m := ctrView(c)
	ann := tr.M{}
	for short, key := range annKeys {
		if v, ok := c.GetEffectiveAnnotation(key); ok {
			ann[short] = v
		}
	}
	m["ann"] = ann
	m["rsvns"] = w.reservedNS(c.GetNamespace())
	return m
}

func ctrView(c cache.Container) tr.M {
	rr := c.GetResourceRequirements()
	if upd, ok := c.GetResourceUpdates(); ok {
		rr = upd // the policies decide on the updated requirements once the runtime has sent an update
	}
	m := tr.M{
		"pod": c.GetPodID(), "ns": c.GetNamespace(), "st": stateName(c.GetState()), "qos": string(c.GetQOSClass()),
		"cpus": cpuList(c.GetCpusetCpus()), "mems": cpuList(c.GetCpusetMems()),
		"cpus_set": c.GetCpusetCpus() != "", "mems_set": c.GetCpusetMems() != "",
		"shares": c.GetCPUShares(), "quota": c.GetCPUQuota(), "period": c.GetCPUPeriod(),
		"memlim": c.GetMemoryLimit() / MemUnit, "swap": c.GetMemorySwap() / MemUnit,
		"cpureq": qtyMilli(rr.Requests, corev1.ResourceCPU), "cpulim": qtyMilli(rr.Limits, corev1.ResourceCPU),
		"memreq_u": qtyUnits(rr.Requests, corev1.ResourceMemory), "memlim_u": qtyUnits(rr.Limits, corev1.ResourceMemory),
		"pcpu": c.PreserveCpuResources(), "pmem": c.PreserveMemoryResources(),
		"pending": c.GetPending() != nil && len(c.GetPending()) > 0,
	}
	return m
}

func resView(r *api.LinuxResources) tr.M {
	m := tr.M{}
	if r == nil {
		return m
	}
	if cpu := r.GetCpu(); cpu != nil {
		if cpu.GetCpus() != "" {
			m["cpus"] = cpuList(cpu.GetCpus())
		}
		if cpu.GetMems() != "" {
			m["mems"] = cpuList(cpu.GetMems())
		}
		if cpu.GetShares() != nil {
			m["shares"] = int64(cpu.GetShares().GetValue())
		}
		if cpu.GetQuota() != nil {
			m["quota"] = cpu.GetQuota().GetValue()
		}
		if cpu.GetPeriod() != nil {
			m["period"] = int64(cpu.GetPeriod().GetValue())
		}
	}
	if mem := r.GetMemory(); mem != nil {
		if mem.GetLimit() != nil {
			m["memlim"] = mem.GetLimit().GetValue() / MemUnit
		}
		if mem.GetSwap() != nil {
			m["swap"] = mem.GetSwap().GetValue() / MemUnit
		}
	}
	return m
}

func adjView(a *api.ContainerAdjustment) tr.M {
	if a == nil {
		return tr.M{}
	}
	return resView(a.GetLinux().GetResources())
}

func updView(us []*api.ContainerUpdate) []tr.M {
	out := []tr.M{}
	for _, u := range us {
		m := resView(u.GetLinux().GetResources())
		out = append(out, tr.M{"c": u.GetContainerId(), "r": m})
	}
	return out
}

// memView: the policy allocator's assignment of every request, with sizes (units) and node table.
func memView(a *libmem.Allocator) tr.M {
	if a == nil {
		return tr.M{}
	}
	zone, size := tr.M{}, tr.M{}
	a.ForeachRequest(nil, func(r *libmem.Request) bool {
		if z, ok := a.AssignedZone(r.ID()); ok {
			zone[r.ID()] = tr.Ints(z.Slice())
		}
		size[r.ID()] = int((r.Size() + MemUnit - 1) / MemUnit)
		return true
	})
	return tr.M{"zone": zone, "size": size}
}

// MemNodes describes the allocator's nodes (logged once per world).
func memNodes(a *libmem.Allocator) []tr.M {
	out := []tr.M{}
	if a == nil {
		return out
	}
	a.ForeachNode(a.Masks().AvailableNodes(), func(n *libmem.Node) bool {
		out = append(out, tr.M{"id": n.ID(), "type": n.Type().String(), "cap": int(n.Capacity() / MemUnit),
			"normal": n.IsNormal(), "hasmem": n.HasMemory(), "cpus": tr.Ints(n.CloseCPUs().List())})
		return true
	})
	return out
}

func (w *World) allocator() *libmem.Allocator {
	if w.H == nil {
		return nil
	}
	if w.Spec.Policy == "ta" {
		return ta.VerifAllocator(w.H.Backend())
	}
	return balloonsAllocator(w.H.Backend())
}

// State projects the whole abstract state.
func (w *World) State() tr.M {
	ch := w.H.Cache()
	ctr := tr.M{}
	for _, c := range ch.GetContainers() {
		ctr[c.GetID()] = w.ctrView(c)
	}
	pods := []string{}
	for _, p := range ch.GetPods() {
		pods = append(pods, p.GetID())
	}
	sort.Strings(pods)
	pend := []string{}
	for _, c := range ch.GetPendingContainers() {
		pend = append(pend, c.GetID())
	}
	sort.Strings(pend)
	st := tr.M{"ctr": ctr, "pods": pods, "pend": pend, "mem": memView(w.allocator())}
	if w.Spec.Policy == "balloons" {
		cls := []tr.M{}
		for name, cpus := range cpucontrol.VerifClassAssignments(ch) {
			cls = append(cls, tr.M{"class": name, "cpus": tr.Ints(cpus)})
		}
		sort.Slice(cls, func(i, j int) bool { return cls[i]["class"].(string) < cls[j]["class"].(string) })
		st["cpuclass"] = cls
	}
	if w.Spec.Policy == "ta" {
		st["pol"] = ta.VerifSnapshot(w.H.Backend())
	} else {
		st["pol"] = balloonsSnapshot(w.H.Backend())
	}
	return st
}

// ---------------------------------------------------------------------------------------------
// Executing requests

const opTimeout = 20 * time.Second

// ErrHang is returned when a handler did not return.
var ErrHang = fmt.Errorf("handler did not return")

type reply struct {
	adj    *api.ContainerAdjustment
	upd    []*api.ContainerUpdate
	err    error
	panicv interface{}
	known  bool // the op was understood
}

func (w *World) exec(o Op) (r reply) {
	ctx := context.Background()
	defer func() {
		if p := recover(); p != nil {
			r.panicv = p
		}
	}()
	r.known = true
	h := w.H
	pod := func() *api.PodSandbox {
		if p, ok := w.pods[o.Pod]; ok {
			return p.nri
		}
		// a pod the environment never created: the plugin has never seen it
		return w.mkPod(o.Pod, PodSpec{NS: "default", QoS: "BestEffort"})
	}
	ctrOf := func() *api.Container {
		if c, ok := w.ctrs[o.C]; ok {
			return c.nri
		}
		return w.mkCtr(o.C, o.Pod, CtrSpec{}, api.ContainerState_CONTAINER_CREATED)
	}
	switch o.Op {
	case "RunPod":
		s := PodSpec{NS: "default", QoS: "BestEffort"}
		if o.PodS != nil {
			s = *o.PodS
		}
		p := &podRec{spec: s, nri: w.mkPod(o.Pod, s)}
		w.pods[o.Pod] = p
		r.err = h.RunPodSandbox(ctx, p.nri)
	case "StopPod":
		r.err = h.StopPodSandbox(ctx, pod())
	case "RemovePod":
		r.err = h.RemovePodSandbox(ctx, pod())
	case "Create":
		s := CtrSpec{}
		if o.Ctr != nil {
			s = *o.Ctr
		}
		c := &ctrRec{pod: o.Pod, spec: s}
		c.nri = w.mkCtr(o.C, o.Pod, s, api.ContainerState_CONTAINER_CREATED)
		w.ctrs[o.C] = c
		r.adj, r.upd, r.err = h.CreateContainer(ctx, pod(), c.nri)
		if r.err != nil {
			w.Refused[o.C] = true
		} else {
			delete(w.Refused, o.C)
		}
	case "Start":
		r.err = h.StartContainer(ctx, pod(), ctrOf())
	case "Update":
		s := CtrSpec{}
		if o.Ctr != nil {
			s = *o.Ctr
		}
		r.upd, r.err = h.UpdateContainer(ctx, pod(), ctrOf(), linuxResources(s))
	case "Stop":
		r.upd, r.err = h.StopContainer(ctx, pod(), ctrOf())
	case "Remove":
		r.err = h.RemoveContainer(ctx, pod(), ctrOf())
	case "ColdDone":
		// the cold start timer of the container fires: the event reaches the policy under the lock
		// (ColdStartArmed stopped the real timer); what the policy changes is delivered with the next request
		_, r.err = h.PolicyEvent(&events.Policy{Type: ta.ColdStartDone, Source: ta.PolicyName, Data: ctrOf().Id})
	case "Sync":
		for id, ps := range o.NewPods {
			if _, ok := w.pods[id]; !ok {
				w.pods[id] = &podRec{spec: ps, nri: w.mkPod(id, ps)}
			}
		}
		for id, nc := range o.NewCtrs {
			if _, ok := w.ctrs[id]; !ok {
				c := &ctrRec{pod: nc.Pod, spec: nc.Ctr}
				c.nri = w.mkCtr(id, nc.Pod, nc.Ctr, api.ContainerState_CONTAINER_RUNNING)
				w.ctrs[id] = c
			}
		}
		pods := []*api.PodSandbox{}
		for _, id := range o.Pods {
			if p, ok := w.pods[id]; ok {
				pods = append(pods, p.nri)
			} else {
				pods = append(pods, w.mkPod(id, PodSpec{NS: "default", QoS: "BestEffort"}))
			}
		}
		ctrs := []*api.Container{}
		ids := []string{}
		for id := range o.Ctrs {
			ids = append(ids, id)
		}
		sort.Strings(ids)
		for _, id := range ids {
			st := api.ContainerState_CONTAINER_RUNNING
			switch o.Ctrs[id] {
			case "created":
				st = api.ContainerState_CONTAINER_CREATED
			case "stopped":
				st = api.ContainerState_CONTAINER_STOPPED
			case "paused":
				st = api.ContainerState_CONTAINER_PAUSED
			case "unknown":
				st = api.ContainerState_CONTAINER_UNKNOWN
			}
			if c, ok := w.ctrs[id]; ok {
				cc := *c.nri
				cc.State = st
				ctrs = append(ctrs, &cc)
			} else {
				ctrs = append(ctrs, w.mkCtr(id, "", CtrSpec{}, st))
			}
		}
		r.upd, r.err = h.Synchronize(ctx, pods, ctrs)
	case "Reconfigure":
		cfg, err := w.mkConfig(o.Config)
		if err != nil {
			// unparsable at the CR level: the agent would never deliver it
			r.err = fmt.Errorf("harness: config does not unmarshal: %w", err)
			r.known = false
			return r
		}
		r.err = h.Reconfigure(cfg)
		if r.err == nil {
			w.curCfg = o.Config
		}
	case "Restart":
		r.err = w.Boot()
	case "RestartMid":
		// the plugin died in the middle of the previous request: what is on disk is one of the snapshots saved during it
		w.midInfo = tr.M{"mid": false, "nsaves": len(w.prevSaves)}
		if n := len(w.prevSaves); n >= 2 {
			idx := int(o.Pick * float64(n-1))
			if idx > n-2 {
				idx = n - 2
			}
			if err := os.WriteFile(filepath.Join(w.StateDir, "cache"), w.prevSaves[idx], 0o644); err != nil {
				r.err = err
				return r
			}
			w.midInfo = tr.M{"mid": true, "nsaves": n, "save": idx}
		}
		r.err = w.Boot()
	default:
		r.known = false
	}
	return r
}

// applyTold folds what the plugin told the runtime into the environment's container objects, so that a later
// Synchronize list carries the resources the runtime really enforces (empty string / nil = not set).
func (w *World) applyTold(id string, r *api.LinuxResources) {
	c, ok := w.ctrs[id]
	if !ok || r == nil || c.nri.Linux == nil {
		return
	}
	if c.nri.Linux.Resources == nil {
		c.nri.Linux.Resources = &api.LinuxResources{}
	}
	dst := c.nri.Linux.Resources
	if cpu := r.GetCpu(); cpu != nil {
		if dst.Cpu == nil {
			dst.Cpu = &api.LinuxCPU{}
		}
		if cpu.GetCpus() != "" {
			dst.Cpu.Cpus = cpu.GetCpus()
		}
		if cpu.GetMems() != "" {
			dst.Cpu.Mems = cpu.GetMems()
		}
		if cpu.GetShares() != nil {
			dst.Cpu.Shares = api.UInt64(cpu.GetShares().GetValue())
		}
		if cpu.GetQuota() != nil {
			dst.Cpu.Quota = api.Int64(cpu.GetQuota().GetValue())
		}
		if cpu.GetPeriod() != nil {
			dst.Cpu.Period = api.UInt64(cpu.GetPeriod().GetValue())
		}
	}
	if mem := r.GetMemory(); mem != nil {
		if dst.Memory == nil {
			dst.Memory = &api.LinuxMemory{}
		}
		if mem.GetLimit() != nil {
			dst.Memory.Limit = api.Int64(mem.GetLimit().GetValue())
		}
		if mem.GetSwap() != nil {
			dst.Memory.Swap = api.Int64(mem.GetSwap().GetValue())
		}
	}
}

// Step executes one request under a watchdog and returns the trace line.
// ColdStartArmed tells whether the topology-aware policy armed a cold start timer for the container (and stops it).
func (w *World) ColdStartArmed(c string) bool {
	rec, ok := w.ctrs[c]
	if !ok || w.Spec.Policy != "ta" || w.H == nil {
		return false
	}
	return ta.VerifColdStartArmed(w.H.Backend(), rec.nri.Id)
}

func (w *World) Step(o Op, hidx, k int) (tr.M, error) {
	line := tr.M{"ev": o.Op, "h": hidx, "k": k}
	if o.Pod != "" {
		line["pod"] = o.Pod
	}
	if o.C != "" {
		line["c"] = o.C
	}
	if o.Tag != "" {
		line["tag"] = o.Tag
	}
	if o.PodS != nil {
		line["pods"] = o.PodS
	}
	if o.Ctr != nil {
		line["ctrspec"] = o.Ctr
		if o.Op == "Create" {
			line["mems0l"] = cpuList(o.Ctr.Mems0)
		}
	}
	if o.Op == "Sync" {
		line["rtpods"] = append([]string{}, o.Pods...)
		line["rtctrs"] = o.Ctrs
	}
	if o.Op == "Reconfigure" {
		line["config"] = o.Config
		line["same"] = sameJSON(o.Config, w.curCfg)
		line["sameboot"] = sameJSON(o.Config, w.Spec.Config)
	}
	var r reply
	done := make(chan struct{})
	w.prevSaves, w.saves = w.saves, nil
	cache.VerifOnSaved(func(path string) {
		if b, err := os.ReadFile(path); err == nil {
			w.saves = append(w.saves, b)
		}
	})
	go func() {
		r = w.exec(o)
		close(done)
	}()
	select {
	case <-done:
	case <-time.After(opTimeout):
		line["hang"] = true
		return line, ErrHang
	}
	cache.VerifOnSaved(nil)
	if o.Op == "RestartMid" {
		line["ev"] = "Restart"
		for k, v := range w.midInfo {
			line[k] = v
		}
	}
	line["err"] = r.err != nil
	if r.err != nil {
		line["msg"] = r.err.Error()
		if o.Op == "Reconfigure" {
			// where the update was rejected: by validation of the configuration, or later while applying it
			kind := "apply"
			for _, pat := range []string{"invalid configuration", "failed to parse", "invalid ", "can't handle", "unknown ", "not a subset", "is not"} {
				if strings.Contains(r.err.Error(), pat) {
					kind = "validation"
					break
				}
			}
			line["rejkind"] = kind
		}
	}
	line["panic"] = r.panicv != nil
	if r.panicv != nil {
		line["panicmsg"] = fmt.Sprint(r.panicv)
	}
	if r.err == nil && r.panicv == nil {
		if o.Op == "Create" && r.adj != nil {
			w.applyTold(o.C, r.adj.GetLinux().GetResources())
		}
		for _, u := range r.upd {
			w.applyTold(u.GetContainerId(), u.GetLinux().GetResources())
		}
	}
	line["adj"] = adjView(r.adj)
	line["hasadj"] = r.adj != nil
	line["upd"] = updView(r.upd)
	pushed := [][]tr.M{}
	if w.H != nil {
		for _, batch := range w.H.TakePushed() {
			pushed = append(pushed, updView(batch))
			for _, u := range batch {
				w.applyTold(u.GetContainerId(), u.GetLinux().GetResources())
			}
		}
	}
	line["pushed"] = pushed
	if w.H != nil && r.panicv == nil {
		func() {
			defer func() {
				if p := recover(); p != nil {
					line["statepanic"] = fmt.Sprint(p)
				}
			}()
			line["st"] = w.State()
		}()
	}
	return line, nil
}

// topo describes where every online CPU sits (from the real discovery of the world's sysfs tree).
func (w *World) topo() []tr.M {
	out := []tr.M{}
	sys, err := sysfs.DiscoverSystemAt(filepath.Join(w.SysRoot, "sys"))
	if err != nil {
		return out
	}
	iso := sys.Isolated()
	for _, id := range sys.CPUIDs() {
		c := sys.CPU(id)
		if !c.Online() {
			continue
		}
		out = append(out, tr.M{"cpu": id, "pkg": c.PackageID(), "die": c.DieID(), "node": c.NodeID(), "core": c.CoreID(),
			"isolated": iso.Contains(id)})
	}
	return out
}

func sameJSON(a, b json.RawMessage) bool {
	var x, y interface{}
	if json.Unmarshal(a, &x) != nil || json.Unmarshal(b, &y) != nil {
		return false
	}
	ca, _ := json.Marshal(x)
	cb, _ := json.Marshal(y)
	return string(ca) == string(cb)
}

// ResetLine is the first line of a history in the trace.
func (w *World) ResetLine(hidx int) tr.M {
	return tr.M{"ev": "reset", "h": hidx, "topo": w.topo(), "world": tr.M{"policy": w.Spec.Policy, "fixture": w.Spec.Fixture,
		"machine": w.Spec.Machine, "config": w.Spec.Config, "name": w.Spec.Name},
		"memnodes": memNodes(w.allocator()), "st": w.State()}
}
