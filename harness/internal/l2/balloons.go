package l2

import (
	balloons "github.com/containers/nri-plugins/cmd/plugins/balloons/policy"
	libmem "github.com/containers/nri-plugins/pkg/resmgr/lib/memory"
	policyapi "github.com/containers/nri-plugins/pkg/resmgr/policy"
)

func balloonsAllocator(b policyapi.Backend) *libmem.Allocator { return balloons.VerifAllocator(b) }

func balloonsSnapshot(b policyapi.Backend) interface{} { return balloons.VerifSnapshot(b) }
