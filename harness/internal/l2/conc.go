package l2

// Additions for the concurrency engine (C15, internal/concdrv): a request is split into
//   Prepare  (sequential: environment bookkeeping, NRI objects -- everything World.exec does before the call),
//   Call     (only the real handler invocation: safe to run from many goroutines at once, the World is not touched),
//   Commit   (sequential, after the round: what World.exec/Step do after the call),
//   Line     (the trace line in exactly the format of World.Step).
// Nothing here changes the behaviour of the sequential driver.

import (
	"context"
	"fmt"
	"sort"

	"github.com/containerd/nri/pkg/api"
	"google.golang.org/protobuf/proto"

	"verifharness/internal/tr"
)

// Reply is what a handler returned.
type Reply struct {
	Adj   *api.ContainerAdjustment
	Upd   []*api.ContainerUpdate
	Err   error
	Panic interface{}
}

// Prepared is a request ready to be issued.
type Prepared struct {
	Op    Op
	Known bool
	call  func(ctx context.Context) Reply
}

// Call issues the request on the real handler (recovering a panic).
func (p *Prepared) Call() (r Reply) {
	defer func() {
		if v := recover(); v != nil {
			r.Panic = v
		}
	}()
	if p.call == nil {
		return Reply{}
	}
	return p.call(context.Background())
}

func cloneCtr(c *api.Container) *api.Container { return proto.Clone(c).(*api.Container) }
func clonePod(p *api.PodSandbox) *api.PodSandbox { return proto.Clone(p).(*api.PodSandbox) }

// Prepare does the environment's bookkeeping for the request and builds the NRI objects (mirror of World.exec).
// Unlike World.exec it hands COPIES of the environment's pod and container objects to the handlers (the cache keeps the
// object it is given): Commit folds what was told into the environment's objects only after the round, which must not
// write through into the cache.
func (w *World) Prepare(o Op) *Prepared {
	p := &Prepared{Op: o, Known: true}
	h := w.H
	pod := func() *api.PodSandbox {
		if pr, ok := w.pods[o.Pod]; ok {
			return pr.nri
		}
		return w.mkPod(o.Pod, PodSpec{NS: "default", QoS: "BestEffort"})
	}
	ctrOf := func() *api.Container {
		if c, ok := w.ctrs[o.C]; ok {
			return c.nri
		}
		return w.mkCtr(o.C, o.Pod, CtrSpec{}, api.ContainerState_CONTAINER_CREATED)
	}
	switch o.Op {
	case "RunPod":
		s := PodSpec{NS: "default", QoS: "BestEffort"}
		if o.PodS != nil {
			s = *o.PodS
		}
		pr := &podRec{spec: s, nri: w.mkPod(o.Pod, s)}
		w.pods[o.Pod] = pr
		arg := clonePod(pr.nri)
		p.call = func(ctx context.Context) Reply { return Reply{Err: h.RunPodSandbox(ctx, arg)} }
	case "StopPod":
		pd := pod()
		p.call = func(ctx context.Context) Reply { return Reply{Err: h.StopPodSandbox(ctx, pd)} }
	case "RemovePod":
		pd := pod()
		p.call = func(ctx context.Context) Reply { return Reply{Err: h.RemovePodSandbox(ctx, pd)} }
	case "Create":
		s := CtrSpec{}
		if o.Ctr != nil {
			s = *o.Ctr
		}
		c := &ctrRec{pod: o.Pod, spec: s}
		c.nri = w.mkCtr(o.C, o.Pod, s, api.ContainerState_CONTAINER_CREATED)
		w.ctrs[o.C] = c
		pd := pod()
		arg := cloneCtr(c.nri)
		p.call = func(ctx context.Context) Reply {
			a, u, err := h.CreateContainer(ctx, pd, arg)
			return Reply{Adj: a, Upd: u, Err: err}
		}
	case "Start":
		pd, c := pod(), ctrOf()
		p.call = func(ctx context.Context) Reply { return Reply{Err: h.StartContainer(ctx, pd, c)} }
	case "Update":
		s := CtrSpec{}
		if o.Ctr != nil {
			s = *o.Ctr
		}
		pd, c, lr := pod(), ctrOf(), linuxResources(s)
		p.call = func(ctx context.Context) Reply {
			u, err := h.UpdateContainer(ctx, pd, c, lr)
			return Reply{Upd: u, Err: err}
		}
	case "Stop":
		pd, c := pod(), ctrOf()
		p.call = func(ctx context.Context) Reply {
			u, err := h.StopContainer(ctx, pd, c)
			return Reply{Upd: u, Err: err}
		}
	case "Remove":
		pd, c := pod(), ctrOf()
		p.call = func(ctx context.Context) Reply { return Reply{Err: h.RemoveContainer(ctx, pd, c)} }
	case "Sync":
		for id, ps := range o.NewPods {
			if _, ok := w.pods[id]; !ok {
				w.pods[id] = &podRec{spec: ps, nri: w.mkPod(id, ps)}
			}
		}
		for id, nc := range o.NewCtrs {
			if _, ok := w.ctrs[id]; !ok {
				c := &ctrRec{pod: nc.Pod, spec: nc.Ctr}
				c.nri = w.mkCtr(id, nc.Pod, nc.Ctr, api.ContainerState_CONTAINER_RUNNING)
				w.ctrs[id] = c
			}
		}
		pods := []*api.PodSandbox{}
		for _, id := range o.Pods {
			if pr, ok := w.pods[id]; ok {
				pods = append(pods, clonePod(pr.nri))
			} else {
				pods = append(pods, w.mkPod(id, PodSpec{NS: "default", QoS: "BestEffort"}))
			}
		}
		ctrs := []*api.Container{}
		ids := []string{}
		for id := range o.Ctrs {
			ids = append(ids, id)
		}
		sort.Strings(ids)
		for _, id := range ids {
			st := api.ContainerState_CONTAINER_RUNNING
			switch o.Ctrs[id] {
			case "created":
				st = api.ContainerState_CONTAINER_CREATED
			case "stopped":
				st = api.ContainerState_CONTAINER_STOPPED
			case "paused":
				st = api.ContainerState_CONTAINER_PAUSED
			case "unknown":
				st = api.ContainerState_CONTAINER_UNKNOWN
			}
			if c, ok := w.ctrs[id]; ok {
				cc := cloneCtr(c.nri)
				cc.State = st
				ctrs = append(ctrs, cc)
			} else {
				ctrs = append(ctrs, w.mkCtr(id, "", CtrSpec{}, st))
			}
		}
		p.call = func(ctx context.Context) Reply {
			u, err := h.Synchronize(ctx, pods, ctrs)
			return Reply{Upd: u, Err: err}
		}
	case "Reconfigure":
		cfg, err := w.mkConfig(o.Config)
		if err != nil {
			p.Known = false
			e := fmt.Errorf("harness: config does not unmarshal: %w", err)
			p.call = func(ctx context.Context) Reply { return Reply{Err: e} }
			return p
		}
		p.call = func(ctx context.Context) Reply { return Reply{Err: h.Reconfigure(cfg)} }
	default:
		p.Known = false
	}
	return p
}

// Commit folds the outcome of a request into the environment's bookkeeping (sequential; mirror of exec + Step).
func (w *World) Commit(o Op, r Reply, pushed [][]*api.ContainerUpdate) {
	switch o.Op {
	case "Create":
		if r.Panic != nil {
			// exec leaves the bookkeeping unchanged when the handler panics
		} else if r.Err != nil {
			w.Refused[o.C] = true
		} else {
			delete(w.Refused, o.C)
		}
	case "Reconfigure":
		if r.Err == nil && r.Panic == nil {
			w.curCfg = o.Config
		}
	}
	if r.Err == nil && r.Panic == nil {
		if o.Op == "Create" && r.Adj != nil {
			w.applyTold(o.C, r.Adj.GetLinux().GetResources())
		}
		for _, u := range r.Upd {
			w.applyTold(u.GetContainerId(), u.GetLinux().GetResources())
		}
	}
	for _, batch := range pushed {
		for _, u := range batch {
			w.applyTold(u.GetContainerId(), u.GetLinux().GetResources())
		}
	}
}

// Line formats a request, its reply and a projected state like World.Step does (st may be nil: no state known).
func (w *World) Line(o Op, r Reply, pushed [][]*api.ContainerUpdate, hidx, k int, st tr.M) tr.M {
	line := tr.M{"ev": o.Op, "h": hidx, "k": k}
	if o.Pod != "" {
		line["pod"] = o.Pod
	}
	if o.C != "" {
		line["c"] = o.C
	}
	if o.Tag != "" {
		line["tag"] = o.Tag
	}
	if o.PodS != nil {
		line["pods"] = o.PodS
	}
	if o.Ctr != nil {
		line["ctrspec"] = o.Ctr
		if o.Op == "Create" {
			line["mems0l"] = cpuList(o.Ctr.Mems0)
		}
	}
	if o.Op == "Sync" {
		line["rtpods"] = append([]string{}, o.Pods...)
		line["rtctrs"] = o.Ctrs
	}
	if o.Op == "Reconfigure" {
		line["config"] = o.Config
	}
	line["err"] = r.Err != nil
	if r.Err != nil {
		line["msg"] = r.Err.Error()
	}
	line["panic"] = r.Panic != nil
	if r.Panic != nil {
		line["panicmsg"] = fmt.Sprint(r.Panic)
	}
	line["adj"] = adjView(r.Adj)
	line["hasadj"] = r.Adj != nil
	line["upd"] = updView(r.Upd)
	pv := [][]tr.M{}
	for _, batch := range pushed {
		pv = append(pv, updView(batch))
	}
	line["pushed"] = pv
	if st != nil && r.Panic == nil {
		line["st"] = st
	}
	return line
}

// SafeState projects the state, recovering a panic of the projection itself.
func (w *World) SafeState() (st tr.M, panicMsg string) {
	defer func() {
		if p := recover(); p != nil {
			st, panicMsg = nil, fmt.Sprint(p)
		}
	}()
	return w.State(), ""
}

// ReplyView is the comparable form of a reply (the same views the trace lines carry).
func ReplyView(r Reply) tr.M {
	return tr.M{"err": r.Err != nil, "panic": r.Panic != nil, "adj": adjView(r.Adj), "hasadj": r.Adj != nil, "upd": updView(r.Upd)}
}
