package tr

// Flush writes buffered lines to the file (added for drivers whose process may be killed by the code under test).
func (w *Writer) Flush() { w.w.Flush() }
