// Package tr holds small helpers shared by the harness drivers: ndjson trace output,
// seeded randomness and sorted integer slices for JSON.
package tr

import (
	"bufio"
	"encoding/json"
	"fmt"
	"os"
	"sort"
)

// Writer writes one JSON object per line.
type Writer struct {
	f *os.File
	w *bufio.Writer
	N int
}

func NewWriter(path string) (*Writer, error) {
	f, err := os.Create(path)
	if err != nil {
		return nil, err
	}
	return &Writer{f: f, w: bufio.NewWriterSize(f, 1<<20)}, nil
}

func (w *Writer) Emit(v interface{}) {
	b, err := json.Marshal(v)
	if err != nil {
		panic(fmt.Sprintf("trace marshal: %v", err))
	}
	w.w.Write(b)
	w.w.WriteByte('\n')
	if flushEach {
		w.w.Flush()
	}
	w.N++
}

func (w *Writer) Close() error {
	if err := w.w.Flush(); err != nil {
		return err
	}
	return w.f.Close()
}

var flushEach = os.Getenv("VERIF_FLUSH") != ""

// M is a JSON object.
type M = map[string]interface{}

// Ints returns a sorted non-nil copy (so that JSON shows [] and never null).
func Ints(in []int) []int {
	out := make([]int, 0, len(in))
	out = append(out, in...)
	sort.Ints(out)
	return out
}

// ReadJSON reads a JSON file into v.
func ReadJSON(path string, v interface{}) error {
	b, err := os.ReadFile(path)
	if err != nil {
		return err
	}
	return json.Unmarshal(b, v)
}
