// Package annodrv drives the annotation resolution of the resource-policy cache
// (pkg/resmgr/cache: pod.GetEffectiveAnnotation and what is built on it) with generated cases.
//
// For every case the pod's annotation map is re-created `runs` times with different insertion
// orders and map layouts; every re-creation is inserted into a REAL cache as a new NRI pod
// sandbox and resolved through the public cache API.  The driver holds no expectations: it logs
// the structured annotation set it was given next to the raw strings, and the set of distinct
// results over the re-creations.
package annodrv

import (
	"encoding/json"
	"flag"
	"fmt"
	"math/rand"
	"os"
	"path/filepath"
	"sort"
	"strings"
	"sync"
	"time"

	nri "github.com/containerd/nri/pkg/api"

	"github.com/containers/nri-plugins/pkg/kubernetes"
	logger "github.com/containers/nri-plugins/pkg/log"
	"github.com/containers/nri-plugins/pkg/resmgr/cache"
	libmem "github.com/containers/nri-plugins/pkg/resmgr/lib/memory"

	"verifharness/internal/tr"
)

const site = "cache"

const hangTimeout = 30 * time.Second

// Ann is one annotation: the raw Go map key/value plus the structured form of the key.
type Ann struct {
	Raw   string `json:"raw"`
	Val   string `json:"val"`
	Key   string `json:"key"`
	Scope string `json:"scope"`
	Ctr   string `json:"ctr"`
	Vp    string `json:"vp"`
	Nsfx  bool   `json:"nsfx"`
}

// Case is one generated input.
type Case struct {
	ID     int      `json:"id"`
	Site   string   `json:"site"`
	Ctr    string   `json:"ctr"`
	Others []string `json:"others"`
	Ann    []Ann    `json:"ann"`
	Keys   []string `json:"keys"`
	Res    string   `json:"res"`
	Tag    string   `json:"tag"`
}

// Driver is the driver file.
type Driver struct {
	Seed  int64  `json:"seed"`
	Runs  int    `json:"runs"`
	Cases []Case `json:"cases"`
}

type eff struct {
	Ok bool   `json:"ok"`
	V  string `json:"v"`
}

type result struct {
	Panic   bool              `json:"panic"`
	PanicAt string            `json:"panicAt,omitempty"`
	Err     bool              `json:"err"`
	Eff     map[string]eff    `json:"eff"`  // pod.GetEffectiveAnnotation(key, name)
	Eff2    map[string]eff    `json:"eff2"` // container.GetEffectiveAnnotation(key)
	Out     map[string]string `json:"out"`  // annotation-backed helpers of cache.Container
}

func buildMap(ann []Ann, order []int, variant int) map[string]string {
	var m map[string]string
	switch variant % 3 {
	case 0:
		m = map[string]string{}
	case 1:
		m = make(map[string]string, 32)
	default:
		m = map[string]string{}
		for i := 0; i < 19; i++ {
			m[fmt.Sprintf("verif-filler-%d", i)] = "x"
		}
		for i := 0; i < 19; i++ {
			delete(m, fmt.Sprintf("verif-filler-%d", i))
		}
	}
	for _, i := range order {
		m[ann[i].Raw] = ann[i].Val
	}
	return m
}

func orders(k, n int, rng *rand.Rand) [][]int {
	id := make([]int, k)
	for i := range id {
		id[i] = i
	}
	var out [][]int
	if k <= 4 {
		var perms [][]int
		var rec func(cur []int, rest []int)
		rec = func(cur []int, rest []int) {
			if len(rest) == 0 {
				perms = append(perms, append([]int{}, cur...))
				return
			}
			for i := range rest {
				nr := append(append([]int{}, rest[:i]...), rest[i+1:]...)
				rec(append(cur, rest[i]), nr)
			}
		}
		rec(nil, id)
		for len(out) < n {
			out = append(out, perms[len(out)%len(perms)])
		}
		return out
	}
	out = append(out, append([]int{}, id...))
	rev := make([]int, k)
	for i := range rev {
		rev[i] = k - 1 - i
	}
	out = append(out, rev)
	for len(out) < n {
		p := append([]int{}, id...)
		rng.Shuffle(k, func(i, j int) { p[i], p[j] = p[j], p[i] })
		out = append(out, p)
	}
	return out
}

func nriContainer(id, pod, name, res string) *nri.Container {
	ctr := &nri.Container{Id: id, PodSandboxId: pod, Name: name, State: nri.ContainerState_CONTAINER_CREATED}
	switch res {
	case "nolinux":
	case "nores":
		ctr.Linux = &nri.LinuxContainer{}
	case "nomem":
		ctr.Linux = &nri.LinuxContainer{Resources: &nri.LinuxResources{}}
	default:
		ctr.Linux = &nri.LinuxContainer{Resources: &nri.LinuxResources{
			Memory: &nri.LinuxMemory{Limit: &nri.OptionalInt64{Value: 1 << 20}},
			Cpu:    &nri.LinuxCPU{Shares: &nri.OptionalUInt64{Value: 1024}},
		}}
	}
	return ctr
}

var helperKeys = map[string]string{
	"cpu.preserve":    cache.PreserveCpuKey,
	"memory.preserve": cache.PreserveMemoryKey,
	"memory-type":     cache.MemoryTypeKey,
}

func maskString(m libmem.TypeMask) string { return "mask:" + m.String() }

// one observation on the real cache; the pod object is new, the containers of the case may already exist
func observe(cch cache.Cache, c *Case, annotations map[string]string, seq int) (r result) {
	r = result{Eff: map[string]eff{}, Eff2: map[string]eff{}, Out: map[string]string{}}
	stage := "InsertPod"
	defer func() {
		if x := recover(); x != nil {
			r.Panic, r.PanicAt = true, stage
			r.Err, r.Out = false, map[string]string{}
		}
	}()
	podID := fmt.Sprintf("pod%06d", c.ID)
	pod := cch.InsertPod(&nri.PodSandbox{
		Id: podID, Name: "p" + podID, Uid: "uid-" + podID, Namespace: "default",
		Annotations: annotations,
		Linux:       &nri.LinuxPodSandbox{CgroupParent: "/kubepods/besteffort/pod" + podID},
	}, nil)

	stage = "InsertContainer"
	names := append([]string{c.Ctr}, c.Others...)
	var ctr cache.Container
	for i, n := range names {
		id := fmt.Sprintf("ctr%06d-%02d", c.ID, i)
		// containers are (re)inserted on the first re-creation and on every third one after it
		if _, ok := cch.LookupContainer(id); !ok || seq%3 == 0 {
			res := "full"
			if i == 0 {
				res = c.Res
			}
			if _, err := cch.InsertContainer(nriContainer(id, podID, n, res)); err != nil {
				r.Err = true
				return r
			}
		}
		if i == 0 {
			ctr, _ = cch.LookupContainer(id)
		}
	}

	stage = "GetEffectiveAnnotation"
	if seq%2 == 1 { // through a lookup instead of the object InsertPod returned
		if p, ok := cch.LookupPod(podID); ok {
			pod = p
		}
	}
	for _, k := range c.Keys {
		v, ok := pod.GetEffectiveAnnotation(k, c.Ctr)
		r.Eff[k] = eff{Ok: ok, V: v}
		v, ok = ctr.GetEffectiveAnnotation(k)
		r.Eff2[k] = eff{Ok: ok, V: v}
	}

	stage = "helpers"
	r.Out["cpu.preserve"] = fmt.Sprint(ctr.PreserveCpuResources())
	r.Out["memory.preserve"] = fmt.Sprint(ctr.PreserveMemoryResources())
	if m, err := ctr.MemoryTypes(); err != nil {
		r.Out["memory-type"] = "!"
	} else {
		r.Out["memory-type"] = maskString(m)
	}
	return r
}

func cleanup(cch cache.Cache, c *Case) {
	defer func() { _ = recover() }()
	for i := range append([]string{c.Ctr}, c.Others...) {
		cch.DeleteContainer(fmt.Sprintf("ctr%06d-%02d", c.ID, i))
	}
	cch.DeletePod(fmt.Sprintf("pod%06d", c.ID))
}

// Main is the entry point of `annodrv`.
func Main(args []string) error {
	fs := flag.NewFlagSet("annodrv", flag.ContinueOnError)
	in := fs.String("in", "", "driver file (JSON)")
	out := fs.String("out", "", "trace file (ndjson)")
	dir := fs.String("dir", "", "scratch directory for the cache state")
	workers := fs.Int("workers", 8, "number of caches working in parallel")
	if err := fs.Parse(args); err != nil {
		return err
	}
	if *in == "" || *out == "" || *dir == "" {
		return fmt.Errorf("need --in, --out and --dir")
	}
	// pkg/kubernetes sizes its tables from the host's /proc/meminfo at init time
	kubernetes.SetMemoryCapacity(8 << 30)
	logger.SetLevel(logger.LevelFatal)

	var drv Driver
	if err := tr.ReadJSON(*in, &drv); err != nil {
		return err
	}
	if drv.Runs < 20 {
		drv.Runs = 24
	}
	if err := os.MkdirAll(*dir, 0o755); err != nil {
		return err
	}
	w, err := tr.NewWriter(*out)
	if err != nil {
		return err
	}
	defer w.Close()

	// the cases are independent: shard them over several caches (each with its own state directory)
	var (
		mu    sync.Mutex
		wg    sync.WaitGroup
		next  int
		fail  error
		takeC = func() *Case {
			mu.Lock()
			defer mu.Unlock()
			for fail == nil && next < len(drv.Cases) {
				c := &drv.Cases[next]
				next++
				if c.Site == site {
					return c
				}
			}
			return nil
		}
	)
	for wi := 0; wi < *workers; wi++ {
		wdir := filepath.Join(*dir, fmt.Sprintf("w%02d", wi))
		if err := os.MkdirAll(wdir, 0o755); err != nil {
			return err
		}
		cch, err := cache.NewCache(cache.Options{CacheDir: wdir})
		if err != nil {
			return err
		}
		wg.Add(1)
		go func() {
			defer wg.Done()
			for c := takeC(); c != nil; c = takeC() {
				line, err := runCase(cch, c, &drv)
				mu.Lock()
				w.Emit(line)
				if err != nil && fail == nil {
					fail = err
				}
				mu.Unlock()
			}
		}()
	}
	wg.Wait()
	return fail
}

func runCase(cch cache.Cache, c *Case, drv *Driver) (tr.M, error) {
	if c.Ann == nil {
		c.Ann = []Ann{}
	}
	if c.Keys == nil {
		c.Keys = []string{}
	}
	// how the helper behind a key reads a value (only memory-type is not a plain string)
	for i := range c.Ann {
		c.Ann[i].Vp = c.Ann[i].Val
		if c.Ann[i].Key == cache.MemoryTypeKey {
			if m, err := libmem.ParseTypeMask(c.Ann[i].Val); err == nil {
				c.Ann[i].Vp = maskString(m)
			} else {
				c.Ann[i].Vp = "!"
			}
		}
	}
	rng := rand.New(rand.NewSource(drv.Seed*1000003 + int64(c.ID)))
	ords := orders(len(c.Ann), drv.Runs, rng)
	results := map[string]result{}
	done := make(chan struct{})
	go func() {
		defer close(done)
		for i, o := range ords {
			r := observe(cch, c, buildMap(c.Ann, o, i), i)
			b, _ := json.Marshal(r)
			results[string(b)] = r
		}
		cleanup(cch, c)
	}()
	select {
	case <-done:
	case <-time.After(hangTimeout):
		return tr.M{"ev": "hang", "site": site, "id": c.ID}, fmt.Errorf("case %d did not return", c.ID)
	}
	keys := []string{}
	for k := range results {
		keys = append(keys, k)
	}
	sort.Strings(keys)
	rs := []result{}
	for _, k := range keys {
		rs = append(rs, results[k])
	}
	raws := []string{}
	for _, a := range c.Ann {
		raws = append(raws, a.Raw+"="+a.Val)
	}
	return tr.M{
		"ev": "case", "site": site, "id": c.ID, "ctr": c.Ctr, "tag": c.Tag, "res": c.Res,
		"ann": c.Ann, "keys": c.Keys, "rawmap": strings.Join(raws, " | "),
		"hkeys": helperKeys, "hnone": maskString(libmem.TypeMask(0)),
		"nruns": len(ords), "results": rs,
	}, nil
}
