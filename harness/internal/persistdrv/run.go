package persistdrv

import (
	"flag"
	"fmt"
	"io"
	"os"
	"path/filepath"
	"sort"
	"syscall"
	"time"

	"github.com/containers/nri-plugins/pkg/resmgr/cache"

	"verifharness/internal/l2"
	"verifharness/internal/tr"
)

// L2AnnKeys: annotation keys the L2 histories may carry (effective-annotation lookups are by key).
var L2AnnKeys = []string{
	"prefer-reserved-cpus.resource-policy.nri.io", "prefer-isolated-cpus.resource-policy.nri.io",
	"prefer-shared-cpus.resource-policy.nri.io", "cpu.preserve.resource-policy.nri.io",
	"memory.preserve.resource-policy.nri.io", "memory-type.resource-policy.nri.io",
	"hide-hyperthreads.resource-policy.nri.io", "balloon.balloons.resource-policy.nri.io",
	affKey, antiAffKey, "topologyhints.resource-policy.nri.io",
}

// copyTree copies a state directory (regular files and directories; modes preserved).
func copyTree(src, dst string) error {
	return filepath.Walk(src, func(p string, info os.FileInfo, err error) error {
		if err != nil {
			return err
		}
		rel, _ := filepath.Rel(src, p)
		t := filepath.Join(dst, rel)
		switch {
		case info.IsDir():
			if err := os.MkdirAll(t, 0o700); err != nil {
				return err
			}
			return os.Chmod(t, info.Mode().Perm())
		case info.Mode().IsRegular():
			in, err := os.Open(p)
			if err != nil {
				return err
			}
			defer in.Close()
			out, err := os.OpenFile(t, os.O_CREATE|os.O_TRUNC|os.O_WRONLY, 0o600)
			if err != nil {
				return err
			}
			if _, err := io.Copy(out, in); err != nil {
				out.Close()
				return err
			}
			if err := out.Close(); err != nil {
				return err
			}
			return os.Chmod(t, info.Mode().Perm())
		}
		return nil // nothing else is expected in a state directory
	})
}

func inode(path string) uint64 {
	var st syscall.Stat_t
	if err := syscall.Lstat(path, &st); err != nil {
		return 0
	}
	return st.Ino
}

func fileSize(path string) int {
	fi, err := os.Lstat(path)
	if err != nil {
		return -1
	}
	return int(fi.Size())
}

// loadDir opens a fresh cache on a directory (what a restarted plugin does).
func loadDir(dir string) (c cache.Cache, err error) {
	defer func() {
		if r := recover(); r != nil {
			c, err = nil, fmt.Errorf("panic while loading: %v", r)
		}
	}()
	return cache.NewCache(cache.Options{CacheDir: dir})
}

type rtCtx struct {
	w       *tr.Writer
	scratch string
	n       int
	snapDir string
	g2, g3  int // second- / third-generation round trips made
	g2Every int // every n-th L2 round trip gets a second generation (0: none); decorated ones always do
	g2Third int // every n-th second generation goes on to a third one
}

// maybeSecondGen: second-generation round trip of a state directory whose first-generation round trip was equal.
func (x *rtCtx) maybeSecondGen(cp string, lp Proj, equal bool, o ProjOpts, rec tr.M, always bool) {
	if cp == "" || !equal || x.g2Every <= 0 {
		return
	}
	if !always && x.n%x.g2Every != 0 {
		return
	}
	variant := Gen2Variants[x.g2%len(Gen2Variants)]
	x.secondGen(cp, lp, o, rec, variant, x.g2Third > 0 && x.g2%x.g2Third == 0)
}

// roundTrip saves the live cache, re-opens a copy of its directory and compares the projections.
func (x *rtCtx) roundTrip(live cache.Cache, stateDir string, o ProjOpts, rec tr.M) (Proj, string, bool) {
	x.n++
	cf := filepath.Join(stateDir, "cache")
	ino0 := inode(cf)
	lp := Project(live, o) // also evaluates the lazily computed persisted fields, so that the save below has them
	err := live.Save()
	rec["ev"] = "rt"
	rec["saveerr"] = err != nil
	if err != nil {
		rec["savemsg"] = err.Error()
	}
	ino1 := inode(cf)
	rec["had_file"] = ino0 != 0
	rec["ino_changed"] = ino0 != ino1 && ino1 != 0
	rec["tmp_left"] = fileSize(cf+".saving") >= 0
	cp := filepath.Join(x.scratch, fmt.Sprintf("rt%d", x.n))
	os.RemoveAll(cp)
	if err := copyTree(stateDir, cp); err != nil {
		rec["harness_error"] = "copy: " + err.Error()
		x.w.Emit(rec)
		return lp, "", false
	}
	re, lerr := loadDir(cp)
	rec["loaded"] = lerr == nil
	if lerr != nil {
		rec["loaderr"] = lerr.Error()
		rec["equal"] = false
		rec["diff"] = []string{"load"}
		rec["info_diff"] = []string{}
		rec["live_hash"], rec["reload_hash"] = lp.Hash(), ""
		x.w.Emit(rec)
		return lp, cp, false
	}
	rp := Project(re, o)
	diff, info, ex := Diff(lp, rp)
	rec["equal"] = len(diff) == 0
	rec["diff"] = diff
	rec["info_diff"] = info
	if len(ex) > 0 {
		rec["examples"] = ex
	}
	rec["live_hash"], rec["reload_hash"] = lp.Hash(), rp.Hash()
	rec["feat"] = lp.Features()
	rec["fields"] = len(lp)
	rec["bytes"] = fileSize(filepath.Join(cp, "cache"))
	x.w.Emit(rec)
	return lp, cp, len(diff) == 0
}

func annKeysOf(h l2.History) []string {
	set := map[string]bool{}
	for _, k := range L2AnnKeys {
		set[k] = true
	}
	for _, o := range h.Ops {
		if o.PodS != nil {
			for k := range o.PodS.Ann {
				set[k] = true
			}
		}
	}
	out := []string{}
	for k := range set {
		out = append(out, k)
	}
	sort.Strings(out)
	return out
}

// keepSnapshot stores a copy of a state directory for the crash-point enumeration.
func (x *rtCtx) keepSnapshot(from, name string, meta tr.M) {
	if x.snapDir == "" {
		return
	}
	dst := filepath.Join(x.snapDir, name)
	os.RemoveAll(dst)
	if err := copyTree(from, filepath.Join(dst, "state")); err != nil {
		return
	}
	meta["ev"] = "snap"
	meta["dir"] = dst
	meta["name"] = name
	x.w.Emit(meta)
}

func runHistory(x *rtCtx, h l2.History, hidx int, scratch, shared string, seed int64, decorEvery int) (hang bool) {
	dir := filepath.Join(scratch, fmt.Sprintf("h%d", hidx))
	defer os.RemoveAll(dir)
	x.scratch = filepath.Join(dir, "rt")
	os.MkdirAll(x.scratch, 0o700)
	world, err := l2.NewWorld(h.World, dir, shared)
	if err != nil {
		x.w.Emit(tr.M{"ev": "reset", "h": hidx, "policy": h.World.Policy, "booterr": err.Error()})
		return false
	}
	defer world.Close()
	x.w.Emit(tr.M{"ev": "reset", "h": hidx, "policy": h.World.Policy, "world": h.World.Name})
	opts := ProjOpts{AnnKeys: annKeysOf(h)}
	if h.World.Policy == "ta" {
		opts.RawKeys = []string{"allocations"} // read by the policy at start-up, so the live cache serves it from memory
	}
	maxCtrs, decors, kept := 0, 0, 0
	for k, o := range h.Ops {
		if h.Consistent {
			switch o.Op {
			case "Start", "Update", "Stop", "Remove":
				if world.Refused[o.C] {
					continue
				}
			case "Sync":
				ctrs := map[string]string{}
				for id, st := range o.Ctrs {
					if !world.Refused[id] {
						ctrs[id] = st
					}
				}
				o.Ctrs = ctrs
			}
		}
		line, err := world.Step(o, hidx, k)
		if err == l2.ErrHang {
			x.w.Emit(tr.M{"ev": "hang", "h": hidx, "k": k, "op": o.Op})
			return true
		}
		if world.H == nil {
			continue
		}
		rec := tr.M{"h": hidx, "k": k, "op": o.Op, "origin": "l2", "policy": h.World.Policy,
			"oppanic": line["panic"] == true, "operr": line["err"] == true}
		done := make(chan struct{})
		var lp Proj
		var cp string
		go func() {
			defer close(done)
			defer func() {
				if r := recover(); r != nil {
					x.w.Emit(tr.M{"ev": "harness_panic", "h": hidx, "k": k, "msg": fmt.Sprint(r)})
				}
			}()
			var eq bool
			lp, cp, eq = x.roundTrip(world.H.Cache(), world.StateDir, opts, rec)
			x.maybeSecondGen(cp, lp, eq, opts, rec, false)
		}()
		select {
		case <-done:
		case <-time.After(60 * time.Second):
			x.w.Emit(tr.M{"ev": "hang", "h": hidx, "k": k, "op": "roundtrip"})
			return true
		}
		if cp == "" {
			continue
		}
		f := lp.Features()
		// decorate a copy whenever the history reaches a new maximum of containers (bounded), and keep snapshots
		if f["ctrs"] > maxCtrs && decors < decorEvery {
			maxCtrs = f["ctrs"]
			decors++
			x.decorate(cp, hidx, k, h.World.Policy, opts, seed)
			if kept < 2 {
				kept++
				x.keepSnapshot(cp, fmt.Sprintf("h%d-k%d-l2", hidx, k), tr.M{"h": hidx, "k": k, "origin": "l2", "policy": h.World.Policy,
					"hash": lp.Hash(), "feat": f})
			}
		}
		os.RemoveAll(cp)
	}
	return false
}

// decorate loads a copy of a snapshot into a cache of its own, decorates it in two rounds and round-trips each.
func (x *rtCtx) decorate(snap string, hidx, k int, policy string, base ProjOpts, seed int64) {
	dd := filepath.Join(x.scratch, fmt.Sprintf("decor-h%d-k%d", hidx, k))
	os.RemoveAll(dd)
	defer os.RemoveAll(dd)
	if err := copyTree(snap, dd); err != nil {
		return
	}
	b, err := loadDir(dd)
	if err != nil {
		x.w.Emit(tr.M{"ev": "rt", "h": hidx, "k": k, "op": "decor-load", "origin": "decor", "policy": policy, "loaded": false, "loaderr": err.Error(),
			"equal": false, "diff": []string{"load"}, "info_diff": []string{}, "saveerr": false, "had_file": true, "ino_changed": true, "tmp_left": false,
			"live_hash": "", "reload_hash": ""})
		return
	}
	o := ProjOpts{AnnKeys: append(append([]string{}, base.AnnKeys...), DecorAnnKeys...), EnvKeys: DecorEnvKeys, Typed: true}
	if policy == "ta" {
		o.RawKeys = []string{"allocations"} // first access unmarshals the persisted form into the raw holder
	}
	for round := 1; round <= 2; round++ {
		applied, panics := Decorate(b, seed*131+int64(hidx)*17+int64(k), round)
		rec := tr.M{"h": hidx, "k": k, "op": fmt.Sprintf("decor%d", round), "origin": "decor", "policy": policy, "applied": applied,
			"oppanic": false, "operr": false, "api_panics": panics}
		lp, cp, eq := x.roundTrip(b, dd, o, rec)
		x.maybeSecondGen(cp, lp, eq, o, rec, true)
		if cp != "" && round == 2 {
			x.keepSnapshot(cp, fmt.Sprintf("h%d-k%d-decor", hidx, k), tr.M{"h": hidx, "k": k, "origin": "decor", "policy": policy,
				"hash": lp.Hash(), "feat": lp.Features()})
		}
		if cp != "" {
			os.RemoveAll(cp)
		}
	}
}

// RunMain: persistdrv run --script histories.json --out trace.ndjson --scratch dir [--from a --to b] [--snapout dir]
func RunMain(args []string) error {
	fs := flag.NewFlagSet("run", flag.ContinueOnError)
	out := fs.String("out", "", "trace output (ndjson)")
	script := fs.String("script", "", "JSON file: list of L2 histories")
	scratch := fs.String("scratch", "", "private scratch directory")
	shared := fs.String("shared", "", "directory for unpacked fixtures")
	from := fs.Int("from", 0, "first history index")
	to := fs.Int("to", -1, "one past the last history index")
	snapout := fs.String("snapout", "", "keep snapshots for the crash enumeration here")
	seed := fs.Int64("seed", 1, "seed of the decorations")
	decors := fs.Int("decors", 2, "decorated snapshots per history")
	gen2 := fs.Int("gen2", 1, "second-generation round trip for every n-th L2 round trip (0: none) and every decorated one")
	gen3 := fs.Int("gen3", 5, "every n-th second generation goes on to a third one (0: none)")
	if err := fs.Parse(args); err != nil {
		return err
	}
	if *shared == "" {
		*shared = *scratch
	}
	hs := []l2.History{}
	if err := tr.ReadJSON(*script, &hs); err != nil {
		return err
	}
	if err := os.MkdirAll(*scratch, 0o700); err != nil {
		return err
	}
	if err := FakeSysfs(filepath.Join(*scratch, "fakesys")); err != nil {
		return err
	}
	w, err := tr.NewWriter(*out)
	if err != nil {
		return err
	}
	defer w.Close()
	x := &rtCtx{w: w, snapDir: *snapout, g2Every: *gen2, g2Third: *gen3}
	hangs, n := 0, 0
	for i, h := range hs {
		if i < *from || (*to >= 0 && i >= *to) {
			continue
		}
		n++
		if runHistory(x, h, i, *scratch, *shared, *seed, *decors) {
			if hangs++; hangs >= 2 {
				break
			}
		}
	}
	fmt.Printf("persistdrv run: %d histories, %d round trips, %d second generations, %d trace lines\n", n, x.n, x.g2, w.N)
	return nil
}
