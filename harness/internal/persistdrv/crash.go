package persistdrv

import (
	"bufio"
	"bytes"
	"context"
	"flag"
	"fmt"
	"math/rand"
	"os"
	"os/exec"
	"path/filepath"
	"regexp"
	"sort"
	"strconv"
	"strings"
	"sync"
	"time"

	"verifharness/internal/tr"
)

// System calls that can change what is on disk (or fail doing so).  Every one of them made by the save is a fault
// point; `?` lets strace accept names that do not exist on this architecture.
var faultSyscalls = []string{"open", "openat", "openat2", "creat", "write", "pwrite64", "writev", "pwritev", "pwritev2",
	"fsync", "fdatasync", "sync_file_range", "ftruncate", "truncate", "close", "rename", "renameat", "renameat2",
	"link", "linkat", "unlink", "unlinkat", "symlink", "symlinkat", "chmod", "fchmod", "fchmodat", "mkdir", "mkdirat",
	"rmdir", "fallocate", "copy_file_range", "sendfile", "mknod", "mknodat"}

func traceSet() string {
	out := []string{}
	for _, s := range faultSyscalls {
		out = append(out, "?"+s)
	}
	return "trace=" + strings.Join(out, ",")
}

type scall struct {
	Idx  int    // index in the log
	Name string // system call
	Args string // arguments, the run's directory replaced by $D
	Ret  string
	Ord  int // n-th call of this name by the traced thread (strace's when=)
}

var reCall = regexp.MustCompile(`^([a-z_0-9]+)\((.*)\)\s+= (.*)$`)

func parseStrace(path, dir string) (calls []scall, killed bool, err error) {
	f, err := os.Open(path)
	if err != nil {
		return nil, false, err
	}
	defer f.Close()
	ord := map[string]int{}
	sc := bufio.NewScanner(f)
	sc.Buffer(make([]byte, 1<<20), 1<<24)
	for sc.Scan() {
		line := sc.Text()
		if strings.HasPrefix(line, "+++ killed by SIGKILL") {
			killed = true
		}
		m := reCall.FindStringSubmatch(line)
		if m == nil {
			continue
		}
		ord[m[1]]++
		calls = append(calls, scall{Idx: len(calls), Name: m[1], Args: strings.ReplaceAll(m[2], dir, "$D"), Ret: strings.TrimSpace(m[3]), Ord: ord[m[1]]})
	}
	return calls, killed, sc.Err()
}

func isMarker(c scall, which string) bool {
	return c.Name == "write" && strings.HasPrefix(c.Args, `1, "`+which)
}

func window(calls []scall) (begin, end int) {
	begin, end = -1, -1
	for i, c := range calls {
		if isMarker(c, "SAVE-BEGIN") {
			begin = i
		}
		if isMarker(c, "SAVE-END") {
			end = i
		}
	}
	return
}

func stdFd(c scall) bool {
	return (c.Name == "write" || c.Name == "close" || c.Name == "fsync") && (strings.HasPrefix(c.Args, "1,") || strings.HasPrefix(c.Args, "2,") || c.Args == "1" || c.Args == "2")
}

type fault struct {
	ID    int
	Kind  string // none | kill | error | torn-error | torn-kill
	Sys   string
	Ord   int
	Errno string
	Fsize int
	Args  string // what the baseline run passed to the targeted call
	Pos   int    // position of the targeted call inside the save window (1-based), 0 if n/a
}

type crashJob struct {
	snap, variant, src string
	tmpName            string // the temporary path of the save, relative to the state directory ("" if none was seen)
	f                  fault
	oldHash, newHash   string
	oldP, newP         Proj
}

type crashCtx struct {
	self    string
	work    string
	w       *tr.Writer
	mu      sync.Mutex
	seq     int
	timeout time.Duration
	loNanos int64 // time spent in saves after an interrupted save (summed over the workers)
	loRuns  int64
}

func (x *crashCtx) emit(m tr.M) {
	x.mu.Lock()
	defer x.mu.Unlock()
	x.w.Emit(m)
}

func (x *crashCtx) newDir(tag string) string {
	x.mu.Lock()
	x.seq++
	n := x.seq
	x.mu.Unlock()
	return filepath.Join(x.work, fmt.Sprintf("%s%d", tag, n))
}

type childResult struct {
	calls    []scall
	killed   bool
	stdout   string
	stderr   string
	rc       int
	timedOut bool
}

// runChild runs one save in a child process under strace, optionally with a fault.
func (x *crashCtx) runChild(dir, variant string, inject string, fsize int) (childResult, error) {
	logp := dir + ".strace"
	defer os.Remove(logp)
	args := []string{"-o", logp, "-e", traceSet()}
	if inject != "" {
		args = append(args, "-e", "inject="+inject)
	}
	args = append(args, x.self, "save-child", "--dir", dir, "--variant", variant)
	if fsize >= 0 {
		args = append(args, "--fsize", strconv.Itoa(fsize))
	}
	ctx, cancel := context.WithTimeout(context.Background(), x.timeout)
	defer cancel()
	cmd := exec.CommandContext(ctx, "strace", args...)
	var so, se bytes.Buffer
	cmd.Stdout, cmd.Stderr = &so, &se
	cmd.Env = append(os.Environ(), "GOMAXPROCS=2")
	err := cmd.Run()
	res := childResult{stdout: so.String(), stderr: se.String()}
	if ctx.Err() != nil {
		res.timedOut = true
	}
	if ee, ok := err.(*exec.ExitError); ok {
		res.rc = ee.ExitCode()
	} else if err != nil {
		return res, err
	}
	calls, killed, perr := parseStrace(logp, dir)
	if perr != nil {
		return res, perr
	}
	res.calls, res.killed = calls, killed
	return res, nil
}

func saveReported(stdout string) string {
	switch {
	case strings.Contains(stdout, "SAVE-END ok"):
		return "ok"
	case strings.Contains(stdout, "SAVE-END err"):
		return "err"
	case strings.Contains(stdout, "SAVE-END done"):
		return "done"
	case strings.Contains(stdout, "LOAD-ERR"):
		return "loaderr"
	}
	return "none"
}

func leftovers(dir string) []string {
	out := []string{}
	es, _ := os.ReadDir(dir)
	for _, e := range es {
		if e.Name() != "cache" && e.Name() != "containers" {
			out = append(out, e.Name())
		}
	}
	sort.Strings(out)
	return out
}

// evaluate loads the directory the child left behind and compares it with the two legitimate snapshots.
func evaluate(dir string, j *crashJob, rec tr.M) {
	rec["leftovers"] = leftovers(dir)
	rec["cache_bytes"] = fileSize(filepath.Join(dir, "cache"))
	rec["tmp_bytes"] = fileSize(filepath.Join(dir, "cache.saving"))
	re, err := loadDir(dir)
	rec["loaded"] = err == nil
	rec["eq_old"], rec["eq_new"] = false, false
	if err != nil {
		rec["loaderr"] = trunc(err.Error(), 300)
		return
	}
	p := Project(re, CrashOpts())
	h := p.Hash()
	rec["hash"] = h
	rec["eq_old"], rec["eq_new"] = h == j.oldHash, h == j.newHash
	if h != j.oldHash && h != j.newHash {
		d1, _, _ := Diff(j.oldP, p)
		d2, _, ex := Diff(j.newP, p)
		rec["diff_old"], rec["diff_new"], rec["examples"] = head(d1, 8), head(d2, 8), ex
	}
}

func head(s []string, n int) []string {
	if len(s) > n {
		return s[:n]
	}
	return s
}

func (x *crashCtx) runFault(j *crashJob) {
	f := j.f
	rec := tr.M{"ev": "crash", "snap": j.snap, "variant": j.variant, "point": f.ID, "kind": f.Kind, "sys": f.Sys, "ord": f.Ord,
		"errno": f.Errno, "fsize": f.Fsize, "pos": f.Pos, "target": trunc(f.Args, 160)}
	var last tr.M
	for attempt := 1; attempt <= 3; attempt++ {
		dir := x.newDir("f")
		if err := copyTree(j.src, dir); err != nil {
			rec["harness_error"] = err.Error()
			break
		}
		r := tr.M{}
		for k, v := range rec {
			r[k] = v
		}
		r["attempt"] = attempt
		fired, matched := false, false
		inject := ""
		fsize := -1
		switch f.Kind {
		case "kill":
			inject = fmt.Sprintf("%s:signal=KILL:when=%d", f.Sys, f.Ord)
		case "error":
			inject = fmt.Sprintf("%s:error=%s:when=%d", f.Sys, f.Errno, f.Ord)
		case "torn-error", "torn-kill":
			fsize = f.Fsize
		}
		res, err := x.runChild(dir, j.variant, inject, fsize)
		if err != nil {
			r["harness_error"] = err.Error()
		}
		if f.Kind == "torn-kill" && err == nil {
			// the first run found where the limit bites; now kill the process right there (after the short write)
			var hit *scall
			for i := range res.calls {
				if strings.Contains(res.calls[i].Ret, "EFBIG") {
					hit = &res.calls[i]
					break
				}
			}
			if hit != nil {
				os.RemoveAll(dir)
				dir = x.newDir("f")
				copyTree(j.src, dir)
				inject = fmt.Sprintf("%s:signal=KILL:when=%d", hit.Name, hit.Ord)
				r["sys"], r["ord"] = hit.Name, hit.Ord
				res, err = x.runChild(dir, j.variant, inject, fsize)
				if err == nil && res.killed && len(res.calls) > 0 {
					lc := res.calls[len(res.calls)-1]
					fired = lc.Name == hit.Name && lc.Ord == hit.Ord && lc.Ret == "?"
					matched = fired
				}
			}
		}
		switch f.Kind {
		case "none":
			fired, matched = err == nil && !res.killed, true
		case "kill":
			if res.killed && len(res.calls) > 0 {
				lc := res.calls[len(res.calls)-1]
				fired = lc.Name == f.Sys && lc.Ord == f.Ord && lc.Ret == "?"
				matched = fired && lc.Args == f.Args
				if fired && !matched {
					r["got"] = trunc(lc.Args, 160)
				}
			}
		case "error":
			for _, c := range res.calls {
				if c.Name == f.Sys && c.Ord == f.Ord && strings.Contains(c.Ret, "(INJECTED)") {
					fired = true
					matched = c.Args == f.Args
					if !matched {
						r["got"] = trunc(c.Args, 160)
					}
				}
			}
		case "torn-error":
			for _, c := range res.calls {
				if strings.Contains(c.Ret, "EFBIG") {
					fired, matched = true, true
					r["sys"], r["ord"] = c.Name, c.Ord
					break
				}
			}
		}
		r["fired"], r["matched"] = fired, matched
		r["killed"] = res.killed
		r["childrc"] = res.rc
		r["timeout"] = res.timedOut
		r["save_reported"] = saveReported(res.stdout)
		if res.timedOut || strings.Contains(res.stdout, "RLIMIT-ERR") {
			r["harness_error"] = "child: " + trunc(res.stdout+res.stderr, 300)
		}
		evaluate(dir, j, r)
		if fired && matched && r["harness_error"] == nil && r["loaded"] == true && j.tmpName != "" && fileSize(filepath.Join(dir, j.tmpName)) >= 0 {
			// the next generation: a restart and one more save over what this interrupted save left at the temporary path
			what := f.Kind
			if s, _ := r["sys"].(string); s != "" {
				what += "@" + s
			}
			x.afterLeftoverBoth(dir, j.tmpName, r, what, f.ID, int64(f.ID)*31+int64(len(j.snap)))
		}
		os.RemoveAll(dir)
		last = r
		if fired && matched && r["harness_error"] == nil {
			break
		}
	}
	if last == nil {
		last = rec
		last["fired"], last["matched"] = false, false
	}
	x.emit(last)
}

// touches of the final path inside the save window of the fault-free run: the cache file may only be replaced by rename.
func touchRecord(snap, variant string, calls []scall, inoChanged bool) tr.M {
	b, e := window(calls)
	final := `"$D/cache"`
	list := []tr.M{}
	bad := []string{}
	tmpNames := map[string]bool{}
	for i := b + 1; i >= 1 && i < e && i < len(calls); i++ {
		c := calls[i]
		if !strings.Contains(c.Args, final) {
			continue
		}
		role := "other"
		switch c.Name {
		case "rename", "renameat", "renameat2":
			parts := strings.Split(c.Args, ", ")
			quoted := []string{}
			for _, p := range parts {
				if strings.HasPrefix(p, `"`) {
					quoted = append(quoted, p)
				}
			}
			if len(quoted) == 2 && quoted[1] == final && quoted[0] != final {
				role = "rename-dst"
				tmpNames[quoted[0]] = true
			} else {
				role = "rename-src"
			}
		case "open", "openat", "openat2", "creat":
			role = "open-read"
			if c.Name == "creat" || strings.Contains(c.Args, "O_WRONLY") || strings.Contains(c.Args, "O_RDWR") || strings.Contains(c.Args, "O_TRUNC") ||
				strings.Contains(c.Args, "O_CREAT") || strings.Contains(c.Args, "O_APPEND") {
				role = "open-write"
			}
		case "unlink", "unlinkat", "rmdir":
			role = "unlink"
		case "truncate":
			role = "truncate"
		case "link", "linkat", "symlink", "symlinkat":
			role = "link"
		case "chmod", "fchmodat":
			role = "chmod"
		}
		list = append(list, tr.M{"sys": c.Name, "role": role})
		if role != "rename-dst" && role != "open-read" && role != "chmod" {
			bad = append(bad, role)
		}
	}
	renames := 0
	for _, m := range list {
		if m["role"] == "rename-dst" {
			renames++
		}
	}
	sort.Strings(bad)
	return tr.M{"ev": "touch", "snap": snap, "variant": variant, "final": list, "bad": dedup(bad), "renames": renames, "ino_changed": inoChanged,
		"window": e - b - 1}
}

func dedup(s []string) []string {
	out := []string{}
	for i, v := range s {
		if i == 0 || v != s[i-1] {
			out = append(out, v)
		}
	}
	return out
}

// plan enumerates the fault points of one (snapshot, variant) from its fault-free run.
func plan(calls []scall, newSize int, tornN int, rnd *rand.Rand) (fs []fault, err error) {
	b, e := window(calls)
	if b < 0 || e < 0 || e <= b {
		return nil, fmt.Errorf("save window not found in the fault-free run")
	}
	id := 0
	add := func(f fault) { id++; f.ID = id; fs = append(fs, f) }
	add(fault{Kind: "none", Fsize: -1})
	// killed before the window opens: nothing of the save has happened
	add(fault{Kind: "kill", Sys: calls[b].Name, Ord: calls[b].Ord, Args: calls[b].Args, Fsize: -1, Pos: 0})
	for i := b + 1; i <= e; i++ {
		c := calls[i]
		// killed right before this call == right after the previous one; i == e is "after the last call of the save"
		add(fault{Kind: "kill", Sys: c.Name, Ord: c.Ord, Args: c.Args, Fsize: -1, Pos: i - b})
		if i == e || stdFd(c) {
			continue
		}
		for _, en := range []string{"ENOSPC", "EIO"} {
			add(fault{Kind: "error", Sys: c.Name, Ord: c.Ord, Errno: en, Args: c.Args, Fsize: -1, Pos: i - b})
		}
	}
	// really torn writes: the file-size limit cuts the data write short at byte `off`
	offs := map[int]bool{}
	if newSize > 2 {
		for _, o := range []int{0, 1, newSize / 2, newSize - 1} {
			offs[o] = true
		}
		for len(offs) < tornN+4 && len(offs) < newSize {
			offs[rnd.Intn(newSize)] = true
		}
	}
	ol := []int{}
	for o := range offs {
		ol = append(ol, o)
	}
	sort.Ints(ol)
	for _, o := range ol {
		add(fault{Kind: "torn-error", Fsize: o})
		add(fault{Kind: "torn-kill", Fsize: o})
	}
	return fs, nil
}

// CrashMain: persistdrv crash --snaps list.json --out trace.ndjson --work dir --self exe [--workers n] [--torn n]
func CrashMain(args []string) error {
	fl := flag.NewFlagSet("crash", flag.ContinueOnError)
	snaps := fl.String("snaps", "", "JSON list of {name, dir, variant}")
	out := fl.String("out", "", "trace output")
	work := fl.String("work", "", "scratch directory")
	self := fl.String("self", "", "path of this executable")
	workers := fl.Int("workers", 8, "parallel children")
	torn := fl.Int("torn", 2, "random torn-write offsets per snapshot (in addition to 0, 1, n/2, n-1)")
	seed := fl.Int64("seed", 1, "seed")
	loadSnaps := fl.Int("loadsnaps", 4, "load faults (read of the cache file fails at start-up) on the first n snapshots")
	if err := fl.Parse(args); err != nil {
		return err
	}
	type snapIn struct {
		Name    string `json:"name"`
		Dir     string `json:"dir"`
		Variant string `json:"variant"`
	}
	list := []snapIn{}
	if err := tr.ReadJSON(*snaps, &list); err != nil {
		return err
	}
	if *self == "" {
		*self, _ = os.Executable()
	}
	if err := os.MkdirAll(*work, 0o700); err != nil {
		return err
	}
	if err := FakeSysfs(filepath.Join(*work, "fakesys")); err != nil {
		return err
	}
	w, err := tr.NewWriter(*out)
	if err != nil {
		return err
	}
	defer w.Close()
	x := &crashCtx{self: *self, work: *work, w: w, timeout: 30 * time.Second}
	jobs := []*crashJob{}
	extra := []func(){}
	for si, s := range list {
		src := filepath.Join(s.Dir, "state")
		rnd := rand.New(rand.NewSource(*seed*7919 + int64(si)))
		// the two legitimate snapshots
		od := x.newDir("old")
		if err := copyTree(src, od); err != nil {
			return err
		}
		oc, err := loadDir(od)
		if err != nil {
			x.emit(tr.M{"ev": "plan", "snap": s.Name, "variant": s.Variant, "points": []int{}, "error": "snapshot does not load: " + err.Error()})
			continue
		}
		oldP := Project(oc, CrashOpts())
		nd := x.newDir("new")
		copyTree(src, nd)
		nc, err := loadDir(nd)
		if err != nil {
			x.emit(tr.M{"ev": "plan", "snap": s.Name, "variant": s.Variant, "points": []int{}, "error": "snapshot does not load: " + err.Error()})
			continue
		}
		ino0 := inode(filepath.Join(nd, "cache"))
		if err := Mutate(nc, s.Variant); err != nil {
			x.emit(tr.M{"ev": "plan", "snap": s.Name, "variant": s.Variant, "points": []int{}, "error": "fault-free save failed: " + err.Error()})
			continue
		}
		ino1 := inode(filepath.Join(nd, "cache"))
		newSize := fileSize(filepath.Join(nd, "cache"))
		nd2 := x.newDir("new")
		copyTree(nd, nd2)
		nc2, err := loadDir(nd2)
		if err != nil {
			x.emit(tr.M{"ev": "plan", "snap": s.Name, "variant": s.Variant, "points": []int{}, "error": "fault-free save does not load: " + err.Error()})
			continue
		}
		newP := Project(nc2, CrashOpts())
		os.RemoveAll(od)
		os.RemoveAll(nd)
		os.RemoveAll(nd2)
		// fault-free run under strace: the fault points
		bd := x.newDir("base")
		copyTree(src, bd)
		res, err := x.runChild(bd, s.Variant, "", -1)
		os.RemoveAll(bd)
		if err != nil {
			return fmt.Errorf("fault-free child run failed: %v (%s)", err, res.stderr)
		}
		fs, err := plan(res.calls, newSize, *torn, rnd)
		if err != nil {
			x.emit(tr.M{"ev": "plan", "snap": s.Name, "variant": s.Variant, "points": []int{}, "error": err.Error() + ": " + trunc(res.stdout+res.stderr, 400)})
			continue
		}
		ids := []int{}
		kinds := map[string]int{}
		sysk := map[string]int{}
		for _, f := range fs {
			ids = append(ids, f.ID)
			kinds[f.Kind]++
			if f.Sys != "" {
				sysk[f.Kind+":"+f.Sys]++
			}
		}
		tmpName := tmpNameOf(res.calls)
		b, e := window(res.calls)
		wcalls := []string{}
		for i := b + 1; i < e; i++ {
			wcalls = append(wcalls, res.calls[i].Name+"("+trunc(res.calls[i].Args, 100)+") = "+res.calls[i].Ret)
		}
		x.emit(tr.M{"ev": "plan", "snap": s.Name, "variant": s.Variant, "points": ids, "kinds": kinds, "by_syscall": sysk, "new_bytes": newSize, "tmp_name": tmpName,
			"old_hash": oldP.Hash(), "new_hash": newP.Hash(), "old_ne_new": oldP.Hash() != newP.Hash(), "window_calls": wcalls,
			"feat": oldP.Features()})
		x.emit(touchRecord(s.Name, s.Variant, res.calls, ino0 != ino1))
		if si < *loadSnaps {
			name, old := s.Name, oldP
			extra = append(extra, func() { x.loadFaults(src, name, old) })
		}
		if tmpName != "" {
			si, name, variant := si, s.Name, s.Variant
			extra = append(extra, func() { x.syntheticLeftovers(src, name, variant, tmpName, si, *seed*101+int64(si)) })
		}
		for _, f := range fs {
			jobs = append(jobs, &crashJob{snap: s.Name, variant: s.Variant, src: src, tmpName: tmpName, f: f, oldHash: oldP.Hash(), newHash: newP.Hash(), oldP: oldP, newP: newP})
		}
	}
	ch := make(chan func())
	var wg sync.WaitGroup
	for i := 0; i < *workers; i++ {
		wg.Add(1)
		go func() {
			defer wg.Done()
			for f := range ch {
				f()
			}
		}()
	}
	for _, f := range extra {
		ch <- f
	}
	for _, j := range jobs {
		j := j
		ch <- func() { x.runFault(j) }
	}
	close(ch)
	wg.Wait()
	fmt.Printf("persistdrv crash: %d snapshots, %d fault runs, %d saves after an interrupted save (%.1f s summed over %d workers)\n",
		len(list), len(jobs), x.loRuns, float64(x.loNanos)/1e9, *workers)
	return nil
}
