package persistdrv

import (
	"fmt"
	"math/rand"
	"os"
	"path/filepath"
	"sort"
	"strconv"

	"github.com/containerd/nri/pkg/api"
	podresv1 "k8s.io/kubelet/pkg/apis/podresources/v1"

	"github.com/containers/nri-plugins/pkg/agent/podresapi"
	"github.com/containers/nri-plugins/pkg/resmgr/cache"
	"github.com/containers/nri-plugins/pkg/topology"
	"github.com/containers/nri-plugins/pkg/utils/cpuset"
)

// Decorations are applied through the public cache API to a cache that was loaded from a snapshot an L2 history
// produced.  They add what the L2 world's runtime never sends (pod resources, devices with topology, tags, rich
// container specifications, containers in every state, policy entries of every supported type) so that every kind
// of persisted field is non-trivial in some snapshot.

const (
	affKey     = "resource-policy.nri.io/affinity"
	antiAffKey = "resource-policy.nri.io/anti-affinity"
)

// DecorAnnKeys are the annotation keys the decorations use (queried by the projection).
var DecorAnnKeys = []string{affKey, antiAffKey,
	"rdtclass.resource-policy.nri.io", "blockioclass.resource-policy.nri.io/container.dc-running",
	"topologyhints.resource-policy.nri.io", "memory-type.resource-policy.nri.io/pod", "verif.example/ann"}

// DecorEnvKeys are the environment variables the decorations use.
var DecorEnvKeys = []string{"VERIF_A", "VERIF_EMPTY", "PATH"}

// FakeSysfs writes a tiny sysfs with two character devices: 240:1 sits on a PCI function with numa_node and
// local_cpulist, 240:2 on one with a numa_node only (the "socket" fallback of pkg/topology).
func FakeSysfs(root string) error {
	w := func(p, s string) error {
		if err := os.MkdirAll(filepath.Dir(p), 0o755); err != nil {
			return err
		}
		return os.WriteFile(p, []byte(s), 0o644)
	}
	d1 := filepath.Join(root, "sys/devices/pci0000:00/0000:00:01.0")
	d2 := filepath.Join(root, "sys/devices/pci0000:80/0000:80:02.0")
	for _, e := range [][2]string{
		{filepath.Join(d1, "numa_node"), "1\n"}, {filepath.Join(d1, "local_cpulist"), "4-7\n"},
		{filepath.Join(d1, "vfake/fake0/dev"), "240:1\n"},
		{filepath.Join(d2, "numa_node"), "0\n"}, {filepath.Join(d2, "vfake/fake1/dev"), "240:2\n"},
	} {
		if err := w(e[0], e[1]); err != nil {
			return err
		}
	}
	if err := os.MkdirAll(filepath.Join(root, "sys/dev/char"), 0o755); err != nil {
		return err
	}
	for _, l := range [][2]string{
		{"../../devices/pci0000:00/0000:00:01.0/vfake/fake0", filepath.Join(root, "sys/dev/char/240:1")},
		{"../../devices/pci0000:80/0000:80:02.0/vfake/fake1", filepath.Join(root, "sys/dev/char/240:2")},
	} {
		os.Remove(l[1])
		if err := os.Symlink(l[0], l[1]); err != nil {
			return err
		}
	}
	real, err := filepath.EvalSymlinks(root)
	if err != nil {
		return err
	}
	topology.SetSysRoot(real)
	return nil
}

func podResources(ns, name string, ctrs ...string) *podresapi.PodResources {
	pr := &podresv1.PodResources{Name: name, Namespace: ns}
	for i, c := range ctrs {
		pr.Containers = append(pr.Containers, &podresv1.ContainerResources{
			Name: c,
			Devices: []*podresv1.ContainerDevices{
				{ResourceName: "vendor.example/dev", DeviceIds: []string{"d" + strconv.Itoa(i)},
					Topology: &podresv1.TopologyInfo{Nodes: []*podresv1.NUMANode{{ID: int64(i % 2)}}}},
				{ResourceName: "vendor.example/multi", DeviceIds: []string{"m0", "m1"},
					Topology: &podresv1.TopologyInfo{Nodes: []*podresv1.NUMANode{{ID: 0}, {ID: 1}}}},
			},
			CpuIds: []int64{int64(2 * i), int64(2*i + 1)},
			Memory: []*podresv1.ContainerMemory{{MemoryType: "memory", Size_: 1 << 28,
				Topology: &podresv1.TopologyInfo{Nodes: []*podresv1.NUMANode{{ID: 0}}}}},
		})
	}
	return &podresapi.PodResources{PodResources: pr}
}

func richContainer(id, pod, name string, st api.ContainerState, r *rand.Rand) *api.Container {
	c := &api.Container{
		Id: id, PodSandboxId: pod, Name: name, State: st,
		Labels:      map[string]string{"io.kubernetes.container.name": name, "verif/label": "l-" + id},
		Annotations: map[string]string{"verif.example/ann": `{"a":1,"b":[true,null]}`},
		Args:        []string{"/bin/app", "--flag", "with space", ""},
		Env:         []string{"VERIF_A=1=2", "VERIF_EMPTY=", "PATH=/bin:/usr/bin"},
		Mounts: []*api.Mount{
			{Destination: "/data", Source: "/var/tmp", Type: "bind", Options: []string{"rbind", "rw"}},
			{Destination: "/etc/hosts", Source: "/var/lib/kubelet/pods/x/etc-hosts", Type: "bind", Options: []string{"ro"}},
		},
		Pid: uint32(1000 + r.Intn(5000)),
		Linux: &api.LinuxContainer{
			Devices: []*api.LinuxDevice{
				{Path: "/dev/fake0", Type: "c", Major: 240, Minor: 1, FileMode: api.FileMode(os.FileMode(0o660)), Uid: api.UInt32(uint32(0)), Gid: api.UInt32(uint32(44))},
				{Path: "/dev/fake1", Type: "c", Major: 240, Minor: 2},
			},
			Resources: &api.LinuxResources{
				Cpu: &api.LinuxCPU{Shares: api.UInt64(uint64(2 + r.Intn(2048))), Quota: api.Int64(int64(r.Intn(4)) * 50000),
					Period: api.UInt64(100000), Cpus: "", Mems: ""},
				Memory:         &api.LinuxMemory{Limit: api.Int64(int64(1+r.Intn(64)) << 24), Swap: api.Int64(int64(r.Intn(3)) << 26)},
				HugepageLimits: []*api.HugepageLimit{{PageSize: "2MB", Limit: 1 << 22}},
				Unified:        map[string]string{"memory.high": "1073741824"},
				Devices: []*api.LinuxDeviceCgroup{
					{Allow: true, Type: "c", Major: api.Int64(240), Minor: api.Int64(1), Access: "rwm"},
					{Allow: true, Type: "c", Major: api.Int64(240), Minor: api.Int64(2), Access: "rw"},
				},
			},
			OomScoreAdj: api.Int(900 - r.Intn(800)),
			CgroupsPath: "kubepods-burstable-poduid.slice:cri-containerd:" + id,
		},
		Rlimits: []*api.POSIXRlimit{{Type: "RLIMIT_NOFILE", Hard: 4096, Soft: 1024}},
	}
	return c
}

// Decorate applies a seeded selection of decorations.  Everything goes through the public API.
func Decorate(ch cache.Cache, seed int64, round int) (applied []string, panics []map[string]string) {
	r := rand.New(rand.NewSource(seed*1000003 + int64(round)))
	tag := func(s string) { applied = append(applied, s) }
	panics = []map[string]string{}
	// a public API call that panics on a cache loaded from a valid snapshot is recorded, the decoration goes on
	safe := func(what string, f func()) {
		defer func() {
			if p := recover(); p != nil {
				panics = append(panics, map[string]string{"fn": what, "msg": fmt.Sprint(p)})
			}
		}()
		f()
	}
	sfx := fmt.Sprintf("-%d", round)

	// a pod with pod resources (device topology -> topology hints) and annotated affinities in both notations
	podID := "dpod" + sfx
	ns := []string{"default", "kube-system", "other"}[r.Intn(3)]
	cnames := []string{"dc-creating", "dc-created", "dc-running", "dc-exited", "dc-stale", "dc-unknown"}
	ann := map[string]string{
		affKey:                            "dc-running: [ dc-created, dc-exited ]\ndc-stale: [ dc-running ]\n",
		antiAffKey:                        "dc-created:\n- scope:\n    key: namespace\n    operator: In\n    values: [ default, other ]\n  match:\n    key: labels/verif/label\n    operator: Exists\n  weight: 7\n",
		"rdtclass.resource-policy.nri.io": "gold",
		"blockioclass.resource-policy.nri.io/container.dc-running": "slow",
		"memory-type.resource-policy.nri.io/pod":                   "dram,pmem",
		"verif.example/ann":                                        "pod-level",
	}
	if r.Intn(3) == 0 {
		ann["topologyhints.resource-policy.nri.io"] = []string{"devices", "pod-resources", "all", "mounts,devices"}[r.Intn(4)]
	}
	uid := "uid-" + podID
	parent := []string{"/kubepods.slice/kubepods-pod" + uid + ".slice",
		"/kubepods.slice/kubepods-burstable.slice/kubepods-burstable-pod" + uid + ".slice",
		"/kubepods.slice/kubepods-besteffort.slice/kubepods-besteffort-pod" + uid + ".slice"}[r.Intn(3)]
	nriPod := &api.PodSandbox{Id: podID, Name: "deco" + sfx, Uid: uid, Namespace: ns,
		Labels: map[string]string{"app": "deco", "verif/round": strconv.Itoa(round)}, Annotations: ann,
		RuntimeHandler: "runc", Linux: &api.LinuxPodSandbox{CgroupParent: parent}, Pid: 4242}
	resCh := make(chan *podresapi.PodResources, 1)
	resCh <- podResources(ns, nriPod.Name, cnames...)
	safe("InsertPod", func() { ch.InsertPod(nriPod, resCh) })
	tag("pod+podresources+affinity")

	states := map[string]api.ContainerState{
		"dc-created": api.ContainerState_CONTAINER_CREATED, "dc-running": api.ContainerState_CONTAINER_RUNNING,
		"dc-exited": api.ContainerState_CONTAINER_STOPPED, "dc-unknown": api.ContainerState_CONTAINER_UNKNOWN,
		"dc-creating": api.ContainerState_CONTAINER_CREATED, "dc-stale": api.ContainerState_CONTAINER_RUNNING,
	}
	mine := []cache.Container{}
	for _, name := range cnames {
		id := name + sfx
		nc := richContainer(id, podID, name, states[name], r)
		var c cache.Container
		var err error
		safe("InsertContainer", func() {
			if name == "dc-creating" {
				c, err = ch.InsertContainer(nc, cache.WithContainerState(cache.ContainerStateCreating))
			} else {
				c, err = ch.InsertContainer(nc)
			}
		})
		if err != nil || c == nil {
			tag("insert-failed:" + name)
			continue
		}
		if name == "dc-stale" {
			safe("UpdateState", func() { c.UpdateState(cache.ContainerStateStale) })
		}
		mine = append(mine, c)
	}
	tag("containers-in-every-state")

	// policy decisions and runtime updates on a seeded selection of ALL containers (also those of the L2 history)
	all := ch.GetContainers()
	sort.Slice(all, func(i, j int) bool { return all[i].GetID() < all[j].GetID() })
	for _, c := range all {
		c := c
		doTag, tagv, delTag := r.Intn(3) == 0, "t"+strconv.Itoa(r.Intn(100)), r.Intn(4) == 0
		if doTag {
			safe("SetTag", func() {
				c.SetTag("verif/tag", tagv)
				c.SetTag("empty", "")
				c.SetTag("unié\"quote", "v\n2")
				if delTag {
					c.DeleteTag("empty")
				}
			})
		}
		if r.Intn(3) == 0 {
			lr := &api.LinuxResources{Cpu: &api.LinuxCPU{Shares: api.UInt64(uint64(2 + r.Intn(4096)))}}
			if r.Intn(2) == 0 {
				lr.Cpu.Quota, lr.Cpu.Period = api.Int64(int64(1+r.Intn(8))*25000), api.UInt64(100000)
			}
			if r.Intn(2) == 0 {
				lr.Memory = &api.LinuxMemory{Limit: api.Int64(int64(1+r.Intn(32)) << 25)}
			}
			safe("SetResourceUpdates", func() { c.SetResourceUpdates(lr) })
		}
		if c.GetState() == cache.ContainerStateStale {
			continue
		}
		if r.Intn(3) == 0 {
			lo, n, mem, sh := r.Intn(6), 1+r.Intn(3), r.Intn(2), int64(2+r.Intn(1000))
			q, quota, m, lim, swap := r.Intn(2) == 0, int64(r.Intn(5))*20000, r.Intn(2) == 0, int64(1+r.Intn(16))<<26, int64(r.Intn(2))<<27
			safe("SetResources", func() {
				c.SetCpusetCpus(cpuset.New(lo, lo+n).String())
				c.SetCpusetMems(strconv.Itoa(mem))
				c.SetCPUShares(sh)
				if q {
					c.SetCPUQuota(quota)
					c.SetCPUPeriod(100000)
				}
				if m {
					c.SetMemoryLimit(lim)
					c.SetMemorySwap(swap)
				}
			})
		}
		if r.Intn(5) == 0 {
			rdt, bio := []string{"gold", "silver", ""}[r.Intn(3)], []string{"fast", "slow"}[r.Intn(2)]
			safe("SetClasses", func() {
				c.SetRDTClass(rdt)
				c.SetBlockIOClass(bio)
			})
		}
	}
	tag("tags+updates+assignments")

	safe("SetPolicyEntry", func() { setTypedEntries(ch, r) })
	tag("typed-policy-entries")

	if r.Intn(3) == 0 && len(mine) > 2 {
		id := mine[r.Intn(len(mine))].GetID()
		safe("DeleteContainer", func() { ch.DeleteContainer(id) })
		tag("delete-container")
	}
	return applied, panics
}

// typed policy entries: one per type cache.SetPolicyEntry/GetPolicyEntry special-cases, plus a Cacheable.
type typedEntry struct {
	key string
	set func(ch cache.Cache, r *rand.Rand)
	get func(ch cache.Cache) string
}

type cacheableThing struct {
	Name  string
	Sets  map[string][]int
	Count int64
}

func (c *cacheableThing) Set(v interface{}) {
	switch o := v.(type) {
	case *cacheableThing:
		*c = *o
	case cacheableThing:
		*c = o
	}
}
func (c *cacheableThing) Get() interface{} { return c }

func typedEntries() []typedEntry {
	return []typedEntry{
		{"verif-cpuset", func(ch cache.Cache, r *rand.Rand) {
			ch.SetPolicyEntry("verif-cpuset", cpuset.New(r.Intn(4), 4+r.Intn(4), 9))
		},
			func(ch cache.Cache) string {
				var v cpuset.CPUSet
				if !ch.GetPolicyEntry("verif-cpuset", &v) {
					return "absent"
				}
				return v.String()
			}},
		{"verif-cpuset-empty", func(ch cache.Cache, r *rand.Rand) { ch.SetPolicyEntry("verif-cpuset-empty", cpuset.New()) },
			func(ch cache.Cache) string {
				var v cpuset.CPUSet
				if !ch.GetPolicyEntry("verif-cpuset-empty", &v) {
					return "absent"
				}
				return "[" + v.String() + "]"
			}},
		{"verif-cpusetmap", func(ch cache.Cache, r *rand.Rand) {
			ch.SetPolicyEntry("verif-cpusetmap", map[string]cpuset.CPUSet{"a": cpuset.New(0, 1, r.Intn(8)), "b": cpuset.New(), "c/d": cpuset.New(15)})
		}, func(ch cache.Cache) string {
			var v map[string]cpuset.CPUSet
			if !ch.GetPolicyEntry("verif-cpusetmap", &v) {
				return "absent"
			}
			m := map[string]string{}
			for k, s := range v {
				m[k] = s.String()
			}
			return sortedMap(m)
		}},
		{"verif-stringmap", func(ch cache.Cache, r *rand.Rand) {
			ch.SetPolicyEntry("verif-stringmap", map[string]string{"k": "v" + strconv.Itoa(r.Intn(9)), "": "empty-key", "q\"": "\\"})
		}, func(ch cache.Cache) string {
			var v map[string]string
			if !ch.GetPolicyEntry("verif-stringmap", &v) {
				return "absent"
			}
			return sortedMap(v)
		}},
		{"verif-string", func(ch cache.Cache, r *rand.Rand) {
			ch.SetPolicyEntry("verif-string", "s\"\n"+strconv.Itoa(r.Intn(99)))
		},
			func(ch cache.Cache) string {
				var v string
				if !ch.GetPolicyEntry("verif-string", &v) {
					return "absent"
				}
				return strconv.Quote(v)
			}},
		{"verif-bool", func(ch cache.Cache, r *rand.Rand) { ch.SetPolicyEntry("verif-bool", r.Intn(2) == 0) },
			func(ch cache.Cache) string {
				var v bool
				if !ch.GetPolicyEntry("verif-bool", &v) {
					return "absent"
				}
				return strconv.FormatBool(v)
			}},
		{"verif-int32", func(ch cache.Cache, r *rand.Rand) { ch.SetPolicyEntry("verif-int32", int32(-1-r.Intn(1<<30))) },
			func(ch cache.Cache) string {
				var v int32
				if !ch.GetPolicyEntry("verif-int32", &v) {
					return "absent"
				}
				return strconv.FormatInt(int64(v), 10)
			}},
		{"verif-uint32", func(ch cache.Cache, r *rand.Rand) {
			ch.SetPolicyEntry("verif-uint32", uint32(1<<31)+uint32(r.Intn(1<<30)))
		},
			func(ch cache.Cache) string {
				var v uint32
				if !ch.GetPolicyEntry("verif-uint32", &v) {
					return "absent"
				}
				return strconv.FormatUint(uint64(v), 10)
			}},
		{"verif-int64", func(ch cache.Cache, r *rand.Rand) {
			ch.SetPolicyEntry("verif-int64", -(int64(1)<<60)-int64(r.Intn(1<<30)))
		},
			func(ch cache.Cache) string {
				var v int64
				if !ch.GetPolicyEntry("verif-int64", &v) {
					return "absent"
				}
				return strconv.FormatInt(v, 10)
			}},
		{"verif-uint64", func(ch cache.Cache, r *rand.Rand) {
			ch.SetPolicyEntry("verif-uint64", (uint64(1)<<63)+uint64(r.Intn(1<<30))+1)
		},
			func(ch cache.Cache) string {
				var v uint64
				if !ch.GetPolicyEntry("verif-uint64", &v) {
					return "absent"
				}
				return strconv.FormatUint(v, 10)
			}},
		{"verif-int", func(ch cache.Cache, r *rand.Rand) { ch.SetPolicyEntry("verif-int", -r.Intn(1<<30)) },
			func(ch cache.Cache) string {
				var v int
				if !ch.GetPolicyEntry("verif-int", &v) {
					return "absent"
				}
				return strconv.Itoa(v)
			}},
		{"verif-uint", func(ch cache.Cache, r *rand.Rand) { ch.SetPolicyEntry("verif-uint", uint(r.Intn(1<<30))) },
			func(ch cache.Cache) string {
				var v uint
				if !ch.GetPolicyEntry("verif-uint", &v) {
					return "absent"
				}
				return strconv.FormatUint(uint64(v), 10)
			}},
		{"verif-cacheable", func(ch cache.Cache, r *rand.Rand) {
			ch.SetPolicyEntry("verif-cacheable", cache.Cacheable(&cacheableThing{Name: "n" + strconv.Itoa(r.Intn(9)),
				Sets: map[string][]int{"x": {1, 2, r.Intn(5)}, "y": {}}, Count: int64(r.Intn(1 << 40))}))
		}, func(ch cache.Cache) string {
			v := &cacheableThing{}
			if !ch.GetPolicyEntry("verif-cacheable", v) {
				return "absent"
			}
			return canonJSON(v)
		}},
	}
}

func setTypedEntries(ch cache.Cache, r *rand.Rand) {
	for _, te := range typedEntries() {
		te.set(ch, r)
	}
}
