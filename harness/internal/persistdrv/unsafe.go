package persistdrv

import (
	"flag"
	"fmt"
	"net"
	"os"
	"path/filepath"
	"syscall"
	"time"

	"github.com/containerd/nri/pkg/api"

	"github.com/containers/nri-plugins/pkg/resmgr/cache"

	"verifharness/internal/tr"
)

// goodState creates a state directory with a valid, non-empty cache file.
func goodState(dir string) error {
	if err := os.MkdirAll(dir, 0o700); err != nil {
		return err
	}
	ch, err := cache.NewCache(cache.Options{CacheDir: dir})
	if err != nil {
		return err
	}
	ch.InsertPod(&api.PodSandbox{Id: "p1", Name: "p1", Uid: "u1", Namespace: "default",
		Linux: &api.LinuxPodSandbox{CgroupParent: "/kubepods.slice/kubepods-podu1.slice"}}, nil)
	if _, err := ch.InsertContainer(&api.Container{Id: "c1", PodSandboxId: "p1", Name: "c1", State: api.ContainerState_CONTAINER_RUNNING}); err != nil {
		return err
	}
	return ch.Save()
}

type unsafeCase struct {
	target string // file | dir | datadir
	kind   string // regular | directory | symlink | symlink-dangling | fifo | socket
	mode   os.FileMode
	bits   []string // gw, ow
}

func modeBits(m os.FileMode) []string {
	out := []string{}
	if m&0o020 != 0 {
		out = append(out, "gw")
	}
	if m&0o002 != 0 {
		out = append(out, "ow")
	}
	return out
}

func makeNode(path, kind string, mode os.FileMode, goodFile, goodDir string, wantDir bool) error {
	os.RemoveAll(path)
	switch kind {
	case "regular":
		b := []byte("x")
		if !wantDir {
			var err error
			if b, err = os.ReadFile(goodFile); err != nil {
				return err
			}
		}
		if err := os.WriteFile(path, b, 0o600); err != nil {
			return err
		}
		return os.Chmod(path, mode)
	case "directory":
		if wantDir {
			if err := copyTree(goodDir, path); err != nil {
				return err
			}
		} else if err := os.Mkdir(path, 0o700); err != nil {
			return err
		}
		return os.Chmod(path, mode)
	case "symlink":
		if wantDir {
			return os.Symlink(goodDir, path)
		}
		return os.Symlink(goodFile, path)
	case "symlink-dangling":
		return os.Symlink(filepath.Join(filepath.Dir(goodFile), "no-such-target"), path)
	case "fifo":
		if err := syscall.Mkfifo(path, 0o600); err != nil {
			return err
		}
		return os.Chmod(path, mode)
	case "socket":
		l, err := net.Listen("unix", path)
		if err != nil {
			return err
		}
		if ul, ok := l.(*net.UnixListener); ok {
			ul.SetUnlinkOnClose(false)
		}
		l.Close()
		return os.Chmod(path, mode)
	}
	return fmt.Errorf("unknown kind %q", kind)
}

// UnsafeMain: persistdrv unsafe --out trace.ndjson --work dir
func UnsafeMain(args []string) error {
	fl := flag.NewFlagSet("unsafe", flag.ContinueOnError)
	out := fl.String("out", "", "trace output")
	work := fl.String("work", "", "scratch directory")
	if err := fl.Parse(args); err != nil {
		return err
	}
	os.RemoveAll(*work)
	if err := os.MkdirAll(*work, 0o700); err != nil {
		return err
	}
	w, err := tr.NewWriter(*out)
	if err != nil {
		return err
	}
	defer w.Close()
	good := filepath.Join(*work, "good")
	if err := goodState(good); err != nil {
		return err
	}
	goodFile := filepath.Join(good, "cache")

	cases := []unsafeCase{}
	for _, m := range []os.FileMode{0o644, 0o600, 0o640, 0o444, 0o664, 0o646, 0o666, 0o620, 0o602, 0o660} {
		cases = append(cases, unsafeCase{"file", "regular", m, modeBits(m)})
	}
	for _, k := range []string{"symlink", "symlink-dangling", "fifo", "directory", "socket"} {
		cases = append(cases, unsafeCase{"file", k, 0o644, nil})
	}
	for _, m := range []os.FileMode{0o700, 0o710, 0o750, 0o755, 0o770, 0o707, 0o777, 0o720, 0o702, 0o775} {
		cases = append(cases, unsafeCase{"dir", "directory", m, modeBits(m)})
	}
	for _, k := range []string{"symlink", "symlink-dangling", "fifo", "regular", "socket"} {
		cases = append(cases, unsafeCase{"dir", k, 0o700, nil})
	}
	for _, m := range []os.FileMode{0o755, 0o700, 0o775, 0o757, 0o777} {
		cases = append(cases, unsafeCase{"datadir", "directory", m, modeBits(m)})
	}
	for _, k := range []string{"symlink", "fifo", "regular"} {
		cases = append(cases, unsafeCase{"datadir", k, 0o755, nil})
	}

	for i, c := range cases {
		base := filepath.Join(*work, fmt.Sprintf("case%d", i))
		os.MkdirAll(base, 0o700)
		state := filepath.Join(base, "state")
		rec := tr.M{"ev": "unsafe", "case": i, "target": c.target, "kind": c.kind, "mode": modeBits(c.mode), "modeoct": fmt.Sprintf("%04o", c.mode)}
		var err error
		switch c.target {
		case "file":
			if err = copyTree(good, state); err == nil {
				err = makeNode(filepath.Join(state, "cache"), c.kind, c.mode, goodFile, good, false)
			}
		case "dir":
			goodCopy := filepath.Join(base, "elsewhere")
			if err = copyTree(good, goodCopy); err == nil {
				err = makeNode(state, c.kind, c.mode, goodFile, goodCopy, true)
			}
		case "datadir":
			if err = copyTree(good, state); err == nil {
				goodData := filepath.Join(base, "elsewhere-containers")
				if err = copyTree(filepath.Join(good, "containers"), goodData); err == nil {
					err = makeNode(filepath.Join(state, "containers"), c.kind, c.mode, goodFile, goodData, true)
				}
			}
		}
		if err != nil {
			rec["harness_error"] = err.Error()
			w.Emit(rec)
			continue
		}
		type result struct {
			ch  cache.Cache
			err error
		}
		done := make(chan result, 1)
		go func() {
			ch, err := loadDir(state)
			done <- result{ch, err}
		}()
		select {
		case r := <-done:
			rec["hang"] = false
			rec["refused"] = r.err != nil
			rec["used_pods"] = 0
			if r.err != nil {
				rec["err"] = trunc(r.err.Error(), 200)
			} else if r.ch != nil {
				rec["used_pods"] = len(r.ch.GetPods())
			}
		case <-time.After(5 * time.Second):
			// the path was opened (a FIFO blocks its reader): it was used, not refused
			rec["hang"], rec["refused"], rec["used_pods"] = true, false, 0
			// unblock the reader so that the goroutine can finish
			if f, err := os.OpenFile(filepath.Join(state, "cache"), os.O_WRONLY|syscall.O_NONBLOCK, 0); err == nil {
				f.Close()
			}
		}
		w.Emit(rec)
	}
	fmt.Printf("persistdrv unsafe: %d cases\n", len(cases))
	return nil
}
