// Package persistdrv checks the persistence of the pod/container cache (property C10) on the REAL code:
//
//	run         L2 request histories on a real resource manager; after every request the cache is saved, the state
//	            directory is copied, re-opened with a fresh cache.NewCache and a full projection (every public getter of
//	            every pod and container, policy entries) of the reloaded cache is compared with the projection of the live one
//	crash       a child process performs one Save under strace fault injection at every system-call boundary
//	            (SIGKILL before the call / the call fails with ENOSPC, EIO) and under RLIMIT_FSIZE (a really torn write);
//	            the directory is then loaded by a fresh cache.NewCache and compared with the old and the new snapshot
//	unsafe      cache file / directory that is a symbolic link, of a wrong type or group/other-writable must be refused
//	save-child  the child of `crash`
//
// One ndjson record per comparison; the verdict is computed by TLC (spec/Trace_Persist.tla).
package persistdrv

import (
	"crypto/sha256"
	"encoding/hex"
	"encoding/json"
	"fmt"
	"sort"
	"strconv"
	"strings"

	corev1 "k8s.io/api/core/v1"

	resmgrapi "github.com/containers/nri-plugins/pkg/apis/resmgr/v1alpha1"
	"github.com/containers/nri-plugins/pkg/resmgr/cache"
	"github.com/containers/nri-plugins/pkg/utils/cpuset"
)

// Proj is a flat projection: "<object>/<id>/<field>" -> canonical value.
type Proj map[string]string

// ProjOpts names what cannot be listed through the public API and has to be asked for by key.
type ProjOpts struct {
	AnnKeys  []string // pod / container annotation keys to query
	EnvKeys  []string // container environment variables to query
	RawKeys  []string // policy entries read through a Cacheable that keeps the raw JSON (policy-private types)
	Typed    bool     // read the synthetic typed policy entries (see typedEntries)
	SkipLazy bool     // do not call getters that fill in lazily computed, persisted fields (none skipped by default)
}

// fields that are observed and logged but are not verdict-bearing: creation times of the cache objects and the
// per-controller pending markers are not persisted by design and not named by the property; PrettyName()/String() are
// memoized display names derived from name, namespace and pod (all compared on their own) -- a container that
// outlives its pod keeps the memoized name in the running process only.
var infoOnly = map[string]bool{"ctime_zero": true, "pending": true, "prettyname": true, "string": true}

func canonJSON(v interface{}) string {
	b, err := json.Marshal(v)
	if err != nil {
		return "!marshal:" + err.Error()
	}
	var x interface{}
	d := json.NewDecoder(strings.NewReader(string(b)))
	d.UseNumber()
	if err := d.Decode(&x); err != nil {
		return "!decode:" + err.Error()
	}
	x = dropEmpty(x)
	b, _ = json.Marshal(x) // map keys sorted
	return string(b)
}

// dropEmpty removes null / empty members so that nil and empty maps/slices compare equal (JSON omitempty round trip).
func dropEmpty(x interface{}) interface{} {
	switch v := x.(type) {
	case map[string]interface{}:
		out := map[string]interface{}{}
		for k, e := range v {
			e = dropEmpty(e)
			if e == nil {
				continue
			}
			out[k] = e
		}
		if len(out) == 0 {
			return nil
		}
		return out
	case []interface{}:
		if len(v) == 0 {
			return nil
		}
		out := make([]interface{}, len(v))
		for i, e := range v {
			out[i] = dropEmpty(e)
		}
		return out
	}
	return x
}

func qtyList(rl corev1.ResourceList) string {
	names := []string{}
	for n := range rl {
		names = append(names, string(n))
	}
	sort.Strings(names)
	parts := []string{}
	for _, n := range names {
		q := rl[corev1.ResourceName(n)]
		parts = append(parts, fmt.Sprintf("%s:milli=%d,value=%d", n, q.MilliValue(), q.Value()))
	}
	return strings.Join(parts, ";")
}

func reqString(rr corev1.ResourceRequirements) string {
	return "requests{" + qtyList(rr.Requests) + "} limits{" + qtyList(rr.Limits) + "}"
}

func exprString(e *resmgrapi.Expression) string {
	if e == nil {
		return "<nil>"
	}
	vals := append([]string{}, e.Values...)
	switch e.Op {
	case resmgrapi.In, resmgrapi.NotIn:
		sort.Strings(vals) // a set: the simple affinity notation builds it by iterating over a map
	}
	return fmt.Sprintf("%s %s %q", e.Key, e.Op, vals)
}

func affString(as []*cache.Affinity) string {
	out := []string{}
	for _, a := range as {
		if a == nil {
			out = append(out, "<nil>")
			continue
		}
		out = append(out, fmt.Sprintf("scope(%s) match(%s) weight=%d", exprString(a.Scope), exprString(a.Match), a.Weight))
	}
	sort.Strings(out)
	return strings.Join(out, " | ")
}

func sortedMap(m map[string]string) string {
	ks := []string{}
	for k := range m {
		ks = append(ks, k)
	}
	sort.Strings(ks)
	parts := []string{}
	for _, k := range ks {
		parts = append(parts, strconv.Quote(k)+"="+strconv.Quote(m[k]))
	}
	return strings.Join(parts, ",")
}

func guard(p Proj, key string, f func() string) {
	defer func() {
		if r := recover(); r != nil {
			p[key] = fmt.Sprintf("!panic:%v", r)
		}
	}()
	p[key] = f()
}

// Project reads everything the public API of the cache exposes.
func Project(ch cache.Cache, o ProjOpts) Proj {
	p := Proj{}
	p["cache/policy"] = ch.GetActivePolicy()
	pods := ch.GetPods()
	ids := []string{}
	for _, pod := range pods {
		ids = append(ids, pod.GetID())
	}
	sort.Strings(ids)
	p["cache/pods"] = strings.Join(ids, ",")
	ids = append([]string{}, ch.GetContainerIds()...)
	sort.Strings(ids)
	p["cache/ctrs"] = strings.Join(ids, ",")

	for _, pod := range pods {
		pod := pod
		k := "pod/" + pod.GetID() + "/"
		g := func(f string, fn func() string) { guard(p, k+f, fn) }
		g("id", pod.GetID)
		g("uid", pod.GetUID)
		g("name", pod.GetName)
		g("namespace", pod.GetNamespace)
		g("qos", func() string { return string(pod.GetQOSClass()) })
		g("cgroupparent", pod.GetCgroupParent)
		g("prettyname", pod.PrettyName)
		g("string", pod.String)
		g("ctime_zero", func() string { return strconv.FormatBool(pod.GetCtime().IsZero()) })
		g("labels", func() string {
			if m, ok := pod.EvalKey(resmgrapi.KeyLabels).(map[string]string); ok {
				return sortedMap(m)
			}
			return "!type"
		})
		for _, ek := range []string{resmgrapi.KeyName, resmgrapi.KeyNamespace, resmgrapi.KeyQOSClass, resmgrapi.KeyID, resmgrapi.KeyUID} {
			ek := ek
			g("eval."+ek, func() string { return fmt.Sprint(pod.EvalKey(ek)) })
		}
		g("annotations", func() string {
			m := map[string]string{}
			for _, a := range o.AnnKeys {
				if v, ok := pod.GetAnnotation(a); ok {
					m[a] = v
				}
			}
			return sortedMap(m)
		})
		g("podresources", func() string { return canonJSON(pod.GetPodResources()) })
		g("scope", func() string { return exprString(pod.ScopeExpression()) })
		g("containers", func() string {
			cs := []string{}
			for _, c := range pod.GetContainers() {
				cs = append(cs, c.GetID())
			}
			sort.Strings(cs)
			return strings.Join(cs, ",")
		})
	}

	for _, c := range ch.GetContainers() {
		c := c
		k := "ctr/" + c.GetID() + "/"
		g := func(f string, fn func() string) { guard(p, k+f, fn) }
		g("id", c.GetID)
		g("podid", c.GetPodID)
		g("haspod", func() string { _, ok := c.GetPod(); return strconv.FormatBool(ok) })
		g("name", c.GetName)
		g("namespace", c.GetNamespace)
		g("state", func() string { return strconv.Itoa(int(c.GetState())) })
		g("qos", func() string { return string(c.GetQOSClass()) })
		g("args", func() string { return fmt.Sprintf("%q", c.GetArgs()) })
		g("prettyname", c.PrettyName)
		g("string", c.String)
		g("ctime_zero", func() string { return strconv.FormatBool(c.GetCtime().IsZero()) })
		g("labels", func() string {
			if m, ok := c.EvalKey(resmgrapi.KeyLabels).(map[string]string); ok {
				return sortedMap(m)
			}
			return "!type"
		})
		g("tags", func() string {
			if m, ok := c.EvalKey(resmgrapi.KeyTags).(map[string]string); ok {
				return sortedMap(m)
			}
			return "!type"
		})
		g("annotations", func() string {
			m := map[string]string{}
			for _, a := range o.AnnKeys {
				if v, ok := c.GetAnnotation(a, nil); ok {
					m[a] = v
				}
			}
			return sortedMap(m)
		})
		g("effective_annotations", func() string {
			m := map[string]string{}
			for _, a := range o.AnnKeys {
				if v, ok := c.GetEffectiveAnnotation(a); ok {
					m[a] = v
				}
			}
			return sortedMap(m)
		})
		g("env", func() string {
			m := map[string]string{}
			for _, e := range o.EnvKeys {
				if v, ok := c.GetEnv(e); ok {
					m[e] = v
				}
			}
			return sortedMap(m)
		})
		g("mounts", func() string { return canonJSON(c.GetMounts()) })
		g("devices", func() string { return canonJSON(c.GetDevices()) })
		g("requirements", func() string { return reqString(c.GetResourceRequirements()) })
		g("updates", func() string {
			rr, ok := c.GetResourceUpdates()
			if !ok {
				return "none"
			}
			return reqString(rr)
		})
		g("podresources", func() string { return canonJSON(c.GetPodResources()) })
		g("topologyhints", func() string {
			h := c.GetTopologyHints()
			ks := []string{}
			for name := range h {
				ks = append(ks, name)
			}
			sort.Strings(ks)
			parts := []string{}
			for _, name := range ks {
				x := h[name]
				parts = append(parts, fmt.Sprintf("%s{provider=%q cpus=%q numas=%q sockets=%q}", name, x.Provider, x.CPUs, x.NUMAs, x.Sockets))
			}
			return strings.Join(parts, ";")
		})
		g("cpushares", func() string { return strconv.FormatInt(c.GetCPUShares(), 10) })
		g("cpuquota", func() string { return strconv.FormatInt(c.GetCPUQuota(), 10) })
		g("cpuperiod", func() string { return strconv.FormatInt(c.GetCPUPeriod(), 10) })
		g("cpusetcpus", func() string { return cpusetCanon(c.GetCpusetCpus()) })
		g("cpusetmems", func() string { return cpusetCanon(c.GetCpusetMems()) })
		g("memorylimit", func() string { return strconv.FormatInt(c.GetMemoryLimit(), 10) })
		g("memoryswap", func() string { return strconv.FormatInt(c.GetMemorySwap(), 10) })
		g("preservecpu", func() string { return strconv.FormatBool(c.PreserveCpuResources()) })
		g("preservemem", func() string { return strconv.FormatBool(c.PreserveMemoryResources()) })
		g("memorytypes", func() string {
			m, err := c.MemoryTypes()
			if err != nil {
				return "err"
			}
			return m.String()
		})
		g("affinity", func() string {
			// the annotated (persisted) affinities; implicit affinities are registered by the running policy and
			// are not cache content
			pod, ok := c.GetPod()
			if !ok {
				return "nopod"
			}
			as, err := pod.GetContainerAffinity(c.GetName())
			if err != nil {
				return "err"
			}
			return affString(as)
		})
		g("cgroupdir", c.GetCgroupDir)
		g("rdtclass", c.GetRDTClass)
		g("blockioclass", c.GetBlockIOClass)
		g("pending", func() string { return strings.Join(c.GetPending(), ",") })
		for _, ek := range []string{resmgrapi.KeyName, resmgrapi.KeyNamespace, resmgrapi.KeyQOSClass, resmgrapi.KeyID} {
			ek := ek
			g("eval."+ek, func() string { return fmt.Sprint(c.EvalKey(ek)) })
		}
		g("datadir", func() string {
			d := ch.ContainerDirectory(c.GetID())
			if i := strings.LastIndex(d, "/containers/"); i >= 0 {
				return d[i:]
			}
			return d
		})
	}

	for _, key := range o.RawKeys {
		key := key
		guard(p, "entry/"+key, func() string {
			r := &RawEntry{}
			if !ch.GetPolicyEntry(key, r) {
				return "absent"
			}
			return r.Canon()
		})
	}
	if o.Typed {
		for _, te := range typedEntries() {
			te := te
			guard(p, "entry/"+te.key, func() string { return te.get(ch) })
		}
	}
	return p
}

func cpusetCanon(s string) string {
	if s == "" {
		return ""
	}
	cs, err := cpuset.Parse(s)
	if err != nil {
		return "!" + s
	}
	return cs.String()
}

// Hash of a projection without the info-only fields.
func (p Proj) Hash() string {
	ks := []string{}
	for k := range p {
		if infoOnly[field(k)] {
			continue
		}
		ks = append(ks, k)
	}
	sort.Strings(ks)
	h := sha256.New()
	for _, k := range ks {
		h.Write([]byte(k))
		h.Write([]byte{0})
		h.Write([]byte(p[k]))
		h.Write([]byte{1})
	}
	return hex.EncodeToString(h.Sum(nil))[:24]
}

func field(key string) string {
	if i := strings.LastIndex(key, "/"); i >= 0 {
		return key[i+1:]
	}
	return key
}

func class(key string) string {
	if i := strings.Index(key, "/"); i >= 0 {
		return key[:i]
	}
	return key
}

// Diff returns the differing fields as "<class>.<field>" (sorted, distinct), the info-only ones separately,
// and one example "<key>: a | b" per differing field.
func Diff(a, b Proj) (fields, info []string, examples map[string]string) {
	fs, is := map[string]bool{}, map[string]bool{}
	examples = map[string]string{}
	keys := map[string]bool{}
	for k := range a {
		keys[k] = true
	}
	for k := range b {
		keys[k] = true
	}
	ks := []string{}
	for k := range keys {
		ks = append(ks, k)
	}
	sort.Strings(ks)
	for _, k := range ks {
		va, oka := a[k]
		vb, okb := b[k]
		if oka && okb && va == vb {
			continue
		}
		name := class(k) + "." + field(k)
		if strings.HasPrefix(k, "entry/") {
			name = "entry." + strings.TrimPrefix(k, "entry/")
		}
		if infoOnly[field(k)] {
			is[name] = true
			continue
		}
		fs[name] = true
		if _, ok := examples[name]; !ok {
			if !oka {
				va = "<missing>"
			}
			if !okb {
				vb = "<missing>"
			}
			examples[name] = trunc(k+": "+va+" | "+vb, 400)
		}
	}
	for f := range fs {
		fields = append(fields, f)
	}
	for f := range is {
		info = append(info, f)
	}
	sort.Strings(fields)
	sort.Strings(info)
	if fields == nil {
		fields = []string{}
	}
	if info == nil {
		info = []string{}
	}
	return
}

func trunc(s string, n int) string {
	if len(s) > n {
		return s[:n] + "..."
	}
	return s
}

// Features of a projection (vacuity guard: what kind of content did a snapshot hold).
func (p Proj) Features() map[string]int {
	f := map[string]int{}
	for k, v := range p {
		fl := field(k)
		switch {
		case strings.HasPrefix(k, "pod/") && fl == "id":
			f["pods"]++
		case strings.HasPrefix(k, "ctr/") && fl == "id":
			f["ctrs"]++
		case strings.HasPrefix(k, "ctr/") && fl == "state":
			f["state_"+v]++
		case fl == "updates" && v != "none":
			f["updates"]++
		case fl == "tags" && v != "":
			f["tags"]++
		case fl == "topologyhints" && v != "":
			f["hints"]++
			if strings.Contains(strings.ReplaceAll(v, `cpus=""`, ""), "cpus=") {
				f["hints_cpus"]++
			}
		case fl == "affinity" && v != "" && v != "nopod" && v != "err":
			f["affinity"]++
		case strings.HasPrefix(k, "ctr/") && fl == "cpusetcpus" && v != "":
			f["cpuset"]++
		case strings.HasPrefix(k, "ctr/") && fl == "cpusetmems" && v != "":
			f["memset"]++
		case strings.HasPrefix(k, "pod/") && fl == "podresources" && v != "null":
			f["podresources"]++
		case strings.HasPrefix(k, "entry/") && v != "absent":
			f["entries"]++
			if k == "entry/allocations" && v != "{}" && v != "null" {
				f["ta_allocations"]++
			}
		case fl == "mounts" && v != "null":
			f["mounts"]++
		case fl == "devices" && v != "null":
			f["devices"]++
		}
	}
	return f
}

// RawEntry is a Cacheable that keeps a policy entry as JSON: the policies' own entry types are package-private
// (topology-aware "allocations"), their persisted form is what their MarshalJSON produces.
type RawEntry struct {
	Raw json.RawMessage
}

func (r *RawEntry) Set(v interface{}) {
	if o, ok := v.(*RawEntry); ok {
		r.Raw = o.Raw
		return
	}
	b, err := json.Marshal(v)
	if err != nil {
		r.Raw = json.RawMessage(strconv.Quote("!marshal:" + err.Error()))
		return
	}
	r.Raw = b
}
func (r *RawEntry) Get() interface{}             { return r }
func (r *RawEntry) UnmarshalJSON(b []byte) error { r.Raw = append(json.RawMessage{}, b...); return nil }
func (r *RawEntry) MarshalJSON() ([]byte, error) { return r.Raw, nil }
func (r *RawEntry) Canon() string {
	var x interface{}
	d := json.NewDecoder(strings.NewReader(string(r.Raw)))
	d.UseNumber()
	if err := d.Decode(&x); err != nil {
		return "!decode:" + string(r.Raw)
	}
	b, _ := json.Marshal(x)
	return string(b)
}
