package persistdrv

import (
	"flag"
	"fmt"
	"os"
	"os/signal"
	"sort"
	"syscall"

	"github.com/containerd/nri/pkg/api"

	"github.com/containers/nri-plugins/pkg/resmgr/cache"
)

// Variants: every one performs exactly ONE cache.Save after changing the cache so that old != new.
var Variants = []string{"entry", "insertpod", "setpolicy", "deletectr"}

const markerKey = "verif-marker"

func firstContainer(ch cache.Cache) cache.Container {
	cs := ch.GetContainers()
	if len(cs) == 0 {
		return nil
	}
	sort.Slice(cs, func(i, j int) bool { return cs[i].GetID() < cs[j].GetID() })
	return cs[0]
}

// Mutate changes the cache in a known way and saves it once.  The returned error is Save's, where the API returns it.
func Mutate(ch cache.Cache, variant string) (err error) {
	defer func() {
		if p := recover(); p != nil {
			err = fmt.Errorf("panic in the cache API: %v", p)
		}
	}()
	switch variant {
	case "entry":
		ch.SetPolicyEntry(markerKey, "marker-value")
		if c := firstContainer(ch); c != nil {
			c.SetTag(markerKey, "1")
		}
		return ch.Save()
	case "setpolicy":
		return ch.SetActivePolicy("verif-policy")
	case "deletectr":
		if c := firstContainer(ch); c != nil {
			ch.DeleteContainer(c.GetID()) // saves internally; a failure is only logged
			return nil
		}
		fallthrough
	case "insertpod":
		ch.InsertPod(&api.PodSandbox{Id: "verif-marker-pod", Name: "marker", Uid: "uid-marker", Namespace: "verif",
			Labels: map[string]string{"marker": "1"}, Annotations: map[string]string{},
			Linux: &api.LinuxPodSandbox{CgroupParent: "/kubepods.slice/kubepods-besteffort.slice/kubepods-besteffort-poduid-marker.slice"}}, nil)
		return nil // saves internally; a failure is only logged
	}
	return fmt.Errorf("unknown variant %q", variant)
}

// CrashOpts: projection options used for every crash-point comparison.
func CrashOpts() ProjOpts {
	return ProjOpts{AnnKeys: append(append([]string{}, L2AnnKeys...), DecorAnnKeys...), EnvKeys: DecorEnvKeys,
		RawKeys: []string{"allocations", "CPUClassAssignments", markerKey}, Typed: true}
}

// ChildMain: persistdrv save-child --dir D --variant V [--fsize N]
// Runs on the locked main thread (see cmd/persistdrv), so every system call of the save is made by the traced thread.
func ChildMain(args []string) int {
	fs := flag.NewFlagSet("save-child", flag.ContinueOnError)
	dir := fs.String("dir", "", "state directory")
	variant := fs.String("variant", "entry", "mutation")
	fsize := fs.Int64("fsize", -1, "RLIMIT_FSIZE in bytes set right before the save (a really torn write)")
	if err := fs.Parse(args); err != nil {
		return 5
	}
	ch, err := loadDir(*dir)
	if err != nil {
		fmt.Fprintf(os.Stdout, "LOAD-ERR %v\n", err)
		return 3
	}
	if *fsize >= 0 {
		signal.Ignore(syscall.SIGXFSZ)
		lim := &syscall.Rlimit{Cur: uint64(*fsize), Max: uint64(*fsize)}
		if err := syscall.Setrlimit(syscall.RLIMIT_FSIZE, lim); err != nil {
			fmt.Fprintf(os.Stdout, "RLIMIT-ERR %v\n", err)
			return 5
		}
	}
	os.Stdout.WriteString("SAVE-BEGIN\n")
	err = Mutate(ch, *variant)
	if err != nil {
		os.Stdout.WriteString("SAVE-END err\n")
		fmt.Fprintf(os.Stdout, "SAVE-MSG %v\n", err)
		return 4
	}
	if *variant == "entry" || *variant == "setpolicy" {
		os.Stdout.WriteString("SAVE-END ok\n") // Save() returned nil
	} else {
		os.Stdout.WriteString("SAVE-END done\n") // the API does not report the outcome of its internal save
	}
	return 0
}
