package persistdrv

import (
	"bytes"
	"context"
	"flag"
	"fmt"
	"os"
	"os/exec"
	"path/filepath"
	"regexp"
	"strings"

	"verifharness/internal/tr"
)

// Part (g), load faults: the READ of an existing, intact cache file fails while a plugin starts (openat returns
// EIO / EACCES / EMFILE, or read(2) on the descriptor returns EIO).  The start-up has to fail; if it "succeeds" it must
// have the saved content.  What must never happen: NewCache comes up with an EMPTY cache and its next Save replaces the
// intact snapshot (finding F-C10-1, repaired by 8e30dd8).
//
//	child:  persistdrv load-child --dir D      LOAD-BEGIN ; NewCache ; LOAD-OK hash pods ctrs | LOAD-ERR ; Save ; SAVE-END
//	parent: fault-free child under strace -> the openat of "D/cache" for reading inside the load window and the reads
//	        on the descriptor it returned; one child per (call, errno); afterwards a fault-free NewCache on D in the
//	        parent, compared with the projection before the child ran.
//
// Record kinds `loadplan` (the points of one snapshot) and `loadfault`.

// LoadChildMain: persistdrv load-child --dir D
func LoadChildMain(args []string) int {
	fs := flag.NewFlagSet("load-child", flag.ContinueOnError)
	dir := fs.String("dir", "", "state directory")
	if err := fs.Parse(args); err != nil {
		return 5
	}
	os.Stdout.WriteString("LOAD-BEGIN\n")
	ch, err := loadDir(*dir)
	if err != nil {
		os.Stdout.WriteString("LOAD-ERR\n")
		fmt.Fprintf(os.Stdout, "LOAD-MSG %v\n", err)
		return 3
	}
	os.Stdout.WriteString("LOAD-OK\n")
	p := Project(ch, CrashOpts())
	f := p.Features()
	fmt.Fprintf(os.Stdout, "LOADED hash=%s pods=%d ctrs=%d\n", p.Hash(), f["pods"], f["ctrs"])
	os.Stdout.WriteString("SAVE-BEGIN\n")
	if err := ch.Save(); err != nil {
		os.Stdout.WriteString("SAVE-END err\n")
		fmt.Fprintf(os.Stdout, "SAVE-MSG %v\n", err)
		return 4
	}
	os.Stdout.WriteString("SAVE-END ok\n")
	return 0
}

func loadTraceSet() string {
	out := []string{}
	for _, s := range append(append([]string{}, faultSyscalls...), "read", "pread64", "readv") {
		out = append(out, "?"+s)
	}
	return "trace=" + strings.Join(out, ",")
}

// runLoadChild runs one start-up (and save) in a child under strace, optionally with a fault.
func (x *crashCtx) runLoadChild(dir, inject string) (childResult, error) {
	logp := dir + ".strace"
	defer os.Remove(logp)
	args := []string{"-o", logp, "-s", "16", "-e", loadTraceSet()}
	if inject != "" {
		args = append(args, "-e", "inject="+inject)
	}
	args = append(args, x.self, "load-child", "--dir", dir)
	ctx, cancel := context.WithTimeout(context.Background(), x.timeout)
	defer cancel()
	cmd := exec.CommandContext(ctx, "strace", args...)
	var so, se bytes.Buffer
	cmd.Stdout, cmd.Stderr = &so, &se
	cmd.Env = append(os.Environ(), "GOMAXPROCS=2")
	err := cmd.Run()
	res := childResult{stdout: so.String(), stderr: se.String()}
	if ctx.Err() != nil {
		res.timedOut = true
	}
	if ee, ok := err.(*exec.ExitError); ok {
		res.rc = ee.ExitCode()
	} else if err != nil {
		return res, err
	}
	calls, killed, perr := parseStrace(logp, dir)
	if perr != nil {
		return res, perr
	}
	res.calls, res.killed = calls, killed
	return res, nil
}

type loadPoint struct {
	ID    int
	Sys   string
	Ord   int
	Errno string
	Args  string
	Role  string // open | read1 | read2 ...
}

var reFd = regexp.MustCompile(`^(\d+)`)

// loadPlan: the openat of the cache file for reading between LOAD-BEGIN and LOAD-OK, and the reads on its descriptor.
func loadPlan(calls []scall) ([]loadPoint, error) {
	b, e := -1, -1
	for i, c := range calls {
		if isMarker(c, "LOAD-BEGIN") {
			b = i
		}
		if e < 0 && b >= 0 && (isMarker(c, "LOAD-OK") || isMarker(c, "LOAD-ERR")) {
			e = i
		}
	}
	if b < 0 || e < 0 {
		return nil, fmt.Errorf("load window not found in the fault-free run")
	}
	pts := []loadPoint{}
	id := 0
	for i := b + 1; i < e; i++ {
		c := calls[i]
		isOpen := c.Name == "open" || c.Name == "openat" || c.Name == "openat2"
		if !isOpen || !strings.Contains(c.Args, `"$D/cache"`) || strings.Contains(c.Args, "O_WRONLY") || strings.Contains(c.Args, "O_RDWR") {
			continue
		}
		for _, en := range []string{"EIO", "EACCES", "EMFILE"} {
			id++
			pts = append(pts, loadPoint{ID: id, Sys: c.Name, Ord: c.Ord, Errno: en, Args: c.Args, Role: "open"})
		}
		fd := reFd.FindString(c.Ret)
		if fd == "" {
			continue
		}
		nread := 0
		for j := i + 1; j < e; j++ {
			d := calls[j]
			if d.Name == "close" && d.Args == fd {
				break
			}
			if (d.Name == "read" || d.Name == "pread64" || d.Name == "readv") && strings.HasPrefix(d.Args, fd+",") {
				nread++
				id++
				pts = append(pts, loadPoint{ID: id, Sys: d.Name, Ord: d.Ord, Errno: "EIO", Args: readArgs(d.Args), Role: fmt.Sprintf("read%d", nread)})
			}
		}
	}
	if len(pts) == 0 {
		return nil, fmt.Errorf("the start-up never opened the cache file for reading")
	}
	return pts, nil
}

// readArgs keeps descriptor and size of a read (the buffer shown by strace differs between a real and an injected call).
func readArgs(a string) string {
	parts := strings.Split(a, ", ")
	if len(parts) >= 3 {
		return parts[0] + ", ..., " + parts[len(parts)-1]
	}
	return a
}

// loadFaults enumerates the load faults of one snapshot.
func (x *crashCtx) loadFaults(src, snap string, old Proj) {
	oldHash := old.Hash()
	bd := x.newDir("lb")
	copyTree(src, bd)
	res, err := x.runLoadChild(bd, "")
	os.RemoveAll(bd)
	if err != nil || !strings.Contains(res.stdout, "LOAD-OK") {
		x.emit(tr.M{"ev": "loadplan", "snap": snap, "points": []int{}, "error": "fault-free start-up failed: " + trunc(fmt.Sprint(err)+res.stdout+res.stderr, 300)})
		return
	}
	pts, err := loadPlan(res.calls)
	if err != nil {
		x.emit(tr.M{"ev": "loadplan", "snap": snap, "points": []int{}, "error": err.Error()})
		return
	}
	ids, desc := []int{}, []string{}
	for _, p := range pts {
		ids = append(ids, p.ID)
		desc = append(desc, fmt.Sprintf("%s:%s:%s(%s)", p.Role, p.Sys, p.Errno, trunc(p.Args, 80)))
	}
	x.emit(tr.M{"ev": "loadplan", "snap": snap, "points": ids, "calls": desc, "old_hash": oldHash,
		"control_hash_equal": strings.Contains(res.stdout, "hash="+oldHash)})
	for _, p := range pts {
		var last tr.M
		for attempt := 1; attempt <= 3; attempt++ {
			dir := x.newDir("lf")
			if err := copyTree(src, dir); err != nil {
				break
			}
			r := tr.M{"ev": "loadfault", "snap": snap, "point": p.ID, "sys": p.Sys, "ord": p.Ord, "errno": p.Errno, "role": p.Role,
				"target": trunc(p.Args, 160), "attempt": attempt}
			res, err := x.runLoadChild(dir, fmt.Sprintf("%s:error=%s:when=%d", p.Sys, p.Errno, p.Ord))
			if err != nil {
				r["harness_error"] = err.Error()
			}
			fired, matched := false, false
			for _, c := range res.calls {
				if c.Name == p.Sys && c.Ord == p.Ord && strings.Contains(c.Ret, "(INJECTED)") {
					fired = true
					got := c.Args
					if p.Role != "open" {
						got = readArgs(got)
					}
					matched = got == p.Args
					if !matched {
						r["got"] = trunc(c.Args, 160)
					}
				}
			}
			r["fired"], r["matched"] = fired, matched
			started := strings.Contains(res.stdout, "LOAD-OK")
			r["started"] = started
			r["started_equal"] = started && strings.Contains(res.stdout, "hash="+oldHash)
			r["child"] = trunc(strings.ReplaceAll(res.stdout, dir, "$D"), 400)
			r["save_reported"] = saveReported(res.stdout)
			if res.timedOut {
				r["harness_error"] = "child timed out"
			}
			// what a later, fault-free start finds
			re, lerr := loadDir(dir)
			r["after_loaded"], r["after_equal"], r["after_empty"] = lerr == nil, false, false
			if lerr != nil {
				r["loaderr"] = trunc(lerr.Error(), 300)
			} else {
				ap := Project(re, CrashOpts())
				f := ap.Features()
				r["after_equal"], r["after_empty"] = ap.Hash() == oldHash, f["pods"]+f["ctrs"] == 0
				r["after_bytes"] = fileSize(filepath.Join(dir, "cache"))
			}
			os.RemoveAll(dir)
			last = r
			if fired && matched && r["harness_error"] == nil {
				break
			}
		}
		if last != nil {
			x.emit(last)
		}
	}
}
