package persistdrv

import (
	"encoding/json"
	"fmt"
	"os"
	"path/filepath"
	"sort"
	"strings"

	"github.com/containerd/nri/pkg/api"

	"github.com/containers/nri-plugins/pkg/resmgr/cache"

	"verifharness/internal/tr"
)

// Second (and third) generation round trips: a process that itself STARTED from a cache file saves it again.
//
//	B = NewCache(copy of a saved state directory)
//	one saving operation on B -- and nothing is read from B before it: whatever B keeps in its loaded, not yet
//	    materialized form (the policy entries: cch.PolicyJSON vs cch.policyData) has to reach the file all the same
//	C = NewCache(the same directory)
//	only now B and C are projected and compared (projecting B reads the entries, which would hide a save that
//	    serializes only what was touched)
//
// Record kind `rt2`, judged by Act_ReloadEqualsLastSave.

// Gen2Variants: the saving operations of a second-generation process.
var Gen2Variants = []string{"save", "insertpod", "deletectr", "setpolicy", "insertctr", "deletepod"}

// entryKeysInFile lists the policy entries a cache file holds, without going through the cache (coverage only: how many
// entries a freshly started cache holds untouched).
func entryKeysInFile(path string) []string {
	b, err := os.ReadFile(path)
	if err != nil {
		return []string{}
	}
	var s struct {
		PolicyJSON map[string]json.RawMessage
	}
	if json.Unmarshal(b, &s) != nil {
		return []string{}
	}
	ks := []string{}
	for k := range s.PolicyJSON {
		ks = append(ks, k)
	}
	sort.Strings(ks)
	return ks
}

func splitIDs(s string) []string {
	if s == "" {
		return nil
	}
	return strings.Split(s, ",")
}

func gen2Pod(tag string) *api.PodSandbox {
	return &api.PodSandbox{Id: "verif-gen-pod-" + tag, Name: "gen-" + tag, Uid: "uid-gen-" + tag, Namespace: "verif",
		Labels: map[string]string{"gen": tag}, Annotations: map[string]string{"verif.example/ann": "gen-" + tag},
		Linux: &api.LinuxPodSandbox{CgroupParent: "/kubepods.slice/kubepods-besteffort.slice/kubepods-besteffort-poduid-gen-" + tag + ".slice"}}
}

// gen2Op performs one saving operation WITHOUT reading anything from the cache first: the IDs it needs come from the
// projection `known` of an earlier instance loaded from the same file.  Returns what was really done and Save's error
// where the API reports it.
func gen2Op(ch cache.Cache, variant, tag string, known Proj) (done string, err error, panics []map[string]string) {
	panics = []map[string]string{}
	defer func() {
		if p := recover(); p != nil {
			panics = append(panics, map[string]string{"fn": "gen-" + variant, "msg": fmt.Sprint(p)})
		}
	}()
	ctrs, pods := splitIDs(known["cache/ctrs"]), splitIDs(known["cache/pods"])
	switch variant {
	case "save":
		return "save", ch.Save(), panics
	case "setpolicy":
		return "setpolicy", ch.SetActivePolicy(known["cache/policy"]), panics // the same name: nothing changes but the file
	case "deletectr":
		if len(ctrs) > 0 {
			ch.DeleteContainer(ctrs[len(ctrs)/2])
			return "deletectr", nil, panics
		}
	case "deletepod":
		if len(pods) > 0 {
			ch.DeletePod(pods[len(pods)/2])
			return "deletepod", nil, panics
		}
	case "insertctr":
		if len(pods) > 0 {
			id := "verif-gen-ctr-" + tag
			_, e := ch.InsertContainer(&api.Container{Id: id, PodSandboxId: pods[0], Name: "gen-" + tag, State: api.ContainerState_CONTAINER_CREATED,
				Labels: map[string]string{"io.kubernetes.container.name": "gen-" + tag}, Args: []string{"/bin/gen", tag}})
			if e == nil {
				return "insertctr", nil, panics
			}
		}
	}
	ch.InsertPod(gen2Pod(tag), nil)
	return "insertpod", nil, panics
}

// secondGen runs generation 2 (and optionally 3) on a copy of the saved state directory `cp`; `known` is the projection
// of the cache that was reloaded from it by the first-generation round trip.
func (x *rtCtx) secondGen(cp string, known Proj, o ProjOpts, base tr.M, variant string, third bool) {
	x.g2++
	g2 := filepath.Join(x.scratch, fmt.Sprintf("g2-%d", x.g2))
	os.RemoveAll(g2)
	defer os.RemoveAll(g2)
	rec := func(gen int, v string) tr.M {
		r := tr.M{"ev": "rt2", "gen": gen, "variant": v}
		for _, k := range []string{"h", "k", "op", "origin", "policy"} {
			r[k] = base[k]
		}
		return r
	}
	r2 := rec(2, variant)
	if err := copyTree(cp, g2); err != nil {
		r2["harness_error"] = "copy: " + err.Error()
		x.w.Emit(r2)
		return
	}
	g3 := g2 + "-3"
	var r3 tr.M
	var c3 cache.Cache
	run := func(r tr.M, dir string, v, tag string, knownP Proj) (b cache.Cache, ok bool) {
		cf := filepath.Join(dir, "cache")
		r["entries_in_file"] = len(entryKeysInFile(cf))
		r["bytes_before"] = fileSize(cf)
		b, err := loadDir(dir)
		if err != nil {
			r["loaded"], r["loaderr"], r["equal"], r["diff"], r["info_diff"], r["stage"] = false, err.Error(), false, []string{"load"}, []string{}, "start"
			return nil, false
		}
		done, serr, panics := gen2Op(b, v, tag, knownP)
		r["done"], r["saveerr"], r["api_panics"] = done, serr != nil, panics
		if serr != nil {
			r["savemsg"] = serr.Error()
		}
		r["bytes_after"] = fileSize(cf)
		r["tmp_left"] = fileSize(cf+".saving") >= 0
		return b, true
	}
	b, ok := run(r2, g2, variant, "2", known)
	if !ok {
		x.w.Emit(r2)
		return
	}
	c, lerr := loadDir(g2)
	if third && lerr == nil {
		// generation 3 on a copy: C' (never read) saves, D reloads
		os.RemoveAll(g3)
		defer os.RemoveAll(g3)
		if err := copyTree(g2, g3); err == nil {
			x.g3++
			v3 := Gen2Variants[(x.g3*5+1)%len(Gen2Variants)]
			r3 = rec(3, v3)
			// the IDs known for generation 3: those of `known`, which generation 2 may have changed by one object; an ID
			// that is gone makes the operation fall back (DeleteContainer/DeletePod of a missing ID do not save)
			k3 := Proj{"cache/policy": known["cache/policy"], "cache/pods": known["cache/pods"], "cache/ctrs": known["cache/ctrs"]}
			if variant == "deletectr" || variant == "deletepod" {
				k3["cache/ctrs"], k3["cache/pods"] = "", ""
			}
			c3, ok = run(r3, g3, v3, "3", k3)
			if !ok {
				x.w.Emit(r3)
				r3 = nil
			}
		}
	}
	finish := func(r tr.M, live cache.Cache, dir string, re cache.Cache, lerr error) {
		r["loaded"] = lerr == nil
		lp := Project(live, o)
		r["entries_untouched"] = lp.Features()["entries"] // the entries the projection reads; none was read before the save
		r["live_hash"] = lp.Hash()
		if lerr != nil {
			r["loaderr"], r["equal"], r["diff"], r["info_diff"], r["reload_hash"], r["stage"] = lerr.Error(), false, []string{"load"}, []string{}, "", "reload"
			x.w.Emit(r)
			return
		}
		rp := Project(re, o)
		diff, info, ex := Diff(lp, rp)
		r["equal"], r["diff"], r["info_diff"], r["reload_hash"] = len(diff) == 0, diff, info, rp.Hash()
		if len(ex) > 0 {
			r["examples"] = ex
		}
		x.w.Emit(r)
	}
	if r3 != nil {
		d, derr := loadDir(g3)
		finish(r3, c3, g3, d, derr)
	}
	finish(r2, b, g2, c, lerr)
}
