package persistdrv

import (
	"bytes"
	"encoding/json"
	"fmt"
	"math/rand"
	"os"
	"path/filepath"
	"sort"
	"strings"
	"sync/atomic"
	"syscall"
	"time"

	"github.com/containers/nri-plugins/pkg/resmgr/cache"

	"verifharness/internal/tr"
)

// A save AFTER an interrupted save.  An interrupted save leaves its temporary file behind; the next process starts
// from the (complete) cache file, changes the cache -- so that its snapshot is SHORTER, or longer, than what sits at
// the temporary path -- and saves exactly once.  The cache file must then be exactly that snapshot: it loads, equals
// the live cache, is as long as Snapshot() says, and the temporary path is gone (the rename consumed it).
//
// Record kind `crash2`; leftovers come from the real fault runs (whatever the killed / failed save left) and from
// synthetic files put at the temporary path (a longer valid snapshot, longer garbage, modes 0600/0644, zero length).
// Things other than a regular file at the temporary path (symlink, directory, fifo, a group/other-writable file) are
// only observed (`leftover_obs`), never judged: the property names the cache file and directory, not the temp path.

// snapshotter: Snapshot() is exported by the concrete cache type although it is not part of the Cache interface.
type snapshotter interface{ Snapshot() ([]byte, error) }

const bigKey = "verif-big"

// LeftoverMutations: every one performs exactly ONE save (the second save after an interrupted one finds no leftover
// any more: the first one's rename consumed it).
var shrinkMutations = []string{"delbig", "delpod", "trim", "plain"}
var growMutations = []string{"insertpod", "bigentry"}

func snapshotOf(ch cache.Cache) (b []byte, ok bool) {
	defer func() {
		if recover() != nil {
			b, ok = nil, false
		}
	}()
	s, is := ch.(snapshotter)
	if !is {
		return nil, false
	}
	b, err := s.Snapshot()
	return b, err == nil
}

// biggest returns the ID of the object with the largest serialized form in the snapshot.
func biggest(snap []byte, field string) string {
	var s map[string]json.RawMessage
	if json.Unmarshal(snap, &s) != nil {
		return ""
	}
	var m map[string]json.RawMessage
	if json.Unmarshal(s[field], &m) != nil {
		return ""
	}
	ids := []string{}
	for id := range m {
		ids = append(ids, id)
	}
	sort.Strings(ids)
	best := ""
	for _, id := range ids {
		if best == "" || len(m[id]) > len(m[best]) {
			best = id
		}
	}
	return best
}

// leftoverMutate applies one mutation that saves exactly once.  Returns what was done and Save's error where reported.
func leftoverMutate(ch cache.Cache, mut string, r *rand.Rand) (done string, err error) {
	defer func() {
		if p := recover(); p != nil {
			err = fmt.Errorf("panic in the cache API: %v", p)
		}
	}()
	snap, _ := snapshotOf(ch)
	switch mut {
	case "delbig":
		id := biggest(snap, "Containers")
		if id == "" {
			if c := firstContainer(ch); c != nil {
				id = c.GetID()
			}
		}
		if id != "" && ch.DeleteContainer(id) != nil {
			return "delbig", nil
		}
		return "plain", ch.Save()
	case "delpod":
		id := biggest(snap, "Pods")
		if id == "" {
			if ps := ch.GetPods(); len(ps) > 0 {
				id = ps[0].GetID()
			}
		}
		if id != "" && ch.DeletePod(id) != nil {
			return "delpod", nil
		}
		return "plain", ch.Save()
	case "trim":
		for _, c := range ch.GetContainers() {
			if m, ok := c.EvalKey("tags").(map[string]string); ok {
				for k := range m {
					c.DeleteTag(k)
				}
			}
		}
		var s string
		for _, k := range []string{"verif-string", markerKey, bigKey} {
			if ch.GetPolicyEntry(k, &s) {
				ch.SetPolicyEntry(k, "")
			}
		}
		return "trim", ch.Save()
	case "plain":
		return "plain", ch.Save()
	case "bigentry":
		ch.SetPolicyEntry(bigKey, strings.Repeat("0123456789abcdef", 64+r.Intn(512)))
		return "bigentry", ch.Save()
	}
	p := gen2Pod("after-leftover")
	p.Annotations["verif.example/ann"] = strings.Repeat("x", 200+r.Intn(4000))
	ch.InsertPod(p, nil)
	return "insertpod", nil
}

func leftoverOpts() ProjOpts {
	o := CrashOpts()
	o.RawKeys = append(o.RawKeys, bigKey)
	return o
}

// afterLeftover: `dir` is a state directory with a complete cache file and something at the temporary path.
// It is consumed (the caller hands in a private copy).
func (x *crashCtx) afterLeftover(dir, tmpName string, base tr.M, what, mut string, seed int64) {
	t0 := time.Now()
	defer func() { atomic.AddInt64(&x.loNanos, int64(time.Since(t0))); atomic.AddInt64(&x.loRuns, 1) }()
	tmp := filepath.Join(dir, tmpName)
	cf := filepath.Join(dir, "cache")
	rec := tr.M{"ev": "crash2", "what": what, "mut": mut, "tmp_name": tmpName}
	for _, k := range []string{"snap", "variant", "point", "kind", "sys"} {
		if v, ok := base[k]; ok {
			rec[k] = v
		}
	}
	fi, err := os.Lstat(tmp)
	if err != nil || !fi.Mode().IsRegular() {
		return // no leftover: nothing to do here
	}
	rec["leftover_bytes"], rec["leftover_mode"] = int(fi.Size()), fmt.Sprintf("%04o", fi.Mode().Perm())
	rec["old_bytes"] = fileSize(cf)
	r, err := loadDir(dir)
	if err != nil {
		return // what the interrupted save left does not load: judged by the crash record itself
	}
	done, serr := leftoverMutate(r, mut, rand.New(rand.NewSource(seed)))
	rec["done"], rec["saveerr"] = done, serr != nil
	if serr != nil {
		rec["savemsg"] = trunc(serr.Error(), 300)
	}
	onDisk, rerr := os.ReadFile(cf)
	rec["new_bytes"] = len(onDisk)
	rec["tmp_left"] = fileSize(tmp) >= 0
	rec["file_mode"] = ""
	if st, err := os.Lstat(cf); err == nil {
		rec["file_mode"] = fmt.Sprintf("%04o", st.Mode().Perm())
	}
	rec["snap_bytes"], rec["bytes_equal"] = -1, true
	if snap, ok := snapshotOf(r); ok && rerr == nil {
		rec["snap_bytes"], rec["bytes_equal"] = len(snap), bytes.Equal(snap, onDisk)
	}
	rec["shorter"] = len(onDisk) < int(fi.Size())
	o := leftoverOpts()
	lp := Project(r, o)
	rec["live_hash"] = lp.Hash()
	re, lerr := loadDir(dir)
	rec["loaded"] = lerr == nil
	rec["diff"] = []string{}
	if lerr != nil {
		rec["loaderr"] = trunc(lerr.Error(), 300)
		x.emit(rec)
		return
	}
	rp := Project(re, o)
	diff, _, ex := Diff(lp, rp)
	rec["diff"], rec["reload_hash"] = head(diff, 12), rp.Hash()
	if len(ex) > 0 {
		rec["examples"] = ex
	}
	x.emit(rec)
}

// afterLeftoverBoth runs one shrinking and one growing mutation, each on its own copy of `dir`.
func (x *crashCtx) afterLeftoverBoth(dir, tmpName string, base tr.M, what string, n int, seed int64) {
	for _, mut := range []string{shrinkMutations[n%len(shrinkMutations)], growMutations[n%len(growMutations)]} {
		d := x.newDir("l")
		if err := copyTree(dir, d); err == nil {
			x.afterLeftover(d, tmpName, base, what, mut, seed)
		}
		os.RemoveAll(d)
	}
}

// tmpNameOf finds the temporary path of the save (relative to the state directory) in the fault-free run: the source
// of the rename onto the final path.
func tmpNameOf(calls []scall) string {
	b, e := window(calls)
	for i := b + 1; i >= 1 && i < e && i < len(calls); i++ {
		c := calls[i]
		if c.Name != "rename" && c.Name != "renameat" && c.Name != "renameat2" {
			continue
		}
		quoted := []string{}
		for _, p := range strings.Split(c.Args, ", ") {
			if strings.HasPrefix(p, `"`) {
				quoted = append(quoted, strings.Trim(p, `"`))
			}
		}
		if len(quoted) == 2 && quoted[1] == "$D/cache" && strings.HasPrefix(quoted[0], "$D/") && !strings.Contains(quoted[0][3:], "/") {
			return quoted[0][3:]
		}
	}
	return ""
}

// syntheticLeftovers puts files of several kinds at the temporary path of a valid state directory and saves over them.
func (x *crashCtx) syntheticLeftovers(src, snap, variant, tmpName string, si int, seed int64) {
	cacheBytes, err := os.ReadFile(filepath.Join(src, "cache"))
	if err != nil {
		return
	}
	r := rand.New(rand.NewSource(seed))
	garbage := make([]byte, 2*len(cacheBytes)+1000+r.Intn(3000))
	for i := range garbage {
		garbage[i] = byte(33 + r.Intn(90))
	}
	padded := append(append([]byte{}, cacheBytes...), bytes.Repeat([]byte(" \n"), 2048)...)
	kinds := []struct {
		what string
		data []byte
		mode os.FileMode
	}{
		{"valid-longer", cacheBytes, 0o644}, {"valid-longer-mode-0600", cacheBytes, 0o600}, {"valid-padded", padded, 0o644},
		{"garbage-longer", garbage, 0o644}, {"garbage-longer-mode-0600", garbage, 0o600}, {"empty", []byte{}, 0o644},
	}
	base := tr.M{"snap": snap, "variant": variant, "point": 0, "kind": "synthetic", "sys": ""}
	for ki, k := range kinds {
		d := x.newDir("s")
		if err := copyTree(src, d); err != nil {
			continue
		}
		p := filepath.Join(d, tmpName)
		if os.WriteFile(p, k.data, k.mode) == nil && os.Chmod(p, k.mode) == nil {
			x.afterLeftoverBoth(d, tmpName, base, k.what, si+ki, seed+int64(ki))
		}
		os.RemoveAll(d)
	}
	// observed only
	for _, what := range []string{"symlink", "symlink-dangling", "directory", "mode-0666"} {
		x.observeLeftover(src, snap, variant, tmpName, what)
	}
	if si == 0 {
		x.observeLeftover(src, snap, variant, tmpName, "fifo")
	}
}

// observeLeftover: something that is not a plain private file sits at the temporary path.  What Save does with it is
// recorded as coverage (the statement refuses an unsafe cache FILE or DIRECTORY; it does not mention the temp path).
func (x *crashCtx) observeLeftover(src, snap, variant, tmpName, what string) {
	d := x.newDir("o")
	defer os.RemoveAll(d)
	defer os.RemoveAll(d + ".victim")
	if err := copyTree(src, d); err != nil {
		return
	}
	p := filepath.Join(d, tmpName)
	victim := d + ".victim"
	switch what {
	case "symlink":
		os.WriteFile(victim, []byte("victim"), 0o600)
		os.Symlink(victim, p)
	case "symlink-dangling":
		os.Symlink(victim, p)
	case "directory":
		os.Mkdir(p, 0o700)
	case "mode-0666":
		os.WriteFile(p, []byte("x"), 0o666)
		os.Chmod(p, 0o666)
	case "fifo":
		syscall.Mkfifo(p, 0o600)
	}
	rec := tr.M{"ev": "leftover_obs", "snap": snap, "variant": variant, "what": what, "tmp_name": tmpName}
	ch, err := loadDir(d)
	if err != nil {
		rec["start"] = "refused: " + trunc(err.Error(), 200)
		x.emit(rec)
		return
	}
	rec["start"] = "ok"
	type res struct{ err error }
	done := make(chan res, 1)
	go func() {
		defer func() {
			if p := recover(); p != nil {
				done <- res{fmt.Errorf("panic: %v", p)}
			}
		}()
		ch.SetPolicyEntry(markerKey, "obs")
		done <- res{ch.Save()}
	}()
	blocked := false
	var sres res
	select {
	case sres = <-done:
	case <-time.After(1500 * time.Millisecond):
		blocked = true
		// let the writer go: open the other end and drain it
		if f, err := os.OpenFile(p, os.O_RDONLY|syscall.O_NONBLOCK, 0); err == nil {
			go func() {
				buf := make([]byte, 1<<16)
				for {
					if _, err := f.Read(buf); err != nil {
						return
					}
				}
			}()
			select {
			case sres = <-done:
			case <-time.After(5 * time.Second):
				sres = res{fmt.Errorf("save did not return")}
			}
			f.Close()
		}
	}
	rec["save_blocked"] = blocked
	rec["save"] = "ok"
	if sres.err != nil {
		rec["save"] = "error: " + trunc(sres.err.Error(), 200)
	}
	if b, err := os.ReadFile(victim); err == nil {
		rec["symlink_target_written"] = string(b) != "victim"
	}
	kindOf := func(path string) string {
		fi, err := os.Lstat(path)
		switch {
		case err != nil:
			return "absent"
		case fi.Mode()&os.ModeSymlink != 0:
			return "symlink"
		case fi.IsDir():
			return "directory"
		case fi.Mode()&os.ModeNamedPipe != 0:
			return "fifo"
		case fi.Mode().IsRegular():
			return fmt.Sprintf("regular-%04o", fi.Mode().Perm())
		}
		return "other"
	}
	rec["tmp_after"], rec["cache_after"] = kindOf(p), kindOf(filepath.Join(d, "cache"))
	if rec["cache_after"] == "fifo" {
		rec["next_start"] = "not tried (the cache path is a fifo)"
	} else if _, err := loadDir(d); err != nil {
		rec["next_start"] = "refused: " + trunc(err.Error(), 200)
	} else {
		rec["next_start"] = "ok"
	}
	x.emit(rec)
}
