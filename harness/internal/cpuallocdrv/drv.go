// Package cpuallocdrv records the function graph of the real CPU allocator
// (pkg/cpuallocator: AllocateCpus / ReleaseCpus) over an enumerated input domain.
//
// The domain is the one spec/CpuAlloc.tla defines (Trace_CpuAlloc.tla re-derives the expected
// input of every line, so a driver that skips or reorders inputs is detected by TLC):
//
//	full chunk:   for mask in lo..hi (from = the online CPUs selected by the bits of mask)
//	                for op in A,R   for prio in 0..3   for flags in 0..15   for n in 0..|from|+1
//	sample chunk: for each of `groups` seeded random subsets `from` of a fixture's online CPUs
//	                for op in A,R   for prio in 0..3   for flags in 0,4,8,15   for n in NSample(|from|)
//
// Every call is made on a fresh copy of `from`; it is then repeated on a second allocator that
// was built from a second, independent discovery of the same sysfs tree (determinism as a
// function of topology, set, count and options).
package cpuallocdrv

import (
	"context"
	"crypto/sha256"
	"flag"
	"fmt"
	"math/rand"
	"os"
	"os/exec"
	"path/filepath"
	"sort"
	"strings"
	"sync"
	"sync/atomic"
	"time"

	"github.com/containers/nri-plugins/pkg/cpuallocator"
	"github.com/containers/nri-plugins/pkg/sysfs"
	"github.com/containers/nri-plugins/pkg/utils/cpuset"

	"verifharness/internal/tr"
)

// Plan is written by engines/cpualloc.py.
type Plan struct {
	Seed         int64        `json:"seed"`
	Workers      int          `json:"workers"`
	Scratch      string       `json:"scratch"`       // generated trees go here
	FixtureCache string       `json:"fixture_cache"` // unpacked fixtures (keyed by archive hash) are kept here
	Out          string       `json:"out"`           // chunk files and index.ndjson go here
	Full         []FullJob    `json:"full"`
	Sample       []SampleJob  `json:"sample"`
	Replay       []ReplayCall `json:"replay"` // instead of Full/Sample: single calls to repeat
}

type FullJob struct {
	Machine string `json:"m"`
	Split   int    `json:"split"` // number of mask ranges (= chunk files)
}

type SampleJob struct {
	Name    string `json:"m"`       // fixture name, e.g. "fixture-server"
	Archive string `json:"archive"` // tar.bz2 in the repository
	Path    string `json:"path"`    // path of the sys directory inside the archive
	Groups  int    `json:"groups"`  // number of sampled from-sets
	Split   int    `json:"split"`
}

type ReplayCall struct {
	Machine string `json:"m"`
	Op      string `json:"op"`
	From    []int  `json:"from"`
	N       int    `json:"n"`
	Prio    int    `json:"prio"`
	Flags   int    `json:"flags"`
}

const hangTimeout = 60 * time.Second

type pair struct {
	a, b   cpuallocator.CPUAllocator
	online []int
}

type job struct {
	file   string
	m      string
	kind   string
	lo, hi int          // full: mask range
	froms  [][]int      // sample: from sets
	calls  []ReplayCall // replay
	sysdir string
}

type worker struct {
	id    int
	pairs map[string]*pair
	st    *stats
	start atomic.Int64 // unix nano of the call in flight, 0 when idle
	cur   atomic.Value // description of the call in flight
}

func discover(sysdir string) (*pair, error) {
	p := &pair{}
	for i := 0; i < 2; i++ {
		sys, err := sysfs.DiscoverSystemAt(sysdir)
		if err != nil {
			return nil, fmt.Errorf("discovery of %s failed: %w", sysdir, err)
		}
		if i == 0 {
			p.a = cpuallocator.NewCPUAllocator(sys)
			p.online = sys.OnlineCPUs().List()
		} else {
			p.b = cpuallocator.NewCPUAllocator(sys)
		}
	}
	return p, nil
}

func (w *worker) pair(sysdir string) (*pair, error) {
	if p, ok := w.pairs[sysdir]; ok {
		return p, nil
	}
	p, err := discover(sysdir)
	if err != nil {
		return nil, err
	}
	w.pairs[sysdir] = p
	return p, nil
}

type outcome struct {
	err   bool
	panic string
	res   []int
	after []int
}

func call(ca cpuallocator.CPUAllocator, op string, from []int, n, prio, flags int) (o outcome) {
	set := cpuset.New(from...)
	defer func() {
		if r := recover(); r != nil {
			o = outcome{panic: fmt.Sprint(r), res: []int{}, after: tr.Ints(set.List())}
		}
	}()
	opts := []cpuallocator.Option{cpuallocator.WithPriority(cpuallocator.CPUPriority(prio)),
		cpuallocator.WithAllocFlags(cpuallocator.AllocFlag(flags))}
	var res cpuset.CPUSet
	var err error
	if op == "A" {
		res, err = ca.AllocateCpus(&set, n, opts...)
	} else {
		res, err = ca.ReleaseCpus(&set, n, opts...)
	}
	return outcome{err: err != nil, res: tr.Ints(res.List()), after: tr.Ints(set.List())}
}

// stats counts what a chunk exercised (vacuity guard of the engine).
type stats struct {
	AllocProper, ReleaseProper, OverAskAllocErr, OverAskRelease, All, Zero int
	proper                                                                 map[string]bool // sample chunks: distinct proper inputs
}

func (st *stats) count(op string, from []int, n, prio, flags int, err bool) {
	k := len(from)
	switch {
	case n > k && op == "A" && err:
		st.OverAskAllocErr++
	case n > k && op == "R":
		st.OverAskRelease++
	case n > k:
	case n == 0 || k == 0:
		st.Zero++
	case n == k:
		st.All++
	case !err:
		if op == "A" {
			st.AllocProper++
		} else {
			st.ReleaseProper++
		}
		if st.proper != nil {
			st.proper[fmt.Sprint(op, from, n, prio, flags)] = true
		}
	}
}

func (w *worker) record(out *tr.Writer, p *pair, mask int, op string, from []int, n, prio, flags int) {
	w.cur.Store(fmt.Sprintf("%s from=%v n=%d prio=%d flags=%d", op, from, n, prio, flags))
	w.start.Store(time.Now().UnixNano())
	o1 := call(p.a, op, from, n, prio, flags)
	o2 := call(p.b, op, from, n, prio, flags)
	w.start.Store(0)
	rec := tr.M{"ev": "call", "op": op, "mask": mask, "from": from, "n": n, "prio": prio, "flags": flags,
		"err": o1.err, "res": o1.res, "after": o1.after, "err2": o2.err, "res2": o2.res, "after2": o2.after}
	if o1.panic != "" || o2.panic != "" {
		rec["panic"] = o1.panic + o2.panic
	}
	out.Emit(rec)
	w.st.count(op, from, n, prio, flags, o1.err)
}

// NSample: the counts tried on a sampled from-set of size k (mirrors CpuAlloc!NSample).
func NSample(k int) []int {
	set := map[int]bool{}
	for _, n := range []int{0, 1, 2, 3, k / 2, k - 3, k - 2, k - 1, k, k + 1} {
		if n >= 0 && n <= k+1 {
			set[n] = true
		}
	}
	ns := []int{}
	for n := range set {
		ns = append(ns, n)
	}
	sort.Ints(ns)
	return ns
}

func fromMask(mask int, online []int) []int {
	f := []int{}
	for i, c := range online {
		if mask&(1<<uint(i)) != 0 {
			f = append(f, c)
		}
	}
	return f
}

func (w *worker) run(j job) (tr.M, error) {
	p, err := w.pair(j.sysdir)
	if err != nil {
		return nil, err
	}
	out, err := tr.NewWriter(j.file)
	if err != nil {
		return nil, err
	}
	w.st = &stats{}
	if j.kind != "full" {
		w.st.proper = map[string]bool{}
	}
	hdr := tr.M{"ev": "hdr", "kind": j.kind, "m": j.m, "online": tr.Ints(p.online), "lo": j.lo, "hi": j.hi, "groups": len(j.froms)}
	out.Emit(hdr)
	flagSeq := []int{0, 1, 2, 3, 4, 5, 6, 7, 8, 9, 10, 11, 12, 13, 14, 15} // CpuAlloc!FlagSets
	if j.kind == "sample" {
		flagSeq = []int{0, 4, 8, 15} // CpuAlloc!SampleFlagSets
	}
	inner := func(mask int, from []int, ns []int) {
		for _, op := range []string{"A", "R"} {
			for prio := 0; prio < 4; prio++ {
				for _, flags := range flagSeq {
					for _, n := range ns {
						w.record(out, p, mask, op, from, n, prio, flags)
					}
				}
			}
		}
	}
	switch j.kind {
	case "full":
		for mask := j.lo; mask <= j.hi; mask++ {
			from := fromMask(mask, p.online)
			ns := []int{}
			for n := 0; n <= len(from)+1; n++ {
				ns = append(ns, n)
			}
			inner(mask, from, ns)
		}
	case "sample":
		for g, from := range j.froms {
			inner(g+1, from, NSample(len(from)))
		}
	case "replay":
		for _, c := range j.calls {
			w.record(out, p, 0, c.Op, tr.Ints(c.From), c.N, c.Prio, c.Flags)
		}
	}
	idx := tr.M{"file": filepath.Base(j.file), "kind": j.kind, "m": j.m, "online": tr.Ints(p.online), "lo": j.lo, "hi": j.hi,
		"groups": len(j.froms), "records": out.N - 1,
		"alloc_ok_proper": w.st.AllocProper, "release_ok_proper": w.st.ReleaseProper, "overask_alloc_err": w.st.OverAskAllocErr,
		"overask_release": w.st.OverAskRelease, "alloc_all": w.st.All, "zero": w.st.Zero,
		"distinct_proper": w.st.AllocProper + w.st.ReleaseProper}
	if w.st.proper != nil {
		idx["distinct_proper"] = len(w.st.proper)
	}
	return idx, out.Close()
}

// sampleFroms draws seeded random subsets of the online CPUs with varying density, plus a few
// structured ones (everything, everything but one CPU).
func sampleFroms(rng *rand.Rand, online []int, groups int) [][]int {
	fs := [][]int{}
	dens := []float64{0.05, 0.15, 0.3, 0.5, 0.7, 0.9}
	for g := 0; g < groups; g++ {
		var f []int
		switch {
		case g == 0:
			f = append(f, online...)
		case g == 1:
			f = append(f, online[1:]...)
		default:
			d := dens[rng.Intn(len(dens))]
			for _, c := range online {
				if rng.Float64() < d {
					f = append(f, c)
				}
			}
		}
		fs = append(fs, tr.Ints(f))
	}
	return fs
}

// Main is the entry point: cpuallocdrv --plan plan.json
func Main(args []string) error {
	fs := flag.NewFlagSet("cpualloc", flag.ContinueOnError)
	planPath := fs.String("plan", "", "plan file written by the engine")
	list := fs.Bool("list", false, "print the generated machines and exit")
	if err := fs.Parse(args); err != nil {
		return err
	}
	for _, v := range []string{"OVERRIDE_SYS_CORE_CPUS", "OVERRIDE_SYS_ATOM_CPUS", "OVERRIDE_SYS_CACHES"} {
		os.Unsetenv(v)
	}
	builtin := Builtin()
	if *list {
		names := []string{}
		for n := range builtin {
			names = append(names, n)
		}
		sort.Strings(names)
		for _, n := range names {
			m := builtin[n]
			root, err := os.MkdirTemp(os.Getenv("VERIF_SCRATCH"), "cpualloc-list-")
			if err != nil {
				return err
			}
			if err := m.Write(root); err != nil {
				return err
			}
			sys, err := sysfs.DiscoverSystemAt(filepath.Join(root, "sys"))
			if err != nil {
				return err
			}
			ca := cpuallocator.NewCPUAllocator(sys)
			pr := ca.GetCPUPriorities()
			fmt.Printf("%s online=%v prio high=%s normal=%s low=%s", n, m.Online(), pr[0], pr[1], pr[2])
			for _, k := range sys.CoreKinds() {
				fmt.Printf(" kind%d=%s", k, sys.CoreKindCPUs(k))
			}
			for _, pid := range sys.PackageIDs() {
				pkg := sys.Package(pid)
				for _, die := range pkg.DieIDs() {
					fmt.Printf(" pkg%d/die%d=%s clusters:", pid, die, pkg.DieCPUSet(die))
					for _, cl := range pkg.LogicalDieClusterIDs(die) {
						fmt.Printf("[%s]", pkg.LogicalDieClusterCPUSet(die, cl))
					}
				}
			}
			fmt.Println()
			os.RemoveAll(root)
		}
		return nil
	}
	var plan Plan
	if err := tr.ReadJSON(*planPath, &plan); err != nil {
		return err
	}
	if plan.Workers <= 0 {
		plan.Workers = 16
	}
	if err := os.MkdirAll(plan.Out, 0o755); err != nil {
		return err
	}
	sysdirs := map[string]string{}
	gen := func(name string) (string, error) {
		if d, ok := sysdirs[name]; ok {
			return d, nil
		}
		m, ok := builtin[name]
		if !ok {
			return "", fmt.Errorf("unknown machine %q", name)
		}
		root := filepath.Join(plan.Scratch, "gen", name)
		if err := os.RemoveAll(root); err != nil {
			return "", err
		}
		if err := m.Write(root); err != nil {
			return "", err
		}
		sysdirs[name] = filepath.Join(root, "sys")
		return sysdirs[name], nil
	}
	// Fixtures: only the requested subtree is unpacked (the archives hold up to 60 k files), into a cache
	// directory keyed by the archive's content hash; a tree is used only when its completion marker exists.
	fixture := func(s SampleJob) (string, error) {
		blob, err := os.ReadFile(s.Archive)
		if err != nil {
			return "", err
		}
		top := filepath.Dir(s.Path) // e.g. sysfs/server
		key := fmt.Sprintf("%x-%s", sha256.Sum256(blob), strings.ReplaceAll(top, "/", "_"))
		cache := plan.FixtureCache
		if cache == "" {
			cache = filepath.Join(plan.Scratch, "fx")
		}
		dir := filepath.Join(cache, key[:16]+key[64:])
		if _, err := os.Stat(filepath.Join(dir, ".complete")); err != nil {
			tmp := fmt.Sprintf("%s.tmp%d", dir, os.Getpid())
			os.RemoveAll(tmp)
			if err := os.MkdirAll(tmp, 0o755); err != nil {
				return "", err
			}
			ctx, cancel := context.WithTimeout(context.Background(), 5*time.Minute)
			defer cancel()
			if out, err := exec.CommandContext(ctx, "tar", "-xjf", s.Archive, "-C", tmp, top).CombinedOutput(); err != nil {
				return "", fmt.Errorf("unpacking %s from %s: %v: %s", top, s.Archive, err, out)
			}
			if err := os.WriteFile(filepath.Join(tmp, ".complete"), []byte(key+"\n"), 0o644); err != nil {
				return "", err
			}
			if err := os.Rename(tmp, dir); err != nil {
				os.RemoveAll(tmp) // somebody else completed it first
				if _, err2 := os.Stat(filepath.Join(dir, ".complete")); err2 != nil {
					return "", err
				}
			}
		}
		return filepath.Join(dir, s.Path), nil
	}

	jobs := []job{}
	// the sampled fixtures come first: their calls are the slow ones (tens of ms on 112 CPUs)
	for si, s := range plan.Sample {
		sysdir, err := fixture(s)
		if err != nil {
			return err
		}
		p, err := discover(sysdir)
		if err != nil {
			return err
		}
		rng := rand.New(rand.NewSource(plan.Seed*1000 + int64(si)))
		froms := sampleFroms(rng, p.online, s.Groups)
		split := s.Split
		if split <= 0 || split > len(froms) {
			split = 1
		}
		per := (len(froms) + split - 1) / split
		for k, lo := 0, 0; lo < len(froms); k, lo = k+1, lo+per {
			hi := lo + per
			if hi > len(froms) {
				hi = len(froms)
			}
			jobs = append(jobs, job{file: filepath.Join(plan.Out, fmt.Sprintf("chunk-%s-%03d.ndjson", s.Name, k)),
				m: s.Name, kind: "sample", froms: froms[lo:hi], sysdir: sysdir})
		}
	}
	for _, f := range plan.Full {
		sysdir, err := gen(f.Machine)
		if err != nil {
			return err
		}
		m := builtin[f.Machine]
		total := 1 << uint(len(m.Online()))
		split := f.Split
		if split <= 0 || split > total {
			split = 1
		}
		per := (total + split - 1) / split
		for k, lo := 0, 0; lo < total; k, lo = k+1, lo+per {
			hi := lo + per - 1
			if hi >= total {
				hi = total - 1
			}
			jobs = append(jobs, job{file: filepath.Join(plan.Out, fmt.Sprintf("chunk-%s-%03d.ndjson", f.Machine, k)),
				m: f.Machine, kind: "full", lo: lo, hi: hi, sysdir: sysdir})
		}
	}
	if len(plan.Replay) > 0 {
		by := map[string][]ReplayCall{}
		for _, c := range plan.Replay {
			by[c.Machine] = append(by[c.Machine], c)
		}
		names := []string{}
		for n := range by {
			names = append(names, n)
		}
		sort.Strings(names)
		for _, n := range names {
			var sysdir string
			var err error
			if _, ok := builtin[n]; ok {
				sysdir, err = gen(n)
			} else {
				found := false
				for _, s := range plan.Sample {
					if s.Name == n {
						sysdir, err = fixture(s)
						found = true
					}
				}
				if !found {
					err = fmt.Errorf("replay names unknown machine %q", n)
				}
			}
			if err != nil {
				return err
			}
			jobs = append(jobs, job{file: filepath.Join(plan.Out, fmt.Sprintf("chunk-replay-%s.ndjson", n)), m: n, kind: "replay",
				calls: by[n], sysdir: sysdir})
		}
		// a replay plan runs only the listed calls
		keep := []job{}
		for _, j := range jobs {
			if j.kind == "replay" {
				keep = append(keep, j)
			}
		}
		jobs = keep
	}

	// run ----------------------------------------------------------------------------------
	ch := make(chan job)
	var mu sync.Mutex
	index := []tr.M{}
	var firstErr error
	workers := make([]*worker, plan.Workers)
	var wg sync.WaitGroup
	for i := range workers {
		w := &worker{id: i, pairs: map[string]*pair{}}
		w.cur.Store("")
		workers[i] = w
		wg.Add(1)
		go func() {
			defer wg.Done()
			for j := range ch {
				idx, err := w.run(j)
				mu.Lock()
				if err != nil && firstErr == nil {
					firstErr = err
				}
				if idx != nil {
					index = append(index, idx)
				}
				mu.Unlock()
			}
		}()
	}
	// watchdog: a call of the real code that does not return is reported as a "hang" line, the run stops
	stop := make(chan struct{})
	go func() {
		t := time.NewTicker(time.Second)
		defer t.Stop()
		for {
			select {
			case <-stop:
				return
			case <-t.C:
				now := time.Now().UnixNano()
				for _, w := range workers {
					if s := w.start.Load(); s != 0 && time.Duration(now-s) > hangTimeout {
						hw, err := tr.NewWriter(filepath.Join(plan.Out, "hang.ndjson"))
						if err == nil {
							hw.Emit(tr.M{"ev": "hang", "call": w.cur.Load()})
							hw.Close()
						}
						fmt.Fprintf(os.Stderr, "cpuallocdrv: call did not return within %v: %v\n", hangTimeout, w.cur.Load())
						os.Exit(4)
					}
				}
			}
		}
	}()
	t0 := time.Now()
	for _, j := range jobs {
		ch <- j
	}
	close(ch)
	wg.Wait()
	close(stop)
	if firstErr != nil {
		return firstErr
	}
	sort.Slice(index, func(i, j int) bool { return index[i]["file"].(string) < index[j]["file"].(string) })
	iw, err := tr.NewWriter(filepath.Join(plan.Out, "index.ndjson"))
	if err != nil {
		return err
	}
	total := 0
	for _, i := range index {
		iw.Emit(i)
		total += i["records"].(int)
	}
	if err := iw.Close(); err != nil {
		return err
	}
	fmt.Printf("RECORDS %d CALLS %d CHUNKS %d WALL_MS %d\n", total, 2*total, len(index), time.Since(t0).Milliseconds())
	return nil
}
