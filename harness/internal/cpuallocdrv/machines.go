package cpuallocdrv

import (
	"fmt"
	"os"
	"path/filepath"
	"sort"
	"strconv"
	"strings"
)

// CPU describes one logical CPU of a generated machine.  Everything the CPU allocator (through
// pkg/sysfs) reads is derived from these fields.
type CPU struct {
	ID      int
	Pkg     int
	Die     int
	Cluster int
	Core    int // core id within the package (kernel core_id)
	Node    int
	L2      int    // id of the L2 cache this CPU shares
	L3      int    // id of the L3 cache this CPU shares
	Offline bool   // present but not online
	Atom    bool   // E-core (listed in devices/cpu_atom/cpus); only meaningful when the machine is hybrid
	BaseKHz int    // cpufreq/base_frequency, 0 = file absent
	EPP     string // cpufreq/energy_performance_preference, "" = file absent
}

// Machine is a generated topology.
type Machine struct {
	Name   string
	Hybrid bool // write devices/cpu_core/cpus and devices/cpu_atom/cpus
	CPUs   []CPU
}

func (m *Machine) Online() []int {
	o := []int{}
	for _, c := range m.CPUs {
		if !c.Offline {
			o = append(o, c.ID)
		}
	}
	sort.Ints(o)
	return o
}

func cpuList(ids []int) string {
	ids = append([]int{}, ids...)
	sort.Ints(ids)
	s := make([]string, len(ids))
	for i, id := range ids {
		s[i] = strconv.Itoa(id)
	}
	return strings.Join(s, ",")
}

func wr(root, rel, content string) error {
	p := filepath.Join(root, rel)
	if err := os.MkdirAll(filepath.Dir(p), 0o755); err != nil {
		return err
	}
	return os.WriteFile(p, []byte(content+"\n"), 0o644)
}

// Write materializes the machine as a sysfs tree under root (root/sys/...), the way a Linux
// kernel shows it: sibling and shared-cache lists only contain online CPUs, an offline CPU has
// no topology/ and cache/ directories.
func (m *Machine) Write(root string) error {
	var all, online, offline, core, atom []int
	nodes := map[int][]int{}
	for _, c := range m.CPUs {
		all = append(all, c.ID)
		if c.Offline {
			offline = append(offline, c.ID)
		} else {
			online = append(online, c.ID)
			if m.Hybrid {
				if c.Atom {
					atom = append(atom, c.ID)
				} else {
					core = append(core, c.ID)
				}
			}
		}
		nodes[c.Node] = append(nodes[c.Node], c.ID)
	}
	base := "sys/devices/system/cpu"
	files := map[string]string{
		base + "/possible": cpuList(all),
		base + "/present":  cpuList(all),
		base + "/online":   cpuList(online),
		base + "/offline":  cpuList(offline),
		base + "/isolated": "",
	}
	if m.Hybrid {
		files["sys/devices/cpu_core/cpus"] = cpuList(core)
		files["sys/devices/cpu_atom/cpus"] = cpuList(atom)
	}
	same := func(f func(CPU) bool) []int {
		r := []int{}
		for _, o := range m.CPUs {
			if !o.Offline && f(o) {
				r = append(r, o.ID)
			}
		}
		return r
	}
	for _, c := range m.CPUs {
		d := fmt.Sprintf("%s/cpu%d", base, c.ID)
		if err := os.MkdirAll(filepath.Join(root, d, fmt.Sprintf("node%d", c.Node)), 0o755); err != nil {
			return err
		}
		if c.BaseKHz > 0 {
			files[d+"/cpufreq/base_frequency"] = strconv.Itoa(c.BaseKHz)
			files[d+"/cpufreq/cpuinfo_min_freq"] = "800000"
			files[d+"/cpufreq/cpuinfo_max_freq"] = strconv.Itoa(c.BaseKHz + 1000000)
		}
		if c.EPP != "" {
			files[d+"/cpufreq/energy_performance_preference"] = c.EPP
		}
		if c.Offline {
			continue
		}
		c := c
		threads := cpuList(same(func(o CPU) bool { return o.Pkg == c.Pkg && o.Core == c.Core }))
		files[d+"/topology/physical_package_id"] = strconv.Itoa(c.Pkg)
		files[d+"/topology/die_id"] = strconv.Itoa(c.Die)
		files[d+"/topology/cluster_id"] = strconv.Itoa(c.Cluster)
		files[d+"/topology/core_id"] = strconv.Itoa(c.Core)
		files[d+"/topology/core_cpus_list"] = threads
		files[d+"/topology/thread_siblings_list"] = threads
		coreUID := c.Pkg*1000 + c.Core
		caches := []struct {
			idx, level, id int
			typ, size      string
			cpus           string
		}{
			{0, 1, coreUID, "Data", "32K", threads},
			{1, 1, coreUID, "Instruction", "32K", threads},
			{2, 2, c.L2, "Unified", "1024K", cpuList(same(func(o CPU) bool { return o.L2 == c.L2 }))},
			{3, 3, c.L3, "Unified", "16384K", cpuList(same(func(o CPU) bool { return o.L3 == c.L3 }))},
		}
		for _, k := range caches {
			cd := fmt.Sprintf("%s/cache/index%d", d, k.idx)
			files[cd+"/id"] = strconv.Itoa(k.id)
			files[cd+"/level"] = strconv.Itoa(k.level)
			files[cd+"/type"] = k.typ
			files[cd+"/size"] = k.size
			files[cd+"/shared_cpu_list"] = k.cpus
		}
	}
	nb := "sys/devices/system/node"
	nids := []int{}
	for n := range nodes {
		nids = append(nids, n)
	}
	sort.Ints(nids)
	for _, f := range []string{"online", "possible", "has_memory", "has_normal_memory", "has_cpu"} {
		files[nb+"/"+f] = cpuList(nids)
	}
	for _, n := range nids {
		d := fmt.Sprintf("%s/node%d", nb, n)
		on := []int{}
		for _, id := range nodes[n] {
			for _, c := range m.CPUs {
				if c.ID == id && !c.Offline {
					on = append(on, id)
				}
			}
		}
		files[d+"/cpulist"] = cpuList(on)
		dist := make([]string, len(nids))
		for i, o := range nids {
			if o == n {
				dist[i] = "10"
			} else {
				dist[i] = "21"
			}
		}
		files[d+"/distance"] = strings.Join(dist, " ")
		files[d+"/meminfo"] = fmt.Sprintf("Node %d MemTotal:       8388608 kB\nNode %d MemFree:        4194304 kB\nNode %d MemUsed:        4194304 kB", n, n, n)
	}
	for rel, content := range files {
		if err := wr(root, rel, content); err != nil {
			return err
		}
	}
	return nil
}

// helpers to build machines ------------------------------------------------------------------

// smt machine: pkgs x dies x llc groups x cores x threads, CPU ids assigned core-major (0,1 are siblings).
// One NUMA node per die.  L2 is per core, L3 per "llc group".
func grid(name string, pkgs, dies, llcs, cores, threads int) Machine {
	m := Machine{Name: name}
	id, l2, l3, node := 0, 0, 0, 0
	for p := 0; p < pkgs; p++ {
		coreID := 0
		for d := 0; d < dies; d++ {
			for g := 0; g < llcs; g++ {
				for c := 0; c < cores; c++ {
					for t := 0; t < threads; t++ {
						m.CPUs = append(m.CPUs, CPU{ID: id, Pkg: p, Die: d, Cluster: coreID, Core: coreID, Node: node, L2: l2, L3: l3})
						id++
					}
					coreID++
					l2++
				}
				l3++
			}
			node++
		}
	}
	return m
}

// Builtin returns the generated machines of a tier.  Every machine has at most 10 CPUs so that
// all subsets of its online CPUs can be enumerated.
func Builtin() map[string]Machine {
	ms := map[string]Machine{}
	add := func(m Machine) { ms[m.Name] = m }

	// 1 socket, 1 die, 2 LLC groups x 2 cores x 2 threads; core 0 prefers performance (EPP) => high/low priorities
	m := grid("llc2x2x2-epp", 1, 1, 2, 2, 2)
	for i := range m.CPUs {
		if m.CPUs[i].Core == 0 {
			m.CPUs[i].EPP = "performance"
		} else {
			m.CPUs[i].EPP = "balance_power"
		}
	}
	add(m)

	// hybrid: 2 P-cores x 2 threads (each its own cluster and L2), 4 E-cores in two clusters of 2 sharing an L2
	m = Machine{Name: "hybrid-2p4e", Hybrid: true}
	for i := 0; i < 4; i++ {
		m.CPUs = append(m.CPUs, CPU{ID: i, Cluster: (i / 2) * 8, Core: (i / 2) * 8, L2: i / 2, L3: 0})
	}
	for i := 4; i < 8; i++ {
		m.CPUs = append(m.CPUs, CPU{ID: i, Cluster: 16 + (i-4)/2*8, Core: 16 + (i-4)*1, L2: 2 + (i-4)/2, L3: 0, Atom: true})
	}
	add(m)

	// 2 sockets x 2 cores x 2 threads, CPUs 3 and 6 offline, base frequencies differ on socket 0 (core 0 fast)
	m = grid("2pkg-offline-bf", 2, 1, 1, 2, 2)
	m.CPUs[3].Offline, m.CPUs[6].Offline = true, true
	for i := range m.CPUs {
		if m.CPUs[i].Pkg == 0 {
			if m.CPUs[i].Core == 0 {
				m.CPUs[i].BaseKHz = 3000000
			} else {
				m.CPUs[i].BaseKHz = 2000000
			}
		}
	}
	add(m)

	// 1 socket, 2 dies, each 2 L2-clusters of 2 single-thread cores (cluster ids set), L3 per die
	m = Machine{Name: "dies-clusters"}
	for i := 0; i < 8; i++ {
		m.CPUs = append(m.CPUs, CPU{ID: i, Die: i / 4, Cluster: (i / 2) * 2, Core: i, Node: i / 4, L2: i / 2, L3: i / 4})
	}
	add(m)

	// 1 socket, cache groups of unequal size {0,1} {2,3,4,5} {6,7}, no SMT (the allocator assumes equal sizes)
	m = Machine{Name: "asym-llc"}
	for i, g := range []int{0, 0, 1, 1, 1, 1, 2, 2} {
		m.CPUs = append(m.CPUs, CPU{ID: i, Cluster: i, Core: i, L2: 10 + i, L3: g})
	}
	add(m)

	// 2 sockets whose CPUs disagree on the cache level useful for grouping: socket 0 has private L2s and an L3
	// split in two halves {0,1} {2,3}; socket 1 has L2s shared by core pairs {4,5} {6,7} under one socket-wide L3
	m = Machine{Name: "mixed-cache8"}
	for i := 0; i < 8; i++ {
		c := CPU{ID: i, Pkg: i / 4, Cluster: i, Core: i, Node: i / 4, L2: 10 + i, L3: i / 2}
		if i >= 4 {
			c.L2, c.L3 = 20+i/2, 9
		}
		m.CPUs = append(m.CPUs, c)
	}
	add(m)

	// 6-CPU machines: two sockets x 3 single-thread cores, non-contiguous CPU numbering by interleaving
	m = Machine{Name: "2pkg-interleaved6"}
	for i := 0; i < 6; i++ {
		m.CPUs = append(m.CPUs, CPU{ID: i, Pkg: i % 2, Cluster: i / 2, Core: i / 2, Node: i % 2, L2: i, L3: i % 2})
	}
	add(m)

	// 6-CPU machines with the same features (quick tier)
	// LLC groups {0,1,2,3} (2 SMT cores) and {4,5} (1 SMT core); core 0 prefers performance
	m = grid("llc6-smt", 1, 1, 1, 3, 2)
	for i := range m.CPUs {
		if m.CPUs[i].ID >= 4 {
			m.CPUs[i].L3 = 1
		}
		if m.CPUs[i].Core == 0 {
			m.CPUs[i].EPP = "performance"
		} else {
			m.CPUs[i].EPP = "balance_power"
		}
	}
	add(m)
	// hybrid: 1 P-core x 2 threads, 4 E-cores in two clusters of 2 sharing an L2
	m = Machine{Name: "hybrid6-1p4e", Hybrid: true}
	for i := 0; i < 2; i++ {
		m.CPUs = append(m.CPUs, CPU{ID: i, Cluster: 0, Core: 0, L2: 0, L3: 0})
	}
	for i := 2; i < 6; i++ {
		m.CPUs = append(m.CPUs, CPU{ID: i, Cluster: 8 + (i-2)/2*8, Core: 8 + (i - 2), L2: 1 + (i-2)/2, L3: 0, Atom: true})
	}
	add(m)
	// 3 LLC groups of 2 single-thread cores in 2 dies ({0,1},{2,3} | {4,5})
	m = Machine{Name: "dies-llc6"}
	for i := 0; i < 6; i++ {
		m.CPUs = append(m.CPUs, CPU{ID: i, Die: i / 4, Cluster: i, Core: i, Node: i / 4, L2: i / 2, L3: i / 4})
	}
	add(m)

	// 10-CPU machines (thorough tier)
	// 1 socket x 2 dies; die 0: LLC groups {0-3},{4,5} (SMT2), die 1: {6-9} split in two LLC groups of one SMT core each
	m = grid("llc10-smt", 1, 1, 1, 5, 2)
	for i := range m.CPUs {
		c := &m.CPUs[i]
		switch {
		case c.ID < 4:
			c.L3 = 0
		case c.ID < 6:
			c.L3 = 1
		case c.ID < 8:
			c.Die, c.Node, c.L3 = 1, 1, 2
		default:
			c.Die, c.Node, c.L3 = 1, 1, 3
		}
		if c.ID%2 == 0 && c.ID < 4 {
			c.EPP = "performance"
		} else {
			c.EPP = "balance_performance"
		}
	}
	add(m)

	// hybrid 10: 3 P-cores x 2 threads, one E-cluster of 4, P-core 2 has CPU 5 offline
	m = Machine{Name: "hybrid10-3p4e-offline", Hybrid: true}
	for i := 0; i < 6; i++ {
		m.CPUs = append(m.CPUs, CPU{ID: i, Cluster: (i / 2) * 8, Core: (i / 2) * 8, L2: i / 2, L3: 0, Offline: i == 5})
	}
	for i := 6; i < 10; i++ {
		m.CPUs = append(m.CPUs, CPU{ID: i, Cluster: 24, Core: 24 + (i - 6), L2: 3, L3: 0, Atom: true})
	}
	add(m)

	// 2 sockets x (2 LLC groups of {2 CPUs, 3 CPUs}), no SMT, EPP makes socket 1 low priority
	m = Machine{Name: "2pkg-llc10"}
	for i := 0; i < 10; i++ {
		p := i / 5
		g := 0
		if i%5 >= 2 {
			g = 1
		}
		epp := "performance"
		if p == 1 && g == 1 {
			epp = "power"
		}
		m.CPUs = append(m.CPUs, CPU{ID: i, Pkg: p, Cluster: i % 5, Core: i % 5, Node: p, L2: i, L3: p*2 + g, EPP: epp})
	}
	add(m)
	return ms
}
