// Package agentdrv drives the real configuration agent (pkg/agent) with histories of watch
// events and records, per event: the event, the notify calls it caused (identity of every
// config handed to the plugin, in order, with the validation outcome computed by the real
// Validate()), the callback's answer, and nodeCfg/groupCfg/currentCfg after the event.
//
// Input (--script): {"events":[Event...], "histories":[[index into events, ...], ...]}.
// Output (--out): ndjson; every history starts with a {"ev":"reset"} line (a fresh Agent).
package agentdrv

import (
	"context"
	"errors"
	"flag"
	"fmt"
	"io"
	"net/http"
	"os"
	"runtime/pprof"
	"strings"
	"time"

	metav1 "k8s.io/apimachinery/pkg/apis/meta/v1"
	"k8s.io/apimachinery/pkg/runtime"
	"k8s.io/apimachinery/pkg/types"
	k8swatch "k8s.io/apimachinery/pkg/watch"
	"k8s.io/client-go/rest"
	"k8s.io/klog/v2"

	"github.com/containers/nri-plugins/pkg/agent"
	"github.com/containers/nri-plugins/pkg/agent/watch"
	cfgapi "github.com/containers/nri-plugins/pkg/apis/config/v1alpha1"
	"github.com/containers/nri-plugins/pkg/apis/config/v1alpha1/resmgr/policy/balloons"
	resmgr "github.com/containers/nri-plugins/pkg/apis/resmgr/v1alpha1"

	"verifharness/internal/tr"
)

var hangTimeout = 10 * time.Second

// ObjSpec asks for a config custom resource.  Valid is a request: what the trace records as
// "valid" is always what the object's real Validate() (or the lack of one) answers.
type ObjSpec struct {
	UID    string `json:"uid"`
	Gen    int64  `json:"gen"`
	Valid  bool   `json:"valid"`
	Flavor string `json:"flavor"` // balloons | topology-aware | template (valid only) | bad-op | bad-values | bad-key | bad-preserve
}

// Event is one event on one of the two watches.
type Event struct {
	S    string   `json:"s"`   // node | group
	Typ  string   `json:"typ"` // Added | Modified | Deleted | Bookmark | Error
	O    *ObjSpec `json:"o"`
	NErr bool     `json:"nerr"` // the plugin answers notify with a non-fatal error
}

// Script is a table of events and histories over it.
type Script struct {
	Events    []Event `json:"events"`
	Histories [][]int `json:"histories"`
}

// Cfg is the identity of a config as the specification sees it.
type Cfg struct {
	Kind  string `json:"kind"`
	UID   string `json:"uid"`
	Gen   int64  `json:"gen"`
	Valid bool   `json:"valid"`
}

// State is the agent's memory after an event.
type State struct {
	Node  Cfg `json:"node"`
	Group Cfg `json:"group"`
	Cur   Cfg `json:"cur"`
}

// Line is one trace line (one handled event).
type Line struct {
	H       int    `json:"h"`
	K       int    `json:"k"`
	Ev      string `json:"ev"`
	Typ     string `json:"typ"`
	O       Cfg    `json:"o"`
	NErr    bool   `json:"nerr"`
	Nt      []Cfg  `json:"nt"`
	NRes    []bool `json:"nres"`
	St      State  `json:"st"`
	Fl      string `json:"fl"`
	Want    bool   `json:"want"`
	Patches int    `json:"patches"`
	Panic   string `json:"panic,omitempty"`
	Hang    bool   `json:"hang,omitempty"`
}

var none = Cfg{Kind: "none", UID: "-", Gen: -1, Valid: false}

const groupName = "default"

func nodeName() string { return "node." + agent.VerifNodeName }

// realValid is the validation outcome as the real code computes it: the Validate() method of the
// object if it has one (cfgapi.Validator), valid otherwise.
func realValid(o interface{}) bool {
	if v, ok := o.(cfgapi.Validator); ok {
		return v.Validate() == nil
	}
	return true
}

func expr(key string, op resmgr.Operator, vals ...string) resmgr.Expression {
	return resmgr.Expression{Key: key, Op: op, Values: vals}
}

// build creates a real custom resource object.
func build(kind string, s *ObjSpec) (runtime.Object, error) {
	name := groupName
	if kind == "node" {
		name = nodeName()
	}
	meta := metav1.ObjectMeta{
		Name:       name,
		Namespace:  agent.VerifNamespace,
		UID:        types.UID(s.UID),
		Generation: s.Gen,
	}
	good := []resmgr.Expression{expr("name", resmgr.Equals, "c0"), expr("pod/labels/app", resmgr.In, "x", "y")}
	bln := func(m []resmgr.Expression, preserve []resmgr.Expression) *cfgapi.BalloonsPolicy {
		p := &cfgapi.BalloonsPolicy{ObjectMeta: meta}
		p.Spec.Config.BalloonDefs = []*balloons.BalloonDef{{Name: "verif", MatchExpressions: m}}
		if preserve != nil {
			p.Spec.Config.Preserve = &balloons.ContainerMatchConfig{MatchExpressions: preserve}
		}
		return p
	}
	fl := s.Flavor
	if fl == "" {
		if s.Valid {
			fl = "balloons"
		} else {
			fl = "bad-op"
		}
	}
	switch fl {
	case "balloons":
		return bln(good, nil), nil
	case "topology-aware":
		return &cfgapi.TopologyAwarePolicy{ObjectMeta: meta}, nil
	case "template":
		return &cfgapi.TemplatePolicy{ObjectMeta: meta}, nil
	case "bad-op":
		return bln([]resmgr.Expression{expr("name", resmgr.Operator("Resembles"), "c0")}, nil), nil
	case "bad-values":
		return bln([]resmgr.Expression{good[0], expr("namespace", resmgr.Equals, "a", "b")}, nil), nil
	case "bad-key":
		return bln([]resmgr.Expression{expr("pod", resmgr.Exists)}, nil), nil
	case "bad-preserve":
		return bln(good, []resmgr.Expression{expr("name", resmgr.Exists, "surplus")}), nil
	}
	return nil, fmt.Errorf("unknown object flavor %q", fl)
}

func cfgOf(o interface{}) Cfg {
	if o == nil {
		return none
	}
	m, ok := o.(metav1.Object)
	if !ok || m == nil {
		return Cfg{Kind: "unknown", UID: fmt.Sprintf("%T", o), Gen: -1}
	}
	switch v := o.(type) { // typed nil pointers stored in the interface
	case *cfgapi.BalloonsPolicy:
		if v == nil {
			return none
		}
	case *cfgapi.TopologyAwarePolicy:
		if v == nil {
			return none
		}
	case *cfgapi.TemplatePolicy:
		if v == nil {
			return none
		}
	}
	kind := "group"
	if strings.HasPrefix(m.GetName(), "node.") {
		kind = "node"
	}
	return Cfg{Kind: kind, UID: string(m.GetUID()), Gen: m.GetGeneration(), Valid: realValid(o)}
}

func metaCfg(m metav1.Object) Cfg {
	if m == nil {
		return none
	}
	return cfgOf(m)
}

// cfgIf is a cluster-less agent.ConfigInterface: it only counts status patches.
type cfgIf struct{ patches int }

func (c *cfgIf) SetKubeClient(*http.Client, *rest.Config) error { return nil }
func (c *cfgIf) CreateWatch(context.Context, string, string) (k8swatch.Interface, error) {
	return nil, errors.New("verif: no cluster")
}
func (c *cfgIf) PatchStatus(context.Context, string, string, types.PatchType, []byte, metav1.PatchOptions) error {
	c.patches++
	return nil
}
func (c *cfgIf) Unmarshal([]byte, string) (runtime.Object, error) {
	return nil, errors.New("verif: no files")
}

type run struct {
	a       *agent.Agent
	cif     *cfgIf
	nerr    bool
	notes   []Cfg
	nres    []bool
	lastObj map[string]runtime.Object
}

func newRun() (*run, error) {
	r := &run{cif: &cfgIf{}, lastObj: map[string]runtime.Object{}}
	a, err := agent.NewVerifAgent(r.cif, func(cfg interface{}) (bool, error) {
		r.notes = append(r.notes, cfgOf(cfg))
		r.nres = append(r.nres, r.nerr)
		if r.nerr {
			return false, errors.New("verif: the plugin rejects this configuration")
		}
		return false, nil
	})
	if err != nil {
		return nil, err
	}
	r.a = a
	return r, nil
}

// feed hands one event to the agent the way the select loop of Agent.Start does.
func (r *run) feed(e *Event, obj runtime.Object) {
	we := watch.Event{Type: watch.EventType(strings.ToUpper(e.Typ)), Object: obj}
	if e.S == "node" {
		r.a.VerifNodeWatchEvent(we)
	} else {
		r.a.VerifGroupWatchEvent(we)
	}
}

// Main is the entry point of the command.
func Main(args []string) error {
	fs := flag.NewFlagSet("agentdrv", flag.ContinueOnError)
	scriptP := fs.String("script", "", "script file (JSON)")
	outP := fs.String("out", "", "trace file (ndjson)")
	hang := fs.Duration("hang-timeout", hangTimeout, "time limit of one event")
	prof := fs.String("cpuprofile", "", "write a CPU profile (development)")
	if err := fs.Parse(args); err != nil {
		return err
	}
	if *scriptP == "" || *outP == "" {
		return errors.New("--script and --out are required")
	}
	hangTimeout = *hang
	if *prof != "" {
		pf, err := os.Create(*prof)
		if err != nil {
			return err
		}
		defer pf.Close()
		if err := pprof.StartCPUProfile(pf); err != nil {
			return err
		}
		defer pprof.StopCPUProfile()
	}

	// the agent logs every event; keep the trace run quiet
	kfs := flag.NewFlagSet("klog", flag.ContinueOnError)
	klog.InitFlags(kfs)
	_ = kfs.Set("logtostderr", "false")
	_ = kfs.Set("alsologtostderr", "false")
	_ = kfs.Set("stderrthreshold", "FATAL")
	klog.SetOutput(io.Discard)

	var sc Script
	if err := tr.ReadJSON(*scriptP, &sc); err != nil {
		return err
	}
	w, err := tr.NewWriter(*outP)
	if err != nil {
		return err
	}
	defer w.Close()

	timer := time.NewTimer(time.Hour)
	defer timer.Stop()
	for h, hist := range sc.Histories {
		r, err := newRun()
		if err != nil {
			return err
		}
		w.Emit(tr.M{"ev": "reset", "h": h})
		for k, idx := range hist {
			if idx < 0 || idx >= len(sc.Events) {
				return fmt.Errorf("history %d: event index %d out of range", h, idx)
			}
			e := sc.Events[idx]
			line := Line{H: h, K: k, Ev: e.S, Typ: e.Typ, NErr: e.NErr, O: none}

			var obj runtime.Object
			switch e.Typ {
			case "Added", "Modified":
				if e.O == nil {
					return fmt.Errorf("history %d step %d: %s event without object", h, k, e.Typ)
				}
				o, err := build(e.S, e.O)
				if err != nil {
					return err
				}
				obj = o
				r.lastObj[e.S] = o
				line.O = cfgOf(o)
				line.Fl = e.O.Flavor
				line.Want = e.O.Valid
			case "Deleted":
				// a Deleted event carries the last state of the object
				obj = r.lastObj[e.S]
				delete(r.lastObj, e.S)
			case "Bookmark":
				obj = &cfgapi.BalloonsPolicy{ObjectMeta: metav1.ObjectMeta{ResourceVersion: "12345"}}
			case "Error":
				obj = &metav1.Status{Status: metav1.StatusFailure, Reason: metav1.StatusReasonExpired}
			default:
				return fmt.Errorf("history %d step %d: unknown event type %q", h, k, e.Typ)
			}

			r.nerr = e.NErr
			r.notes, r.nres = []Cfg{}, []bool{}
			done := make(chan string, 1)
			go func() {
				defer func() {
					if p := recover(); p != nil {
						done <- fmt.Sprintf("panic: %v", p)
					}
				}()
				r.feed(&e, obj)
				done <- ""
			}()
			if !timer.Stop() {
				select {
				case <-timer.C:
				default:
				}
			}
			timer.Reset(hangTimeout)
			select {
			case p := <-done:
				line.Panic = p
			case <-timer.C:
				line.Hang = true
			}
			if line.Hang {
				// the goroutine may still be running: nothing of this agent is read any more
				line.Nt, line.NRes = []Cfg{}, []bool{}
				line.St = State{Node: none, Group: none, Cur: none}
				w.Emit(line)
				// The stuck goroutine cannot be stopped and the same defect would stall history after
				// history: one witness is enough, the run ends here (the trace is complete up to this line).
				return nil
			}
			line.Nt, line.NRes = r.notes, r.nres
			line.St = State{Node: metaCfg(r.a.VerifNodeCfg()), Group: metaCfg(r.a.VerifGroupCfg()),
				Cur: metaCfg(r.a.VerifCurrentCfg())}
			line.Patches = r.cif.patches
			w.Emit(line)
		}
	}
	return nil
}
