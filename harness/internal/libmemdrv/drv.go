// Package libmemdrv drives the real libmem allocator (pkg/resmgr/lib/memory) with request
// histories (seeded random or scripted from the model) and records, after every call, the
// call, its result and the full abstract state projected through the public API only.
//
// Two allocators A and B receive the same history.  For the operation kind "AllocTwin" A takes
// an offer and commits it at once while B allocates directly; the trace spec demands equal
// results and equal states (C06: committing a fresh offer == allocating directly).
package libmemdrv

import (
	"encoding/json"
	"errors"
	"flag"
	"fmt"
	"math/rand"
	"os"
	"sort"
	"strconv"
	"time"

	libmem "github.com/containers/nri-plugins/pkg/resmgr/lib/memory"
	"github.com/containers/nri-plugins/pkg/utils/cpuset"

	"verifharness/internal/tr"
)

const unit = int64(1) << 20

const hangTimeout = 10 * time.Second

var errHang = errors.New("call did not return")

// NodeSpec describes one memory node of a layout.
type NodeSpec struct {
	ID     int    `json:"id"`
	Type   string `json:"type"`
	Cap    int    `json:"cap"`
	Normal bool   `json:"normal"`
	Dist   []int  `json:"dist"`
	CPUs   string `json:"cpus,omitempty"`
}

// Layout is a set of memory nodes.
type Layout struct {
	Name  string     `json:"name"`
	Nodes []NodeSpec `json:"nodes"`
}

// Op is one scripted operation.
type Op struct {
	Op     string   `json:"op"`
	ID     string   `json:"id,omitempty"`
	Size   int      `json:"size,omitempty"`
	Prio   string   `json:"prio,omitempty"`
	Strict bool     `json:"strict,omitempty"`
	Types  []string `json:"types,omitempty"`
	Aff    []int    `json:"aff,omitempty"`
	Oid    int      `json:"oid,omitempty"`
	Nodes  []int    `json:"nodes,omitempty"`
}

// History is a layout plus a sequence of operations.
type History struct {
	Layout     Layout `json:"layout"`
	LayoutName string `json:"layout_name,omitempty"` // a builtin layout, instead of Layout
	Ops        []Op   `json:"ops"`
}

type side struct {
	a      *libmem.Allocator
	offers map[int]*libmem.Offer
}

func newSide(l Layout) (*side, error) {
	nodes := []*libmem.Node{}
	for _, n := range l.Nodes {
		t, err := libmem.ParseType(n.Type)
		if err != nil {
			return nil, err
		}
		cpus := cpuset.New()
		if n.CPUs != "" {
			cpus = cpuset.MustParse(n.CPUs)
		}
		node, err := libmem.NewNode(n.ID, t, int64(n.Cap)*unit, n.Normal, cpus, n.Dist)
		if err != nil {
			return nil, err
		}
		nodes = append(nodes, node)
	}
	a, err := libmem.NewAllocator(libmem.WithNodes(nodes))
	if err != nil {
		return nil, err
	}
	return &side{a: a, offers: map[int]*libmem.Offer{}}, nil
}

func prio(p string) libmem.Priority {
	switch p {
	case "besteffort":
		return libmem.BestEffort
	case "burstable":
		return libmem.Burstable
	case "guaranteed":
		return libmem.Guaranteed
	case "preserved":
		return libmem.Preserved
	case "reservation":
		return libmem.Reservation
	}
	return libmem.NoPriority
}

func prioName(p libmem.Priority) string {
	switch p {
	case libmem.BestEffort:
		return "besteffort"
	case libmem.Burstable:
		return "burstable"
	case libmem.Guaranteed:
		return "guaranteed"
	case libmem.Preserved:
		return "preserved"
	case libmem.Reservation:
		return "reservation"
	}
	return "prio" + strconv.Itoa(int(p))
}

func typeMask(ts []string) libmem.TypeMask {
	m := libmem.TypeMask(0)
	for _, t := range ts {
		m |= libmem.MustParseType(t).Mask()
	}
	return m
}

func typeNames(m libmem.TypeMask) []string {
	out := []string{}
	for _, t := range m.Slice() {
		out = append(out, t.String())
	}
	sort.Strings(out)
	return out
}

func nodeMask(ids []int) libmem.NodeMask { return libmem.NewNodeMask(ids...) }

func nodeIDs(m libmem.NodeMask) []int { return tr.Ints(m.Slice()) }

func mkReq(o Op) *libmem.Request {
	opts := []libmem.RequestOption{libmem.WithPriority(prio(o.Prio))}
	if o.Strict {
		opts = append(opts, libmem.WithStrictTypes(typeMask(o.Types)))
	} else if len(o.Types) > 0 {
		opts = append(opts, libmem.WithPreferredTypes(typeMask(o.Types)))
	}
	return libmem.NewRequest(o.ID, int64(o.Size)*unit, nodeMask(o.Aff), opts...)
}

func updMap(u map[string]libmem.NodeMask) tr.M {
	out := tr.M{}
	for id, z := range u {
		out[id] = nodeIDs(z)
	}
	return out
}

// result of one call on one side
func res(z libmem.NodeMask, u map[string]libmem.NodeMask, err error) tr.M {
	r := tr.M{"err": err != nil}
	if err != nil {
		r["msg"] = err.Error()
		return r
	}
	r["z"] = nodeIDs(z)
	r["upd"] = updMap(u)
	return r
}

func (s *side) apply(o Op) tr.M {
	switch o.Op {
	case "Allocate":
		return res(s.a.Allocate(mkReq(o)))
	case "AllocTwinA": // offer + immediate commit
		of, err := s.a.GetOffer(mkReq(o))
		if err != nil {
			return res(0, nil, err)
		}
		return res(of.Commit())
	case "GetOffer":
		of, err := s.a.GetOffer(mkReq(o))
		if err != nil {
			return res(0, nil, err)
		}
		s.offers[o.Oid] = of
		return tr.M{"err": false, "z": nodeIDs(of.NodeMask()), "upd": updMap(of.Updates())}
	case "Commit":
		of, ok := s.offers[o.Oid]
		if !ok {
			return tr.M{"err": true, "msg": "harness: unknown offer"}
		}
		delete(s.offers, o.Oid)
		return res(of.Commit())
	case "Realloc":
		return res(s.a.Realloc(o.ID, nodeMask(o.Nodes), typeMask(o.Types)))
	case "Release":
		err := s.a.Release(o.ID)
		return tr.M{"err": err != nil}
	case "Reset":
		s.a.Reset()
		return tr.M{"err": false}
	}
	return tr.M{"err": true, "msg": "harness: unknown op " + o.Op}
}

// state projects the allocator through its public API.
func (s *side) state(l Layout) tr.M {
	zone, req := tr.M{}, tr.M{}
	masks := map[libmem.NodeMask]bool{}
	s.a.ForeachRequest(nil, func(r *libmem.Request) bool {
		z, ok := s.a.AssignedZone(r.ID())
		if ok {
			zone[r.ID()] = nodeIDs(z)
			masks[z] = true
		}
		req[r.ID()] = tr.M{
			"size": int(r.Size() / unit), "prio": prioName(r.Priority()), "strict": r.IsStrict(),
			"types": typeNames(r.Types()), "aff": nodeIDs(r.Affinity()), "rz": nodeIDs(r.Zone()),
		}
		return true
	})
	offers := tr.M{}
	for oid, of := range s.offers {
		offers[strconv.Itoa(oid)] = of.IsValid()
	}
	// the allocator's own accounting for every assigned mask (cross-checked by the spec)
	acct := []tr.M{}
	keys := []int{}
	for m := range masks {
		keys = append(keys, int(m))
	}
	sort.Ints(keys)
	for _, k := range keys {
		m := libmem.NodeMask(k)
		acct = append(acct, tr.M{"z": nodeIDs(m), "use": int(s.a.ZoneUsage(m) / unit), "cap": int(s.a.ZoneCapacity(m) / unit),
			"free": int(s.a.ZoneFree(m) / unit)})
	}
	return tr.M{"zone": zone, "req": req, "offers": offers, "acct": acct}
}

// ---------------------------------------------------------------------------------- layouts

func symDist(n int, rnd *rand.Rand) [][]int {
	d := make([][]int, n)
	for i := range d {
		d[i] = make([]int, n)
	}
	choices := []int{11, 12, 17, 21, 21, 28, 31}
	for i := 0; i < n; i++ {
		d[i][i] = 10
		for j := i + 1; j < n; j++ {
			v := choices[rnd.Intn(len(choices))]
			d[i][j], d[j][i] = v, v
		}
	}
	return d
}

// Builtin layouts (also used, hand-copied, by MC_MemAlloc.tla: LayA, LayB).
func builtinLayouts() []Layout {
	d3 := func(a, b, c int) [][]int { return [][]int{{10, a, b}, {a, 10, c}, {b, c, 10}} }
	mk := func(name string, types []string, caps []int, normal []bool, d [][]int) Layout {
		l := Layout{Name: name}
		for i := range types {
			l.Nodes = append(l.Nodes, NodeSpec{ID: i, Type: types[i], Cap: caps[i], Normal: normal[i], Dist: d[i]})
		}
		return l
	}
	d4 := [][]int{{10, 21, 17, 28}, {21, 10, 28, 17}, {17, 28, 10, 28}, {28, 17, 28, 10}}
	d4b := [][]int{{10, 11, 21, 21}, {11, 10, 21, 21}, {21, 21, 10, 11}, {21, 21, 11, 10}}
	d5 := [][]int{{10, 21, 17, 28, 12}, {21, 10, 28, 17, 31}, {17, 28, 10, 28, 21}, {28, 17, 28, 10, 21}, {12, 31, 21, 21, 10}}
	return []Layout{
		mk("LayA", []string{"DRAM", "DRAM", "PMEM"}, []int{4, 4, 6}, []bool{true, true, false}, d3(21, 17, 28)),
		mk("LayB", []string{"DRAM", "DRAM", "HBM"}, []int{4, 3, 2}, []bool{true, true, true}, d3(21, 12, 12)),
		mk("LayC", []string{"DRAM", "DRAM", "PMEM", "PMEM"}, []int{4, 4, 8, 8}, []bool{true, true, false, false}, d4),
		mk("LayD", []string{"DRAM", "DRAM", "DRAM", "HBM"}, []int{4, 4, 0, 2}, []bool{true, true, false, true}, d4b),
		mk("LayE", []string{"DRAM", "DRAM", "PMEM", "PMEM", "HBM"}, []int{4, 4, 6, 6, 2}, []bool{true, true, false, true, true}, d5),
		mk("LayF", []string{"DRAM", "DRAM", "DRAM", "DRAM"}, []int{3, 3, 3, 3}, []bool{true, true, true, true}, d4b),
	}
}

func randomLayout(rnd *rand.Rand, k int) Layout {
	n := 2 + rnd.Intn(4)
	d := symDist(n, rnd)
	l := Layout{Name: fmt.Sprintf("Rnd%d", k)}
	types := []string{"DRAM", "DRAM", "DRAM", "PMEM", "HBM"}
	for i := 0; i < n; i++ {
		t := types[rnd.Intn(len(types))]
		if i == 0 {
			t = "DRAM"
		}
		c := 1 + rnd.Intn(6)
		if rnd.Intn(12) == 0 {
			c = 0
		}
		normal := t == "DRAM" || rnd.Intn(3) == 0
		if i == 0 {
			normal, c = true, 2+rnd.Intn(4)
		}
		l.Nodes = append(l.Nodes, NodeSpec{ID: i, Type: t, Cap: c, Normal: normal, Dist: d[i]})
	}
	return l
}

// ---------------------------------------------------------------------------------- random histories

var prios = []string{"besteffort", "burstable", "burstable", "guaranteed", "preserved", "reservation"}

func randSubset(rnd *rand.Rand, n int, nonEmpty bool) []int {
	for {
		out := []int{}
		for i := 0; i < n; i++ {
			if rnd.Intn(3) == 0 {
				out = append(out, i)
			}
		}
		if len(out) > 0 || !nonEmpty {
			return out
		}
		if nonEmpty {
			return []int{rnd.Intn(n)}
		}
	}
}

func randTypes(rnd *rand.Rand) []string {
	switch rnd.Intn(8) {
	case 0:
		return []string{"DRAM"}
	case 1:
		return []string{"PMEM"}
	case 2:
		return []string{"HBM"}
	case 3:
		return []string{"DRAM", "PMEM"}
	case 4:
		return []string{"PMEM", "HBM"}
	}
	return nil
}

func randomHistory(rnd *rand.Rand, l Layout, nops int) History {
	h := History{Layout: l}
	n := len(l.Nodes)
	ids := []string{"r0", "r1", "r2", "r3", "r4", "r5"}
	live := map[string]bool{} // best guess only; the real allocator decides
	nextOid := 1
	pendingOffers := []int{}
	for len(h.Ops) < nops {
		id := ids[rnd.Intn(len(ids))]
		mkAlloc := func(kind string) Op {
			o := Op{Op: kind, ID: id, Size: rnd.Intn(5), Prio: prios[rnd.Intn(len(prios))], Aff: randSubset(rnd, n, rnd.Intn(20) != 0)}
			if rnd.Intn(10) == 0 {
				o.Size = 4 + rnd.Intn(6)
			}
			o.Types = randTypes(rnd)
			o.Strict = len(o.Types) > 0 && rnd.Intn(3) == 0
			if rnd.Intn(40) == 0 {
				o.Aff = append(o.Aff, n+1) // unknown node: must be refused
			}
			return o
		}
		switch k := rnd.Intn(100); {
		case k < 30:
			h.Ops = append(h.Ops, mkAlloc("Allocate"))
			live[id] = true
		case k < 45:
			h.Ops = append(h.Ops, mkAlloc("AllocTwin"))
			live[id] = true
		case k < 58:
			o := mkAlloc("GetOffer")
			o.Oid = nextOid
			nextOid++
			pendingOffers = append(pendingOffers, o.Oid)
			h.Ops = append(h.Ops, o)
		case k < 70:
			if len(pendingOffers) == 0 {
				continue
			}
			i := rnd.Intn(len(pendingOffers))
			h.Ops = append(h.Ops, Op{Op: "Commit", Oid: pendingOffers[i]})
			pendingOffers = append(pendingOffers[:i], pendingOffers[i+1:]...)
		case k < 82:
			h.Ops = append(h.Ops, Op{Op: "Realloc", ID: id, Nodes: randSubset(rnd, n, false), Types: randTypes(rnd)})
		case k < 98:
			h.Ops = append(h.Ops, Op{Op: "Release", ID: id})
			delete(live, id)
		default:
			h.Ops = append(h.Ops, Op{Op: "Reset"})
		}
	}
	return h
}

// ---------------------------------------------------------------------------------- run

func layoutJSON(l Layout) tr.M {
	nodes := []tr.M{}
	for _, n := range l.Nodes {
		nodes = append(nodes, tr.M{"id": n.ID, "type": n.Type, "cap": n.Cap, "normal": n.Normal, "dist": n.Dist})
	}
	return tr.M{"name": l.Name, "nodes": nodes}
}

func opJSON(o Op) tr.M {
	m := tr.M{"ev": o.Op}
	switch o.Op {
	case "Allocate", "AllocTwin", "GetOffer":
		m["id"], m["size"], m["prio"], m["strict"] = o.ID, o.Size, o.Prio, o.Strict
		ts := append([]string{}, o.Types...)
		sort.Strings(ts)
		m["types"], m["aff"] = ts, tr.Ints(o.Aff)
		if o.Op == "GetOffer" {
			m["oid"] = o.Oid
		}
	case "Commit":
		m["oid"] = o.Oid
	case "Realloc":
		ts := append([]string{}, o.Types...)
		sort.Strings(ts)
		m["id"], m["nodes"], m["types"] = o.ID, tr.Ints(o.Nodes), ts
	case "Release":
		m["id"] = o.ID
	}
	return m
}

// RunHistory executes one history on twin allocators and emits the trace lines.
func RunHistory(w *tr.Writer, h History, hidx int) error {
	A, err := newSide(h.Layout)
	if err != nil {
		return fmt.Errorf("layout %s: %w", h.Layout.Name, err)
	}
	B, err := newSide(h.Layout)
	if err != nil {
		return err
	}
	w.Emit(tr.M{"ev": "reset", "h": hidx, "lay": layoutJSON(h.Layout)})
	for k, o := range h.Ops {
		line := opJSON(o)
		oa, ob := o, o
		if o.Op == "AllocTwin" {
			oa.Op, ob.Op = "AllocTwinA", "Allocate"
		}
		if os.Getenv("VERIF_FLUSH") != "" {
			b, _ := json.Marshal(o)
			fmt.Fprintf(os.Stderr, "h=%d k=%d %s\n", hidx, k, b)
		}
		var ra, rb tr.M
		done := make(chan struct{})
		go func() {
			ra = A.apply(oa)
			rb = B.apply(ob)
			close(done)
		}()
		select {
		case <-done:
		case <-time.After(hangTimeout):
			// the call did not return: record it and abandon this history (the goroutine keeps spinning)
			line["h"], line["k"], line["hang"] = hidx, k, true
			w.Emit(line)
			return errHang
		}
		// a Commit names the request of its offer: tell the spec which id it was
		line["h"], line["k"] = hidx, k
		line["res"], line["res2"] = ra, rb
		line["st"], line["st2"] = A.state(h.Layout), B.state(h.Layout)
		w.Emit(line)
	}
	return nil
}

// Main: nrpverif libmem --out trace.ndjson [--script histories.json] [--seed S --histories N --ops K]
func Main(args []string) error {
	fs := flag.NewFlagSet("libmem", flag.ContinueOnError)
	out := fs.String("out", "", "trace output (ndjson)")
	script := fs.String("script", "", "JSON file with a list of histories (layout + ops)")
	seed := fs.Int64("seed", 1, "seed")
	nh := fs.Int("histories", 100, "number of random histories")
	nops := fs.Int("ops", 25, "operations per random history")
	dump := fs.String("dump-histories", "", "write the generated histories here (for replay)")
	if err := fs.Parse(args); err != nil {
		return err
	}
	w, err := tr.NewWriter(*out)
	if err != nil {
		return err
	}
	defer w.Close()
	hs := []History{}
	if *script != "" {
		if err := tr.ReadJSON(*script, &hs); err != nil {
			return err
		}
		for i := range hs {
			if hs[i].LayoutName == "" {
				continue
			}
			found := false
			for _, l := range builtinLayouts() {
				if l.Name == hs[i].LayoutName {
					hs[i].Layout, found = l, true
				}
			}
			if !found {
				return fmt.Errorf("unknown builtin layout %q", hs[i].LayoutName)
			}
		}
	} else {
		rnd := rand.New(rand.NewSource(*seed))
		lays := builtinLayouts()
		for i := 0; i < *nh; i++ {
			var l Layout
			if i%3 == 2 {
				l = randomLayout(rnd, i)
			} else {
				l = lays[rnd.Intn(len(lays))]
			}
			hs = append(hs, randomHistory(rnd, l, *nops))
		}
	}
	hangs := 0
	for i, h := range hs {
		if err := RunHistory(w, h, i); err != nil {
			if err == errHang {
				if hangs++; hangs >= 2 {
					break
				}
				continue
			}
			return err
		}
	}
	if *dump != "" {
		dw, err := tr.NewWriter(*dump)
		if err != nil {
			return err
		}
		for _, h := range hs {
			dw.Emit(h)
		}
		dw.Close()
	}
	fmt.Printf("libmem: %d histories, %d trace lines\n", len(hs), w.N)
	return nil
}
