// Package machinedrv is the driver of property C16 (discovery fidelity and pool-tree well-formedness).
//
// For every machine (sysgen builtins + seeded random irregular machines) it writes the synthetic sysfs tree, runs the
// REAL pkg/sysfs discovery on it and logs every accessor the property names next to the machine description; then,
// for a handful of available/reserved CPU settings, it sets up the REAL topology-aware policy backend and logs the
// pool tree (ta.VerifSnapshot) right after Setup.  The verdict is not taken here: spec/Trace_Machine.tla evaluates
// the predicates of spec/Machine.tla on every record.
//
// Trace lines (ndjson):
//
//	{"ev":"machine","mi":..,"name":..,"m":<description, replayable>,"flat":<description, flat>,"disc":<discovered>,"feat":..,"nset":k}
//	{"ev":"setup","mi":..,"si":..,"name":..,"cfg":<setting>,"res":"ok|rejected|excluded|panic|hang","err":..,"snap":<pool tree>}
package machinedrv

import (
	"encoding/json"
	"flag"
	"fmt"
	"math/rand"
	"os"
	"path/filepath"
	"sort"
	"strings"
	"syscall"
	"time"

	ta "github.com/containers/nri-plugins/cmd/plugins/topology-aware/policy"
	policycfg "github.com/containers/nri-plugins/pkg/apis/config/v1alpha1/resmgr/policy"
	tacfg "github.com/containers/nri-plugins/pkg/apis/config/v1alpha1/resmgr/policy/topologyaware"
	"github.com/containers/nri-plugins/pkg/kubernetes"
	"github.com/containers/nri-plugins/pkg/resmgr/cache"
	policyapi "github.com/containers/nri-plugins/pkg/resmgr/policy"
	"github.com/containers/nri-plugins/pkg/sysfs"

	"verifharness/internal/sysgen"
	"verifharness/internal/tr"
)

const callTimeout = 30 * time.Second

// Setting is one available/reserved CPU configuration.
type Setting struct {
	Kind     string `json:"kind"`
	AvailSet bool   `json:"availset"` // false: AvailableResources absent (policy default: all online CPUs)
	Avail    []int  `json:"avail"`
	RsvKind  string `json:"rsvkind"` // "cpuset" | "quantity"
	Rsv      []int  `json:"rsv"`
	Milli    int    `json:"milli"`
}

// Case is a machine with its settings (replay unit).
type Case struct {
	Machine  *sysgen.Machine `json:"machine"`
	Settings []Setting       `json:"settings"`
}

func ints(in []int) []int { return tr.Ints(in) }

// ---------------------------------------------------------------------------------------------
// description, flat

func flatDescription(m *sysgen.Machine) tr.M {
	cpus := []tr.M{}
	caches := m.Caches()
	var online, offline, isolated []int
	for _, c := range m.CPUs() {
		cs := []tr.M{}
		for _, ch := range caches[c.ID] {
			sz, _ := sysgen.ParseSize(ch.Size)
			cs = append(cs, tr.M{"index": ch.Index, "id": ch.ID, "level": ch.Level, "type": ch.Type, "size": int(sz), "shared": ints(ch.Shared)})
		}
		cpus = append(cpus, tr.M{"id": c.ID, "pkg": c.Package, "die": c.Die, "node": c.Node, "core": c.Core,
			"online": c.Online, "isolated": c.Isolated, "threads": ints(c.Threads), "caches": cs})
		if c.Online {
			online = append(online, c.ID)
		} else {
			offline = append(offline, c.ID)
		}
		if c.Isolated {
			isolated = append(isolated, c.ID)
		}
	}
	nodes := []tr.M{}
	for _, n := range m.Nodes() {
		nodes = append(nodes, tr.M{"id": n.ID, "cpus": ints(n.Online), "dist": ints2(n.Distance), "mem_kb": int(n.Mem / sysgen.KiB),
			"free_kb": int(n.Free / sysgen.KiB), "type": n.Type, "normal": n.Normal, "cpuless": n.Package < 0})
	}
	return tr.M{"cpus": cpus, "nodes": nodes, "online": ints(online), "offline": ints(offline), "isolated": ints(isolated)}
}

// ints2 keeps the order (distance vectors are positional).
func ints2(in []int) []int {
	out := make([]int, 0, len(in))
	return append(out, in...)
}

// ---------------------------------------------------------------------------------------------
// discovered, through the public accessors of pkg/sysfs

func discovered(sys sysfs.System) tr.M {
	cpus := []tr.M{}
	for _, id := range sys.CPUIDs() {
		c := sys.CPU(id)
		// caches through the indexed accessor ...
		cs := []tr.M{}
		for idx := 0; idx < c.CacheCount(); idx++ {
			ch := c.GetCacheByIndex(idx)
			cs = append(cs, tr.M{"index": idx, "id": ch.ID(), "level": ch.Level(), "type": ch.Type().String(), "size": int(ch.Size()),
				"shared": ints(ch.SharedCPUSet().List())})
		}
		// ... and through GetCaches()
		gcs := []tr.M{}
		for idx, ch := range c.GetCaches() {
			gcs = append(gcs, tr.M{"index": idx, "id": ch.ID(), "level": ch.Level(), "type": ch.Type().String(), "size": int(ch.Size()),
				"shared": ints(ch.SharedCPUSet().List())})
		}
		cpus = append(cpus, tr.M{"id": id, "pkg": c.PackageID(), "die": c.DieID(), "node": c.NodeID(), "core": c.CoreID(),
			"online": c.Online(), "isolated": c.Isolated(), "threads": ints(c.ThreadCPUSet().List()), "caches": cs, "getcaches": gcs, "ncache": c.CacheCount(),
			"l2": ints(c.GetNthLevelCacheCPUSet(2).List()), "llc": ints(c.GetLastLevelCacheCPUSet().List())})
	}
	nodes := []tr.M{}
	for _, id := range sys.NodeIDs() {
		n := sys.Node(id)
		e := tr.M{"id": id, "cpus": ints(n.CPUSet().List()), "dist": ints2(n.Distance()), "type": strings.ToLower(n.GetMemoryType().String()),
			"normal": n.HasNormalMemory(), "pkg": n.PackageID(), "die": n.DieID()}
		if mi, err := n.MemoryInfo(); err == nil && mi != nil {
			e["mem_kb"] = int(mi.MemTotal / 1024)
			e["free_kb"] = int(mi.MemFree / 1024)
			e["mem_rem"] = int(mi.MemTotal % 1024)
		} else {
			e["mem_kb"], e["free_kb"], e["mem_rem"] = -1, -1, 0
			e["mem_err"] = fmt.Sprint(err)
		}
		nodes = append(nodes, e)
	}
	pkgs := []tr.M{}
	for _, id := range sys.PackageIDs() {
		p := sys.Package(id)
		dies := []tr.M{}
		for _, d := range p.DieIDs() {
			dies = append(dies, tr.M{"id": d, "cpus": ints(p.DieCPUSet(d).List()), "nodes": ints(p.DieNodeIDs(d))})
		}
		pkgs = append(pkgs, tr.M{"id": id, "cpus": ints(p.CPUSet().List()), "nodes": ints(p.NodeIDs()), "dies": dies})
	}
	return tr.M{
		"cpuids":    ints(sys.CPUIDs()),
		"nodeids":   ints(sys.NodeIDs()),
		"pkgids":    ints(sys.PackageIDs()),
		"possible":  ints(sys.PossibleCPUs().List()),
		"present":   ints(sys.PresentCPUs().List()),
		"online":    ints(sys.OnlineCPUs().List()),
		"offline":   ints(sys.OfflineCPUs().List()),
		"offlined":  ints(sys.Offlined().List()),
		"isolated":  ints(sys.IsolatedCPUs().List()),
		"isolated2": ints(sys.Isolated().List()),
		"cpuset":    ints(sys.CPUSet().List()),
		"sockets":   sys.SocketCount(),
		"numanodes": sys.NUMANodeCount(),
		"cpus":      cpus, "nodes": nodes, "pkgs": pkgs,
	}
}

// ---------------------------------------------------------------------------------------------
// settings

func subset(rnd *rand.Rand, from []int, pct int) []int {
	out := []int{}
	for _, v := range from {
		if rnd.Intn(100) < pct {
			out = append(out, v)
		}
	}
	return out
}

func minus(a []int, b []int) []int {
	bs := map[int]bool{}
	for _, v := range b {
		bs[v] = true
	}
	out := []int{}
	for _, v := range a {
		if !bs[v] {
			out = append(out, v)
		}
	}
	return out
}

func pickN(rnd *rand.Rand, from []int, n int) []int {
	p := rnd.Perm(len(from))
	out := []int{}
	for i := 0; i < n && i < len(from); i++ {
		out = append(out, from[p[i]])
	}
	sort.Ints(out)
	return out
}

var quantities = []int{750, 1000, 1500, 2000, 100}

// Settings derives the available/reserved settings tried on a machine.  A reserved cpuset that lies within the
// kernel-isolated CPUs is outside the property's quantifier: it is listed with kind "rsv-isolated" and never run.
func Settings(m *sysgen.Machine, rnd *rand.Rand, offlineAvail bool) []Setting {
	online := m.OnlineCPUs()
	iso := append([]int{}, m.Isolated...)
	normal := minus(online, iso)
	var out []Setting

	// 1. the default: no AvailableResources, reservation as a quantity
	out = append(out, Setting{Kind: "default-qty", RsvKind: "quantity", Milli: 750})
	if len(normal) == 0 {
		return out // every online CPU is isolated: nothing else is meaningful
	}

	// 2. all online CPUs as an explicit cpuset, reserved as a cpuset of 1-2 normal CPUs
	n := 1
	if len(normal) > 2 && rnd.Intn(100) < 30 {
		n = 2
	}
	out = append(out, Setting{Kind: "all-cpuset", AvailSet: true, Avail: ints(online), RsvKind: "cpuset", Rsv: pickN(rnd, normal, n)})

	// 3. a random subset of the online CPUs; reservation cpuset or quantity
	av := subset(rnd, online, 60)
	if len(minus(av, iso)) == 0 {
		av = append(av, normal[rnd.Intn(len(normal))])
	}
	s := Setting{Kind: "subset", AvailSet: true, Avail: ints(av)}
	if rnd.Intn(2) == 0 {
		s.RsvKind, s.Rsv = "cpuset", pickN(rnd, minus(av, iso), 1+rnd.Intn(2))
	} else {
		s.RsvKind, s.Milli = "quantity", quantities[rnd.Intn(len(quantities))]
	}
	out = append(out, s)

	// 4. all CPUs of one NUMA node unavailable (its pool is left without CPUs); else a larger quantity on all CPUs
	var cpuNodes []sysgen.NodeInfo
	for _, nd := range m.Nodes() {
		if len(nd.Online) > 0 {
			cpuNodes = append(cpuNodes, nd)
		}
	}
	if len(cpuNodes) > 1 {
		drop := cpuNodes[rnd.Intn(len(cpuNodes))]
		av := minus(online, drop.Online)
		s := Setting{Kind: "drop-node", AvailSet: true, Avail: ints(av), RsvKind: "quantity", Milli: 1000}
		if nn := minus(av, iso); len(nn) > 0 && rnd.Intn(2) == 0 {
			s.RsvKind, s.Milli, s.Rsv = "cpuset", 0, pickN(rnd, nn, 1)
		}
		out = append(out, s)
	} else {
		out = append(out, Setting{Kind: "qty-2", RsvKind: "quantity", Milli: 2000})
	}

	// 5. isolated CPUs: a reserved cpuset inside the isolated set is excluded by the property; a mixed one is rejected by the policy
	if len(iso) > 0 {
		out = append(out, Setting{Kind: "rsv-isolated", RsvKind: "cpuset", Rsv: pickN(rnd, iso, 1)})
		if rnd.Intn(2) == 0 {
			out = append(out, Setting{Kind: "rsv-mixed", RsvKind: "cpuset", Rsv: ints(append(pickN(rnd, iso, 1), pickN(rnd, normal, 1)...))})
		}
	}
	// 6. a reserved CPU that is not available: rejected by the policy
	if len(online) > 1 && rnd.Intn(100) < 15 {
		out = append(out, Setting{Kind: "rsv-outside", AvailSet: true, Avail: ints(online[1:]), RsvKind: "cpuset", Rsv: []int{online[0]}})
	}
	// optional (off by default, outside the judged domain): the available cpuset names an offline CPU
	if offlineAvail && len(m.Offline) > 0 {
		out = append(out, Setting{Kind: "avail-offline", AvailSet: true, Avail: ints(m.CPUIDs()), RsvKind: "quantity", Milli: 750})
	}
	for i := range out {
		out[i].Avail, out[i].Rsv = ints(out[i].Avail), ints(out[i].Rsv)
	}
	return out
}

func excluded(m *sysgen.Machine, s Setting) bool {
	if s.RsvKind != "cpuset" || len(s.Rsv) == 0 {
		return false
	}
	iso := map[int]bool{}
	for _, v := range m.Isolated {
		iso[v] = true
	}
	for _, v := range s.Rsv {
		if !iso[v] {
			return false
		}
	}
	return true
}

func (s Setting) config() *tacfg.Config {
	cfg := &tacfg.Config{}
	if s.AvailSet {
		cfg.AvailableResources = policycfg.Constraints{policycfg.CPU: policycfg.Amount("cpuset:" + sysgen.ListString(s.Avail))}
	}
	if s.RsvKind == "cpuset" {
		cfg.ReservedResources = policycfg.Constraints{policycfg.CPU: policycfg.Amount("cpuset:" + sysgen.ListString(s.Rsv))}
	} else {
		q := fmt.Sprintf("%dm", s.Milli)
		if s.Milli%1000 == 0 {
			q = fmt.Sprintf("%d", s.Milli/1000)
		}
		cfg.ReservedResources = policycfg.Constraints{policycfg.CPU: policycfg.Amount(q)}
	}
	return cfg
}

// ---------------------------------------------------------------------------------------------
// running one case

type result struct {
	res  string
	err  string
	snap *ta.VerifState
}

// guarded runs f under recover() and a watchdog.
func guarded(f func() result) result {
	ch := make(chan result, 1)
	go func() {
		defer func() {
			if r := recover(); r != nil {
				ch <- result{res: "panic", err: fmt.Sprint(r)}
			}
		}()
		ch <- f()
	}()
	select {
	case r := <-ch:
		return r
	case <-time.After(callTimeout):
		return result{res: "hang", err: "call did not return"}
	}
}

func snapshot(s *ta.VerifState) tr.M {
	pools := []tr.M{}
	for _, p := range s.Pools {
		pools = append(pools, tr.M{"name": p.Name, "kind": p.Kind, "parent": p.Parent, "depth": p.Depth,
			"isol": ints(p.Isolated), "rsv": ints(p.Reserved), "shar": ints(p.Sharable),
			"dram": ints(p.MemDRAM), "pmem": ints(p.MemPMEM), "hbm": ints(p.MemHBM)})
	}
	return tr.M{"root": s.Root, "allowed": ints(s.Allowed), "reserved": ints(s.Reserved), "isolated": ints(s.Isolated), "pools": pools}
}

func runCase(w *tr.Writer, mi int, c Case, scratch string) (stats map[string]int) {
	stats = map[string]int{}
	m := c.Machine
	root := filepath.Join(scratch, fmt.Sprintf("m%d", mi))
	os.RemoveAll(root)
	defer os.RemoveAll(root)
	head := tr.M{"ev": "machine", "mi": mi, "name": m.Name, "m": m, "feat": m.Features(), "nset": len(c.Settings)}
	if err := m.Write(root); err != nil {
		head["res"], head["err"] = "generator-error", err.Error()
		w.Emit(head)
		return
	}
	head["flat"] = flatDescription(m)
	var sys sysfs.System
	r := guarded(func() result {
		s, err := sysfs.DiscoverSystemAt(sysgen.SysDir(root))
		if err != nil {
			return result{res: "error", err: err.Error()}
		}
		sys = s
		return result{res: "ok"}
	})
	head["res"], head["err"] = r.res, r.err
	if r.res == "ok" {
		r2 := guarded(func() result {
			head["disc"] = discovered(sys)
			return result{res: "ok"}
		})
		if r2.res != "ok" {
			head["res"], head["err"] = r2.res, "accessors: "+r2.err
			delete(head, "disc")
		}
	}
	w.Emit(head)
	stats["machines"]++
	if head["res"] != "ok" {
		return
	}
	for si, s := range c.Settings {
		rec := tr.M{"ev": "setup", "mi": mi, "si": si, "name": m.Name, "cfg": s}
		if excluded(m, s) {
			rec["res"], rec["err"] = "excluded", "reserved cpuset is kernel-isolated"
			w.Emit(rec)
			stats["excluded"]++
			continue
		}
		cdir := filepath.Join(root, "cache")
		r := guarded(func() result {
			ch, err := cache.NewCache(cache.Options{CacheDir: cdir})
			if err != nil {
				return result{res: "harness-error", err: err.Error()}
			}
			be := ta.New()
			err = be.Setup(&policyapi.BackendOptions{Cache: ch, System: sys, Config: s.config(),
				SendEvent: func(interface{}) error { return nil }})
			if err != nil {
				return result{res: "rejected", err: err.Error()}
			}
			snap := ta.VerifSnapshot(be)
			if snap == nil {
				return result{res: "harness-error", err: "no snapshot"}
			}
			return result{res: "ok", snap: snap}
		})
		os.RemoveAll(cdir)
		rec["res"], rec["err"] = r.res, r.err
		if r.snap != nil {
			rec["snap"] = snapshot(r.snap)
		}
		w.Emit(rec)
		stats[r.res]++
		stats[s.Kind+"/"+r.res]++
	}
	return
}

// Cases generates the cases of a run: builtins first (if asked), then `count` random machines; machine i only
// depends on (seed, i) so that shards of one run are disjoint slices of the same sequence.
func Cases(seed int64, count int, builtins, offlineAvail bool, shard, shards int) (idx []int, cases []Case) {
	var ms []*sysgen.Machine
	if builtins {
		ms = append(ms, sysgen.Builtins()...)
	}
	nb := len(ms)
	for i := 0; i < nb+count; i++ {
		if i%shards != shard {
			continue
		}
		rnd := rand.New(rand.NewSource(seed*1000003 + int64(i)*7919 + 17))
		var m *sysgen.Machine
		if i < nb {
			m = ms[i]
		} else {
			m = sysgen.Random(rnd)
			m.Name = fmt.Sprintf("R%d-%d", seed, i)
		}
		idx = append(idx, i)
		cases = append(cases, Case{Machine: m, Settings: Settings(m, rnd, offlineAvail)})
	}
	return
}

// Main is the entry point of cmd/machinedrv.
func Main(args []string) error {
	fs := flag.NewFlagSet("machinedrv", flag.ContinueOnError)
	out := fs.String("out", "", "trace file (ndjson)")
	seed := fs.Int64("seed", 1, "seed")
	count := fs.Int("machines", 100, "number of random machines")
	builtins := fs.Bool("builtins", true, "include the builtin machines")
	scratch := fs.String("scratch", "", "scratch directory for sysfs trees (removed afterwards)")
	shard := fs.Int("shard", 0, "shard index")
	shards := fs.Int("shards", 1, "number of shards")
	replay := fs.String("replay", "", "JSON file with a list of cases {machine, settings} to run instead of generating")
	dump := fs.String("dump", "", "write the generated cases (JSON list) to this file")
	offlineAvail := fs.Bool("avail-offline", false, "also try an available cpuset that names offline CPUs (outside the judged domain)")
	verbose := fs.Bool("verbose", false, "keep the repository's logging on stderr")
	countOnly := fs.Bool("count-only", false, "print the number of cases (COUNT n) and exit")
	if err := fs.Parse(args); err != nil {
		return err
	}
	if *countOnly {
		idx, _ := Cases(*seed, *count, *builtins, *offlineAvail, 0, 1)
		fmt.Printf("COUNT %d\n", len(idx))
		return nil
	}
	if *out == "" || *scratch == "" {
		return fmt.Errorf("--out and --scratch are required")
	}
	if !*verbose {
		sysgen.Quiet()
		// dependencies print directly to stderr (goresctrl "[ sst ] DEBUG"): point fd 2 to /dev/null
		if f, err := os.OpenFile(os.DevNull, os.O_WRONLY, 0); err == nil {
			_ = syscall.Dup2(int(f.Fd()), 2)
		}
	}
	kubernetes.SetMemoryCapacity(64 << 30)
	if err := os.MkdirAll(*scratch, 0o755); err != nil {
		return err
	}
	var idx []int
	var cases []Case
	if *replay != "" {
		if err := tr.ReadJSON(*replay, &cases); err != nil {
			return err
		}
		for i := range cases {
			idx = append(idx, i)
		}
	} else {
		idx, cases = Cases(*seed, *count, *builtins, *offlineAvail, *shard, *shards)
	}
	if *dump != "" {
		b, _ := json.Marshal(cases)
		if err := os.WriteFile(*dump, b, 0o644); err != nil {
			return err
		}
	}
	w, err := tr.NewWriter(*out)
	if err != nil {
		return err
	}
	total := map[string]int{}
	for k, c := range cases {
		for s, n := range runCase(w, idx[k], c, *scratch) {
			total[s] += n
		}
	}
	if err := w.Close(); err != nil {
		return err
	}
	b, _ := json.Marshal(total)
	fmt.Println("STATS " + string(b))
	return nil
}
