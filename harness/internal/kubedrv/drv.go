// Package kubedrv records the function graph of the real resource conversions
// (pkg/kubernetes/resources.go) and of estimateResourceRequirements (through a real
// cache.InsertContainer) over the input domain that spec/Kube.tla defines.
//
// The plan (segments, container cases, power-of-two capacities) is printed by TLC from
// Kube!Plan and handed to this driver as JSON; Trace_Kube.tla re-derives the expected input of
// every line from the same plan, so nothing about the domain is decided here except the
// seeded random capacities (which the trace spec range-checks).
//
// Byte quantities are written as little-endian limbs in base 10^6 because TLC integers are 32 bit.
package kubedrv

import (
	"flag"
	"fmt"
	"math"
	"math/rand"
	"os"
	"path/filepath"
	"sort"
	"sync"
	"time"

	nri "github.com/containerd/nri/pkg/api"
	corev1 "k8s.io/api/core/v1"

	"github.com/containers/nri-plugins/pkg/kubernetes"
	"github.com/containers/nri-plugins/pkg/resmgr/cache"

	"verifharness/internal/tr"
)

type Seg struct {
	Ev string `json:"ev"`
	Lo int64  `json:"lo"`
	Hi int64  `json:"hi"`
	P  int64  `json:"p"`
	St int64  `json:"st"`
}

type EstCase struct {
	QoS  string `json:"qos"`
	Adj  int64  `json:"adj"`
	Mreq int64  `json:"mreq"`
	Mlim int64  `json:"mlim"`
}

type Plan struct {
	Tier     string    `json:"tier"`
	Seed     int64     `json:"seed"`
	Workers  int       `json:"workers"`
	Out      string    `json:"out"`
	StateDir string    `json:"statedir"`
	Blk      int64     `json:"blk"`
	Segs     []Seg     `json:"segs"`
	Chunks   [][]int   `json:"chunks"` // [first, last] segment numbers (1-based), one file per chunk
	EstCap   []int64   `json:"estcap"`
	EstCases []EstCase `json:"estcases"`
	Pow2Caps [][]int64 `json:"pow2caps"`
}

const base = 1000000

const hangTimeout = 60 * time.Second

func limbs(x int64) []int64 {
	if x < 0 {
		panic("negative quantity")
	}
	l := []int64{}
	for {
		l = append(l, x%base)
		x /= base
		if x == 0 {
			return l
		}
	}
}

func fromLimbs(l []int64) int64 {
	x, m := int64(0), int64(1)
	for _, d := range l {
		x += d * m
		m *= base
	}
	return x
}

// memMu serializes everything that depends on the package-global memory capacity of pkg/kubernetes.
var memMu sync.Mutex

type memResult struct {
	panicked bool
	est      [][]int64
}

func buildTable(capacity int64) (res memResult) {
	defer func() {
		if r := recover(); r != nil {
			res = memResult{panicked: true, est: [][]int64{}}
		}
	}()
	kubernetes.SetMemoryCapacity(capacity)
	est := make([][]int64, 0, 997)
	for a := int64(kubernetes.MinBurstableOOMScoreAdj); a <= kubernetes.MaxBurstableOOMScoreAdj; a++ {
		if req := kubernetes.OomAdjToMemReq(a, 0); req != nil && *req >= 0 {
			est = append(est, limbs(*req))
		} else {
			est = append(est, []int64{})
		}
	}
	return memResult{est: est}
}

// memLine builds the estimate table for one capacity under the global lock, with a watchdog.
func memLine(out *tr.Writer, seg int, idx int64, capacity int64) (hang bool) {
	memMu.Lock()
	defer memMu.Unlock()
	ch := make(chan memResult, 1)
	go func() { ch <- buildTable(capacity) }()
	select {
	case r := <-ch:
		out.Emit(tr.M{"ev": "mem", "seg": seg, "idx": idx, "cap": limbs(capacity), "panic": r.panicked, "hang": false, "est": r.est})
		return false
	case <-time.After(hangTimeout):
		out.Emit(tr.M{"ev": "mem", "seg": seg, "idx": idx, "cap": limbs(capacity), "panic": false, "hang": true, "est": [][]int64{}})
		return true
	}
}

func qty(rl corev1.ResourceList, name corev1.ResourceName, milli bool) int64 {
	q, ok := rl[name]
	if !ok {
		return -1
	}
	if milli {
		return q.MilliValue()
	}
	return q.Value()
}

var podCgroup = map[string]string{
	"Guaranteed": "/kubepods/pod-guaranteed",
	"Burstable":  "/kubepods/burstable/pod-burstable",
	"BestEffort": "/kubepods/besteffort/pod-besteffort",
}

func estSegment(out *tr.Writer, plan *Plan, segNo int, s Seg) error {
	memMu.Lock()
	defer memMu.Unlock()
	capacity := fromLimbs(plan.EstCap)
	kubernetes.SetMemoryCapacity(capacity)
	dir := filepath.Join(plan.StateDir, fmt.Sprintf("est-%d", segNo))
	if err := os.MkdirAll(dir, 0o755); err != nil {
		return err
	}
	defer os.RemoveAll(dir)
	cch, err := cache.NewCache(cache.Options{CacheDir: dir})
	if err != nil {
		return fmt.Errorf("cache: %w", err)
	}
	for qos, cg := range podCgroup {
		cch.InsertPod(&nri.PodSandbox{Id: "pod-" + qos, Name: "pod-" + qos, Uid: "uid-" + qos, Namespace: "default",
			Linux: &nri.LinuxPodSandbox{CgroupParent: cg}}, nil)
	}
	for j := s.Lo; j <= s.Hi; j++ {
		c := plan.EstCases[j-1]
		shares := uint64(kubernetes.MinShares)
		if c.Mreq > 0 { // the kubelet's encoding of the request (Kube!Shares; the trace spec checks the logged value)
			sh := c.Mreq * 1024 / 1000
			if sh < 2 {
				sh = 2
			}
			if sh > 262144 {
				sh = 262144
			}
			shares = uint64(sh)
		}
		quota, period := int64(0), uint64(100000)
		if c.Mlim > 0 { // Kube!Quota with the default period
			quota = c.Mlim * 100
			if quota < 1000 {
				quota = 1000
			}
		}
		id := fmt.Sprintf("ctr-%d", j)
		ctr := &nri.Container{Id: id, PodSandboxId: "pod-" + c.QoS, Name: id,
			Linux: &nri.LinuxContainer{
				Resources: &nri.LinuxResources{
					Cpu:    &nri.LinuxCPU{Shares: nri.UInt64(shares), Quota: nri.Int64(quota), Period: nri.UInt64(period)},
					Memory: &nri.LinuxMemory{},
				},
				OomScoreAdj: nri.Int(int(c.Adj)),
			}}
		rec := tr.M{"ev": "est", "seg": segNo, "idx": j, "qos": c.QoS, "mreq": c.Mreq, "mlim": c.Mlim, "adj": c.Adj,
			"shares": shares, "quota": quota, "period": period, "cap": limbs(capacity)}
		func() {
			defer func() {
				if r := recover(); r != nil {
					rec["err"], rec["panic"] = true, fmt.Sprint(r)
					rec["cpureq"], rec["cpulim"], rec["memreq"] = -1, -1, []int64{}
				}
			}()
			cc, err := cch.InsertContainer(ctr)
			if err != nil {
				rec["err"], rec["cpureq"], rec["cpulim"], rec["memreq"] = true, -1, -1, []int64{}
				return
			}
			rr := cc.GetResourceRequirements()
			rec["err"] = false
			rec["cpureq"] = qty(rr.Requests, corev1.ResourceCPU, true)
			rec["cpulim"] = qty(rr.Limits, corev1.ResourceCPU, true)
			if m := qty(rr.Requests, corev1.ResourceMemory, false); m >= 0 {
				rec["memreq"] = limbs(m)
			} else {
				rec["memreq"] = []int64{}
			}
			cch.DeleteContainer(id)
		}()
		out.Emit(rec)
	}
	return nil
}

func tableSegment(out *tr.Writer, plan *Plan, segNo int, s Seg) {
	for lo := s.Lo; lo <= s.Hi; lo += plan.Blk {
		hi := lo + plan.Blk - 1
		if hi > s.Hi {
			hi = s.Hi
		}
		v := make([]int64, 0, hi-lo+1)
		rec := tr.M{"ev": s.Ev, "seg": segNo, "lo": lo}
		periods := map[int64]bool{}
		for x := lo; x <= hi; x++ {
			switch s.Ev {
			case "s2m":
				v = append(v, kubernetes.SharesToMilliCPU(x))
			case "rt":
				v = append(v, kubernetes.SharesToMilliCPU(int64(kubernetes.MilliCPUToShares(x))))
			case "m2s":
				v = append(v, int64(kubernetes.MilliCPUToShares(x)))
			case "m2q":
				q, p := kubernetes.MilliCPUToQuota(x)
				v = append(v, q)
				periods[p] = true
			case "q2m":
				v = append(v, kubernetes.QuotaToMilliCPU(x*s.St, s.P))
			}
		}
		rec["v"] = v
		if s.Ev == "m2q" {
			ps := []int64{}
			for p := range periods {
				ps = append(ps, p)
			}
			sort.Slice(ps, func(i, j int) bool { return ps[i] < ps[j] })
			rec["periods"] = ps
		}
		if s.Ev == "q2m" {
			rec["p"], rec["st"] = s.P, s.St
		}
		out.Emit(rec)
	}
}

func runChunk(plan *Plan, first, last int) (tr.M, bool, error) {
	file := filepath.Join(plan.Out, fmt.Sprintf("chunk-%03d-%03d.ndjson", first, last))
	out, err := tr.NewWriter(file)
	if err != nil {
		return nil, false, err
	}
	out.Emit(tr.M{"ev": "hdr", "tier": plan.Tier, "first": first, "last": last})
	counts := map[string]int{}
	for k := first; k <= last; k++ {
		s := plan.Segs[k-1]
		n := int(s.Hi - s.Lo + 1)
		switch s.Ev {
		case "s2m", "rt", "m2s", "m2q", "q2m":
			tableSegment(out, plan, k, s)
		case "memd", "memp", "memr", "memw":
			rng := rand.New(rand.NewSource(plan.Seed*100003 + int64(k)))
			for j := s.Lo; j <= s.Hi; j++ {
				var capacity int64
				switch s.Ev {
				case "memd":
					capacity = 1<<20 + j
				case "memw":
					capacity = int64(1)<<uint(s.P) + j
				case "memp":
					capacity = fromLimbs(plan.Pow2Caps[j-1])
				case "memr":
					capacity = int64(math.Exp2(20 + rng.Float64()*26))
					if capacity < 1<<20 {
						capacity = 1 << 20
					}
					if capacity > 1<<46 {
						capacity = 1 << 46
					}
				}
				if memLine(out, k, j, capacity) {
					out.Close()
					return nil, true, nil
				}
			}
		case "est":
			if err := estSegment(out, plan, k, s); err != nil {
				return nil, false, err
			}
		default:
			return nil, false, fmt.Errorf("unknown segment kind %q", s.Ev)
		}
		counts[s.Ev] += n
	}
	idx := tr.M{"file": filepath.Base(file), "first": first, "last": last, "lines": out.N - 1, "inputs": counts}
	return idx, false, out.Close()
}

// Main is the entry point: kubedrv --plan plan.json
func Main(args []string) error {
	fs := flag.NewFlagSet("kube", flag.ContinueOnError)
	planPath := fs.String("plan", "", "plan file written by the engine (segments as printed by TLC from Kube!Plan)")
	if err := fs.Parse(args); err != nil {
		return err
	}
	var plan Plan
	if err := tr.ReadJSON(*planPath, &plan); err != nil {
		return err
	}
	if plan.Workers <= 0 {
		plan.Workers = 16
	}
	if plan.Blk <= 0 {
		return fmt.Errorf("plan has no block size")
	}
	for _, d := range []string{plan.Out, plan.StateDir} {
		if err := os.MkdirAll(d, 0o755); err != nil {
			return err
		}
	}
	t0 := time.Now()
	type res struct {
		idx  tr.M
		hang bool
		err  error
	}
	ch := make(chan []int)
	results := make(chan res, len(plan.Chunks))
	var wg sync.WaitGroup
	for i := 0; i < plan.Workers; i++ {
		wg.Add(1)
		go func() {
			defer wg.Done()
			for c := range ch {
				idx, hang, err := runChunk(&plan, c[0], c[1])
				results <- res{idx, hang, err}
				if hang {
					// the hung call still runs and owns the package-global capacity: nothing after it can be trusted
					fmt.Fprintf(os.Stderr, "kubedrv: SetMemoryCapacity did not return within %v (chunk %v)\n", hangTimeout, c)
					os.Exit(4)
				}
			}
		}()
	}
	for _, c := range plan.Chunks {
		if len(c) != 2 || c[0] < 1 || c[1] > len(plan.Segs) || c[0] > c[1] {
			return fmt.Errorf("bad chunk %v", c)
		}
		ch <- c
	}
	close(ch)
	wg.Wait()
	close(results)
	index := []tr.M{}
	for r := range results {
		if r.err != nil {
			return r.err
		}
		if r.idx != nil {
			index = append(index, r.idx)
		}
	}
	sort.Slice(index, func(i, j int) bool { return index[i]["first"].(int) < index[j]["first"].(int) })
	iw, err := tr.NewWriter(filepath.Join(plan.Out, "index.ndjson"))
	if err != nil {
		return err
	}
	lines := 0
	for _, i := range index {
		iw.Emit(i)
		lines += i["lines"].(int)
	}
	if err := iw.Close(); err != nil {
		return err
	}
	fmt.Printf("LINES %d CHUNKS %d WALL_MS %d\n", lines, len(index), time.Since(t0).Milliseconds())
	return nil
}
