// cpuallocdrv records the function graph of the real pkg/cpuallocator for the C08 engine
// (see internal/cpuallocdrv and spec/CpuAlloc.tla).
package main

import (
	"fmt"
	"os"

	"verifharness/internal/cpuallocdrv"
)

func main() {
	if err := cpuallocdrv.Main(os.Args[1:]); err != nil {
		fmt.Fprintf(os.Stderr, "cpuallocdrv: %v\n", err)
		os.Exit(3)
	}
}
