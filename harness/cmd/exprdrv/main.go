// exprdrv drives the real match-expression, affinity-weight and balloon-type-selection code of
// /repo (build tag verif) over the domain defined by /verif/spec/ExprDom.tla (property C19).
package main

import (
	"fmt"
	"os"

	"verifharness/internal/exprdrv"
)

func main() {
	if err := exprdrv.Main(os.Args[1:]); err != nil {
		fmt.Fprintf(os.Stderr, "exprdrv: %v\n", err)
		os.Exit(3)
	}
}
