// persistdrv checks the persistence of the pod/container cache on the real code (property C10); see internal/persistdrv.
package main

import (
	"fmt"
	"os"
	"runtime"

	"verifharness/internal/l2"
	"verifharness/internal/persistdrv"
)

// The main goroutine stays on the main thread: strace (without -f) traces exactly that thread, so the system calls of
// a save made by `save-child` are counted deterministically.
func init() { runtime.LockOSThread() }

func main() {
	if len(os.Args) < 2 {
		fmt.Fprintln(os.Stderr, "usage: persistdrv run|crash|unsafe|save-child|load-child|--machines ...")
		os.Exit(3)
	}
	var err error
	switch os.Args[1] {
	case "--machines":
		err = l2.Main(os.Args[1:])
	case "run":
		err = persistdrv.RunMain(os.Args[2:])
	case "crash":
		err = persistdrv.CrashMain(os.Args[2:])
	case "unsafe":
		err = persistdrv.UnsafeMain(os.Args[2:])
	case "save-child":
		os.Exit(persistdrv.ChildMain(os.Args[2:]))
	case "load-child":
		os.Exit(persistdrv.LoadChildMain(os.Args[2:]))
	default:
		err = fmt.Errorf("unknown subcommand %q", os.Args[1])
	}
	if err != nil {
		fmt.Fprintf(os.Stderr, "persistdrv: %v\n", err)
		os.Exit(3)
	}
}
