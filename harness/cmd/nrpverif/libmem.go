package main

import "verifharness/internal/libmemdrv"

func init() { register("libmem", libmemdrv.Main) }
