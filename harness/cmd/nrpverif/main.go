// nrpverif drives the real nri-plugins code (from /repo's working tree, build tag verif) and
// records ndjson traces that the TLA+ trace specifications under /verif/spec validate.
package main

import (
	"fmt"
	"os"
	"sort"
)

type cmdFn func(args []string) error

var commands = map[string]cmdFn{}

func register(name string, fn cmdFn) { commands[name] = fn }

func main() {
	if len(os.Args) < 2 {
		names := []string{}
		for n := range commands {
			names = append(names, n)
		}
		sort.Strings(names)
		fmt.Fprintf(os.Stderr, "usage: nrpverif <%v> [flags]\n", names)
		os.Exit(2)
	}
	fn, ok := commands[os.Args[1]]
	if !ok {
		fmt.Fprintf(os.Stderr, "unknown command %q\n", os.Args[1])
		os.Exit(2)
	}
	if err := fn(os.Args[2:]); err != nil {
		fmt.Fprintf(os.Stderr, "nrpverif %s: %v\n", os.Args[1], err)
		os.Exit(3)
	}
}
