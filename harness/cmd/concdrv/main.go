// concdrv drives a real resource manager with CONCURRENT requests (property C15), see internal/concdrv.
package main

import (
	"fmt"
	"os"

	"verifharness/internal/concdrv"
)

func main() {
	if err := concdrv.Main(os.Args[1:]); err != nil {
		fmt.Fprintf(os.Stderr, "concdrv: %v\n", err)
		os.Exit(3)
	}
}
