// annodrv replays annotation cases (property C18) on a real resource-policy cache and records
// what pod.GetEffectiveAnnotation / container.GetEffectiveAnnotation and the annotation-backed
// container helpers return.  The trace is judged by /verif/spec/Trace_Annotations.tla.
package main

import (
	"fmt"
	"os"

	"verifharness/internal/annodrv"
)

func main() {
	if err := annodrv.Main(os.Args[1:]); err != nil {
		fmt.Fprintf(os.Stderr, "annodrv: %v\n", err)
		os.Exit(3)
	}
}
