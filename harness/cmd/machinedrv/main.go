// machinedrv records discovery and pool-tree snapshots of the real code on synthetic machines for the C16 engine
// (see internal/machinedrv, internal/sysgen and spec/Machine.tla).
package main

import (
	"fmt"
	"os"

	"verifharness/internal/machinedrv"
)

func main() {
	if err := machinedrv.Main(os.Args[1:]); err != nil {
		fmt.Fprintf(os.Stderr, "machinedrv: %v\n", err)
		os.Exit(3)
	}
}
