// l2drv drives a real resource manager (see internal/l2) with scripted request histories.
package main

import (
	"fmt"
	"os"

	"verifharness/internal/l2"
)

func main() {
	if err := l2.Main(os.Args[1:]); err != nil {
		fmt.Fprintf(os.Stderr, "l2drv: %v\n", err)
		os.Exit(3)
	}
}
