// kubedrv records the function graph of the real resource conversions for the C20 engine
// (see internal/kubedrv and spec/Kube.tla).
package main

import (
	"fmt"
	"os"

	"verifharness/internal/kubedrv"
)

func main() {
	if err := kubedrv.Main(os.Args[1:]); err != nil {
		fmt.Fprintf(os.Stderr, "kubedrv: %v\n", err)
		os.Exit(3)
	}
}
