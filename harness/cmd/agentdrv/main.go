// agentdrv replays event histories of the two configuration watches on the REAL agent
// (pkg/agent, hooks of build tag verif) and records one ndjson line per event for the trace
// specification /verif/spec/Trace_Agent.tla (property C17).
package main

import (
	"fmt"
	"os"

	"verifharness/internal/agentdrv"
)

func main() {
	if err := agentdrv.Main(os.Args[1:]); err != nil {
		fmt.Fprintf(os.Stderr, "agentdrv: %v\n", err)
		os.Exit(3)
	}
}
