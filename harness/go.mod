module verifharness

go 1.23.4

require github.com/containers/nri-plugins v0.0.0

require (
	github.com/go-logr/logr v1.4.2 // indirect
	github.com/intel/goresctrl v0.8.0 // indirect
	golang.org/x/time v0.3.0 // indirect
	k8s.io/klog/v2 v2.130.1 // indirect
	k8s.io/utils v0.0.0-20240711033017-18e509b52bc8 // indirect
	sigs.k8s.io/yaml v1.4.0 // indirect
)

replace (
	github.com/containers/nri-plugins => /repo
	github.com/containers/nri-plugins/pkg/topology v0.0.0 => /repo/pkg/topology
	github.com/opencontainers/runtime-tools => github.com/opencontainers/runtime-tools v0.0.0-20221026201742-946c877fa809
)
