---------------------------- MODULE PersistPreds ----------------------------
(***************************************************************************)
(* C10, the property predicates as functions of OBSERVATIONS.  No          *)
(* variables: the design spec Persist evaluates them on its own state, the  *)
(* trace spec Trace_Persist on records logged from the real cache          *)
(* (pkg/resmgr/cache: Save/Load/NewCache/checkPerm/mkdirAll).              *)
(***************************************************************************)
EXTENDS Naturals, FiniteSets, Sequences

\* --- "a cache file or directory that is a symbolic link, of the wrong file type, or writable by group/others
\*      is refused rather than used"
\* kind: what sits at the path; mode: subset of {"gw","ow"} (group-/other-writable); want: "regular" for the cache
\* file, "directory" for the cache directory and the container data directory.
PathKinds == {"regular", "directory", "symlink", "symlink-dangling", "fifo", "socket"}
Unsafe(kind, mode, want) == kind # want \/ mode \cap {"gw", "ow"} # {}
WantOf(target) == IF target = "file" THEN "regular" ELSE "directory"

\* --- "the cache file on disk is still a complete snapshot - either the previous or the new one - and loads without error"
\* loaded: a fresh NewCache on the directory returned no error; eqOld/eqNew: its projection equals the projection of
\* the snapshot before / after the interrupted save.
CompleteSnapshot(loaded, eqOld, eqNew) == loaded /\ (eqOld \/ eqNew)

\* a file IS a snapshot: its first n bytes (chunks) are the first n of the snapshot of length `size`, and the file is
\* `len` long -- nothing missing (n = size) and nothing behind it (len = size)
WholeFile(n, len, size) == n = size /\ len = size

\* --- "the cache reloaded from its state directory is equivalent to the cache at its last successful save"
\* loaded as above; diff: the set of projected fields whose values differ between the live cache at the save and the
\* reloaded one.
ReloadEqual(loaded, diff) == loaded /\ diff = {}

\* --- several generations.  A save made by a process that itself started from a cache file (and did not read anything
\* before it saved) is a save like any other: ReloadEqual judges it (record kind rt2).  A successful save that found the
\* temporary file of an interrupted save (or any other file) at the temporary path must leave a cache file that is
\* exactly its snapshot (record kind crash2): loads, equals the live cache, is as long as the snapshot, and the
\* temporary path is gone (the rename consumed it).
SaveOverLeftover(loaded, diff, fileLen, snapLen, tmpLeft) == ReloadEqual(loaded, diff) /\ WholeFile(fileLen, fileLen, snapLen) /\ ~tmpLeft

\* --- a start-up whose READ of the (intact) cache file fails (openat / read returns EIO, EACCES, EMFILE).  The reloaded
\* cache has to be the cache of the last successful save, so such a start-up may only fail -- or, if it does come up
\* (started), hold the saved content (startedEqual); and whatever it goes on to do, a later fault-free start still finds
\* the snapshot (afterLoaded, afterEqual): no save was interrupted, nothing may have replaced it.
ReadFaultHandled(started, startedEqual, afterLoaded, afterEqual) == (started => startedEqual) /\ afterLoaded /\ afterEqual

\* --- observe_at: "the cache file may only ever be replaced by rename"
\* roles of the system calls that name the final path during a save.
AllowedOnFinalPath == {"rename-dst", "open-read", "chmod"}
OnlyRename(roles, renames, inoChanged) == roles \subseteq AllowedOnFinalPath /\ renames >= 1 /\ inoChanged
=============================================================================
