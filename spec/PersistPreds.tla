---------------------------- MODULE PersistPreds ----------------------------
(***************************************************************************)
(* C10, the property predicates as functions of OBSERVATIONS.  No          *)
(* variables: the design spec Persist evaluates them on its own state, the  *)
(* trace spec Trace_Persist on records logged from the real cache          *)
(* (pkg/resmgr/cache: Save/Load/NewCache/checkPerm/mkdirAll).              *)
(***************************************************************************)
EXTENDS Naturals, FiniteSets, Sequences

\* --- "a cache file or directory that is a symbolic link, of the wrong file type, or writable by group/others
\*      is refused rather than used"
\* kind: what sits at the path; mode: subset of {"gw","ow"} (group-/other-writable); want: "regular" for the cache
\* file, "directory" for the cache directory and the container data directory.
PathKinds == {"regular", "directory", "symlink", "symlink-dangling", "fifo", "socket"}
Unsafe(kind, mode, want) == kind # want \/ mode \cap {"gw", "ow"} # {}
WantOf(target) == IF target = "file" THEN "regular" ELSE "directory"

\* --- "the cache file on disk is still a complete snapshot - either the previous or the new one - and loads without error"
\* loaded: a fresh NewCache on the directory returned no error; eqOld/eqNew: its projection equals the projection of
\* the snapshot before / after the interrupted save.
CompleteSnapshot(loaded, eqOld, eqNew) == loaded /\ (eqOld \/ eqNew)

\* --- "the cache reloaded from its state directory is equivalent to the cache at its last successful save"
\* loaded as above; diff: the set of projected fields whose values differ between the live cache at the save and the
\* reloaded one.
ReloadEqual(loaded, diff) == loaded /\ diff = {}

\* --- observe_at: "the cache file may only ever be replaced by rename"
\* roles of the system calls that name the final path during a save.
AllowedOnFinalPath == {"rename-dst", "open-read", "chmod"}
OnlyRename(roles, renames, inoChanged) == roles \subseteq AllowedOnFinalPath /\ renames >= 1 /\ inoChanged
=============================================================================
