------------------------- MODULE MC_BalloonsReconf -------------------------
EXTENDS BalloonsReconf
D(n, lo, hi, minb, maxb) == [name |-> n, mincpus |-> lo, maxcpus |-> hi, minballoons |-> minb, maxballoons |-> maxb]
\* A: a roomy reserved-like type; B: the same type capped at one CPU and one instance (a second 1000m container no
\* longer fits after the update); C: the dynamic type gone (its containers have no type to go to), a pre-created type added
CfgA == {D("dyn", 0, 0, 0, 0), D("rsv", 1, 3, 1, 1)}
CfgB == {D("dyn", 0, 2, 0, 0), D("rsv", 1, 1, 1, 1)}
CfgC == {D("rsv", 1, 2, 1, 1), D("pre", 1, 2, 1, 0)}
MCConfigs == {CfgA, CfgB, CfgC}
MCCpus == 0 .. 3
MCTypeOf == [c \in {"c1", "c2", "c3"} |-> IF c = "c3" THEN "dyn" ELSE "rsv"]
MCReq    == [c \in {"c1", "c2", "c3"} |-> IF c = "c3" THEN 500 ELSE 1000]
\* larger instance for the thorough tier: 5 CPUs, 4 containers, 4 configurations
CfgD == {D("dyn", 1, 2, 0, 2), D("rsv", 2, 3, 1, 1), D("pre", 1, 1, 1, 0)}
MCConfigs4 == {CfgA, CfgB, CfgC, CfgD}
MCCpus5 == 0 .. 4
MCTypeOf4 == [c \in {"c1", "c2", "c3", "c4"} |-> IF c \in {"c3", "c4"} THEN "dyn" ELSE "rsv"]
MCReq4    == [c \in {"c1", "c2", "c3", "c4"} |-> IF c = "c3" THEN 500 ELSE IF c = "c4" THEN 1500 ELSE 1000]
=============================================================================
