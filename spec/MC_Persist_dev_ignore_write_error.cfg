SPECIFICATION Spec
CONSTANTS
  Chunks = 2
  MaxVer = 3
  Deviation = "ignore_write_error"
INVARIANTS Inv_FileIsCompleteSnapshot
PROPERTIES Act_ReloadEqualsLastSave
CHECK_DEADLOCK FALSE
