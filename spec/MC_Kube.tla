------------------------------ MODULE MC_Kube ------------------------------
(***************************************************************************)
(* Design check of Kube: a container's CPU requirement goes through the    *)
(* kubelet's encoding and the reference decoders; TLC explores every       *)
(* request / limit of the domain (0..MaxMilli, every period of the tier)   *)
(* and checks the laws of the property on the reference decoders -- i.e.    *)
(* the laws are satisfiable and today's rounding satisfies them -- and     *)
(* that Preimage covers the domain (the per-shares form of the law used on  *)
(* the recorded table is equivalent to the per-request form).              *)
(* It also prints the plan of the conformance run for the driver.          *)
(***************************************************************************)
EXTENDS Kube, TLC, Json

CONSTANT Tier, Step      \* Step: stride through the request domain (1 = every mCPU)

VARIABLES phase, m, p, s, q, r, lim

mcvars == <<phase, m, p, s, q, r, lim>>

PSet == {Periods(Tier)[i] : i \in 1 .. Len(Periods(Tier))}

MCInit == /\ phase = "requested"
          /\ m \in {x \in 0 .. MaxMilli : x % Step = 0 \/ x % 125 = 0 \/ x < 20}
          /\ p \in PSet
          /\ s = 0 /\ q = 0 /\ r = 0 /\ lim = 0

Encode == /\ phase = "requested"
          /\ s' = Shares(m) /\ q' = Quota(m, p)
          /\ phase' = "encoded" /\ UNCHANGED <<m, p, r, lim>>

Decode == /\ phase = "encoded"
          /\ r' = MilliFromShares(s) /\ lim' = MilliFromQuota(q, p)
          /\ phase' = "decoded" /\ UNCHANGED <<m, p, s, q>>

MCNext == Encode \/ Decode
MCSpec == MCInit /\ [][MCNext]_mcvars

Inv_Request  == phase = "decoded" => RequestLaw(m, r)
Inv_Limit    == phase = "decoded" => LimitLaw(q, p, lim) /\ (m >= 10 /\ (m * (p \div 1000) >= MinQuota) => lim = m)
Inv_Default  == phase = "decoded" /\ p = DefaultPeriod /\ m >= 10 => lim = m
Inv_Preimage == phase = "encoded" => m \in Preimage(s)
Inv_Range    == phase = "encoded" => s \in MinShares .. MaxShares /\ q >= 0 /\ q <= MaxMilli * 1000

\* limb arithmetic agrees with integer arithmetic where both are defined
ASSUME \A n \in {0, 1, 999999, 1000000, 1048576, 2000000, 2147483} : \A k \in {0, 1, 3, 997, 1000} :
          Same(MulK(FromInt(n), k), FromInt(n * k)) /\ Same(AddSmall(FromInt(n), k), FromInt(n + k))
ASSUME Same(Pow2L(20), MiB) /\ Same(Pow2L(30), FromInt(1073741824)) /\ Same(Pred(Pow2L(20)), FromInt(1048575))
ASSUME Same(Pow2Cap(1), MiB) /\ Same(Pow2Cap(2), FromInt(1048577)) /\ Same(Pow2Cap(3), FromInt(2097151))
ASSUME Same(Pow2Cap(Pow2Caps), AddSmall(Pow2L(46), 1))
ASSUME Less(Pow2L(45), Pow2L(46)) /\ Less(Pred(Pow2L(46)), Pow2L(46)) /\ ~Less(Pow2L(46), Pow2L(46))
\* 1000 - (1000*r) div C = a : C = 1 MiB, r = 524288 -> 500
ASSUME /\ MapsBack(MiB, FromInt(524288), 500) /\ ~MapsBack(MiB, FromInt(524288), 499) /\ MapsBack(MiB, FromInt(524289), 500)
       /\ ~MapsBack(MiB, FromInt(525337), 500) /\ MapsBack(MiB, FromInt(525337), 499)
ASSUME PrintT("PLAN " \o ToJson([tier |-> Tier, segs |-> Plan(Tier), blk |-> Blk, estcap |-> EstCapacity,
                                 estcases |-> [j \in 1 .. EstCases |-> EstCase(j)],
                                 pow2caps |-> [j \in 1 .. Pow2Caps |-> Pow2Cap(j)]]))
=============================================================================
