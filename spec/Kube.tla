-------------------------------- MODULE Kube --------------------------------
(***************************************************************************)
(* C20 -- resource requirements reconstructed from cgroup parameters.      *)
(*                                                                         *)
(* The kubelet turns a container's CPU request m (milli-CPUs) into cgroup  *)
(* cpu.shares, its CPU limit into a CFS quota per period, and its memory   *)
(* request into an OOM score adjustment.  The plugin only sees the cgroup  *)
(* parameters and reconstructs the requirements from them                  *)
(* (pkg/kubernetes/resources.go, pkg/resmgr/cache/utils.go).               *)
(*                                                                         *)
(* This module is functional: the kubelet's encodings (the environment) are *)
(* operators (Shares, Quota, OomAdj), the laws of the property are         *)
(* operators over the values the real decoders return.  The laws do NOT    *)
(* prescribe a particular decoder: any rounding that keeps them is         *)
(* accepted (MilliFromShares / MilliFromQuota below are the decoders the   *)
(* code has today; they are used as reference in MC_Kube and to report     *)
(* drift).                                                                 *)
(*                                                                         *)
(* TLC integers are 32 bit.  CPU quantities fit (shares <= 262144, mCPU <= *)
(* 256000, quota <= 2.56e8 with periods that are whole milliseconds).      *)
(* Memory quantities (capacities up to 2^46, 1000 * request up to 2^56) do *)
(* not: they are handled exactly as little-endian limb sequences in base    *)
(* 10^6 (at most 3 limbs for values < 10^18); the only arithmetic the law   *)
(* needs is multiplication by a number <= 1000, addition of a small        *)
(* number, and comparison.                                                  *)
(***************************************************************************)
EXTENDS Integers, Sequences, FiniteSets

MinShares    == 2
MaxShares    == 262144
SharesPerCPU == 1024
MaxMilli     == 256000        \* 256 CPUs
MinQuota     == 1000
DefaultPeriod == 100000

Max(a, b) == IF a >= b THEN a ELSE b
Min(a, b) == IF a <= b THEN a ELSE b
Abs(a)    == IF a >= 0 THEN a ELSE 0 - a

-----------------------------------------------------------------------------
(* The kubelet side (environment)                                           *)

\* cpu.shares the kubelet writes for a request of m milli-CPUs
Shares(m) == IF m = 0 THEN MinShares
             ELSE Min(MaxShares, Max(MinShares, (m * SharesPerCPU) \div 1000))

\* CFS quota for a limit of m milli-CPUs with period p (microseconds, a whole number of milliseconds)
Quota(m, p) == IF m = 0 THEN 0 ELSE Max(MinQuota, m * (p \div 1000))

\* the requests the kubelet encodes as shares s
Preimage(s) == {m \in Max(0, (s * 1000) \div SharesPerCPU - 2) .. Min(MaxMilli, (s * 1000) \div SharesPerCPU + 2) : Shares(m) = s}

-----------------------------------------------------------------------------
(* The decoders the code has today (reference only)                         *)

MilliFromShares(s) == IF s = MinShares THEN 0 ELSE (s * 1000 + SharesPerCPU \div 2) \div SharesPerCPU
MilliFromQuota(q, p) == IF q = 0 \/ p = 0 THEN 0 ELSE (2 * q + (p \div 1000)) \div (2 * (p \div 1000))

-----------------------------------------------------------------------------
(* The laws.  v is what the real code reconstructed.                        *)

\* tolerance of the reconstructed request for an original request m
Tol(m) == IF Shares(m) = MinShares THEN 2 ELSE 1

\* reconstructed CPU request v for a container whose request was m:
\* within 1 mCPU (2 at the min-shares floor), exact at multiples of 125 mCPU
RequestLaw(m, v) == /\ Abs(v - m) <= Tol(m)
                    /\ (m % 125 = 0 => v = m)

\* the reconstruction from shares s is right for every request the kubelet encodes as s
SharesLaw(s, v) == \A m \in Preimage(s) : RequestLaw(m, v)

\* reconstructed CPU limit v from quota q and period p: exact for every limit from 10 mCPU up
\* (q is the quota of some limit m >= 10 iff it is a multiple of p/1000, not below the minimum quota
\*  and m = q / (p/1000) >= 10)
LimitLaw(q, p, v) ==
    LET p1 == p \div 1000 IN
    (q % p1 = 0 /\ q >= MinQuota /\ q \div p1 >= 10 /\ q \div p1 <= MaxMilli) => v = q \div p1

\* monotone: a larger input never reconstructs to a smaller value (vs is a table over ascending inputs)
Monotone(vs) == \A i \in 1 .. Len(vs) - 1 : vs[i] <= vs[i + 1]

-----------------------------------------------------------------------------
(* Limbs: little-endian, base 10^6, missing high limbs are 0.               *)

B == 1000000
L(x, i) == IF i <= Len(x) THEN x[i] ELSE 0
WellFormed(x) == Len(x) <= 3 /\ \A i \in 1 .. Len(x) : x[i] >= 0 /\ x[i] < B

\* x * k for 0 <= k <= 1000, as 4 limbs
MulK(x, k) ==
    LET t1 == L(x, 1) * k
        t2 == L(x, 2) * k + t1 \div B
        t3 == L(x, 3) * k + t2 \div B
    IN  <<t1 % B, t2 % B, t3 % B, t3 \div B>>

\* x + d for 0 <= d < 10^6 (x has at most 3 limbs and stays below 10^18)
AddSmall(x, d) ==
    LET t1 == L(x, 1) + d
        t2 == L(x, 2) + t1 \div B
        t3 == L(x, 3) + t2 \div B
    IN  <<t1 % B, t2 % B, t3>>

\* x - 1 for x > 0
Pred(x) == IF L(x, 1) > 0 THEN <<L(x, 1) - 1, L(x, 2), L(x, 3)>>
           ELSE IF L(x, 2) > 0 THEN <<B - 1, L(x, 2) - 1, L(x, 3)>>
           ELSE <<B - 1, B - 1, L(x, 3) - 1>>

\* comparison of limb sequences (up to 4 limbs): -1, 0, 1
Cmp(x, y) ==
    LET c(i) == IF L(x, i) < L(y, i) THEN -1 ELSE IF L(x, i) > L(y, i) THEN 1 ELSE 0
    IN  IF c(4) # 0 THEN c(4) ELSE IF c(3) # 0 THEN c(3) ELSE IF c(2) # 0 THEN c(2) ELSE c(1)
Leq(x, y) == Cmp(x, y) <= 0
Less(x, y) == Cmp(x, y) < 0
Same(x, y) == Cmp(x, y) = 0

FromInt(n) == <<n % B, n \div B, 0>>          \* n < 2^31, so n div B < B
RECURSIVE Pow2L(_)
Pow2L(k) == IF k = 0 THEN <<1, 0, 0>> ELSE LET h == MulK(Pow2L(k - 1), 2) IN <<h[1], h[2], h[3]>>
MiB == FromInt(1048576)

\* the OOM score adjustment the kubelet gives a Burstable container with memory request r on a node
\* with capacity C is  1000 - (1000 * r) div C.   It equals a  iff  (1000-a)*C <= 1000*r < (1001-a)*C.
MapsBack(C, r, a) ==
    LET R == MulK(r, 1000) IN
    /\ Leq(MulK(C, 1000 - a), R)
    /\ Less(R, MulK(C, 1001 - a))

MinBurstableAdj == 3
MaxBurstableAdj == 999
Adjs == MinBurstableAdj .. MaxBurstableAdj

\* the estimate table of a node with capacity C: est[i] is the estimated request for adjustment MinBurstableAdj+i-1
\* every Burstable adjustment has an estimate that maps back to it
BadAdjs(C, est) == {a \in Adjs : ~(a - MinBurstableAdj + 1 <= Len(est)
                                     /\ WellFormed(est[a - MinBurstableAdj + 1])
                                     /\ MapsBack(C, est[a - MinBurstableAdj + 1], a))}

-----------------------------------------------------------------------------
(* The enumerated input domain of the conformance run: a sequence of       *)
(* segments.  The driver executes exactly this plan (TLC prints it as      *)
(* JSON), the trace spec checks every recorded line against it.            *)
(*   s2m  : SharesToMilliCPU(s)                 for s in lo..hi            *)
(*   rt   : SharesToMilliCPU(MilliCPUToShares(m)) for m in lo..hi          *)
(*   m2s  : MilliCPUToShares(m)                 for m in lo..hi            *)
(*   m2q  : MilliCPUToQuota(m)                  for m in lo..hi            *)
(*   q2m  : QuotaToMilliCPU(k * st, p)          for k in lo..hi            *)
(*   memd : estimate table for capacity 1 MiB + i,      i in lo..hi        *)
(*   memp : estimate table for capacity Pow2Cap(j),     j in lo..hi        *)
(*   memw : estimate table for capacity 2^p + i,        i in lo..hi        *)
(*   memr : estimate table for hi-lo+1 seeded random capacities            *)
(*   est  : cache.InsertContainer for EstCase(j),       j in lo..hi        *)

Seg(ev, lo, hi, p, st) == [ev |-> ev, lo |-> lo, hi |-> hi, p |-> p, st |-> st]

\* lo..hi cut into pieces of n
RECURSIVE Pieces(_, _, _, _, _, _)
Pieces(ev, lo, hi, n, p, st) ==
    IF lo > hi THEN <<>>
    ELSE <<Seg(ev, lo, Min(hi, lo + n - 1), p, st)>> \o Pieces(ev, lo + n, hi, n, p, st)

RECURSIVE Flatten(_)
Flatten(ss) == IF ss = <<>> THEN <<>> ELSE Head(ss) \o Flatten(Tail(ss))

\* capacities around the powers of two 2^20 .. 2^46 (2^k - 1, 2^k, 2^k + 1), those below 1 MiB left out
Pow2Caps == 80          \* 27 * 3 - 1
Pow2Cap(j) == LET k == 20 + (j \div 3)          \* j = 1 -> 2^20, 2 -> 2^20+1, 3 -> 2^21-1, ...
                  d == (j % 3) - 1
              IN  IF d = -1 THEN Pred(Pow2L(k)) ELSE AddSmall(Pow2L(k), d)

\* container cases for estimateResourceRequirements: QoS class x CPU request x CPU limit x OOM score adjustment
EstReqs == <<0, 1, 2, 3, 5, 10, 100, 125, 250, 500, 999, 1000, 1001, 1500, 1999, 2000, 2001, 3000, 4000, 16000, 64000, 255999, 256000>>
EstLims == <<0, 1, 9, 10, 11, 100, 125, 999, 1000, 1999, 2000, 256000>>
EstQoS  == <<"Guaranteed", "Burstable", "Burstable", "Burstable", "Burstable", "Burstable", "BestEffort">>
EstAdj  == <<-997, 3, 4, 500, 998, 999, 1000>>
EstCases == Len(EstReqs) * Len(EstLims) * Len(EstQoS)
EstCase(j) ==                                   \* j in 1..EstCases
    LET z  == j - 1
        qi == (z % Len(EstQoS)) + 1
        li == ((z \div Len(EstQoS)) % Len(EstLims)) + 1
        ri == (z \div (Len(EstQoS) * Len(EstLims))) + 1
    IN  [qos |-> EstQoS[qi], adj |-> EstAdj[qi], mreq |-> EstReqs[ri],
         \* a Guaranteed container's limit is its request
         mlim |-> IF EstQoS[qi] = "Guaranteed" THEN EstReqs[ri] ELSE EstLims[li]]
EstCapacity == AddSmall(Pow2L(34), 12345)      \* node capacity used for the container cases: 16 GiB + 12345

Periods(tier) == IF tier = "quick" THEN <<100000, 10000, 1000000>>
                 ELSE <<100000, 1000, 2000, 5000, 10000, 25000, 50000, 250000, 1000000>>
DensePeriods(tier) == IF tier = "quick" THEN <<100000>> ELSE <<100000, 5000, 1000000>>
MemDense(tier) == IF tier = "quick" THEN 4096 ELSE 65535
MemRandom(tier) == IF tier = "quick" THEN 200 ELSE 4000
\* windows of consecutive capacities at larger magnitudes: 2^p + 0..MemWindow (thorough tier only)
MemWindowExps(tier) == IF tier = "quick" THEN <<>> ELSE <<30, 34, 40>>
MemWindow == 4095

Plan(tier) ==
    LET T == 32768 IN
    Pieces("s2m", MinShares, MaxShares, T, 0, 0)
    \o Pieces("rt", 0, MaxMilli, T, 0, 0)
    \o Pieces("m2s", 0, MaxMilli, T, 0, 0)
    \o Pieces("m2q", 0, MaxMilli, T, 0, 0)
    \o Flatten([i \in 1 .. Len(Periods(tier)) |-> Pieces("q2m", 0, MaxMilli, T, Periods(tier)[i], Periods(tier)[i] \div 1000)])
    \o Flatten([i \in 1 .. Len(DensePeriods(tier)) |-> Pieces("q2m", 0, 262143, T, DensePeriods(tier)[i], 1)])
    \o Pieces("memd", 0, MemDense(tier), 128, 0, 0)
    \o Flatten([i \in 1 .. Len(MemWindowExps(tier)) |-> Pieces("memw", 0, MemWindow, 128, MemWindowExps(tier)[i], 0)])
    \o Pieces("memp", 1, Pow2Caps, 20, 0, 0)
    \o Pieces("memr", 1, MemRandom(tier), 50, 0, 0)
    \o Pieces("est", 1, EstCases, 500, 0, 0)

\* lines of a table segment hold this many consecutive inputs
Blk == 1024
=============================================================================
