SPECIFICATION Spec
CONSTANTS
  Chunks = 2
  MaxVer = 4
  Deviation = "swallow_read_error"
PROPERTIES Act_ReloadEqualsLastSave
CHECK_DEADLOCK FALSE
