--------------------------- MODULE MC_Annotations ---------------------------
(***************************************************************************)
(* Exhaustive check of the functional spec on a small universe:            *)
(* 2 keys x {container.c, container.other, pod, bare} = 8 entries.  The    *)
(* behaviour stores the entries one at a time in a nondeterministic order, *)
(* so the reachable states are exactly all subsets of the universe in all  *)
(* storage orders (109 601 sequences).  On every state the invariants say  *)
(* that resolving by scanning the store in that order gives what the       *)
(* order-free definition gives (order-independence is a theorem of the     *)
(* spec, not an accident of one order), that entries for other containers  *)
(* are ignored, and that explicit parameters override class-derived ones   *)
(* in both application orders.                                             *)
(***************************************************************************)
EXTENDS Annotations

Ctrs == {"c", "other"}
Keys == {ClassKey, "memory.high"}

Ent(k, sc, ct, v) == [key |-> k, scope |-> sc, ctr |-> ct, val |-> v, vp |-> v]

Universe ==
    { Ent(ClassKey, "container", "c", "A"), Ent(ClassKey, "container", "other", "B"),
      Ent(ClassKey, "pod", "", "C"),        Ent(ClassKey, "bare", "", "D"),
      Ent("memory.high", "container", "c", "v1"), Ent("memory.high", "container", "other", "v2"),
      Ent("memory.high", "pod", "", "v3"),        Ent("memory.high", "bare", "", "v4") }

\* class D is not configured (an effective unknown class is an error); C derives nothing
Cfg == [configured |-> TRUE, allowed |-> {"memory.high"}, strict |-> TRUE, emptyIsNone |-> FALSE,
        derived |-> [A |-> ("memory.high" :> "dA"), B |-> ("memory.high" :> "dB"), C |-> <<>>]]

VARIABLES store, pending
vars == <<store, pending>>

Init == store = <<>> /\ pending = Universe
Next == \E a \in pending : store' = Append(store, a) /\ pending' = pending \ {a}
Spec == Init /\ [][Next]_vars

S == {store[i] : i \in DOMAIN store}

Perms(T) == {f \in [1 .. Cardinality(T) -> T] : \A i, j \in DOMAIN f : f[i] = f[j] => i = j}

Inv_OrderIndependent ==
    \A k \in Keys, c \in Ctrs : Scan(store, k, c) = Effective(S, k, c)

Inv_Precedence ==
    \A k \in Keys, c \in Ctrs :
        LET has(sc) == \E a \in S : a.key = k /\ a.scope = sc /\ (sc = "container" => a.ctr = c)
            val(sc) == (CHOOSE a \in S : a.key = k /\ a.scope = sc /\ (sc = "container" => a.ctr = c)).val
            e == Effective(S, k, c)
        IN  /\ has("container") => e = [ok |-> TRUE, v |-> val("container")]
            /\ ~has("container") /\ has("pod") => e = [ok |-> TRUE, v |-> val("pod")]
            /\ ~has("container") /\ ~has("pod") /\ has("bare") => e = [ok |-> TRUE, v |-> val("bare")]
            /\ ~has("container") /\ ~has("pod") /\ ~has("bare") => e = Absent

Inv_OthersIgnored ==
    \A k \in Keys, c \in Ctrs :
        /\ Effective(S, k, c) = Effective({a \in S : AddressedTo(a, c)}, k, c)
        /\ QosUnified(S, c, Cfg) = QosUnified({a \in S : AddressedTo(a, c)}, c, Cfg)

Inv_ExplicitOverrides ==
    \A c \in Ctrs :
        LET q == QosUnified(S, c, Cfg)
            e == Effective(S, "memory.high", c)
            cl == Effective(S, ClassKey, c)
        IN  ~q.err =>
              /\ e.ok => q.unified["memory.high"] = e.v
              /\ ~e.ok /\ cl.ok /\ "memory.high" \in DOMAIN Cfg.derived[cl.v]
                    => q.unified["memory.high"] = Cfg.derived[cl.v]["memory.high"]
              /\ ~e.ok /\ ~(cl.ok /\ "memory.high" \in DOMAIN Cfg.derived[cl.v]) => "memory.high" \notin DOMAIN q.unified
              \* whichever of class / parameter an implementation happens to apply first
              /\ \A order \in Perms(EffKeys(S, c)) : ApplyFrom(order, 1, S, c, Cfg, <<>>) = q.unified

Inv_WellFormed == WellFormed(S)
=============================================================================
