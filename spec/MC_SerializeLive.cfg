\* Part 1, termination under weak fairness (no symmetry: TLC's liveness check is not sound with it); one handler kind per
\* distinct lock program (all locking kinds run the same program).
SPECIFICATION SpecLock
CONSTANTS
  Procs <- MCProcs
  Kinds <- MCKindsLive
  Readers <- MCReaders
  p1 = p1
  p2 = p2
  p3 = p3
  r1 = r1
  r2 = r2
  NoLockKinds = {}
  PreAccessKinds = {}
  RLockKinds = {}
  TwiceKinds = {}
  UnlockedKinds = {}
  OldOrder = FALSE
PROPERTIES Termination
CHECK_DEADLOCK TRUE
