------------------------------- MODULE ExprGen -------------------------------
(***************************************************************************)
(* Serialises the C19 input domain (ExprDom) for the Go driver: everything *)
(* the driver needs is computed here -- the textual syntax of every key    *)
(* (Render), the annotation keys, the key value the specification expects  *)
(* for every (key, subject) (the driver only uses it as the string to feed *)
(* to filepath.Match for the supplied glob relation), and the list of      *)
(* (pattern, string) pairs the selection oracle needs.                     *)
(***************************************************************************)
EXTENDS ExprDom

VARIABLE x

BalloonKey == "balloon.balloons.resource-policy.nri.io"
AnnPairs(a) ==
    [i \in DOMAIN a.ctr |-> <<BalloonKey \o "/container." \o a.ctr[i][1], a.ctr[i][2]>>]
    \o (IF Len(a.pod) > 0 THEN << <<BalloonKey \o "/pod", a.pod[1]>> >> ELSE <<>>)
    \o (IF Len(a.plain) > 0 THEN << <<BalloonKey, a.plain[1]>> >> ELSE <<>>)

SubjOut(s) == IF s.kind = "ctr"
              THEN [kind |-> "ctr", id |-> s.id, name |-> s.name, labels |-> s.labels, tags |-> s.tags,
                    pod |-> s.pod, annkv |-> AnnPairs(s.ann)]
              ELSE s
KeyOut(k) == [str |-> Render(k), subs |-> RenderSubs(k), kind |-> KeyKind(k)]
ExprOut(e) == [key |-> Render(e.key), op |-> e.op, vals |-> e.vals]
DefOut(d) == [name |-> d.name, nss |-> d.nss, exprs |-> [i \in DOMAIN d.exprs |-> ExprOut(d.exprs[i])]]

Dom == [subjects |-> [i \in DOMAIN Subjects |-> SubjOut(Subjects[i])],
        keys     |-> [i \in DOMAIN BaseKeys |-> KeyOut(BaseKeys[i])],
        vls      |-> BaseVLs,
        kv       |-> [k \in DOMAIN BaseKeys |-> [s \in DOMAIN Subjects |-> KeyValue(Subjects[s], BaseKeys[k])]],
        extra    |-> [i \in DOMAIN Extra.evals |->
                        LET e == Extra.evals[i] IN
                        [key |-> KeyOut(e.key), s |-> e.s, vl |-> e.vl, kv |-> KeyValue(Subjects[e.s], e.key)]],
        weights  |-> Weights,
        cctrs    |-> [i \in DOMAIN CCtrs |-> SubjOut(CCtrs[i])],
        deflists |-> [i \in 1 .. ND |->
                        [defs |-> [j \in DOMAIN DefListAt(i).defs |-> DefOut(DefListAt(i).defs[j])],
                         rsv |-> DefListAt(i).rsv, e2e |-> DefListAt(i).e2e]],
        nbasedeflists |-> NBD, nbaseeval |-> NBase,
        pairs    |-> SetToSeq(ChoosePairs),
        ops      |-> OpSeq,
        neval |-> NEval, nweight |-> NWeight, nchoose |-> NChoose, total |-> Total]

ASSUME ExtraOK /\ Extra.eoff = 0 /\ Extra.doff = 0 /\ Len(Extra.evals) = Extra.neval /\ Len(Extra.deflists) = Extra.ndefl
ASSUME JsonSerialize(IOEnv.DOM_FILE, Dom)
ASSUME PrintT("DOMAIN " \o ToString(Total))

Init == x = 0
Next == UNCHANGED x
Spec == Init /\ [][Next]_x
=============================================================================
