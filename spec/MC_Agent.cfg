SPECIFICATION MCSpec
CONSTANTS
  Uids <- MCUids
  Gens <- MCGens
  Dump = FALSE
VIEW MCView
INVARIANTS TypeOK Inv_LastDeliveredIsEffective Inv_MemoryIsReceived Inv_CurrentShape
PROPERTIES Prop_GroupNeverOverridesNode Prop_DeleteFallsBack Prop_NoRedelivery Prop_InvalidNeverDelivered Prop_LogGrows
CHECK_DEADLOCK FALSE
