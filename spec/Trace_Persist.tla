---------------------------- MODULE Trace_Persist ----------------------------
(***************************************************************************)
(* C10 -- evaluation of the property predicates (PersistPreds) on records  *)
(* logged from the REAL cache (harness/internal/persistdrv):               *)
(*                                                                         *)
(*   rt      the live cache of a running resource manager (or a cache      *)
(*           decorated through the public API) was saved, its directory    *)
(*           copied and re-opened by a fresh cache.NewCache; `diff` names   *)
(*           the projected fields whose values differ                      *)
(*   plan    the fault points enumerated for one (snapshot, variant) from  *)
(*           the system calls of its fault-free save                       *)
(*   crash   one save in a child process with one fault (SIGKILL before a  *)
(*           system call, ENOSPC/EIO from it, a write cut short by the     *)
(*           file-size limit), then a fresh cache.NewCache on what is left  *)
(*   rt2     second / third generation: a cache loaded from a saved state   *)
(*           directory performs ONE saving operation before anything was    *)
(*           read from it, the directory is re-opened; `diff` as in rt      *)
(*   crash2  a save AFTER an interrupted save: restart on a directory that  *)
(*           holds a temporary file (left by a fault run, or synthetic),    *)
(*           one shrinking or growing mutation that saves once, reload      *)
(*   leftover_obs  something that is not a plain file at the temporary path *)
(*           (observed only, never judged)                                  *)
(*   loadplan / loadfault  a start-up (NewCache, then one Save) in a child   *)
(*           whose openat / read of the intact cache file fails; then a     *)
(*           fault-free NewCache on the directory                           *)
(*   touch   the system calls that name the final path during a save       *)
(*   unsafe  cache.NewCache on a cache file / directory of some kind, mode *)
(*                                                                         *)
(* Every record is judged on its own; violations are collected with        *)
(* (pred, sig, w) and the whole trace is always consumed.  The domain      *)
(* coverage (every planned fault point produced a record whose fault       *)
(* really fired at the planned system call) is a POSTCONDITION.            *)
(***************************************************************************)
EXTENDS PersistPreds, Json, IOUtils, TLC, Integers, SequencesExt

VARIABLES l, viols, planned, covered, done

Trace == ndJsonDeserialize(IOEnv.TRACE_FILE)
N     == Len(Trace)
E     == Trace[l]
tvars == <<l, viols, planned, covered, done>>

Has(r, f) == f \in DOMAIN r
SetOf(s)  == {s[i] : i \in DOMAIN s}
Get(r, f, d) == IF Has(r, f) THEN r[f] ELSE d

V(pred, sig, w) == [pred |-> pred, sig |-> sig, w |-> w, line |-> l, ev |-> E.ev,
                    h |-> Get(E, "h", -1), k |-> Get(E, "k", -1), snap |-> Get(E, "snap", ""), variant |-> Get(E, "variant", ""),
                    point |-> Get(E, "point", -1), origin |-> Get(E, "origin", ""), op |-> Get(E, "op", ""), src |-> Get(E, "src", -1)]

-----------------------------------------------------------------------------
\* rt: Act_ReloadEqualsLastSave (one violation per differing field: the field name is the signature; a public API call
\* that panics on a cache loaded from a valid snapshot is a difference, too), and the replaced-by-rename observation on
\* the live directory
RtViolations ==
    LET diff == SetOf(E.diff)
        ex   == Get(E, "examples", <<>>)
    IN  (IF E.loaded THEN {} ELSE {V("Act_ReloadEqualsLastSave", "reload-failed", Get(E, "loaderr", ""))})
        \cup (IF E.loaded /\ ~ReloadEqual(E.loaded, diff)
              THEN {V("Act_ReloadEqualsLastSave", f, IF f \in DOMAIN ex THEN ex[f] ELSE "") : f \in diff} ELSE {})
        \cup {V("Act_ReloadEqualsLastSave", "reloaded-cache-panics-in-" \o p.fn, p.msg) : p \in SetOf(Get(E, "api_panics", <<>>))}
        \cup (IF E.had_file /\ ~E.saveerr /\ ~E.ino_changed
              THEN {V("Act_OnlyRename", "cache-file-inode-unchanged-by-save", E.op)} ELSE {})

\* rt2: Act_ReloadEqualsLastSave for a save made by a process that started from a cache file (signature gen<n>:<field>)
Rt2Violations ==
    LET diff == SetOf(E.diff)
        ex   == Get(E, "examples", <<>>)
        pre  == "gen" \o ToString(E.gen) \o ":"
    IN  (IF E.loaded THEN {} ELSE {V("Act_ReloadEqualsLastSave", pre \o "reload-failed", Get(E, "loaderr", ""))})
        \cup (IF E.loaded /\ ~ReloadEqual(E.loaded, diff)
              THEN {V("Act_ReloadEqualsLastSave", pre \o f, IF f \in DOMAIN ex THEN ex[f] ELSE "") : f \in diff} ELSE {})
        \cup {V("Act_ReloadEqualsLastSave", pre \o "reloaded-cache-panics-in-" \o p.fn, p.msg) : p \in SetOf(Get(E, "api_panics", <<>>))}

\* crash2: a successful save over whatever sat at the temporary path leaves exactly its snapshot (SaveOverLeftover);
\* the conjuncts are reported one by one
Crash2Violations ==
    LET diff == SetOf(E.diff)
        ex   == Get(E, "examples", <<>>)
        pre  == "after-leftover:" \o E.what \o ":"
        w    == E.mut \o " after " \o E.variant
    IN  IF E.saveerr \/ (SaveOverLeftover(E.loaded, diff, E.new_bytes, IF E.snap_bytes >= 0 THEN E.snap_bytes ELSE E.new_bytes, E.tmp_left)
                         /\ E.bytes_equal)
        THEN {}
        ELSE (IF E.loaded THEN {} ELSE {V("Inv_FileIsCompleteSnapshot", pre \o "load-failed", Get(E, "loaderr", ""))})
             \cup (IF E.loaded /\ ~ReloadEqual(E.loaded, diff)
                   THEN {V("Act_ReloadEqualsLastSave", pre \o f, IF f \in DOMAIN ex THEN ex[f] ELSE "") : f \in diff} ELSE {})
             \cup (IF E.snap_bytes >= 0 /\ (~WholeFile(E.new_bytes, E.new_bytes, E.snap_bytes) \/ ~E.bytes_equal)
                   THEN {V("Inv_FileIsCompleteSnapshot", pre \o "file-is-not-the-snapshot-bytes", w)} ELSE {})
             \cup (IF E.tmp_left THEN {V("Act_OnlyRename", pre \o "temp-path-still-there-after-successful-save", w)} ELSE {})

\* loadfault: a failed read of the cache file is not "no cache yet" (ReadFaultHandled, reported conjunct by conjunct)
LoadSig(e, what) == "load-fault:" \o e.sys \o ":" \o e.errno \o ":" \o what
LoadFaultViolations ==
    IF ReadFaultHandled(E.started, E.started_equal, E.after_loaded, E.after_equal) THEN {}
    ELSE (IF E.started /\ ~E.started_equal
          THEN {V("Act_ReloadEqualsLastSave", LoadSig(E, "started-without-the-saved-cache"), Get(E, "child", ""))} ELSE {})
         \cup (IF E.after_loaded THEN {} ELSE {V("Inv_FileIsCompleteSnapshot", LoadSig(E, "snapshot-no-longer-loads"), Get(E, "loaderr", ""))})
         \cup (IF E.after_loaded /\ ~E.after_equal
               THEN {V("Act_ReloadEqualsLastSave", LoadSig(E, IF E.after_empty THEN "snapshot-replaced-by-empty-cache" ELSE "snapshot-replaced"),
                       Get(E, "child", ""))} ELSE {})

\* crash: Inv_FileIsCompleteSnapshot at the instant of the fault
CrashSig(e) == e.kind \o (IF e.sys # "" THEN "@" \o e.sys ELSE "") \o ":" \o (IF e.loaded THEN "neither-old-nor-new" ELSE "load-failed")
CrashViolations ==
    (IF CompleteSnapshot(E.loaded, E.eq_old, E.eq_new) THEN {}
     ELSE {V("Inv_FileIsCompleteSnapshot", CrashSig(E), Get(E, "loaderr", Get(E, "target", "")))})
    \cup (IF E.kind = "none" /\ E.loaded /\ (E.eq_old \/ E.eq_new) /\ ~E.eq_new
          THEN {V("Act_ReloadEqualsLastSave", "fault-free-save-not-reloaded", E.variant)} ELSE {})
    \cup (IF E.save_reported = "ok" /\ E.loaded /\ E.eq_old /\ ~E.eq_new
          THEN {V("Act_ReloadEqualsLastSave", "save-reported-success-but-reload-is-old", E.kind \o "@" \o E.sys)} ELSE {})

TouchViolations ==
    LET roles == SetOf(E.bad) IN
    IF OnlyRename({r.role : r \in SetOf(E.final)}, E.renames, E.ino_changed) THEN {}
    ELSE {V("Act_OnlyRename", "final-path:" \o r, E.variant) : r \in roles}
         \cup (IF E.renames >= 1 THEN {} ELSE {V("Act_OnlyRename", "no-rename-onto-final-path", E.variant)})
         \cup (IF E.ino_changed THEN {} ELSE {V("Act_OnlyRename", "cache-file-inode-unchanged-by-save", E.variant)})

UnsafeSig(e) == e.target \o "-" \o (IF e.kind # WantOf(e.target) THEN e.kind ELSE "mode-" \o e.modeoct)
UnsafeViolations ==
    IF Unsafe(E.kind, SetOf(E.mode), WantOf(E.target)) /\ ~E.refused
    THEN {V("Inv_RefuseUnsafePath", UnsafeSig(E), IF E.hang THEN "opened (blocked)" ELSE "accepted")} ELSE {}

-----------------------------------------------------------------------------
Step(vs, pl, cv) ==
    /\ viols' = viols \o SetToSeq(vs)
    /\ planned' = planned \cup pl /\ covered' = covered \cup cv
    /\ l' = l + 1 /\ UNCHANGED done

TrRt     == E.ev = "rt" /\ Step(RtViolations, {}, {})
TrRt2    == E.ev = "rt2" /\ Step(Rt2Violations, {}, {})
TrCrash2 == E.ev = "crash2" /\ Step(Crash2Violations, {}, {})
TrObs    == E.ev = "leftover_obs" /\ Step({}, {}, {})
TrLoadPlan  == E.ev = "loadplan" /\ Step({}, {<<E.snap, "load", p>> : p \in SetOf(E.points)}, {})
TrLoadFault == E.ev = "loadfault" /\ Step(IF E.fired /\ E.matched THEN LoadFaultViolations ELSE {}, {},
                                         IF E.fired /\ E.matched THEN {<<E.snap, "load", E.point>>} ELSE {})
TrPlan   == E.ev = "plan" /\ Step({}, {<<E.snap, E.variant, p>> : p \in SetOf(E.points)}, {})
TrCrash  == E.ev = "crash" /\ Step(IF E.fired /\ E.matched THEN CrashViolations ELSE {}, {},
                                   IF E.fired /\ E.matched THEN {<<E.snap, E.variant, E.point>>} ELSE {})
TrTouch  == E.ev = "touch" /\ Step(TouchViolations, {}, {})
TrUnsafe == E.ev = "unsafe" /\ Step(UnsafeViolations, {}, {})
\* a fresh NewCache (or the save) did not return: the file was not "loaded without error"
TrHang   == E.ev = "hang" /\ Step(IF E.op = "roundtrip" THEN {V("Inv_FileIsCompleteSnapshot", "save-or-load-did-not-return", E.op)} ELSE {}, {}, {})
TrOther  == E.ev \notin {"rt", "rt2", "crash2", "leftover_obs", "loadplan", "loadfault", "plan", "crash", "touch", "unsafe", "hang"} /\ Step({V("Trace", "unknown-event", E.ev)}, {}, {})

Finish ==
    /\ l = N + 1 /\ ~done
    /\ ndJsonSerialize(IOEnv.VIOL_FILE, viols)
    /\ PrintT("CONSUMED " \o ToString(l - 1))
    /\ PrintT("PLANNED " \o ToString(Cardinality(planned)))
    /\ PrintT("UNCOVERED " \o ToString(Cardinality(planned \ covered)))
    /\ TLCSet(3, Cardinality(planned \ covered))
    /\ done' = TRUE /\ UNCHANGED <<l, viols, planned, covered>>

TraceInit == l = 1 /\ viols = <<>> /\ planned = {} /\ covered = {} /\ done = FALSE /\ TLCSet(3, -1)
TraceNext == (l <= N /\ (TrRt \/ TrRt2 \/ TrCrash2 \/ TrObs \/ TrLoadPlan \/ TrLoadFault \/ TrPlan \/ TrCrash \/ TrTouch \/ TrUnsafe \/ TrHang \/ TrOther)) \/ Finish
TraceSpec == TraceInit /\ [][TraceNext]_tvars

\* every enumerated fault point produced a record whose fault fired at the planned system call
PostCovered == TLCGet(3) = 0
=============================================================================
