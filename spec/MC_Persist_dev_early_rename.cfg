SPECIFICATION Spec
CONSTANTS
  Chunks = 2
  MaxVer = 4
  Deviation = "early_rename"
INVARIANTS Inv_FileIsCompleteSnapshot
PROPERTIES Act_ReloadEqualsLastSave
CHECK_DEADLOCK FALSE
