SPECIFICATION Spec
CONSTANTS
  Chunks = 2
  MaxVer = 3
  Deviation = "early_rename"
INVARIANTS Inv_FileIsCompleteSnapshot
PROPERTIES Act_ReloadEqualsLastSave
CHECK_DEADLOCK FALSE
