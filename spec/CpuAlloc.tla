------------------------------ MODULE CpuAlloc ------------------------------
(***************************************************************************)
(* C08 -- the contract of pkg/cpuallocator: AllocateCpus / ReleaseCpus.    *)
(*                                                                         *)
(* The CPU allocator is a pure function                                    *)
(*    (topology, from, n, priority, flags)  |->  (result, error, from')    *)
(* Which CPUs it picks is a heuristic (packages, clusters, cache groups,   *)
(* cores, threads, priorities) that the property leaves open; the property *)
(* is the CONTRACT below.  The policies (TopologyAware, Balloons) rely on   *)
(* exactly this contract for every CPU choice they delegate, so            *)
(* conformance of the real allocator to this module discharges their       *)
(* assumption (assume/guarantee).                                          *)
(*                                                                         *)
(* The law is written once, as operators over explicit values              *)
(* (AllocLaw, ReleaseLaw, OverAskLaw, Det).  They are used                  *)
(*   - as action properties of the little behavioural model below          *)
(*     (state `from`, actions Allocate(n), Release(n), GiveBack(S)),       *)
(*     model-checked exhaustively in MC_CpuAlloc, and                      *)
(*   - by Trace_CpuAlloc on every recorded call of the real code.          *)
(*                                                                         *)
(* ReleaseCpus(from, n) as the code has it: the n released CPUs are the    *)
(* ones that REMAIN in *from after the call, the |from|-n kept CPUs are    *)
(* the return value (balloons: freeCpus += *from, bln.Cpus -= *from).      *)
(* "removes exactly n and leaves the others" therefore reads: the call     *)
(* splits `from` into the returned kept part (|from|-n CPUs) and the       *)
(* released part left in from' (exactly n CPUs).                            *)
(***************************************************************************)
EXTENDS Integers, FiniteSets, Sequences

CONSTANTS CPUs          \* the online CPUs of the machine (behavioural model only)

VARIABLES from,         \* the candidate set the caller owns; the allocator updates it in place
          last          \* the last call and its outcome: [op, n, err, res]

vars == <<from, last>>

-----------------------------------------------------------------------------
(* The law.  F = set before, n = count, err = an error was returned,       *)
(* R = returned set, F2 = set after.                                        *)

\* allocating n <= |F| returns exactly n CPUs taken from F and removes exactly those from it
AllocLaw(F, n, err, R, F2) ==
    (n >= 0 /\ n <= Cardinality(F)) =>
        /\ ~err
        /\ Cardinality(R) = n
        /\ R \subseteq F
        /\ F2 = F \ R

\* releasing n <= |F| removes exactly n CPUs and leaves the others
\* (the n released CPUs stay in from', the others are returned as the kept set)
ReleaseLaw(F, n, err, R, F2) ==
    (n >= 0 /\ n <= Cardinality(F)) =>
        /\ ~err
        /\ R \subseteq F
        /\ F2 = F \ R
        /\ Cardinality(F2) = n

\* a request for more CPUs than the set holds fails and leaves the set unchanged
OverAskLaw(F, n, err, R, F2) ==
    n > Cardinality(F) => (err /\ F2 = F)

\* the outcome is a function of (topology, set, count, options): two calls with equal inputs agree
Det(err1, R1, F21, err2, R2, F22) == err1 = err2 /\ R1 = R2 /\ F21 = F22

\* why a call breaks the law -- the signature used to classify violations (first failing clause)
AllocSig(F, n, err, R, F2) ==
    IF err THEN "error-although-enough-cpus"
    ELSE IF ~(R \subseteq F) THEN "result-not-from-set"
    ELSE IF Cardinality(R) < n THEN "fewer-cpus-than-asked"
    ELSE IF Cardinality(R) > n THEN "more-cpus-than-asked"
    ELSE IF (F \ R) \ F2 # {} THEN "set-lost-cpus-not-returned"
    ELSE "result-not-removed-from-set"

ReleaseSig(F, n, err, R, F2) ==
    IF err THEN "error-although-enough-cpus"
    ELSE IF ~(R \subseteq F) THEN "kept-not-from-set"
    ELSE IF F2 # F \ R THEN "kept-and-released-do-not-partition-set"
    ELSE IF Cardinality(F2) < n THEN "fewer-cpus-released-than-asked"
    ELSE "more-cpus-released-than-asked"

OverAskSig(op, F, n, err, R, F2) ==
    IF ~err THEN (IF op = "A" THEN "allocate-more-than-set-no-error" ELSE "release-more-than-set-no-error")
    ELSE "failed-call-changed-set"

-----------------------------------------------------------------------------
(* Behavioural model: what a policy may assume about a sequence of calls.  *)

Outcome(op, n, err, R) == [op |-> op, n |-> n, err |-> err, res |-> R]

Allocate(n) ==
    \/ /\ n > Cardinality(from)
       /\ from' = from
       /\ last' = Outcome("A", n, TRUE, {})
    \/ /\ n <= Cardinality(from)
       /\ \E R \in SUBSET from :
             /\ Cardinality(R) = n
             /\ from' = from \ R
             /\ last' = Outcome("A", n, FALSE, R)

Release(n) ==
    \/ /\ n > Cardinality(from)
       /\ from' = from
       /\ last' = Outcome("R", n, TRUE, {})
    \/ /\ n <= Cardinality(from)
       /\ \E K \in SUBSET from :
             /\ Cardinality(K) = Cardinality(from) - n
             /\ from' = from \ K
             /\ last' = Outcome("R", n, FALSE, K)

\* the caller puts CPUs back into its candidate set (a policy returning CPUs to a pool)
GiveBack(S) ==
    /\ S # {} /\ S \cap from = {}
    /\ from' = from \cup S
    /\ last' = Outcome("G", 0, FALSE, S)

Init == from = CPUs /\ last = Outcome("G", 0, FALSE, {})

Next == \/ \E n \in 0 .. Cardinality(CPUs) + 1 : Allocate(n) \/ Release(n)
        \/ \E S \in SUBSET CPUs : GiveBack(S)

Spec == Init /\ [][Next]_vars

TypeOK == /\ from \subseteq CPUs
          /\ last.op \in {"A", "R", "G"} /\ last.n \in 0 .. Cardinality(CPUs) + 1
          /\ last.err \in BOOLEAN /\ last.res \subseteq CPUs

\* the contract as action properties of the model
Act_AllocExact   == [][last'.op = "A" => AllocLaw(from, last'.n, last'.err, last'.res, from')]_vars
Act_ReleaseExact == [][last'.op = "R" => ReleaseLaw(from, last'.n, last'.err, last'.res, from')]_vars
Act_OverAskFails == [][last'.op \in {"A", "R"} => OverAskLaw(from, last'.n, last'.err, last'.res, from')]_vars
\* what the policies use: CPUs are conserved, nothing is invented
Act_Conserved    == [][last'.op \in {"A", "R"} =>
                          /\ from' \subseteq from
                          /\ (~last'.err => (last'.res \cap from' = {} /\ last'.res \cup from' = from))]_vars

-----------------------------------------------------------------------------
(* The enumerated input domain of the conformance run (used by the trace   *)
(* spec to check that the driver recorded exactly this domain, in this     *)
(* canonical order).                                                        *)

Ops      == <<"A", "R">>
Prios    == <<0, 1, 2, 3>>                \* high, normal, low, none
FlagSets == [i \in 1 .. 16 |-> i - 1]     \* every combination of the four allocation flags
\* sampled chunks: no stage / cache groups only / idle cores only / default (packages|clusters|cache groups|cores)
SampleFlagSets == <<0, 4, 8, 15>>
FlagSeq(kind) == IF kind = "full" THEN FlagSets ELSE SampleFlagSets

RECURSIVE Pow2(_)
Pow2(k) == IF k = 0 THEN 1 ELSE 2 * Pow2(k - 1)

\* the subset of the (ascending) sequence `online` selected by the bits of mask
FromMask(mask, online) == {online[i] : i \in {j \in 1 .. Len(online) : (mask \div Pow2(j - 1)) % 2 = 1}}

\* counts tried for a candidate set of size k: exhaustive chunks try all of 0..k+1 ...
NFull(k) == [i \in 1 .. k + 2 |-> i - 1]
\* ... sampled chunks (recorded fixtures with many CPUs) a fixed selection around the boundaries
NSampleSet(k) == {n \in {0, 1, 2, 3, k \div 2, k - 3, k - 2, k - 1, k, k + 1} : n >= 0 /\ n <= k + 1}
SortedSeq(S) == LET RECURSIVE srt(_)
                    srt(T) == IF T = {} THEN <<>>
                              ELSE LET m == CHOOSE x \in T : \A y \in T : x <= y IN <<m>> \o srt(T \ {m})
                IN srt(S)
NSample(k) == SortedSeq(NSampleSet(k))
NSeq(kind, k) == IF kind = "full" THEN NFull(k) ELSE NSample(k)

\* position in the canonical enumeration of one chunk: group g (mask or sample number), then op, prio, flags, n
FirstKey(g) == [g |-> g, oi |-> 1, pi |-> 1, fi |-> 1, ni |-> 1]
SuccKey(e, nN, nF) ==
    IF e.ni < nN THEN [e EXCEPT !.ni = @ + 1]
    ELSE IF e.fi < nF THEN [e EXCEPT !.ni = 1, !.fi = @ + 1]
    ELSE IF e.pi < Len(Prios) THEN [e EXCEPT !.ni = 1, !.fi = 1, !.pi = @ + 1]
    ELSE IF e.oi < Len(Ops) THEN [e EXCEPT !.ni = 1, !.fi = 1, !.pi = 1, !.oi = @ + 1]
    ELSE FirstKey(e.g + 1)
=============================================================================
