------------------------------- MODULE MC_Expr -------------------------------
(***************************************************************************)
(* Exhaustive check of the laws of Expr over a tiny universe:              *)
(*   - negation duality of the four operator pairs the property names,     *)
(*   - an expression of correct arity always evaluates (to a boolean),     *)
(*   - joint keys: value = sub-key values joined by the value separator,   *)
(*     present iff some sub-key is present; the simple form is the ":::"   *)
(*     full form; rendering is injective on the key universe,              *)
(*   - clamp laws,                                                         *)
(*   - balloon-type selection: annotation wins / unknown annotation is an  *)
(*     error / first match in order / default / kube-system is reserved.   *)
(* The state space enumerates every (operator, key, subject, value list)   *)
(* and every (type list, reserved namespaces, container).                  *)
(***************************************************************************)
EXTENDS Expr

VARIABLES phase, op, key, subj, vs, dl, rsv, cc
mcvars == <<phase, op, key, subj, vs, dl, rsv, cc>>

-----------------------------------------------------------------------------
(* universe of the expression half *)
Vals     == {"a", "b"}
Patterns == {"a", "b", "a*", "*", "?"}

Joined(sep) == {x \o sep \o y : x \in {"", "a", "b"}, y \in {"", "a", "b"}}
Strings  == Vals \cup Joined(":") \cup Joined("-") \cup {"kube-system", "rsv-1", "prod"}

\* the glob relation over this universe, written out (what filepath.Match computes)
StartsA  == {"a"} \cup {"a" \o sep \o y : sep \in {":", "-"}, y \in {"", "a", "b"}}
MatchSet == {<<"a", "a">>, <<"b", "b">>}
            \cup {<<"a*", s>> : s \in StartsA}
            \cup {<<"*", s>> : s \in Strings}
            \cup {<<"?", s>> : s \in {"a", "b", ":", "-"}}
            \cup {<<"kube-*", "kube-system">>, <<"rsv-*", "rsv-1">>, <<"prod", "prod">>, <<"kube-system", "kube-system">>}
G(p, s) == <<p, s>> \in MatchSet

Pod0 == [kind |-> "pod", name |-> "p", ns |-> "a", qos |-> "Burstable", id |-> "p0", uid |-> "u0", labels |-> <<>>]
LabelSets == {l1 \o l2 : l1 \in {<<>>, <<<<"k1", "a">>>>, <<<<"k1", "b">>>>}, l2 \in {<<>>, <<<<"k2", "a">>>>, <<<<"k2", "b">>>>}}
Subjects == {[kind |-> "ctr", name |-> "c", id |-> "c0", labels |-> l, tags |-> <<>>, pod |-> Pod0] : l \in LabelSets}

K1 == <<"labels", "k1">>
K2 == <<"labels", "k2">>
Keys == {[form |-> "single", ksep |-> "", vsep |-> "", subs |-> <<K1>>],
         [form |-> "single", ksep |-> "", vsep |-> "", subs |-> <<K2>>],
         [form |-> "simple", ksep |-> "", vsep |-> "", subs |-> <<K1, K2>>],
         [form |-> "full", ksep |-> ":", vsep |-> ":", subs |-> <<K1, K2>>],
         [form |-> "full", ksep |-> ",", vsep |-> "-", subs |-> <<K2, K1>>]}

ValueLists == {<<>>} \cup {<<p>> : p \in Patterns} \cup {<<p, q>> : p \in Patterns, q \in Patterns}

Ms(kv, l) == [i \in DOMAIN l |-> kv.present /\ G(l[i], kv.val)]
E(o, k, s, l) == LET kv == KeyValue(s, k) IN Eval(o, kv, l, Ms(kv, l))

-----------------------------------------------------------------------------
(* universe of the selection half *)
Ex(k, o, v) == [key |-> [form |-> "single", ksep |-> "", vsep |-> "", subs |-> <<k>>], op |-> o, vals |-> v]
DefMenu == {[name |-> "T1", nss |-> <<"*">>, exprs |-> <<>>],
            [name |-> "T2", nss |-> <<>>, exprs |-> <<Ex(<<"labels", "k1">>, "Equals", <<"a">>)>>],
            [name |-> "T3", nss |-> <<"prod">>, exprs |-> <<Ex(<<"labels", "k1">>, "Exists", <<>>)>>],
            [name |-> "reserved", nss |-> <<>>, exprs |-> <<>>],
            [name |-> "default", nss |-> <<"kube-*">>, exprs |-> <<>>]}
DefLists == {<<>>} \cup {<<d>> : d \in DefMenu}
            \cup {t \in DefMenu \X DefMenu : t[1] # t[2]}
            \cup {t \in DefMenu \X DefMenu \X DefMenu : t[1] # t[2] /\ t[1] # t[3] /\ t[2] # t[3]}
RsvLists == {<<>>, <<"rsv-*">>}
PodNs(n) == [Pod0 EXCEPT !.ns = n]
NoAnn == [ctr |-> <<>>, pod |-> <<>>, plain |-> <<>>]
Anns == {NoAnn,
         [NoAnn EXCEPT !.ctr = <<<<"c", "T2">>>>],
         [NoAnn EXCEPT !.ctr = <<<<"other", "T2">>>>],
         [NoAnn EXCEPT !.pod = <<"T1">>, !.plain = <<"nosuch">>],
         [NoAnn EXCEPT !.plain = <<"nosuch">>],
         [NoAnn EXCEPT !.ctr = <<<<"c", "default">>>>, !.pod = <<"nosuch">>]}
Ctrs == {[kind |-> "ctr", name |-> "c", id |-> "c0", labels |-> l, tags |-> <<>>, pod |-> PodNs(n), ann |-> a] :
            l \in {<<>>, <<<<"k1", "a">>>>}, n \in {"kube-system", "rsv-1", "prod", "a"}, a \in Anns}

-----------------------------------------------------------------------------
Init == /\ phase = "init" /\ op = "Exists" /\ key = (CHOOSE k \in Keys : TRUE) /\ subj = (CHOOSE s \in Subjects : TRUE)
        /\ vs = <<>> /\ dl = <<>> /\ rsv = <<>> /\ cc = (CHOOSE c \in Ctrs : TRUE)

\* every point of the universe is one successor of the initial state (the points are independent)
NextExpr == /\ phase = "init"
            /\ phase' = "expr" /\ op' \in Ops /\ key' \in Keys /\ subj' \in Subjects /\ vs' \in ValueLists
            /\ UNCHANGED <<dl, rsv, cc>>
NextChoose == /\ phase = "init"
              /\ phase' = "choose" /\ dl' \in DefLists /\ rsv' \in RsvLists /\ cc' \in Ctrs
              /\ UNCHANGED <<op, key, subj, vs>>
Next == NextExpr \/ NextChoose
Spec == Init /\ [][Next]_mcvars

-----------------------------------------------------------------------------
(* laws, expression half *)
Inv_ValidTotal == ArityOK(op, Len(vs)) => E(op, key, subj, vs) \in BOOLEAN

Inv_Duality == \A pr \in NegPairs :
                  (ArityOK(pr[1], Len(vs)) /\ ArityOK(pr[2], Len(vs)))
                     => (E(pr[1], key, subj, vs) = ~E(pr[2], key, subj, vs))

Inv_Joint == Len(key.subs) > 1 =>
                LET kv == KeyValue(subj, key)
                    r  == [i \in DOMAIN key.subs |-> Resolve(subj, key.subs[i])]
                IN  /\ kv.present = (\E i \in DOMAIN r : r[i].present)
                    /\ kv.val = r[1].val \o VSep(key) \o r[2].val       \* absent sub-keys have the value ""
                    /\ kv.val \in Strings

Inv_Existence == /\ E("Exists", key, subj, <<>>) = KeyValue(subj, key).present
                 /\ E("AlwaysTrue", key, subj, <<>>)

\* the simple form is equivalent to the ":::" full form
SimpleEqFull == \A s \in Subjects :
                   KeyValue(s, [form |-> "simple", ksep |-> "", vsep |-> "", subs |-> <<K1, K2>>])
                     = KeyValue(s, [form |-> "full", ksep |-> ":", vsep |-> ":", subs |-> <<K1, K2>>])
RenderLaws == /\ Render([form |-> "simple", ksep |-> "", vsep |-> "", subs |-> <<K1, K2>>]) = ":labels/k1:labels/k2"
              /\ Render([form |-> "full", ksep |-> ",", vsep |-> "-", subs |-> <<K2, K1>>]) = ":,-labels/k2,labels/k1"
              /\ Render([form |-> "single", ksep |-> "", vsep |-> "", subs |-> <<<<"pod", "labels", "io.test/tier">>>>]) = "pod/labels/io.test/tier"
              /\ Cardinality({Render(k) : k \in Keys}) = Cardinality(Keys)

ClampLaws == \A w \in (-1100 .. 1100) \cup {2147483647, MinInt32, -2147483647} :
                /\ ClampWeight(w) \in -1000 .. 1000
                /\ (w \in -1000 .. 1000 => ClampWeight(w) = w)
                /\ (w > 1000 => ClampWeight(w) = 1000) /\ (w < -1000 => ClampWeight(w) = -1000)
                /\ \A anti \in BOOLEAN : SignedDefined(anti, w) => ExpectedWeight(anti, w) \in -1000 .. 1000
ASSUME SimpleEqFull /\ RenderLaws /\ ClampLaws

(* laws, selection half *)
R == ChooseDef(G, dl, rsv, cc)
Eff == EffectiveDefs(dl, rsv)
Inv_Choose ==
    phase = "choose" =>
      LET a == EffectiveAnn(cc)
          hits == {i \in DOMAIN Eff : DefMatches(G, Eff[i], cc)}
      IN  /\ (a.present /\ HasDef(Eff, a.val)) => (~R.err /\ R.name = a.val)
          /\ (a.present /\ ~HasDef(Eff, a.val)) => R.err
          /\ ~a.present => ~R.err
          /\ (~a.present /\ hits = {}) => R.name = DefaultName
          /\ (~a.present /\ hits # {}) => \E i \in hits : /\ Eff[i].name = R.name
                                                          /\ \A j \in hits : i <= j
          \* with an implicit reserved type, kube-system and the reserved namespaces go to it
          /\ (~a.present /\ ~HasDef(dl, ReservedName) /\ cc.pod.ns \in {"kube-system"} \cup (IF Len(rsv) > 0 THEN {"rsv-1"} ELSE {}))
                => R.name = ReservedName
          /\ HasDef(Eff, ReservedName) /\ HasDef(Eff, DefaultName)
          /\ \A i, j \in DOMAIN Eff : Eff[i].name = Eff[j].name => i = j
=============================================================================
