--------------------------- MODULE Sim_SidePlugin ---------------------------
(* Driver generation: random behaviours of SidePlugin, recorded as event sequences (handler + abstract  *)
(* arguments) and printed as JSON; engines/sideplug.py instantiates the abstract arguments with concrete *)
(* configuration texts, annotation values and container messages and replays them on the real plugins.   *)
(* Run with  tlc -simulate num=N -depth D.                                                               *)
(* Outcomes play no part in which events are possible (guards never read them), so the simulation takes  *)
(* every handler as served; calibration steps are taken silently (the Go driver issues calibration and   *)
(* probe requests itself, depending on what the REAL code answers).                                      *)
(* Every step draws the event type (weighted) and the arguments at random, so that a state has one       *)
(* successor and TLC spends its time on behaviours rather than on enumerating the siblings of each step. *)
EXTENDS SidePlugin, Sequences, Json

VARIABLES hist, emitted
CONSTANTS SimDepth,     \* recorded events per sequence
          WConfigure, WCreate, WStart, WStop, WClose    \* weights (per cent) of the event types; sum 100

\* (a parameter that depends on the state keeps TLC from evaluating a draw once and for all)
Rnd(S, h) == RandomElement(IF Len(h) >= 0 THEN S ELSE {})
TypeOf(n) == IF n <= WConfigure THEN "Configure"
             ELSE IF n <= WConfigure + WCreate THEN "Create"
             ELSE IF n <= WConfigure + WCreate + WStart THEN "Start"
             ELSE IF n <= WConfigure + WCreate + WStart + WStop THEN "Stop"
             ELSE "Close"

CtrRec(ev, c, a, r) == [ev |-> ev, c |-> c, a |-> a, r |-> r]
Complete == (Len(hist) = SimDepth /\ calib = {}) \/ closed

SimInit == Init /\ hist = <<>> /\ emitted = FALSE
SimNext ==
    \/ /\ calib # {} /\ \E k \in calib : Calib(k, "ok")
       /\ UNCHANGED <<hist, emitted>>
    \/ /\ Idle /\ Len(hist) < SimDepth /\ UNCHANGED emitted
       /\ \E n \in {Rnd(1..100, hist)} : LET t == TypeOf(n) IN      \* one draw per step
          \/ /\ t = "Configure"
             /\ \E ks \in {Rnd(CfgArgs, hist)} :
                   /\ Configure(ks[1], ks[2], "ok")
                   /\ hist' = Append(hist, [ev |-> "Configure", kind |-> ks[1], classes |-> ks[2]])
          \/ /\ t \in {"Create", "Start", "Stop"}
             /\ \E c \in {Rnd(Ctrs, hist)} :
                \* Start and Stop describe a container the way its last CreateContainer did (Sticky)
                \E a \in {IF t # "Create" /\ info[c] # Nil THEN info[c].a ELSE Rnd(Anns, hist)},
                   r \in {IF t # "Create" /\ info[c] # Nil THEN info[c].r ELSE Rnd(ResKinds, hist)} :
                   /\ hist' = Append(hist, CtrRec(t, c, a, r))
                   /\ \/ t = "Create" /\ Create(c, a, r, "ok")
                      \/ t = "Start" /\ Start(c, a, r, "ok")
                      \/ t = "Stop" /\ Stop(c, a, r, "ok")
          \/ /\ t = "Close"
             /\ Close("ok") /\ hist' = Append(hist, [ev |-> "Close"])
    \* emit the sequence once it is complete (full length, or the instance is gone)
    \/ /\ Complete /\ ~emitted
       /\ PrintT("HIST " \o ToJson([plugin |-> Plugin, events |-> hist]))
       /\ emitted' = TRUE /\ UNCHANGED <<vars, hist>>
SimSpec == SimInit /\ [][SimNext]_<<vars, hist, emitted>>
=============================================================================
