SPECIFICATION Spec
CONSTANTS
  Chunks = 2
  MaxVer = 4
  Deviation = "inplace"
INVARIANTS Inv_FileIsCompleteSnapshot
PROPERTIES Act_ReloadEqualsLastSave
CHECK_DEADLOCK FALSE
