SPECIFICATION Spec
CONSTANTS
  Chunks = 2
  MaxVer = 3
  Deviation = "inplace"
INVARIANTS Inv_FileIsCompleteSnapshot
PROPERTIES Act_ReloadEqualsLastSave
CHECK_DEADLOCK FALSE
