SPECIFICATION SimSpec
CONSTANTS
  Layouts <- MCLayouts
  Ids <- MCIds
  ReqMenu <- MCReqMenu
  MaxOffers = 2
  MaxMut = 100
  ReallocNodes <- MCReallocNodes
  ReallocTypes <- SimReallocTypes
  a = a
  b = b
  c = c
  Faithful = TRUE
  SimDepth = 12
INVARIANT Emit
