---------------------------- MODULE Sim_MemAlloc ----------------------------
(* Driver generation: random behaviours of the design spec, recorded as request   *)
(* histories (operation + arguments) and printed as JSON for replay on the real   *)
(* allocator.  Run with  tlc -simulate num=N -depth D.                            *)
EXTENDS MC_MemAlloc, Json

VARIABLE hist
CONSTANT SimDepth

LayName == IF lay = LayA THEN "LayA" ELSE "LayB"
Rec(op, i, r) == [op |-> op, id |-> ToString(i), size |-> r.size, prio |-> r.prio, strict |-> r.strict,
                  types |-> SetToSeq(r.types), aff |-> SetToSeq(r.aff)]

SimInit == Init /\ hist = <<>>
SimNext ==
    \/ \E i \in Ids, r \in ReqMenu :
          \/ Allocate(i, r) /\ hist' = Append(hist, Rec("Allocate", i, r))
          \/ Allocate(i, r) /\ hist' = Append(hist, Rec("AllocTwin", i, r))
          \/ GetOffer(i, r) /\ hist' = Append(hist, Rec("GetOffer", i, r) @@ [oid |-> noid])
    \/ \E o \in offers : Commit(o) /\ hist' = Append(hist, [op |-> "Commit", oid |-> o.oid])
    \/ \E i \in DOMAIN req, X \in ReallocNodes, T \in ReallocTypes :
          Realloc(i, X \cap lay.nodes, T)
          /\ hist' = Append(hist, [op |-> "Realloc", id |-> ToString(i), nodes |-> SetToSeq(X \cap lay.nodes), types |-> SetToSeq(T)])
    \/ \E i \in DOMAIN req : Release(i) /\ hist' = Append(hist, [op |-> "Release", id |-> ToString(i)])
SimSpec == SimInit /\ [][SimNext]_<<vars, hist>>

\* evaluated in every state: emit the history once it is complete
Emit == Len(hist) < SimDepth \/ PrintT("HIST " \o ToJson([layout |-> LayName, ops |-> hist]))
=============================================================================
