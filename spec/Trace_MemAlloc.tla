--------------------------- MODULE Trace_MemAlloc ---------------------------
(***************************************************************************)
(* Trace validation of the real libmem allocator against MemAlloc.         *)
(* One trace line = one public API call on the real allocator, with the    *)
(* call's arguments, its result and the full state projected through the   *)
(* public API (AssignedZone, ForeachRequest, ZoneUsage/ZoneFree, IsValid). *)
(* Every variable is bound from the log, so the search is linear.  The     *)
(* property predicates of MemAlloc (Step_, Bad_, Inv_ ...) are evaluated on  *)
(* every step; a violated predicate is recorded with a witness and a       *)
(* signature and the rest of the trace is still checked.  State            *)
(* invariants are attributed to the step that breaks them (new witnesses   *)
(* only).  Mechanism conformance (is the step an instance of the design    *)
(* action?) is recorded as DRIFT, never as a violation.                    *)
(***************************************************************************)
EXTENDS MemAlloc, Json, IOUtils

VARIABLES l,        \* next trace line
          viols,    \* recorded violations
          drift,    \* number of steps that are not instances of the design actions
          twinok,   \* twin allocator still in step (first divergence is reported once)
          done

Trace == ndJsonDeserialize(IOEnv.TRACE_FILE)
N     == Len(Trace)
E     == Trace[l]

tvars == <<vars, l, viols, drift, twinok, done>>

Has(r, f) == f \in DOMAIN r
SetOf(s)  == {s[i] : i \in DOMAIN s}
ZoneOf(j) == [i \in DOMAIN j |-> SetOf(j[i])]

LayoutOf(j) ==
    LET n == Len(j.nodes) IN
    [nodes  |-> 0 .. (n - 1),
     type   |-> [k \in 0 .. (n - 1) |-> j.nodes[k + 1].type],
     cap    |-> [k \in 0 .. (n - 1) |-> j.nodes[k + 1].cap],
     normal |-> {k \in 0 .. (n - 1) : j.nodes[k + 1].normal},
     dist   |-> [k \in 0 .. (n - 1) |-> [m \in 0 .. (n - 1) |-> j.nodes[k + 1].dist[m + 1]]]]

ReqOf(e) == [size |-> e.size, prio |-> e.prio, strict |-> e.strict, types |-> SetOf(e.types), aff |-> SetOf(e.aff)]

\* the reply of the call, in the shape MemAlloc's `last` has
ReplyOf(e, op, id) ==
    IF e.res.err THEN [op |-> op, id |-> id, err |-> TRUE]
    ELSE IF op \in {"Allocate", "Commit", "Realloc"}
         THEN [op |-> op, id |-> id, err |-> FALSE, z |-> SetOf(e.res.z), upd |-> ZoneOf(e.res.upd)]
         ELSE [op |-> op, id |-> id, err |-> FALSE]

V(pred, sig, w) == [pred |-> pred, sig |-> sig, w |-> ToString(w), line |-> l, h |-> E.h, k |-> IF Has(E, "k") THEN E.k ELSE -1,
                    ev |-> E.ev]

-----------------------------------------------------------------------------
(* The verdict-bearing predicates, evaluated on <<state, state'>> *)

OvercommitSig(Z) ==
    IF Z \in {zone'[i] : i \in DOMAIN zone'} THEN "assigned-zone"
    ELSE IF BadAssigned(lay, req', zone') = {} THEN "union-of-overlapping-zones"
    ELSE "superset-of-overcommitted-zone"

StepViolations(op) ==
    LET ok == ~last'.err
        newOC == IF ok THEN BadSets(lay, req', zone') \ BadSets(lay, req, zone) ELSE {}
        \* report only the minimal new overcommitted sets (supersets add nothing)
        minOC == {Z \in newOC : ~\E Y \in newOC : Y # Z /\ Y \subseteq Z}
    IN  {V("Inv_NoOvercommit", OvercommitSig(Z), Z) : Z \in minOC}
        \cup {V("Inv_StrictTypes", "strict-request-on-foreign-type", i) : i \in (Bad_StrictTypes' \ Bad_StrictTypes)}
        \cup {V("Inv_NormalNode", "zone-without-normal-memory", i) : i \in (Bad_NormalNode' \ Bad_NormalNode)}
        \cup (IF Step_FailAtomic THEN {} ELSE {V("Act_FailAtomic", "failed-call-changed-state", op)})
        \cup (IF Step_OfferPure THEN {} ELSE {V("Act_OfferPure", "offer-changed-state", op)})
        \cup {V("Act_Monotone", "zone-lost-nodes", i) : i \in Bad_Monotone}
        \cup {V("Act_Reservation", "reservation-moved", i) : i \in Bad_Reservation}
        \cup (IF Step_ExactUpdates THEN {} ELSE {V("Act_ExactUpdates", "update-map-differs-from-changes", op)})
        \cup (IF Step_ReleaseOnly THEN {} ELSE {V("Act_ReleaseOnly", "release-touched-others", op)})
        \cup (IF Step_StaleRefused THEN {} ELSE {V("Act_StaleRefused", "stale-offer-committed", op)})
        \cup (IF Step_FreshCommits THEN {} ELSE {V("Act_FreshCommits", "fresh-offer-refused", op)})
        \cup (IF ok /\ op \in {"Allocate", "Commit", "Realloc"} /\ last'.id \in DOMAIN zone' /\ last'.z # zone'[last'.id]
              THEN {V("Act_ExactUpdates", "returned-zone-differs-from-assignment", op)} ELSE {})

\* the allocator's own accounting agrees with the assignments (ZoneUsage counts every request confined to the mask)
AcctViolations ==
    {V("Inv_Accounting", "usage-or-free-disagrees-with-assignments", SetOf(a.z)) :
        a \in {b \in SetOf(E.st.acct) : LET Z == SetOf(b.z) IN
                  \* the public accessors mask the queried set with the nodes that have memory
                  LET ZM == Z \cap HasMem(lay) IN
                  \/ b.use # Usage(req', zone', ZM) \/ b.cap # Cap(lay, ZM) \/ b.free # b.cap - b.use}}

\* A (offer+commit / same call) and B (direct allocate / same call) agree on reply and state
TwinEqual == /\ E.res.err = E.res2.err
             /\ (~E.res.err /\ Has(E.res, "z") => (E.res.z = E.res2.z /\ E.res.upd = E.res2.upd))
             /\ E.st.zone = E.st2.zone
TwinViolations == IF twinok /\ ~TwinEqual
                  THEN {V("Act_CommitEqualsAllocate", IF E.ev = "AllocTwin" THEN "offer-commit-differs-from-allocate" ELSE "twin-diverged", E.ev)}
                  ELSE {}

-----------------------------------------------------------------------------
(* Mechanism conformance (DRIFT only) *)

IsDesignStep(op) ==
    CASE op = "Allocate" /\ ~last'.err ->
            LET i == last'.id
                z0 == InitialZone(lay, [req'[i] EXCEPT !.types = SetOf(E.types)])
            IN z0 # {} /\ z0 \subseteq zone'[i] /\ MovesOK(lay, req, zone, zone', i)
      [] OTHER -> TRUE

-----------------------------------------------------------------------------
(* Trace actions *)

Bind(op, id, rq2, of2, m2) ==
    /\ req' = rq2 /\ zone' = ZoneOf(E.st.zone)
    /\ offers' = of2 /\ mut' = m2 /\ version' = m2 + 1
    /\ last' = ReplyOf(E, op, id)
    /\ UNCHANGED <<lay, noid>>
    /\ viols' = viols \o SetToSeq(StepViolations(op) \cup AcctViolations \cup TwinViolations)
    /\ twinok' = (twinok /\ TwinEqual)
    /\ drift' = drift + (IF IsDesignStep(op) THEN 0 ELSE 1)
    /\ l' = l + 1 /\ UNCHANGED done

OkMut == IF E.res.err THEN mut ELSE mut + 1

TrReset ==
    /\ E.ev = "reset"
    /\ lay' = LayoutOf(E.lay)
    /\ req' = <<>> /\ zone' = <<>> /\ version' = 1 /\ mut' = 0 /\ offers' = {} /\ noid' = 1
    /\ last' = [op |-> "Init", err |-> FALSE]
    /\ twinok' = TRUE /\ l' = l + 1 /\ UNCHANGED <<viols, drift, done>>

\* Allocate and AllocTwin (A side: offer + immediate commit) both are "an allocation" for the spec
TrAllocate ==
    /\ E.ev \in {"Allocate", "AllocTwin"}
    /\ LET r  == ReqOf(E)
           r2 == [r EXCEPT !.types = IF Valid(lay, r) THEN StoredTypes(lay, r) ELSE r.types]
       IN Bind("Allocate", E.id, IF E.res.err THEN req ELSE req @@ (E.id :> r2), offers, OkMut)

TrGetOffer ==
    /\ E.ev = "GetOffer"
    /\ LET r  == ReqOf(E)
           r2 == [r EXCEPT !.types = IF Valid(lay, r) THEN StoredTypes(lay, r) ELSE r.types]
       IN Bind("GetOffer", E.id, req,
               IF E.res.err THEN offers ELSE offers \cup {[oid |-> E.oid, id |-> E.id, r |-> r2, mut |-> mut, amb |-> FALSE]}, mut)

TrCommit ==
    /\ E.ev = "Commit"
    /\ LET os == {o \in offers : o.oid = E.oid}
       IN IF os = {}
          THEN Bind("Commit", "?", req, offers, mut)          \* the harness had no such offer (refused by the harness)
          ELSE LET o == CHOOSE o \in os : TRUE
               IN Bind("Commit", o.id, IF E.res.err THEN req ELSE req @@ (o.id :> o.r), offers \ {o}, OkMut)

TrRealloc ==
    /\ E.ev = "Realloc"
    /\ LET X  == SetOf(E.nodes)
           T  == SetOf(E.types)
           ty == IF T = {} THEN TypesOfAll(lay, X) ELSE T
           changed == ~E.res.err /\ E.id \in DOMAIN zone /\ SetOf(E.res.z) # zone[E.id]
           \* a successful Realloc that changes nothing may or may not count as a re-allocation for the allocator
           \* (its no-op paths return early, others go through the full path): offers taken before it are
           \* neither required to be refused nor required to be accepted afterwards
           nochange == ~E.res.err /\ ~changed
       IN Bind("Realloc", E.id,
               IF changed THEN [req EXCEPT ![E.id].types = @ \cup ty] ELSE req,
               IF nochange THEN {[o EXCEPT !.amb = TRUE] : o \in offers} ELSE offers,
               IF changed THEN mut + 1 ELSE mut)

TrRelease ==
    /\ E.ev = "Release"
    /\ Bind("Release", E.id, IF E.res.err THEN req ELSE [j \in DOMAIN req \ {E.id} |-> req[j]], offers, OkMut)

TrResetOp ==
    /\ E.ev = "Reset"
    /\ Bind("Reset", "", <<>>, offers, mut + 1)

\* a call that did not return within the harness' time limit; the history is abandoned
TrHang ==
    /\ Has(E, "hang")
    /\ viols' = Append(viols, V("Act_Terminates", "call-did-not-return", E.ev))
    /\ l' = l + 1 /\ UNCHANGED <<vars, drift, twinok, done>>

TrUnknown ==
    /\ E.ev \notin {"reset", "Allocate", "AllocTwin", "GetOffer", "Commit", "Realloc", "Release", "Reset"}
    /\ viols' = Append(viols, V("Trace", "unknown-event", E.ev))
    /\ l' = l + 1 /\ UNCHANGED <<vars, drift, twinok, done>>

Finish ==
    /\ l = N + 1 /\ ~done
    /\ ndJsonSerialize(IOEnv.VIOL_FILE, viols)
    /\ PrintT("CONSUMED " \o ToString(l - 1))
    /\ PrintT("DRIFT " \o ToString(drift))
    /\ done' = TRUE /\ UNCHANGED <<vars, l, viols, drift, twinok>>

TraceInit ==
    /\ l = 1 /\ viols = <<>> /\ drift = 0 /\ twinok = TRUE /\ done = FALSE
    /\ lay = [nodes |-> {}, type |-> <<>>, cap |-> <<>>, normal |-> {}, dist |-> <<>>]
    /\ req = <<>> /\ zone = <<>> /\ version = 1 /\ mut = 0 /\ offers = {} /\ noid = 1
    /\ last = [op |-> "Init", err |-> FALSE]

TraceNext ==
    \/ (l <= N /\ (IF Has(E, "hang") THEN TrHang
                  ELSE (TrReset \/ TrAllocate \/ TrGetOffer \/ TrCommit \/ TrRealloc \/ TrRelease \/ TrResetOp \/ TrUnknown)))
    \/ Finish

TraceSpec == TraceInit /\ [][TraceNext]_tvars
=============================================================================
