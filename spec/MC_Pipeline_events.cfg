SPECIFICATION Spec
CONSTANTS
  Pods = {"p1", "p2"}
  Ctrs = {"c1", "c2"}
  PodOf <- MCPodOf
  Fields = {"cpus"}
  Vals = {1, 2}
  MaxWrites = 1
  SyncStates = {"created", "running", "stopped"}
  StrictPolicy = TRUE
  WithEvents = TRUE
  FlushOnError = TRUE
  ConsistentEnv = TRUE
INVARIANTS TypeOK Inv_RuntimeEqualsCache Inv_NothingPending Inv_AdjDescribesCreated Inv_FailedRequestFlushes
