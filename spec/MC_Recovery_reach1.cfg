SPECIFICATION Spec
CONSTANTS
  Ctrs = {"c1", "c2"}
  MaxVer = 4
  Deviation = "none"
INVARIANTS Goal_MidRequestCrash
