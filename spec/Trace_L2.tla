------------------------------ MODULE Trace_L2 ------------------------------
(***************************************************************************)
(* Trace validation of the REAL resource manager (real cache, real policy  *)
(* back-end, real NRI handler methods; see harness/internal/l2).           *)
(* One trace line = one request: the request, its reply (adjustment,       *)
(* updates, pushed updates, error, panic) and the abstract state projected *)
(* from the real objects.  The runtime's view of every container is NOT    *)
(* logged: it is folded here, from the replies, exactly as a runtime would *)
(* apply them (empty strings = field not set).                             *)
(*                                                                         *)
(* Evaluated on every step: the C05 predicates of Pipeline, the C01/C03    *)
(* predicates of TAPreds (topology-aware) or the C02 predicates of         *)
(* BalloonPreds (balloons), the C04 predicates (MemOps), C09 (quiescence,  *)
(* stopped containers hold nothing), C12 (opt-outs), C14 (no panic, still  *)
(* serving).  A state invariant is attributed to the step that breaks it   *)
(* (new witnesses only); every violation carries a signature naming the    *)
(* shape of the failure (known findings are matched on it).                *)
(***************************************************************************)
EXTENDS Pipeline, MemOps, TAPreds, BalloonPreds, Json, IOUtils

VARIABLES l, viols, done,
          world,     \* policy name, configuration in force (pinCPU, pinMemory, preferShared ...)
          pol,       \* policy snapshot (pools+grants | balloons)
          mem,       \* the policy allocator's view: [zone, size] per request id
          lay,       \* memory layout (from the reset line)
          pristine,  \* policy snapshot right after the configuration in force was applied (<<>>: not known)
          pristine0, \* policy snapshot right after boot
          taint,     \* containers whose cached resources a REJECTED configuration changed and nothing has re-decided since
          stopped,   \* containers that have been stopped (C09: they never hold resources again)
          broken,    \* currently broken (predicate, witness) pairs -- for attribution to the breaking step
          mems0,     \* memory nodes a container had when it was created (C12)
          topo,      \* CPU topology of the world (from the reset line)
          excused    \* live containers that lost their allocation in a bulk re-allocation (Sync/Reconfigure) while the
                     \* requested CPU exceeded half of the capacity: a failed allocation under exhaustion is not a violation

Trace == ndJsonDeserialize(IOEnv.TRACE_FILE)
N     == Len(Trace)
E     == Trace[l]

lvars == <<vars, l, viols, done, world, pol, mem, lay, pristine, pristine0, taint, stopped, broken, mems0, excused, topo>>

Has(r, f) == f \in DOMAIN r
SetOf(s)  == {s[i] : i \in DOMAIN s}
Get(r, f, d) == IF f \in DOMAIN r THEN r[f] ELSE d

TFields == {"cpus", "mems", "shares", "quota", "period", "memlim", "swap"}
ResOf(r) == [f \in DOMAIN r |-> IF f \in {"cpus", "mems"} THEN SetOf(r[f]) ELSE r[f]]

\* cache record of a container: the logged view plus `res`, the fields the plugin may tell
CtrOf(v) == v @@ [res |-> [cpus |-> SetOf(v.cpus), mems |-> SetOf(v.mems), shares |-> v.shares, quota |-> v.quota,
                           period |-> v.period, memlim |-> v.memlim, swap |-> v.swap]]
CtrsOf(st) == [c \in DOMAIN st.ctr |-> CtrOf(st.ctr[c])]

RECURSIVE ApplyUpds(_, _)
ApplyUpds(view, seq) ==
    IF seq = <<>> THEN view
    ELSE LET u == Head(seq)
         IN ApplyUpds(IF u.c \in DOMAIN view THEN [view EXCEPT ![u.c] = Merge(@, ResOf(u.r))] ELSE view, Tail(seq))
RECURSIVE ApplyBatches(_, _)
ApplyBatches(view, bs) == IF bs = <<>> THEN view ELSE ApplyBatches(ApplyUpds(view, Head(bs)), Tail(bs))

RECURSIVE ApplyConcat(_)
ApplyConcat(bs) == IF bs = <<>> THEN <<>> ELSE Head(bs) \o ApplyConcat(Tail(bs))
\* the harness logs initial mems both as string and as list (mems0l)
ParseList(x) == x

UpdTargets(seq) == {seq[i].c : i \in DOMAIN seq}
DupTargets(seq) == {c \in UpdTargets(seq) : Cardinality({i \in DOMAIN seq : seq[i].c = c}) > 1}
AllPushed == UNION {UpdTargets(E.pushed[i]) : i \in DOMAIN E.pushed}

V(pred, sig, w) == [pred |-> pred, sig |-> sig, w |-> ToString(w), line |-> l, h |-> E.h, k |-> Get(E, "k", -1), ev |-> E.ev]

IsTA == world.policy = "ta"
Ok   == ~E.err /\ ~E.panic

-----------------------------------------------------------------------------
(* Snapshot conversion: topology-aware *)

TAPools(s) == LET ps == SetOf(s.pools) IN
    [n \in {p.name : p \in ps} |->
        LET p == CHOOSE q \in ps : q.name = n
        IN [parent |-> p.parent, shar |-> SetOf(p.shar), rsv |-> SetOf(p.rsv), isol |-> SetOf(p.isol),
            fshar |-> SetOf(p.fshar), frsv |-> SetOf(p.frsv), fisol |-> SetOf(p.fisol), gshar |-> p.gshar, grsv |-> p.grsv]]
TAGrants(s) == LET gs == SetOf(s.grants) IN
    [c \in {g.c : g \in gs} |->
        LET g == CHOOSE x \in gs : x.c = c
        IN [pool |-> g.pool, excl |-> SetOf(g.excl), isol |-> SetOf(g.isol), ctype |-> g.ctype, portion |-> g.portion,
            mzone |-> SetOf(g.mzone)]]

\* the runtime's view of the CPU sets: live containers that have been told one
ToldCpus(view, live) == [c \in {c \in live \cap DOMAIN view : "cpus" \in DOMAIN view[c]} |-> view[c].cpus]

\* reserved class: reserved-CPU annotation, else kube-system / a configured reserved namespace
RsvClass(k) == IF Has(k.ann, "rsv") /\ k.ann.rsv \in {"true", "false"} THEN k.ann.rsv = "true" ELSE k.rsvns
PShared(k)  == IF Has(k.ann, "shared") /\ k.ann.shared \in {"true", "false"} THEN k.ann.shared ELSE "unset"

-----------------------------------------------------------------------------
(* Violation sets of the post-state (primed variables are bound before these are evaluated) *)

\* -- C05 --
C05State ==
    {<<"Inv_RuntimeEqualsCache", w>> : w \in {w \in Bad_RuntimeEqualsCache(rt', rtlive', ctrs') : w[1] \notin evpend'}}
    \cup {<<"Inv_NothingPending", c>> : c \in Bad_NothingPending(pend', rtlive', ctrs') \ evpend'}
C05Step ==
    LET tg == UpdTargets(E.upd) \cup AllPushed
        liveAfter == rtlive' \cup (IF E.ev = "Update" THEN {E.c} ELSE {})
    IN {V("Act_NoUpdateToDead", IF c \in stopped' THEN "update-to-stopped-container" ELSE "update-to-unknown-container", c) : c \in tg \ liveAfter}
       \cup {V("Act_AtMostOneUpdatePerCtr", "duplicate-update-in-reply", c) : c \in DupTargets(E.upd)}
       \cup UNION {{V("Act_AtMostOneUpdatePerCtr", "duplicate-update-in-push", c) : c \in DupTargets(E.pushed[i])} : i \in DOMAIN E.pushed}
       \cup (IF E.ev = "Create" /\ Ok /\ E.c \in DOMAIN ctrs'
             THEN {V("Act_AdjustmentDescribesCreated", "adjustment-field-differs-from-cache", f) :
                     f \in {f \in DOMAIN E.adj : ResOf(E.adj)[f] # ctrs'[E.c].res[f]}}
             ELSE {})
       \cup (IF E.ev = "Create" /\ ~Ok /\ E.hasadj THEN {V("Act_AdjustmentDescribesCreated", "adjustment-with-error", E.c)} ELSE {})

\* live containers without a grant; CPU demand of the live containers vs. the sharable capacity of the machine
Grantless == IF ~IsTA
    THEN {c \in rtlive' \cap DOMAIN ctrs' : ctrs'[c].st \in {"created", "running"} /\ ~ctrs'[c].pcpu /\ c \notin BalloonMembers(pol')}
    ELSE {c \in rtlive' \cap DOMAIN ctrs' : ctrs'[c].st \in {"created", "running"} /\ ~\E g \in SetOf(pol'.grants) : g.c = c}
\* balloons hands out whole CPUs per balloon: with (almost) no idle CPU left a bulk re-allocation cannot place everybody
HalfLoaded == IF ~IsTA THEN (pol' # <<>> /\ Cardinality(SetOf(pol'.free)) <= 1) ELSE
    LET L == {c \in DOMAIN ctrs' : ctrs'[c].st \in {"created", "running"}}
        demand == MapThenSumSet(LAMBDA c : ctrs'[c].cpureq, L)
        cap    == 1000 * Cardinality(SetOf(pol'.allowed) \ (SetOf(pol'.reserved) \cup SetOf(pol'.isolated)))
    IN 2 * demand > cap
\* ... and a container that needs more whole CPUs than are idle after the bulk re-allocation cannot be placed either
\* (e.g. an accepted configuration that shrinks the available CPUs below what the running containers ask for)
TooBigForIdle == IF IsTA \/ pol' = <<>> THEN {}
                 ELSE {c \in Grantless : (ctrs'[c].cpureq + 999) \div 1000 > Cardinality(SetOf(pol'.free) \ SetOf(pol'.reserved))}
Excused2 == (excused \cap Grantless)
            \cup (IF E.ev \in {"Sync", "Reconfigure", "Restart"} THEN (IF HalfLoaded THEN Grantless ELSE TooBigForIdle) ELSE {})

\* -- C01 / C03 (topology-aware) --
TAState ==
    LET P == TAPools(pol')
        G == TAGrants(pol')
        T == ToldCpus(rt', rtlive')
        allowed  == SetOf(pol'.allowed)
        reserved == SetOf(pol'.reserved)
        RC == {c \in DOMAIN ctrs' : RsvClass(ctrs'[c])}
        pinned == {c \in DOMAIN G \cap DOMAIN ctrs' : world'.pincpu /\ ~ctrs'[c].pcpu /\ ctrs'[c].st \in {"created", "running"}}
    IN {<<"Inv_ExclDisjoint", w>> : w \in Bad_ExclDisjoint(G)}
       \cup {<<"Inv_ExclNotInOthersTold", w>> : w \in Bad_ExclInOthersTold(G, T)}
       \cup {<<"Inv_ExclNotInPoolShared", w>> : w \in Bad_ExclInPoolShared(P, G)}
       \cup {<<"Inv_ToldWithinAllowed", c>> : c \in Bad_ToldOutsideAllowed(T, allowed)}
       \cup {<<"Inv_ReservedOnlyReservedClass", c>> : c \in Bad_ReservedMisuse(T, reserved, RC)}
       \cup {<<"Inv_SharedCapacity", p>> : p \in Bad_SharedCapacity(P, G)}
       \cup {<<"Inv_ReservedCapacity", p>> : p \in Bad_ReservedCapacity(P, G)}
       \cup {<<"Inv_IsolatedAllOrNone", c>> : c \in Bad_IsolatedAllOrNone(G) \cup Bad_IsolatedAllOrNoneOf(G, SetOf(pol'.isolated))}
       \cup {<<"Inv_SharedHasNoIsolated", p>> : p \in Bad_SharedHasIsolated(P, SetOf(pol'.isolated))}
       \cup {<<"Inv_IsolatedOnlyByGrant", c>> : c \in Bad_ToldIsolated(G, T, SetOf(pol'.isolated)) \cap pinned}
       \cup {<<"Inv_NonEmptyCpuset", c>> : c \in {c \in pinned : ctrs'[c].res.cpus = {}}}
       \cup {<<"Inv_GrantMatchesEligibility", c>> :
                c \in {c \in DOMAIN G \cap DOMAIN ctrs' :
                          Cardinality(G[c].excl) # ExpectedExclusive([qos |-> ctrs'[c].qos, req |-> ctrs'[c].cpureq,
                                rsvclass |-> RsvClass(ctrs'[c]), pshared |-> PShared(ctrs'[c]), pcpu |-> ctrs'[c].pcpu],
                                world'.prefershared)}}
       \cup {<<"Inv_SharesEncoding", c>> :
                c \in {c \in pinned : G[c].ctype # "preserve" /\ ctrs'[c].res.shares # MilliCPUToShares(GrantCapacity(G[c]))}}
       \cup {<<"Drift_Ledger", p>> : p \in Bad_Ledger(P, G)}
       \* every created/running container the runtime has holds a grant
       \cup {<<"Inv_LiveHoldsGrant", c>> : c \in Grantless \ excused'}

\* -- C04: memory pinning follows the allocator; no node set oversubscribed --
MemZone(m) == [c \in DOMAIN m.zone |-> SetOf(m.zone[c])]
MemReq(m)  == [c \in DOMAIN m.size |-> [size |-> m.size[c]]]
\* does the CONFIGURATION in force pin the memory of container c?  balloons: the type-level switch, where the
\* configuration gives one, overrides the policy-level switch
DefsOfCtr(c)  == IF IsTA \/ pol' = <<>> THEN {} ELSE {b.def : b \in BalloonsOf(pol', c)}
PinsMemCfg(c) == IF DefsOfCtr(c) \cap world'.typenopin # {} THEN FALSE
                 ELSE IF DefsOfCtr(c) # {} /\ DefsOfCtr(c) \subseteq world'.typedopin THEN TRUE
                 ELSE world'.pinmemory
PinMemOf(c) == PinsMemCfg(c) /\ ~ctrs'[c].pmem /\ (IsTA \/ BalloonPinsMemory(pol', c))
C04State ==
    LET Z == MemZone(mem')
        holders == {c \in DOMAIN Z \cap DOMAIN ctrs' : ctrs'[c].st \in {"created", "running"} /\ PinMemOf(c)}
    IN {<<"Inv_MemsFollowAllocator", c>> : c \in {c \in holders : ctrs'[c].res.mems # Z[c]}}
       \cup {<<"Inv_MemsNonEmptyExisting", c>> :
                c \in {c \in holders : ctrs'[c].res.mems = {} \/ ~(ctrs'[c].res.mems \subseteq HasMem(lay))}}
       \cup {<<"Inv_NoZoneOvercommit", Zs>> : Zs \in (IF Ok THEN BadSets(lay, MemReq(mem'), Z) ELSE {})}

\* -- C09: stopped containers hold nothing; with nothing alive the policy is pristine --
Holders == IF IsTA THEN {g.c : g \in SetOf(pol'.grants)} ELSE BalloonMembers(pol')
Quiet(st) == \A c \in DOMAIN st : st[c].st \notin {"creating", "created", "running"}
C09State ==
    {<<"Act_StoppedNeverHolds", c>> : c \in (Holders \cup DOMAIN mem'.zone) \cap stopped'}
    \cup {<<"Inv_NoHolderWithoutContainer", c>> : c \in Holders \ DOMAIN ctrs'}
    \* a container whose creation was refused does not exist: it holds nothing, now or later
    \cup {<<"Inv_NoHolderWithoutContainer", c>> : c \in {c \in Holders \cap DOMAIN ctrs' : ctrs'[c].st = "stale"}}
    \cup (IF Quiet(ctrs') /\ rtlive' = {} /\ pristine' # <<>>
          THEN (IF IsTA THEN {<<"Inv_Quiescent", w>> : w \in
                                  {p.name : p \in {p \in SetOf(pol'.pools) : \E q \in SetOf(pristine'.pools) :
                                        q.name = p.name /\ (q.fshar # p.fshar \/ q.fisol # p.fisol \/ q.frsv # p.frsv
                                                            \/ p.gshar # 0 \/ p.grsv # 0)}}
                                  \cup {g.c : g \in SetOf(pol'.grants)}}
                ELSE {<<"Inv_Quiescent", w>> : w \in BalloonNotPristine(pol', pristine')})
               \cup {<<"Inv_QuiescentNoMemory", c>> : c \in DOMAIN mem'.zone}
          ELSE {})

\* -- C12: opted-out containers --
C12Step ==
    LET all == E.upd \o (IF E.pushed = <<>> THEN <<>> ELSE ApplyConcat(E.pushed))
        cpuOut(c) == c \in DOMAIN ctrs' /\ (ctrs'[c].pcpu \/ ~world'.pincpu)
        memOut(c) == c \in DOMAIN ctrs' /\ (ctrs'[c].pmem \/ ~PinsMemCfg(c))
        told == [i \in DOMAIN all |-> all[i]]
        adjc == IF E.ev = "Create" /\ Ok THEN <<[c |-> E.c, r |-> E.adj]>> ELSE <<>>
        every == adjc \o all
        \* F-C12-3: CPU pinning was switched off by a configuration update AFTER the container had been pinned; the cache
        \* keeps the cpuset and later requests re-send it UNCHANGED (UpdateContainer with identical resources: nri.go
        \* short-circuit path; flush of changes an earlier failed request left pending)
        retold(i) == /\ ~world'.pincpu /\ ~ctrs'[every[i].c].pcpu /\ every[i].c \in DOMAIN rt
                     /\ Has(rt[every[i].c], "cpus") /\ rt[every[i].c].cpus = SetOf(every[i].r.cpus)
        \* F-C13-3 seen under C12: a configuration that would switch CPU pinning on is rejected while being applied
        \* (a re-allocation fails); the cpusets already decided under it are pushed although pinning stays off
        \* the memory nodes the container has: what it was last told, else what it was created with
        curMems(c) == IF c \in DOMAIN rt /\ Has(rt[c], "mems") THEN rt[c].mems ELSE Get(mems0', c, {})
        rejectedOn(i) == \/ /\ E.ev = "Reconfigure" /\ E.err /\ ~world'.pincpu /\ ~ctrs'[every[i].c].pcpu
                            /\ Has(E, "config") /\ Get(E.config, "pinCPU", TRUE)
                         \* ... or left pending by it and delivered by this request
                         \/ /\ every[i].c \in residue /\ ~world'.pincpu /\ ~ctrs'[every[i].c].pcpu
    IN {V("Act_PreserveCpuNeverTold",
          IF retold(i) THEN "unchanged-cpuset-retold-after-cpu-pinning-switched-off"
          ELSE IF rejectedOn(i) THEN "cpuset-pushed-by-configuration-rejected-while-switching-cpu-pinning-on"
          ELSE "cpuset-told-to-cpu-opted-out-container", every[i].c) :
            i \in {i \in DOMAIN every : cpuOut(every[i].c) /\ Has(every[i].r, "cpus")}}
       \cup {V("Act_PreserveMemNeverChanged",
                  \* F-C12-2: balloons pinCpuMem writes the allocator's zone to a memory.preserve container
                  IF ~IsTA /\ ctrs'[every[i].c].pmem THEN "balloons-writes-allocator-zone-to-memory-preserve-container"
                  ELSE "mems-told-to-memory-opted-out-container", every[i].c) :
            i \in {i \in DOMAIN every : memOut(every[i].c) /\ Has(every[i].r, "mems")
                                          /\ SetOf(every[i].r.mems) # curMems(every[i].c)}}

\* -- C11: after Synchronize exactly the containers the runtime reports created/running hold allocations, the rest is purged --
C11Step ==
    IF E.ev # "Sync" \/ ~Ok THEN {}
    ELSE LET live2 == {c \in DOMAIN E.rtctrs : E.rtctrs[c] \in {"created", "running"}}
             optout == {c \in DOMAIN ctrs' : ctrs'[c].pcpu /\ ~IsTA}       \* balloons does not handle cpu.preserve containers
         IN {V("Act_SyncPurgesUnknown", "container-not-in-runtime-list-still-cached", c) : c \in DOMAIN ctrs' \ DOMAIN E.rtctrs}
            \cup {V("Act_SyncPurgesUnknown", "pod-not-in-runtime-list-still-cached", p) : p \in pods' \ SetOf(E.rtpods)}
            \cup {V("Act_SyncExactlyLiveHold", "holds-resources-but-not-reported-alive", c) : c \in Holders \ live2}
            \cup {V("Act_SyncExactlyLiveHold", "reported-alive-but-holds-nothing", c) :
                     c \in ((live2 \cap DOMAIN ctrs') \ Holders) \ (optout \cup excused')}

\* -- C13: reconfiguration --
ResSame(a, b) == \A c \in DOMAIN a \cap DOMAIN b : a[c].res = b[c].res
\* with a pool oversubscribed (F-C03-1) re-instating the grants fails and everything is re-allocated from scratch
OverSub == IF IsTA /\ pol # <<>> /\ Bad_SharedCapacity(TAPools(pol), TAGrants(pol)) # {} THEN "-while-pool-oversubscribed" ELSE ""
C13Step ==
    IF E.ev # "Reconfigure" THEN {}
    ELSE LET chg   == {c \in DOMAIN ctrs \cap DOMAIN ctrs' : ctrs[c].res # ctrs'[c].res}
             chgRt == {c \in DOMAIN rt : rt'[c] # rt[c]}
             \* consequences of known roots: a starved pool (F-C03-1) whose containers get their cpuset emptied, and changes
             \* a failed request left pending (F-C05-1/2) that the re-configuration flushes
             emptiedOnly == \A c \in chg : ctrs'[c].res.cpus = {} /\ [ctrs'[c].res EXCEPT !.cpus = ctrs[c].res.cpus] = ctrs[c].res
         IN
         (IF Ok /\ Get(E, "same", FALSE) /\ chg # {}
          THEN {V("Act_ReconfigSameIsNoop", IF emptiedOnly THEN "unchanged-config-emptied-cpuset-in-starved-pool"
                                            ELSE IF chg \subseteq pend THEN "unchanged-config-flushed-changes-left-pending"
                                            \* F-C13-3 consequence: the cache still held what a configuration rejected while being
                                            \* applied had written; re-applying the configuration in force writes the grants' values back
                                            ELSE IF chg \subseteq taint THEN "unchanged-config-redecided-what-a-rejected-configuration-left"
                                            ELSE "unchanged-config-changed-container-resources" \o OverSub, chg)} ELSE {})
         \cup (IF Ok /\ Get(E, "same", FALSE) /\ chgRt # {}
               THEN {V("Act_ReconfigSameIsNoop", IF chgRt \subseteq pend THEN "unchanged-config-flushed-changes-left-pending"
                                                 ELSE IF chgRt \subseteq taint THEN "unchanged-config-redecided-what-a-rejected-configuration-left"
                                                 ELSE "unchanged-config-pushed-different-resources" \o OverSub, chgRt)} ELSE {})
         \cup (IF E.err /\ ~ResSame(ctrs, ctrs')
               THEN {V("Act_RejectedIsNoop", "rejected-at-" \o Get(E, "rejkind", "unknown") \o "-changed-container-resources" \o OverSub,
                       {c \in DOMAIN ctrs \cap DOMAIN ctrs' : ctrs[c].res # ctrs'[c].res})} ELSE {})
         \cup (IF E.err /\ (pol' # pol \/ mem' # mem)
               THEN {V("Act_RejectedIsNoop", "rejected-at-" \o Get(E, "rejkind", "unknown") \o "-changed-policy-state" \o OverSub, E.ev)} ELSE {})
\* twin comparison (done by the driver on three runs: with the rejected update, without, and a control without):
\* identical follow-up requests give identical replies and states whenever the control agrees
C13Twin ==
    IF Has(E, "tw") /\ E.tw.ctl /\ ~E.tw.same
    THEN {V("Act_RejectedLeavesNoTrace", "follow-up-differs-from-twin-that-never-saw-the-update", E.tw.diff)} ELSE {}

\* -- mechanism drift (never a verdict): the container life cycle of Pipeline.tla against what the cache shows --
DriftStep ==
    LET known(c) == c \in DOMAIN ctrs
        st2(c)   == IF c \in DOMAIN ctrs' THEN ctrs'[c].st ELSE "none"
        c == Get(E, "c", "-")
    IN (IF E.ev = "Create" /\ Ok /\ st2(c) # "created" THEN {V("Drift_Lifecycle", "created-container-is-" \o st2(c), c)} ELSE {})
       \cup (IF E.ev = "Create" /\ E.err /\ ~E.panic /\ st2(c) \notin {"stale", "none"} /\ ~known(c)
             THEN {V("Drift_Lifecycle", "refused-container-is-" \o st2(c), c)} ELSE {})
       \cup (IF E.ev = "Start" /\ Ok /\ known(c) /\ ctrs[c].st = "created" /\ st2(c) # "running"
             THEN {V("Drift_Lifecycle", "started-container-is-" \o st2(c), c)} ELSE {})
       \cup (IF E.ev = "Stop" /\ Ok /\ known(c) /\ st2(c) # "exited" THEN {V("Drift_Lifecycle", "stopped-container-is-" \o st2(c), c)} ELSE {})
       \cup (IF E.ev = "Remove" /\ Ok /\ st2(c) # "none" THEN {V("Drift_Lifecycle", "removed-container-is-" \o st2(c), c)} ELSE {})
       \cup (IF E.ev = "RemovePod" /\ Ok /\ Get(E, "pod", "-") \in pods' THEN {V("Drift_Lifecycle", "removed-pod-still-cached", E.pod)} ELSE {})
       \cup (IF E.ev = "RunPod" /\ Ok /\ Get(E, "pod", "-") \notin pods' THEN {V("Drift_Lifecycle", "run-pod-not-cached", E.pod)} ELSE {})

\* -- C14 --
C14Step ==
    (IF E.panic THEN {V("Act_NoPanic", "panic-in-" \o E.ev, Get(E, "panicmsg", ""))} ELSE {})
    \cup (IF Has(E, "statepanic") THEN {V("Act_NoPanic", "panic-while-reading-state", E.statepanic)} ELSE {})
    \cup (IF Get(E, "tag", "") = "probe" /\ (E.err \/ E.panic)
          THEN {V("Act_StillServes", "valid-request-refused-after-" \o Get(E, "after", "history"), E.ev)} ELSE {})

-----------------------------------------------------------------------------
(* Signatures: WHO broke the invariant (the event of this step and its outcome) *)
StepSig == E.ev \o (IF E.err THEN "-failed" ELSE "-ok")
SigOf(pw) ==
    LET pred == pw[1]
        w    == pw[2]
        emptied(c) == c \in DOMAIN ctrs' /\ ctrs'[c].res.cpus = {}     \* the cache says "" = the runtime keeps what it had
    IN \* F-C13-5: with CPU pinning switched off the policy no longer tells cpusets; the runtime keeps what it was told before
       IF pred \in {"Inv_ReservedOnlyReservedClass", "Inv_ToldWithinAllowed", "Inv_ExclNotInOthersTold"} /\ ~world'.pincpu
       THEN "cpu-pinning-off-runtime-keeps-old-cpuset"
       ELSE IF pred = "Inv_SharedCapacity" /\ IsTA THEN
            \* F-C03-1: the pool lost shared CPUs to an exclusive slice taken at one of its ancestors in this step
            \* (witness shape: some grant made at a strict ancestor holds exclusive CPUs of this pool's sharable supply)
            (IF \E g \in SetOf(pol'.grants) : g.pool \in AncOf(TAPools(pol'), w) /\ SetOf(g.excl) \cap TAPools(pol')[w].shar # {}
             THEN "exclusive-slice-at-ancestor-starves-descendant" ELSE "after-" \o StepSig)
       ELSE IF pred = "Inv_NonEmptyCpuset" /\ IsTA THEN
            (IF \E g \in SetOf(pol'.grants) : g.c = w /\ g.excl = <<>> /\ TAPools(pol')[g.pool].fshar = {}
             THEN "shared-set-of-pool-is-empty" ELSE "after-" \o StepSig)
       ELSE IF pred = "Inv_RuntimeEqualsCache" /\ w[2] = "cpus" /\ emptied(w[1]) THEN "cache-cpuset-emptied-runtime-keeps-old"
       ELSE IF pred = "Inv_RuntimeEqualsCache" /\ w[2] = "mems" /\ w[1] \in DOMAIN ctrs' /\ ctrs'[w[1]].res.mems = {}
            THEN "cache-mems-emptied-runtime-keeps-old"
       ELSE IF pred = "Inv_ExclNotInOthersTold" /\ emptied(w[2]) THEN "other-cpuset-emptied-runtime-keeps-old"
       ELSE IF pred \in {"Inv_ToldWithinAllowed", "Inv_ReservedOnlyReservedClass", "Inv_IsolatedOnlyByGrant"} /\ emptied(w)
            THEN "cache-cpuset-emptied-runtime-keeps-old"
       ELSE IF pred = "Inv_ExclNotInOthersTold" /\ IsTA /\ ~\E g \in SetOf(pol'.grants) : g.c = w[2]
            THEN "other-container-holds-no-grant"
       \* consequence of F-C05-5/F-C13-3: a configuration rejected while being applied left a cpuset in the cache that
       \* disagrees with the (restored) grants; whichever request flushes it tells the runtime that cpuset
       ELSE IF pred = "Inv_ExclNotInOthersTold" /\ w[2] \in taint \cup taint' THEN "other-cpuset-left-by-rejected-configuration"
       ELSE IF pred \in {"Inv_ReservedOnlyReservedClass", "Inv_ToldWithinAllowed", "Inv_IsolatedOnlyByGrant"} /\ w \in taint \cup taint'
            THEN "cpuset-left-by-rejected-configuration"
       \* consequence of F-C05-1: a container left grant-less by a failed Update keeps its stale pinning whatever changes
       ELSE IF pred \in {"Inv_ReservedOnlyReservedClass", "Inv_ToldWithinAllowed"} /\ IsTA /\ w \in DOMAIN ctrs'
               /\ ~\E g \in SetOf(pol'.grants) : g.c = w
            THEN "container-holds-no-grant"
       \* F-C13-6: an accepted configuration change re-instates existing grants verbatim even when the new configuration
       \* changes what the container is eligible for (reserved namespaces, preferSharedCPUs)
       ELSE IF pred \in {"Inv_ReservedOnlyReservedClass", "Inv_GrantMatchesEligibility"} /\ E.ev = "Reconfigure" /\ Ok
               /\ LET c == IF pred = "Inv_GrantMatchesEligibility" THEN w ELSE w
                  IN c \in DOMAIN ctrs /\ c \in DOMAIN ctrs'
                     /\ (RsvClass(ctrs[c]) # RsvClass(ctrs'[c]) \/ world.prefershared # world'.prefershared)
            THEN "eligibility-changed-by-new-configuration"
       \* F-C07-1 at policy level: the allocator only examines masks that are some request's zone; overlapping zones
       \* (e.g. two NUMA nodes each paired with the same PMEM node) can jointly oversubscribe their union
       ELSE IF pred = "Inv_NoZoneOvercommit" THEN
            (IF w \in {MemZone(mem')[c] : c \in DOMAIN MemZone(mem')} THEN "assigned-zone-after-" \o StepSig
             ELSE IF BadAssigned(lay, MemReq(mem'), MemZone(mem')) = {} THEN "union-of-overlapping-zones"
             ELSE "superset-of-overcommitted-zone")
       ELSE IF pred = "Inv_LiveHoldsGrant" THEN (IF E.err THEN "left-by-failed-" \o E.ev ELSE "after-" \o StepSig)
       ELSE IF pred \in {"Inv_RuntimeEqualsCache", "Inv_NothingPending"} THEN
            (IF E.err
             THEN "left-by-failed-" \o E.ev \o
                  \* F-C05-5: with a pool oversubscribed (F-C03-1) even the identical configuration, and the revert, fail
                  (IF E.ev = "Reconfigure" /\ IsTA /\ pol # <<>> /\ Bad_SharedCapacity(TAPools(pol), TAGrants(pol)) # {}
                   THEN "-while-pool-oversubscribed" ELSE "")
             ELSE "after-" \o StepSig)
       ELSE "after-" \o StepSig

StateViols == C05State \cup (IF IsTA THEN TAState ELSE BalloonState(pol', ctrs', rt', rtlive', world', topo, SetOf(Get(E.st, "cpuclass", <<>>)), excused')) \cup C04State \cup C09State
NewViols == {V(pw[1], SigOf(pw), pw[2]) : pw \in StateViols \ broken}

-----------------------------------------------------------------------------
(* Trace actions *)

\* balloon types for which the CONFIGURATION switches memory pinning off (the policy's own view of its types, logged
\* in the snapshot, is what is being checked, not the reference)
TypeNoPin(cfg) == {t.name : t \in {t \in SetOf(Get(cfg, "balloonTypes", <<>>)) : Has(t, "pinMemory") /\ ~t.pinMemory}}
\* ... and those for which it switches it ON explicitly (the type-level switch overrides the policy-level one)
TypeDoPin(cfg) == {t.name : t \in {t \in SetOf(Get(cfg, "balloonTypes", <<>>)) : Has(t, "pinMemory") /\ t.pinMemory}}
WorldOf(e) ==
    LET cfg == e.world.config
    IN [policy |-> e.world.policy,
        pincpu |-> Get(cfg, "pinCPU", TRUE), pinmemory |-> Get(cfg, "pinMemory", TRUE),
        prefershared |-> Get(cfg, "preferSharedCPUs", FALSE), typenopin |-> TypeNoPin(cfg), typedopin |-> TypeDoPin(cfg)]
CfgWorld(w, cfg) == [w EXCEPT !.pincpu = Get(cfg, "pinCPU", TRUE), !.pinmemory = Get(cfg, "pinMemory", TRUE),
                              !.prefershared = Get(cfg, "preferSharedCPUs", FALSE), !.typenopin = TypeNoPin(cfg), !.typedopin = TypeDoPin(cfg)]

LayoutOf(nodes) ==
    LET ns == SetOf(nodes) IN
    [nodes  |-> {n.id : n \in ns},
     type   |-> [i \in {n.id : n \in ns} |-> (CHOOSE n \in ns : n.id = i).type],
     cap    |-> [i \in {n.id : n \in ns} |-> (CHOOSE n \in ns : n.id = i).cap],
     normal |-> {n.id : n \in {n \in ns : n.normal}}]

TrReset ==
    /\ E.ev = "reset"
    /\ IF Has(E, "booterr")
       THEN /\ world' = [policy |-> "none", pincpu |-> TRUE, pinmemory |-> TRUE, prefershared |-> FALSE, typenopin |-> {}, typedopin |-> {}]
            /\ pol' = <<>> /\ mem' = [zone |-> <<>>, size |-> <<>>] /\ lay' = [nodes |-> {}, type |-> <<>>, cap |-> <<>>, normal |-> {}]
            /\ pristine' = <<>> /\ pristine0' = <<>>
       ELSE /\ world' = WorldOf(E) /\ pol' = E.st.pol /\ mem' = E.st.mem /\ lay' = LayoutOf(E.memnodes) /\ pristine' = E.st.pol
            /\ pristine0' = E.st.pol
    /\ pods' = {} /\ ctrs' = <<>> /\ req' = <<>> /\ pend' = {} /\ rt' = <<>> /\ rtlive' = {} /\ residue' = {} /\ evpend' = {}
    /\ reply' = Reply("reset", None, FALSE, <<>>, <<>>, <<>>)
    /\ stopped' = {} /\ broken' = {} /\ mems0' = <<>> /\ excused' = {} /\ topo' = SetOf(Get(E, "topo", <<>>)) /\ taint' = {}
    /\ l' = l + 1 /\ UNCHANGED <<viols, done>>

\* a request whose post-state was logged
TrStep ==
    /\ E.ev # "reset" /\ ~Has(E, "hang") /\ Has(E, "st")
    /\ ctrs' = CtrsOf(E.st) /\ pods' = SetOf(E.st.pods) /\ pend' = SetOf(E.st.pend)
    /\ req' = [c \in DOMAIN ctrs' |-> NoReq]
    \* containers whose change a configuration rejected while being applied left pending
    /\ residue' = IF E.ev = "Reconfigure" /\ E.err THEN pend' ELSE residue \cap pend'
    \* a change made by a policy event (cold start completion) is pending by design until a request drains it
    /\ evpend' = (evpend \cap pend') \cup (IF E.ev = "ColdDone" THEN pend' \ pend ELSE {})
    /\ pol' = E.st.pol /\ mem' = E.st.mem /\ UNCHANGED <<lay, topo>>
    /\ world' = IF E.ev = "Reconfigure" /\ Ok THEN CfgWorld(world, E.config) ELSE world
    \* the configuration booted with has the boot snapshot as its pristine state whenever it is (re-)applied; another
    \* one applied with nothing alive defines its own; applied under load it leaves the pristine state unknown
    /\ pristine' = IF E.ev = "Reconfigure" /\ Ok
                   THEN (IF Get(E, "sameboot", FALSE) THEN pristine0
                         ELSE IF Quiet(ctrs') THEN E.st.pol ELSE IF Get(E, "same", FALSE) THEN pristine ELSE <<>>)
                   ELSE pristine
    /\ UNCHANGED pristine0
    /\ taint' = IF E.ev = "Reconfigure" /\ E.err
                THEN taint \cup {c \in DOMAIN ctrs \cap DOMAIN ctrs' : ctrs[c].res # ctrs'[c].res}
                ELSE {c \in taint \cap DOMAIN ctrs \cap DOMAIN ctrs' : ctrs'[c].res = ctrs[c].res}
    /\ reply' = Reply(E.ev, Get(E, "c", None), E.err, <<>>, <<>>, <<>>)
    /\ mems0' = IF E.ev = "Create" THEN (E.c :> SetOf(Get(E, "mems0l", <<>>))) @@ mems0 ELSE mems0
    /\ stopped' = CASE E.ev \in {"Stop"} -> stopped \cup {E.c}
                    [] E.ev = "Create" -> stopped \ {E.c}
                    [] E.ev = "Sync" -> (stopped \ {c \in DOMAIN E.rtctrs : E.rtctrs[c] \in {"created", "running"}})
                                         \cup {c \in DOMAIN E.rtctrs : E.rtctrs[c] = "stopped"}
                    [] OTHER -> stopped
    /\ CASE E.ev = "Create" ->
              /\ rtlive' = IF Ok THEN rtlive \cup {E.c} ELSE rtlive \ {E.c}
              \* (unsolicited updates pushed while the request is served reach the runtime before its reply does)
              /\ rt' = ApplyUpds(ApplyBatches(IF Ok THEN (E.c :> ResOf(E.adj)) @@ rt ELSE rt, E.pushed), E.upd)
         [] E.ev = "Stop" -> rtlive' = rtlive \ {E.c} /\ rt' = ApplyUpds(ApplyBatches(rt, E.pushed), E.upd)
         [] E.ev = "Remove" -> rtlive' = rtlive \ {E.c} /\ rt' = ApplyBatches([x \in DOMAIN rt \ {E.c} |-> rt[x]], E.pushed)
         [] E.ev \in {"StopPod", "RemovePod"} ->
              /\ rtlive' = {c \in rtlive : ~(c \in DOMAIN ctrs /\ ctrs[c].pod = E.pod)} /\ rt' = rt
         [] E.ev = "Sync" ->
              LET live2 == {c \in DOMAIN E.rtctrs : E.rtctrs[c] \in {"created", "running"}}
              IN /\ rtlive' = live2
                 /\ rt' = ApplyUpds([c \in live2 |-> IF c \in DOMAIN rt THEN rt[c] ELSE <<>>], E.upd)
         [] E.ev = "Reconfigure" -> rtlive' = rtlive /\ rt' = ApplyBatches(rt, E.pushed)
         [] OTHER -> rtlive' = rtlive /\ rt' = ApplyUpds(ApplyBatches(rt, E.pushed), E.upd)
    /\ excused' = Excused2
    \* between a plugin restart and the Synchronize request that always follows it the state is transient (stale cache,
    \* nothing allocated yet): state invariants are not judged there, whatever is wrong after the Synchronize is its doing
    /\ broken' = IF E.ev = "Restart" THEN broken ELSE StateViols
    /\ viols' = viols \o SetToSeq((IF E.ev = "Restart" THEN {} ELSE NewViols \cup C05Step \cup C11Step \cup C12Step \cup C13Step \cup C13Twin \cup DriftStep)
                                  \cup C14Step)
    /\ l' = l + 1 /\ UNCHANGED done

\* a request that panicked or hung: no state was logged, nothing is known to have changed
TrNoState ==
    /\ E.ev # "reset" /\ (Has(E, "hang") \/ ~Has(E, "st"))
    /\ viols' = viols \o SetToSeq(
          (IF Has(E, "hang") THEN {V("Act_Returns", "handler-did-not-return-" \o E.ev, E.ev)} ELSE C14Step))
    /\ l' = l + 1
    /\ UNCHANGED <<vars, done, world, pol, mem, lay, pristine, pristine0, taint, stopped, broken, mems0, excused, topo>>

Finish ==
    /\ l = N + 1 /\ ~done
    /\ ndJsonSerialize(IOEnv.VIOL_FILE, viols)
    /\ PrintT("CONSUMED " \o ToString(l - 1))
    /\ done' = TRUE
    /\ UNCHANGED <<vars, l, viols, world, pol, mem, lay, pristine, pristine0, taint, stopped, broken, mems0, excused, topo>>

TraceInit ==
    /\ l = 1 /\ viols = <<>> /\ done = FALSE
    /\ world = [policy |-> "none", pincpu |-> TRUE, pinmemory |-> TRUE, prefershared |-> FALSE, typenopin |-> {}, typedopin |-> {}]
    /\ pol = <<>> /\ mem = [zone |-> <<>>, size |-> <<>>] /\ lay = [nodes |-> {}, type |-> <<>>, cap |-> <<>>, normal |-> {}]
    /\ pristine = <<>> /\ pristine0 = <<>> /\ taint = {} /\ stopped = {} /\ broken = {} /\ mems0 = <<>> /\ excused = {} /\ topo = {}
    /\ pods = {} /\ ctrs = <<>> /\ req = <<>> /\ pend = {} /\ rt = <<>> /\ rtlive = {} /\ residue = {} /\ evpend = {}
    /\ reply = Reply("Init", None, FALSE, <<>>, <<>>, <<>>)

TraceNext == (l <= N /\ (TrReset \/ TrStep \/ TrNoState)) \/ Finish
TraceSpec == TraceInit /\ [][TraceNext]_lvars
=============================================================================
