SPECIFICATION Spec
CONSTANTS
  Pods = {"p1"}
  Ctrs = {"c1", "c2"}
  PodOf <- MCPodOf
  Fields = {"cpus"}
  Vals = {1, 2}
  MaxWrites = 1
  SyncStates = {"running", "stopped"}
  StrictPolicy = TRUE
  WithEvents = FALSE
  FlushOnError = FALSE
  ConsistentEnv = TRUE
INVARIANTS Inv_FailedRequestFlushes
