SPECIFICATION Spec
CONSTANTS
  Chunks = 2
  MaxVer = 4
  Deviation = "none"
INVARIANTS Reach_ReadError
PROPERTIES Act_ReloadEqualsLastSave
CHECK_DEADLOCK FALSE
