SPECIFICATION TraceSpec
CONSTANTS
  Plugin = "memtierd"
  Classes = {"a", "b", "c"}
  Ctrs = {"c1", "c2", "c3", "c4", "c5"}
  CfgKinds = {"valid", "nocfg", "noclasses", "extra", "malformed", "huge"}
  AnnKinds = {"none", "class", "class+par", "class+fuzzpar", "par", "unknowncls", "emptycls", "fuzzcls", "fuzzpar"}
  ResKinds = {"full", "nolimit", "nomem", "nores", "nolinux"}
CHECK_DEADLOCK FALSE
