SPECIFICATION Spec
INVARIANTS Inv_ValidTotal Inv_Duality Inv_Joint Inv_Existence Inv_Choose
CHECK_DEADLOCK FALSE
