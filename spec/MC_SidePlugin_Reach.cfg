SPECIFICATION Spec
CONSTANTS
  Plugin = "memtierd"
  Classes = {"a", "b"}
  Ctrs = {"c1", "c2"}
  CfgKinds = {"valid", "nocfg", "malformed"}
  AnnKinds = {"none", "class", "unknowncls", "fuzzpar"}
  ResKinds = {"full", "nolinux"}
INVARIANTS
  Reach_StartAfterClassRemoved
CHECK_DEADLOCK FALSE
