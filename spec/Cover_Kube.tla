----------------------------- MODULE Cover_Kube -----------------------------
(***************************************************************************)
(* Coverage postcondition of the C20 conformance run, across chunks.       *)
(* COVER_FILE: one line per validated chunk as printed by Trace_Kube       *)
(* ("COVER {ok, tier, first, last, nsegs, lines, miss}"); ok says that the  *)
(* chunk holds exactly the lines of segments first..last of Plan(tier).    *)
(* The recorded domain is the domain Kube defines for the tier iff all     *)
(* chunks are ok and their segment ranges tile 1 .. Len(Plan(tier)).       *)
(***************************************************************************)
EXTENDS Kube, Json, IOUtils, TLC, FiniteSetsExt

VARIABLE ok

Tier == IOEnv.TIER
Cov  == ndJsonDeserialize(IOEnv.COVER_FILE)
NSeg == Len(Plan(Tier))
C    == DOMAIN Cov

Tiles ==
    /\ \A i \in C : Cov[i].ok /\ Cov[i].tier = Tier /\ Cov[i].first >= 1 /\ Cov[i].first <= Cov[i].last /\ Cov[i].last <= NSeg
    /\ \A i, j \in C : i # j => (Cov[i].last < Cov[j].first \/ Cov[j].last < Cov[i].first)
    /\ FoldSet(LAMBDA i, acc : acc + (Cov[i].last - Cov[i].first + 1), 0, C) = NSeg

CoverInit == /\ ok = Tiles
             /\ PrintT("TILES " \o ToJson([ok |-> Tiles, nsegs |-> NSeg, chunks |-> Len(Cov),
                                           bad |-> {Cov[i].first : i \in {j \in C : ~Cov[j].ok}}]))
CoverNext == UNCHANGED ok
CoverSpec == CoverInit /\ [][CoverNext]_ok
=============================================================================
