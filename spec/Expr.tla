-------------------------------- MODULE Expr --------------------------------
(***************************************************************************)
(* C19 -- functional specification of container match expressions          *)
(* (pkg/apis/resmgr/v1alpha1), of the clamp of user-supplied affinity      *)
(* weights (pkg/resmgr/cache/affinity.go) and of balloon-type selection    *)
(* (cmd/plugins/balloons/policy: chooseBalloonDef).                        *)
(*                                                                         *)
(* Pure operators only; no behaviour.  They are used                       *)
(*   - by MC_Expr: exhaustively over a tiny universe (laws of the spec),   *)
(*   - by ExprDom/ExprGen: to generate the input domain for the Go driver, *)
(*   - by Trace_Expr: as the oracle for every record logged from real code.*)
(*                                                                         *)
(* Source of the semantics (quoted in /verif/notes/expr.md):               *)
(*   docs/resource-policy/policy/topology-aware.md "Affinity Semantics",   *)
(*   doc comments of pkg/apis/resmgr/v1alpha1/types.go,                    *)
(*   docs/resource-policy/policy/balloons.md "Assigning a Container to a   *)
(*   Balloon", reservedPoolNamespaces, reservedResources.                  *)
(*                                                                         *)
(* TLA+ strings are atomic.  Globbing is therefore a SUPPLIED relation     *)
(* (computed by the Go standard library's filepath.Match in the driver,    *)
(* trusted base); everything else -- which operator does what, presence,   *)
(* which sub-key values are joined in which order with which separator,    *)
(* the rendering of a key structure to its textual syntax -- is decided    *)
(* here.  (TLC can concatenate strings, so joined values are computed by   *)
(* the spec, not supplied.)                                                *)
(***************************************************************************)
EXTENDS Integers, Sequences, FiniteSets, TLC

-----------------------------------------------------------------------------
(* Operators *)

Ops == {"Equals", "NotEqual", "In", "NotIn", "Exists", "NotExist", "AlwaysTrue",
        "Matches", "MatchesNot", "MatchesAny", "MatchesNone"}

\* canonical order (driver and trace iterate in this order)
OpSeq == <<"Equals", "NotEqual", "In", "NotIn", "Exists", "NotExist", "AlwaysTrue",
           "Matches", "MatchesNot", "MatchesAny", "MatchesNone">>

\* the pairs the property names as exact negations of each other
NegPairs == {<<"In", "NotIn">>, <<"Matches", "MatchesNot">>, <<"MatchesAny", "MatchesNone">>,
             <<"Exists", "NotExist">>}

\* number of values an operator takes ("single item", "does not take any values", "a set")
ArityOK(op, n) ==
    CASE op \in {"Equals", "NotEqual", "Matches", "MatchesNot"} -> n = 1
      [] op \in {"Exists", "NotExist", "AlwaysTrue"}            -> n = 0
      [] op \in {"In", "NotIn", "MatchesAny", "MatchesNone"}    -> TRUE
      [] OTHER                                                   -> FALSE

\* value of a key in a subject: present with a string value, or absent
Absent     == [present |-> FALSE, val |-> ""]
Present(v) == [present |-> TRUE, val |-> v]

(* Eval(op, kv, vs, ms): kv the key's value-or-absent, vs the value list,
   ms[i] <=> "vs[i], as a globbing pattern, matches kv.val" (supplied).
   An absent key has no value: no equality and no match holds for it, and
   the negated operators are the exact negations. *)
Eval(op, kv, vs, ms) ==
    CASE op = "AlwaysTrue"  -> TRUE
      [] op = "Exists"      -> kv.present
      [] op = "NotExist"    -> ~kv.present
      [] op = "Equals"      -> kv.present /\ kv.val = vs[1]
      [] op = "NotEqual"    -> ~(kv.present /\ kv.val = vs[1])
      [] op = "In"          -> kv.present /\ \E i \in DOMAIN vs : vs[i] = kv.val
      [] op = "NotIn"       -> ~(kv.present /\ \E i \in DOMAIN vs : vs[i] = kv.val)
      [] op = "Matches"     -> kv.present /\ ms[1]
      [] op = "MatchesNot"  -> ~(kv.present /\ ms[1])
      [] op = "MatchesAny"  -> kv.present /\ \E i \in DOMAIN vs : ms[i]
      [] op = "MatchesNone" -> ~(kv.present /\ \E i \in DOMAIN vs : ms[i])

(* NOT the specification: the same with a literal "*" in the value list acting
   as a wildcard for Equals/In/NotIn.  Only used to classify the signature of
   a deviation (so that a known finding is matched precisely). *)
EvalStar(op, kv, vs, ms) ==
    CASE op = "Equals" -> kv.present /\ (kv.val = vs[1] \/ vs[1] = "*")
      [] op = "In"     -> kv.present /\ \E i \in DOMAIN vs : (vs[i] = kv.val \/ vs[i] = "*")
      [] op = "NotIn"  -> ~(kv.present /\ \E i \in DOMAIN vs : (vs[i] = kv.val \/ vs[i] = "*"))
      [] OTHER         -> Eval(op, kv, vs, ms)

-----------------------------------------------------------------------------
(* Keys.  A sub-key is a sequence of segments, e.g. <<"pod","labels","app">>;
   a map key is ONE segment even if it contains '/' ("io.test/tier").
   A key is [form, ksep, vsep, subs]:
     form "single": one sub-key, the plain syntax              name
     form "simple": joint, ":" sub-keys separated by ":"       :pod/name:name
     form "full"  : joint, ":" ksep vsep, separated by ksep    :,-pod/name,name   *)

RECURSIVE JoinStr(_, _)
JoinStr(s, sep) == IF Len(s) = 0 THEN ""
                   ELSE IF Len(s) = 1 THEN s[1]
                   ELSE s[1] \o sep \o JoinStr(Tail(s), sep)

RenderSub(sub) == JoinStr(sub, "/")
RenderSubs(key) == [i \in DOMAIN key.subs |-> RenderSub(key.subs[i])]

\* the textual syntax of a key (topology-aware.md: simple == ":::"-full form)
Render(key) ==
    CASE key.form = "single" -> RenderSub(key.subs[1])
      [] key.form = "simple" -> ":" \o JoinStr(RenderSubs(key), ":")
      [] key.form = "full"   -> ":" \o key.ksep \o key.vsep \o JoinStr(RenderSubs(key), key.ksep)

KSep(key) == IF key.form = "full" THEN key.ksep ELSE ":"
VSep(key) == IF key.form = "full" THEN key.vsep ELSE ":"

(* Subjects.
   container: [kind |-> "ctr", name, id, labels, tags, pod |-> <pod record>, ...]
   pod:       [kind |-> "pod", name, ns, qos, id, uid, labels, ...]
   labels/tags are sequences of <<key, value>> pairs with distinct keys.
   A container's namespace and QoS class are those of its pod. *)
Lookup(pairs, k) ==
    IF \E i \in DOMAIN pairs : pairs[i][1] = k
    THEN Present(pairs[CHOOSE i \in DOMAIN pairs : pairs[i][1] = k][2])
    ELSE Absent

ScalarKeys == {"name", "namespace", "qosclass", "id", "uid"}

Scalar(o, k) ==
    IF o.kind = "pod"
    THEN CASE k = "name" -> Present(o.name) [] k = "namespace" -> Present(o.ns)
           [] k = "qosclass" -> Present(o.qos) [] k = "id" -> Present(o.id)
           [] k = "uid" -> Present(o.uid)
    ELSE CASE k = "name" -> Present(o.name) [] k = "namespace" -> Present(o.pod.ns)
           [] k = "qosclass" -> Present(o.pod.qos) [] k = "id" -> Present(o.id)
           [] k = "uid" -> Absent       \* containers have no uid key

\* value of one sub-key; whatever the subject does not have is absent
RECURSIVE Resolve(_, _)
Resolve(o, sub) ==
    IF Len(sub) = 0 THEN Absent
    ELSE LET h == Head(sub)
             t == Tail(sub)
         IN  CASE h \in ScalarKeys /\ Len(t) = 0              -> Scalar(o, h)
               [] h = "labels" /\ Len(t) = 1                  -> Lookup(o.labels, t[1])
               [] h = "tags" /\ Len(t) = 1 /\ o.kind = "ctr"  -> Lookup(o.tags, t[1])
               [] h = "pod" /\ o.kind = "ctr" /\ Len(t) > 0   -> Resolve(o.pod, t)
               [] OTHER                                        -> Absent

(* "A joint key evaluates to the values of all the <ksep>-separated subkeys
   joined by <vsep>.  A non-existent subkey evaluates to the empty string."
   "For existence operators, a joint key is considered to exist if any of its
   subkeys exists."  -- the same presence is used for all operators. *)
KeyValue(o, key) ==
    IF Len(key.subs) = 1 THEN Resolve(o, key.subs[1])
    ELSE LET r == [i \in DOMAIN key.subs |-> Resolve(o, key.subs[i])]
         IN  [present |-> \E i \in DOMAIN r : r[i].present,
              val     |-> JoinStr([i \in DOMAIN r |-> IF r[i].present THEN r[i].val ELSE ""], VSep(key))]

(* NOT the specification: key values as they would be if the qosclass key of a POD object
   could not be resolved (finding F-C19-2).  Only used to classify the signature of a deviation. *)
RECURSIVE ResolveQ(_, _)
ResolveQ(o, sub) ==
    IF Len(sub) = 0 THEN Absent
    ELSE LET h == Head(sub)
             t == Tail(sub)
         IN  CASE h = "qosclass" /\ Len(t) = 0 /\ o.kind = "pod" -> Absent
               [] h = "pod" /\ o.kind = "ctr" /\ Len(t) > 0     -> ResolveQ(o.pod, t)
               [] OTHER                                          -> Resolve(o, sub)
KeyValueQ(o, key) ==
    IF Len(key.subs) = 1 THEN ResolveQ(o, key.subs[1])
    ELSE LET r == [i \in DOMAIN key.subs |-> ResolveQ(o, key.subs[i])]
         IN  [present |-> \E i \in DOMAIN r : r[i].present,
              val     |-> JoinStr([i \in DOMAIN r |-> IF r[i].present THEN r[i].val ELSE ""], VSep(key))]
\* the sub-keys that address the qosclass of a pod object
RECURSIVE IsPodQos(_, _)
IsPodQos(sub, kind) ==
    /\ Len(sub) > 0
    /\ \/ kind = "pod" /\ sub = <<"qosclass">>
       \/ kind = "ctr" /\ Head(sub) = "pod" /\ IsPodQos(Tail(sub), "pod")

(* The documented key grammar, per subject kind (topology-aware.md "The supported keys are") *)
RECURSIVE SubDocumented(_, _)
SubDocumented(sub, kind) ==
    /\ Len(sub) > 0
    /\ LET h == Head(sub)
           t == Tail(sub)
       IN  \/ h \in {"name", "namespace", "qosclass", "id"} /\ Len(t) = 0
           \/ h = "uid" /\ kind = "pod" /\ Len(t) = 0
           \/ h = "labels" /\ Len(t) = 1 /\ t[1] # ""
           \/ h = "tags" /\ kind = "ctr" /\ Len(t) = 1 /\ t[1] # ""
           \/ h = "pod" /\ kind = "ctr" /\ SubDocumented(t, "pod")

KeyDocumented(key, kind) == \A i \in DOMAIN key.subs : SubDocumented(key.subs[i], kind)

\* an expression the documentation gives a meaning to, for this kind of subject
WellFormed(op, key, vs, kind) == op \in Ops /\ ArityOK(op, Len(vs)) /\ (op = "AlwaysTrue" \/ KeyDocumented(key, kind))

-----------------------------------------------------------------------------
(* Affinity weights: "Weights are currently limited to the range [-1000,1000]."
   "The weight can also be omitted in which case it defaults to -1 for
   anti-affinities and +1 for affinities."  anti-affinities carry the negated weight. *)
WeightCutoff == 1000
ClampWeight(w) == IF w > WeightCutoff THEN WeightCutoff ELSE IF w < -WeightCutoff THEN -WeightCutoff ELSE w

MinInt32 == -2147483647 - 1
\* the un-clamped weight of a user-supplied (anti-)affinity; 0 = omitted.
\* Not defined for the one input whose negation does not exist in 32 bits.
SignedDefined(anti, w) == ~(anti /\ w = MinInt32)
SignedWeight(anti, w) == IF w = 0 THEN (IF anti THEN -1 ELSE 1) ELSE IF anti THEN -w ELSE w
ExpectedWeight(anti, w) == ClampWeight(SignedWeight(anti, w))

-----------------------------------------------------------------------------
(* Balloon-type selection.
   def:  [name, nss (sequence of namespace globs), exprs (sequence of [key, op, vals])]
   ctr:  container subject with ann |-> [ctr |-> <<<<cname, v>>...>>, pod |-> <<v>>|<<>>, plain |-> <<v>>|<<>>]
   G(p, s): the supplied glob relation.                                                 *)

ReservedName == "reserved"
DefaultName  == "default"
SystemNs     == "kube-system"

\* effective annotation: container-specific, then pod-wide, then plain form
EffectiveAnn(c) ==
    LET mine == {i \in DOMAIN c.ann.ctr : c.ann.ctr[i][1] = c.name}
    IN  IF mine # {} THEN Present(c.ann.ctr[CHOOSE i \in mine : TRUE][2])
        ELSE IF Len(c.ann.pod) > 0 THEN Present(c.ann.pod[1])
        ELSE IF Len(c.ann.plain) > 0 THEN Present(c.ann.plain[1])
        ELSE Absent

HasDef(defs, n) == \E i \in DOMAIN defs : defs[i].name = n

(* The types in matching order: an implicit reserved type comes first, an implicit
   default type last; kube-system and the configured reserved namespaces are
   namespaces of the reserved type (explicit or implicit). *)
EffectiveDefs(defs, rsvNs) ==
    LET d1 == IF HasDef(defs, ReservedName) THEN defs
              ELSE <<[name |-> ReservedName, nss |-> <<>>, exprs |-> <<>>]>> \o defs
        d2 == IF HasDef(defs, DefaultName) THEN d1
              ELSE Append(d1, [name |-> DefaultName, nss |-> <<>>, exprs |-> <<>>])
    IN  [i \in DOMAIN d2 |-> IF d2[i].name = ReservedName
                             THEN [d2[i] EXCEPT !.nss = @ \o <<SystemNs>> \o rsvNs]
                             ELSE d2[i]]

ExprHolds(G(_, _), e, c) ==
    LET kv == KeyValue(c, e.key)
        ms == [i \in DOMAIN e.vals |-> IF kv.present THEN G(e.vals[i], kv.val) ELSE FALSE]
    IN  Eval(e.op, kv, e.vals, ms)

DefMatches(G(_, _), d, c) ==
    \/ \E i \in DOMAIN d.exprs : ExprHolds(G, d.exprs[i], c)
    \/ \E i \in DOMAIN d.nss : G(d.nss[i], c.pod.ns)

SetMin(S) == CHOOSE x \in S : \A y \in S : x <= y

\* result: [err, name]; branch tells which clause of the statement decided (for coverage)
ChooseDef(G(_, _), defs, rsvNs, c) ==
    LET eff == EffectiveDefs(defs, rsvNs)
        a   == EffectiveAnn(c)
    IN  IF a.present
        THEN IF HasDef(eff, a.val) THEN [err |-> FALSE, name |-> a.val, branch |-> "annotation"]
             ELSE [err |-> TRUE, name |-> "", branch |-> "unknown-annotation"]
        ELSE LET hits == {i \in DOMAIN eff : DefMatches(G, eff[i], c)}
             IN  IF hits # {}
                 THEN LET i == SetMin(hits)
                      IN [err |-> FALSE, name |-> eff[i].name,
                          branch |-> IF \E j \in DOMAIN eff[i].exprs : ExprHolds(G, eff[i].exprs[j], c)
                                     THEN "expression"
                                     ELSE IF eff[i].name = ReservedName THEN "reserved-namespace" ELSE "namespace"]
                 ELSE [err |-> FALSE, name |-> DefaultName, branch |-> "default"]
=============================================================================
