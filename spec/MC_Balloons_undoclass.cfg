SPECIFICATION Spec
CONSTANTS
  Cpus <- MCCpus
  PkgOf <- MCPkgOf
  Defs <- MCDefs
  CoreOf <- MCCoreOf
  ShareDeviation = "none"
  Ctrs = {c1, c2}
  Reqs = {0, 1500, 2500}
  ClassDeviation = "undo_keeps_type_class"
  c1 = c1
  c2 = c2
  c3 = c3

INVARIANTS Inv_CpuClass
