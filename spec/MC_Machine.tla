----------------------------- MODULE MC_Machine -----------------------------
(***************************************************************************)
(* Design check of Machine.tla without any trace: on three hand-written    *)
(* machines and EVERY available/reserved setting over them TLC checks that *)
(*  - the machines are well-formed descriptions,                           *)
(*  - the identity discovery Faithful(M) satisfies every fidelity          *)
(*    predicate, and hand-made discovery faults are flagged,               *)
(*  - the tree the property describes (ModelTree) satisfies every          *)
(*    pool-tree predicate (the predicates are jointly satisfiable and      *)
(*    agree with ExpectedPools), and hand-made tree faults are flagged by  *)
(*    the predicate meant to catch them.                                   *)
(* The state is a (machine, setting, reserved cpuset) triple; steps move   *)
(* to a neighbouring setting, so the reachable set is all settings.        *)
(***************************************************************************)
EXTENDS Machine

CONSTANT MaxDropped     \* at most this many online CPUs are left out of the available cpuset (bounds the settings)

Threads2(cs) == cs
L(level, type, size, shared) == [index |-> 0, id |-> 0, level |-> level, type |-> type, size |-> size, shared |-> shared]
CachesOf(core, llc) == {L(1, "Data", 49152, core), L(1, "Instruction", 32768, core), L(2, "Unified", 2097152, core), L(3, "Unified", 31457280, llc)}

\* A: 1 socket, 2 NUMA nodes x 4 CPUs (2 cores x 2 threads), CPU-less PMEM node 2 closest to node 0, CPU 7 isolated
MA == [cpus |-> 0 .. 7,
       pkg  |-> [c \in 0 .. 7 |-> 0], die |-> [c \in 0 .. 7 |-> 0],
       node |-> [c \in 0 .. 7 |-> c \div 4], core |-> [c \in 0 .. 7 |-> c \div 2],
       offline |-> {}, isolated |-> {7},
       nodes |-> {0, 1, 2},
       mem  |-> (0 :> 4194304 @@ 1 :> 4194304 @@ 2 :> 8388608),
       normal |-> (0 :> TRUE @@ 1 :> TRUE @@ 2 :> FALSE),
       type |-> (0 :> "dram" @@ 1 :> "dram" @@ 2 :> "pmem"),
       dist |-> (0 :> <<10, 21, 17>> @@ 1 :> <<21, 10, 28>> @@ 2 :> <<17, 28, 10>>),
       caches |-> [c \in 0 .. 7 |-> CachesOf({2 * (c \div 2), 2 * (c \div 2) + 1}, 0 .. 7)]]

\* B: 2 sockets; socket 0 = die 0 (nodes 0,1: sub-NUMA clustering) + die 1 (node 2); socket 3 = one die with node 3
\*    (CPUs, no memory) and node 4 (CPU 5 offline); HBM node 5 equally close to nodes 3 and 4; PMEM node 6 closest to node 1
MB == [cpus |-> 0 .. 5,
       pkg  |-> (0 :> 0 @@ 1 :> 0 @@ 2 :> 0 @@ 3 :> 3 @@ 4 :> 3 @@ 5 :> 3),
       die  |-> (0 :> 0 @@ 1 :> 0 @@ 2 :> 1 @@ 3 :> 0 @@ 4 :> 0 @@ 5 :> 0),
       node |-> (0 :> 0 @@ 1 :> 1 @@ 2 :> 2 @@ 3 :> 3 @@ 4 :> 4 @@ 5 :> 4),
       core |-> (0 :> 0 @@ 1 :> 1 @@ 2 :> 2 @@ 3 :> 0 @@ 4 :> 4 @@ 5 :> 8),
       offline |-> {5}, isolated |-> {2},
       nodes |-> 0 .. 6,
       mem  |-> (0 :> 2097152 @@ 1 :> 2097152 @@ 2 :> 4194304 @@ 3 :> 0 @@ 4 :> 2097152 @@ 5 :> 1048576 @@ 6 :> 8388608),
       normal |-> (0 :> TRUE @@ 1 :> TRUE @@ 2 :> TRUE @@ 3 :> FALSE @@ 4 :> TRUE @@ 5 :> TRUE @@ 6 :> FALSE),
       type |-> (0 :> "dram" @@ 1 :> "dram" @@ 2 :> "dram" @@ 3 :> "dram" @@ 4 :> "dram" @@ 5 :> "hbm" @@ 6 :> "pmem"),
       dist |-> (0 :> <<10, 11, 21, 31, 31, 28, 28>> @@ 1 :> <<11, 10, 21, 31, 31, 28, 17>> @@ 2 :> <<21, 21, 10, 31, 31, 28, 28>> @@
                 3 :> <<31, 31, 31, 10, 11, 17, 28>> @@ 4 :> <<31, 31, 31, 11, 10, 17, 28>> @@
                 5 :> <<28, 28, 28, 17, 17, 10, 28>> @@ 6 :> <<28, 17, 28, 28, 28, 28, 10>>),
       caches |-> [c \in 0 .. 4 |-> CachesOf({c}, IF c \in {0, 1} THEN {0, 1} ELSE IF c = 2 THEN {2} ELSE {3, 4})]]

\* C: a single node, 2 cores x 2 threads (siblings 0,2 and 1,3), CPU 3 isolated
MCm == [cpus |-> 0 .. 3,
        pkg  |-> [c \in 0 .. 3 |-> 0], die |-> [c \in 0 .. 3 |-> 0], node |-> [c \in 0 .. 3 |-> 0],
        core |-> [c \in 0 .. 3 |-> c % 2],
        offline |-> {}, isolated |-> {3},
        nodes |-> {0}, mem |-> (0 :> 8388608), normal |-> (0 :> TRUE), type |-> (0 :> "dram"), dist |-> (0 :> <<10>>),
        caches |-> [c \in 0 .. 3 |-> CachesOf({c % 2, (c % 2) + 2}, 0 .. 3)]]

Machines == ("A" :> MA @@ "B" :> MB @@ "C" :> MCm)

VARIABLES m, availset, avail, rk, R
vars == <<m, availset, avail, rk, R>>

Mm == Machines[m]
Cc == [availset |-> availset, avail |-> avail, rsvkind |-> rk, rsv |-> IF rk = "cpuset" THEN R ELSE {}, milli |-> 1000 * Cardinality(R)]

\* reserved cpusets the policy may end up with: 1-2 available, not isolated CPUs
RsvChoices(M, av) == {X \in SUBSET (av \ M.isolated) : Cardinality(X) \in {1, 2}}
Settings(M) == {s \in [availset : BOOLEAN, avail : SUBSET Online(M)] :
                    /\ (~s.availset => s.avail = Online(M))
                    /\ s.avail \ M.isolated # {}
                    /\ Cardinality(Online(M) \ s.avail) <= MaxDropped}

\* one initial state per machine (the default setting); every other setting is reached by single changes, so that
\* the invariants are evaluated by all workers
Init == /\ m \in DOMAIN Machines
        /\ availset = FALSE /\ avail = Online(Machines[m])
        /\ rk = "quantity"
        /\ R = {Min(Online(Machines[m]) \ Machines[m].isolated)}

Next == /\ m' = m
        /\ \/ \E s \in Settings(Mm) :            \* one CPU more or less available (or the cpuset made explicit)
                 /\ availset' = s.availset /\ avail' = s.avail
                 /\ Cardinality(SymDiff(avail, s.avail)) <= 1
                 /\ R \in RsvChoices(Mm, avail')
                 /\ UNCHANGED <<rk, R>>
           \/ /\ R' \in RsvChoices(Mm, avail)       \* another reserved cpuset
              /\ UNCHANGED <<availset, avail, rk>>
           \/ /\ rk' \in {"cpuset", "quantity"}     \* reservation given as cpuset / as quantity
              /\ UNCHANGED <<availset, avail, R>>

Spec == Init /\ [][Next]_vars

-----------------------------------------------------------------------------
AllHold(T) == \A i \in DOMAIN T : T[i][3] = {}
Flags(T, pred) == \E i \in DOMAIN T : T[i][1] = pred /\ T[i][3] # {}

Tree == ModelTree(Mm, Cc, R)

Inv_Machines   == \A k \in DOMAIN Machines : WellFormedMachine(Machines[k])
Inv_Domain     == InDomain(Mm, Cc)
Inv_Faithful   == AllHold(Fidelity(Mm, Faithful(Mm)))
Inv_ModelTree  == AllHold(PoolTree(Mm, Cc, Tree))

\* --- discovery faults are flagged
F == Faithful(Mm)
FaultDie      == [F EXCEPT !.cpu = [c \in DOMAIN @ |-> [@[c] EXCEPT !.die = @ + 1]]]
FaultThreads  == [F EXCEPT !.cpu = [c \in DOMAIN @ |-> [@[c] EXCEPT !.threads = {c}]]]
FaultIsolated == [F EXCEPT !.isolated = {}]
FaultDist     == [F EXCEPT !.node = [n \in DOMAIN @ |-> [@[n] EXCEPT !.dist = [i \in DOMAIN @ |-> @[Len(@) + 1 - i]]]]]
FaultGetCaches == [F EXCEPT !.cpu = [c \in DOMAIN @ |-> [@[c] EXCEPT !.getcaches = {}]]]
Inv_FaultsFlagged ==
    /\ Flags(Fidelity(Mm, FaultDie), "Fid_CPUTopology")
    /\ ((\E c \in Online(Mm) : Threads(Mm, c) # {c}) => Flags(Fidelity(Mm, FaultThreads), "Fid_CPUTopology"))
    /\ (Mm.isolated # {} => Flags(Fidelity(Mm, FaultIsolated), "Fid_CPUSets"))
    /\ (Cardinality(Mm.nodes) > 1 => Flags(Fidelity(Mm, FaultDist), "Fid_Nodes"))
    /\ Flags(Fidelity(Mm, FaultGetCaches), "Fid_Caches")

\* --- tree faults are flagged by the predicate meant to catch them
NonRoot == {p \in Tree.pools : Tree.parent[p] # ""}
\* reserved CPUs left in the sharable set
TreeRsvInShar == [Tree EXCEPT !.shar = [p \in DOMAIN @ |-> @[p] \cup Tree.rsv[p]]]
\* a level dropped: every child of the root is re-parented ... here: all non-root pools removed
TreeFlat == LET r == Tree.root IN
            [Tree EXCEPT !.pools = {r}, !.parent = (r :> ""), !.kind = (r :> Tree.kind[r]), !.isol = (r :> Tree.isol[r]),
                         !.rsv = (r :> Tree.rsv[r]), !.shar = (r :> Tree.shar[r]), !.dram = (r :> Tree.dram[r]),
                         !.pmem = (r :> Tree.pmem[r]), !.hbm = (r :> Tree.hbm[r])]
\* special memory attached everywhere
TreeAttachAll == [Tree EXCEPT !.pmem = [p \in DOMAIN @ |-> {x \in Special(Mm) : Mm.type[x] = "pmem"}],
                              !.hbm = [p \in DOMAIN @ |-> {x \in Special(Mm) : Mm.type[x] = "hbm"}]]
\* the root forgets its memory
TreeRootNoMem == [Tree EXCEPT !.dram[Tree.root] = {}, !.pmem[Tree.root] = {}, !.hbm[Tree.root] = {}]
\* an available CPU dropped from the root
TreeRootLosesCPU == [Tree EXCEPT !.shar[Tree.root] = {}]
\* a virtual root over everything
TreeExtraRoot == [Tree EXCEPT !.pools = @ \cup {"top"}, !.parent = [p \in Tree.pools \cup {"top"} |-> IF p = "top" THEN "" ELSE IF Tree.parent[p] = "" THEN "top" ELSE Tree.parent[p]],
                              !.kind = [p \in Tree.pools \cup {"top"} |-> IF p = "top" THEN "virtual node" ELSE Tree.kind[p]],
                              !.isol = @ @@ ("top" :> Tree.isol[Tree.root]), !.rsv = @ @@ ("top" :> Tree.rsv[Tree.root]),
                              !.shar = @ @@ ("top" :> Tree.shar[Tree.root]), !.dram = @ @@ ("top" :> Tree.dram[Tree.root]),
                              !.pmem = @ @@ ("top" :> Tree.pmem[Tree.root]), !.hbm = @ @@ ("top" :> Tree.hbm[Tree.root])]
Inv_TreeFaultsFlagged ==
    /\ ((\E p \in Tree.pools : Tree.rsv[p] # {}) => Flags(PoolTree(Mm, Cc, TreeRsvInShar), "Split_Disjoint"))
    /\ (NonRoot # {} => Flags(PoolTree(Mm, Cc, TreeFlat), "Tree_Shape"))
    /\ ((\E x \in Special(Mm) : \E p \in NonRoot : x \notin PoolMems(Tree, p)) => Flags(PoolTree(Mm, Cc, TreeAttachAll), "Mem_SpecialAttach"))
    /\ Flags(PoolTree(Mm, Cc, TreeRootNoMem), "Mem_RootHasAll")
    /\ ((\E p \in NonRoot : PoolMems(Tree, p) # {}) => Flags(PoolTree(Mm, Cc, TreeRootNoMem), "Mem_ChildSubset"))
    /\ (Tree.shar[Tree.root] # {} => Flags(PoolTree(Mm, Cc, TreeRootLosesCPU), "Tree_RootHoldsAvailable"))
    /\ ((\E p \in NonRoot : Tree.shar[p] # {}) => Flags(PoolTree(Mm, Cc, TreeRootLosesCPU), "Tree_ChildWithinParent"))
    /\ Flags(PoolTree(Mm, Cc, TreeExtraRoot), "Tree_Shape")

\* the expected shapes of the three machines, spelled out
Inv_Shapes ==
    /\ ExpNames(ExpectedPools(MA, Cc)) = {"socket #0", "NUMA node #0", "NUMA node #1"}
    /\ ExpNames(ExpectedPools(MB, Cc)) = {"root", "socket #0", "socket #3", "die #0/0", "die #0/1", "NUMA node #0", "NUMA node #1", "NUMA node #4"}
    /\ ExpNames(ExpectedPools(MCm, Cc)) = {"socket #0"}
    /\ Closest(MB, 5) = {3, 4} /\ Closest(MB, 6) = {1} /\ Closest(MA, 2) = {0}
=============================================================================
