--------------------------- MODULE Cover_CpuAlloc ---------------------------
(***************************************************************************)
(* Coverage postcondition of the C08 conformance run, across chunks.       *)
(* COVER_FILE : one line per validated chunk, as printed by Trace_CpuAlloc *)
(*              ("COVER {ok, m, kind, lo, hi, groups, ncpu, calls, miss}"); *)
(*              ok says the chunk holds exactly the canonical enumeration   *)
(*              of its slice of the domain.                                 *)
(* EXPECT_FILE: one line per machine of the tier: {m, kind, ncpu, groups}.  *)
(* The recorded domain is the domain of the tier iff for every expected    *)
(* machine the chunks are all ok and                                        *)
(*   full  : their mask ranges tile 0 .. 2^ncpu - 1 (all subsets of the     *)
(*           online CPUs), with ncpu the expected number of online CPUs;    *)
(*   sample: their group counts add up to the expected number of groups;    *)
(* and no chunk belongs to an unexpected machine.                           *)
(***************************************************************************)
EXTENDS Integers, Sequences, FiniteSets, Json, IOUtils, TLC, FiniteSetsExt

VARIABLE ok

CA == INSTANCE CpuAlloc WITH CPUs <- {}, from <- {}, last <- {}
Pow2(k) == CA!Pow2(k)

Cov == ndJsonDeserialize(IOEnv.COVER_FILE)
Exp == ndJsonDeserialize(IOEnv.EXPECT_FILE)

ChunksOf(m) == {i \in DOMAIN Cov : Cov[i].m = m}
Sum(S, f(_)) == FoldSet(LAMBDA i, acc : acc + f(i), 0, S)

Width(i)  == Cov[i].hi - Cov[i].lo + 1
Groups(i) == Cov[i].groups

MachineOK(e) ==
    LET C == ChunksOf(e.m) IN
    /\ C # {}
    /\ \A i \in C : Cov[i].ok /\ Cov[i].kind = e.kind /\ Cov[i].ncpu = e.ncpu
    /\ IF e.kind = "full"
       THEN /\ \A i \in C : Cov[i].lo >= 0 /\ Cov[i].lo <= Cov[i].hi /\ Cov[i].hi <= Pow2(e.ncpu) - 1
            /\ \A i, j \in C : i # j => (Cov[i].hi < Cov[j].lo \/ Cov[j].hi < Cov[i].lo)
            /\ Sum(C, Width) = Pow2(e.ncpu)
       ELSE Sum(C, Groups) = e.groups

Bad == {Exp[k].m : k \in {x \in DOMAIN Exp : ~MachineOK(Exp[x])}}
         \cup {Cov[i].m : i \in {x \in DOMAIN Cov : ~\E k \in DOMAIN Exp : Exp[k].m = Cov[x].m}}

CoverInit == /\ ok = (Bad = {})
             /\ PrintT("TILES " \o ToJson([ok |-> (Bad = {}), bad |-> Bad, machines |-> Len(Exp), chunks |-> Len(Cov)]))
CoverNext == UNCHANGED ok
CoverSpec == CoverInit /\ [][CoverNext]_ok
=============================================================================
