--------------------------- MODULE BalloonsReconf ---------------------------
(***************************************************************************)
(* The balloons policy across live reconfiguration, with the memory side.  *)
(* Balloons.tla models Allocate/Release under ONE configuration; this      *)
(* module adds what the seeded histories of C09/C13 exercised on the real  *)
(* code: Reconfigure (balloons-policy.go Reconfigure -> setConfig: all     *)
(* balloons are rebuilt from the new types; Sync(alive, all): every cached *)
(* container is "released" against the NEW balloons, then the created and  *)
(* running ones are re-admitted one by one and may not fit), the memory    *)
(* allocator that SURVIVES setConfig (p.memAllocator is created once in    *)
(* Setup), and container states (alive / exited-but-cached).               *)
(*                                                                         *)
(* It states C09 for this policy in one place:                             *)
(*   Inv_StoppedHoldsNothing   a stopped container is in no balloon and    *)
(*                             holds no memory                             *)
(*   Inv_NoDeadMember          no balloon member that is not alive         *)
(*   Inv_Quiescent             with nothing alive: only the pre-created    *)
(*                             balloons at minimum size, no memory held    *)
(* and the C13 clause "containers that are already stopped are not         *)
(* re-admitted" (Act_ExitedNotReadmitted).                                 *)
(*                                                                         *)
(* Deviation constants reproduce the defects found on the real code, TLC   *)
(* MUST find each of them (the engine turns a miss into exit 2):           *)
(*   "readmit_exited"  F-C09-1 (fixed 9202841): Reconfigure re-admitted    *)
(*                     every cached container, also exited ones            *)
(*   "leak_balloonless" F-C09-5 (fixed 58a85f7): ReleaseResources returned *)
(*                     early for a container without a balloon, so a live  *)
(*                     container that did not fit after a reconfiguration  *)
(*                     kept its memory for good                            *)
(*   "none"            the code as it is now                               *)
(***************************************************************************)
EXTENDS Integers, FiniteSets, Sequences, TLC, FiniteSetsExt

CONSTANTS Cpus,            \* available CPUs
          Configs,         \* set of configurations; a configuration is a set of balloon types
                           \* [name, mincpus, maxcpus (0 = unlimited), minballoons, maxballoons (0 = unlimited)]
          Boot,            \* the configuration booted with (\in Configs)
          Ctrs,            \* containers
          TypeOf,          \* [Ctrs -> type name]: the balloon type a container asks for (annotation / namespace)
          Req,             \* [Ctrs -> mCPU]
          Deviation        \* "none" | "readmit_exited" | "leak_balloonless"

VARIABLES cfg,             \* configuration in force
          blns,            \* set of balloons [def, inst, cpus, ctrs]
          free,            \* idle CPUs
          st,              \* container -> "none" | "alive" | "exited"  (exited = stopped, still cached; none = unknown/removed)
          mem              \* containers holding a memory allocation in the policy's allocator

vars == <<cfg, blns, free, st, mem>>

DefByName(c, n) == CHOOSE d \in c : d.name = n
HasType(c, n)   == \E d \in c : d.name = n
MemberOf(b)     == b.ctrs
Members         == UNION {b.ctrs : b \in blns}
BalloonOf(c)    == CHOOSE b \in blns : c \in b.ctrs
ReqMilli(b)     == MapThenSumSet(LAMBDA c : Req[c], b.ctrs)
Clamp(d, n)     == LET lo == IF n < d.mincpus THEN d.mincpus ELSE n IN IF d.maxcpus > 0 /\ lo > d.maxcpus THEN d.maxcpus ELSE lo
Want(d, milli)  == Clamp(d, (milli + 999) \div 1000)
Alive           == {c \in Ctrs : st[c] = "alive"}
Exited          == {c \in Ctrs : st[c] = "exited"}

\* pre-created balloons of a configuration: minballoons instances of every type at minimum size (CPUs chosen arbitrarily;
\* CHOOSE is enough: WHICH CPUs is irrelevant to the properties stated here)
RECURSIVE PreCreate(_, _, _)
PreCreate(todo, bs, fr) ==
    IF todo = {} THEN [blns |-> bs, free |-> fr]
    ELSE LET t == CHOOSE t \in todo : TRUE
         IN IF Cardinality(fr) < t.d.mincpus THEN [blns |-> bs, free |-> fr, failed |-> TRUE]
            ELSE LET X == CHOOSE X \in kSubset(t.d.mincpus, fr) : TRUE
                 IN PreCreate(todo \ {t}, bs \cup {[def |-> t.d.name, inst |-> t.i, cpus |-> X, ctrs |-> {}]}, fr \ X)
Pristine(c) == PreCreate({t \in [d : c, i : 0 .. 1] : t.i < t.d.minballoons}, {}, Cpus)

Init ==
    /\ cfg = Boot /\ blns = Pristine(Boot).blns /\ free = Pristine(Boot).free
    /\ st = [c \in Ctrs |-> "none"] /\ mem = {}

\* ---- assigning a container to a balloon of its type under configuration c, on balloon set bs / idle set fr ----
\* result: set of [blns, free] outcomes; empty = the container does not fit (AllocateResources returns an error)
Admit(c0, bs, fr, x) ==
    IF ~HasType(c0, TypeOf[x]) THEN {}
    ELSE LET d  == DefByName(c0, TypeOf[x])
             ex == {b \in bs : b.def = d.name}
             canNew == (d.maxballoons = 0 \/ Cardinality(ex) < d.maxballoons)
                       /\ Cardinality(fr) >= (IF d.mincpus > 1 THEN d.mincpus ELSE 1)
             newb == [def |-> d.name, inst |-> CHOOSE i \in 0 .. Cardinality(Ctrs) + 2 : ~\E b \in ex : b.inst = i,
                      cpus |-> {}, ctrs |-> {}]
             cands == ex \cup (IF canNew THEN {newb} ELSE {})
         IN UNION {LET m == ReqMilli(b) + Req[x]
                       n == Want(d, IF m < 1 THEN 1 ELSE m)
                       k == Cardinality(b.cpus)
                       grow == IF n > k THEN n - k ELSE 0
                   IN IF 1000 * n < m \/ grow > Cardinality(fr) THEN {}
                      ELSE {[blns |-> (bs \ {b}) \cup {[b EXCEPT !.cpus = @ \cup X, !.ctrs = @ \cup {x}]}, free |-> fr \ X]
                               : X \in kSubset(grow, fr)}
                   : b \in cands}

\* dismissing container x from its balloon (deflate / delete above MinBalloons), on bs / fr under configuration c0
Dismiss(c0, bs, fr, x) ==
    IF ~\E b \in bs : x \in b.ctrs THEN {[blns |-> bs, free |-> fr]}
    ELSE LET b  == CHOOSE b \in bs : x \in b.ctrs
             d  == DefByName(c0, b.def)
             b1 == [b EXCEPT !.ctrs = @ \ {x}]
             k  == Cardinality(b.cpus)
         IN IF b1.ctrs = {}
            THEN IF Cardinality({q \in bs : q.def = b.def}) > d.minballoons
                 THEN {[blns |-> bs \ {b}, free |-> fr \cup b.cpus]}
                 ELSE LET n == Clamp(d, 0)
                      IN IF n >= k THEN {[blns |-> (bs \ {b}) \cup {b1}, free |-> fr]}
                         ELSE {[blns |-> (bs \ {b}) \cup {[b1 EXCEPT !.cpus = @ \ X]}, free |-> fr \cup X] : X \in kSubset(k - n, b.cpus)}
            ELSE LET m == ReqMilli(b1)
                     n == Want(d, IF m < 1 THEN 1 ELSE m)
                 IN IF n >= k THEN {[blns |-> (bs \ {b}) \cup {b1}, free |-> fr]}
                    ELSE {[blns |-> (bs \ {b}) \cup {[b1 EXCEPT !.cpus = @ \ X]}, free |-> fr \cup X] : X \in kSubset(k - n, b.cpus)}

\* ---- requests ----
Create(x) ==
    /\ st[x] = "none"
    /\ LET outs == Admit(cfg, blns, free, x)
       IN IF outs = {}
          THEN UNCHANGED vars                                   \* refused: the container does not exist, holds nothing
          ELSE \E o \in outs : blns' = o.blns /\ free' = o.free /\ st' = [st EXCEPT ![x] = "alive"] /\ mem' = mem \cup {x}
                               /\ UNCHANGED cfg

\* StopContainer -> ReleaseResources
Stop(x) ==
    /\ st[x] = "alive"
    /\ \E o \in Dismiss(cfg, blns, free, x) : blns' = o.blns /\ free' = o.free
    /\ st' = [st EXCEPT ![x] = "exited"]
    \* dismissContainer releases the memory; a balloon-less container had nothing released before 58a85f7
    /\ mem' = IF x \in Members \/ Deviation # "leak_balloonless" THEN mem \ {x} ELSE mem
    /\ UNCHANGED cfg

\* RemoveContainer of a stopped container: dropped from the cache
Remove(x) ==
    /\ st[x] = "exited"
    /\ st' = [st EXCEPT ![x] = "none"]
    /\ UNCHANGED <<cfg, blns, free, mem>>

\* re-admission of the containers in `todo` one by one, in any order; those that do not fit stay balloon-less
RECURSIVE Readmit(_, _, _, _)
Readmit(c0, bs, fr, todo) ==
    IF todo = {} THEN {[blns |-> bs, free |-> fr]}
    ELSE UNION {LET outs == Admit(c0, bs, fr, x)
                IN IF outs = {} THEN Readmit(c0, bs, fr, todo \ {x})
                   ELSE UNION {Readmit(c0, o.blns, o.free, todo \ {x}) : o \in outs}
                : x \in todo}

\* an accepted configuration update that changes the balloon set
Reconfigure(c1) ==
    /\ c1 # cfg
    /\ LET p == Pristine(c1)
       IN /\ "failed" \notin DOMAIN p                            \* unsatisfiable configurations are rejected (C13, not here)
          /\ LET who == IF Deviation = "readmit_exited" THEN Alive \cup Exited ELSE Alive
             IN \E o \in Readmit(c1, p.blns, p.free, who) : blns' = o.blns /\ free' = o.free
    /\ cfg' = c1
    \* the memory allocator is not rebuilt: allocations made under the old configuration stay; a re-admitted
    \* container's allocation is re-used (Realloc), a re-admitted exited one gets a new one
    /\ mem' = mem \cup {x \in Ctrs : \E b \in blns' : x \in b.ctrs}
    /\ UNCHANGED st

Next ==
    \/ \E x \in Ctrs : Create(x) \/ Stop(x) \/ Remove(x)
    \/ \E c1 \in Configs : Reconfigure(c1)

Spec == Init /\ [][Next]_vars

-----------------------------------------------------------------------------
TypeOK ==
    /\ cfg \in Configs /\ free \subseteq Cpus /\ mem \subseteq Ctrs
    /\ \A b \in blns : b.cpus \subseteq Cpus /\ b.cpus \cap free = {} /\ b.ctrs \subseteq Ctrs
    /\ \A a, b \in blns : a # b => a.cpus \cap b.cpus = {} /\ a.ctrs \cap b.ctrs = {}

\* C09
Inv_StoppedHoldsNothing == \A x \in Ctrs : st[x] # "alive" => (x \notin Members /\ x \notin mem)
Inv_NoDeadMember        == Members \subseteq Alive
Inv_Quiescent ==
    (Alive = {}) =>
        /\ mem = {}
        /\ \A b \in blns : b.ctrs = {} /\ Cardinality(b.cpus) = DefByName(cfg, b.def).mincpus
        /\ \A d \in cfg : Cardinality({b \in blns : b.def = d.name}) = d.minballoons
\* C13: "containers that are already stopped are not re-admitted"
Act_ExitedNotReadmitted == [][\A x \in Ctrs : (st[x] = "exited" /\ x \notin Members) => x \notin UNION {b.ctrs : b \in blns'}]_vars
\* a live container is in a balloon or (it did not fit when the configuration changed) in none; never in two
Inv_AtMostOneBalloon    == \A x \in Ctrs : Cardinality({b \in blns : x \in b.ctrs}) <= 1
\* reachability goal for the engine: a live container without a balloon exists (the F-C09-5 precondition)
Goal_BalloonlessAlive   == ~\E x \in Alive : x \notin Members
=============================================================================
