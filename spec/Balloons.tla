------------------------------ MODULE Balloons ------------------------------
(***************************************************************************)
(* The balloons policy: CPUs are partitioned into balloons (instances of   *)
(* configured balloon types); a container is assigned to one balloon, which*)
(* is inflated/deflated to the CPUs its containers request (clamped to the *)
(* type's min/max); CPUs no balloon owns are idle and shared with the      *)
(* balloons whose type shares idle CPUs within a topology scope.           *)
(* Property C02 and the CPU half of C09 for this policy.                   *)
(*                                                                         *)
(* Design: Allocate (pick an existing balloon of the type or create a new  *)
(* one; inflate; assign), Release (dismiss; deflate; free or delete the    *)
(* empty balloon).  WHICH balloon is picked and WHICH CPUs are taken or    *)
(* returned is heuristic in the code and nondeterministic here.  The       *)
(* property predicates are those of BalloonPreds, evaluated on a snapshot  *)
(* of this spec's state in the same shape the harness logs.                *)
(***************************************************************************)
EXTENDS BalloonPreds, SequencesExt

CONSTANTS Cpus,            \* available CPUs
          PkgOf,           \* [Cpus -> package id]  (topology for sharing scopes)
          Defs,            \* balloon types: set of [name, mincpus, maxcpus (0 = unlimited), minballoons, maxballoons (0 = unlimited), shareidle]
          Ctrs,            \* containers
          Reqs,            \* possible CPU requests (mCPU)
          ClassDeviation,  \* "none" | "undo_keeps_type_class" (F-C02-3, fixed 2274836)
          CoreOf,          \* [Cpus -> physical core id]  (hyperthread siblings share a core)
          ShareDeviation   \* "none" | "delete_no_reshare" (F-C02-2) | "repin_self_only" | "inflate_adds_new_only"

VARIABLES blns,            \* set of balloons [def, inst, cpus, ctrs, shared]; `shared` is STORED and maintained incrementally,
                           \* as Balloon.SharedIdleCpus is by shareIdleCpus(add, remove) -- not recomputed from the idle set
          free,            \* idle CPUs
          reqOf,           \* container -> mCPU, for assigned containers
          cls,             \* CPU -> CPU class configured for it (the balloon type's class, "idle" for idle CPUs)
          told             \* container -> the CPU set it was last pinned to (updatePinning writes it for the balloons it is handed)

bvars == <<blns, free, reqOf, cls, told>>
\* the classes the CPU controller is told after a step in which `got` CPUs went to a balloon of type dn and `back`
\* CPUs returned to the idle set
Reclass(c0, dn, got, back) == [c \in Cpus |-> IF c \in got THEN dn ELSE IF c \in back THEN "idle" ELSE c0[c]]

DefByName(n) == CHOOSE d \in Defs : d.name = n
ReqMilli(b)  == MapThenSumSet(LAMBDA c : reqOf[c], b.ctrs)
Clamp(d, n)  == LET lo == IF n < d.mincpus THEN d.mincpus ELSE n IN IF d.maxcpus > 0 /\ lo > d.maxcpus THEN d.maxcpus ELSE lo
Want(d, milli) == Clamp(d, (milli + 999) \div 1000)

\* idle CPUs a balloon shares: those in the topology scope of its CPUs
SharedOf(b, fr) ==
    LET L == DefByName(b.def).shareidle
    IN IF L = "" THEN {}
       ELSE IF L = "system" THEN (IF b.cpus = {} THEN {} ELSE fr)
       ELSE {c \in fr : \E m \in b.cpus : PkgOf[c] = PkgOf[m]}           \* "package"

\* shareIdleCpus(add, remove) of the code, applied to a set of balloons: every balloon first loses `remove` from its
\* stored shared set, then gains the CPUs of `add` that lie in its sharing scope (evaluated on the balloon's CPUs of NOW).
\* Nothing else is ever dropped: a balloon that deflated out of a package keeps that package's idle CPUs shared.
ShareIdle(bs, add, remove) == {[b EXCEPT !.shared = (@ \ remove) \cup SharedOf(b, add)] : b \in bs}
\* ... and the balloons it returns for re-pinning: those whose stored set changed
Changed(bs, add, remove) == {[def |-> b.def, inst |-> b.inst] : b \in {b \in bs : (b.shared \ remove) \cup SharedOf(b, add) # b.shared}}
Key(b) == [def |-> b.def, inst |-> b.inst]

\* SingleThreadForCPUs: the lowest thread of every physical core touched
OneThread(S) == {c \in S : \A x \in S : CoreOf[x] = CoreOf[c] => c <= x}
PinSet(b) == IF DefByName(b.def).hideht THEN OneThread(b.cpus \cup b.shared) ELSE b.cpus \cup b.shared
\* updatePinning(balloons with a key in ks): every member container is told the balloon's pin set
Repin(t0, bs, ks) == [c \in DOMAIN t0 |-> IF \E b \in bs : c \in b.ctrs /\ Key(b) \in ks
                                         THEN PinSet(CHOOSE b \in bs : c \in b.ctrs) ELSE t0[c]]

Topo == {[cpu |-> c, pkg |-> PkgOf[c], die |-> 0, node |-> PkgOf[c], core |-> CoreOf[c], isolated |-> FALSE] : c \in Cpus}

\* the state as a snapshot in the shape BalloonPreds expects
Snapshot ==
    [allowed |-> SetToSeq(Cpus), reserved |-> <<>>, free |-> SetToSeq(free), pincpu |-> TRUE, pinmemory |-> TRUE, idleclass |-> "idle",
     defs |-> SetToSeq({[name |-> d.name, mincpus |-> d.mincpus, maxcpus |-> d.maxcpus, minballoons |-> d.minballoons,
                         maxballoons |-> d.maxballoons, shareidle |-> d.shareidle, hideht |-> d.hideht, pinmemory |-> TRUE,
                         cpuclass |-> d.name] : d \in Defs}),
     balloons |-> SetToSeq({[name |-> <<b.def, b.inst>>, def |-> b.def, inst |-> b.inst, cpus |-> SetToSeq(b.cpus),
                             shared |-> SetToSeq(b.shared), ctrs |-> SetToSeq(b.ctrs), reqmilli |-> ReqMilli(b)] : b \in blns})]

InstancesOf(n) == {b \in blns : b.def = n}
NextInst(n)    == CHOOSE i \in 0 .. Cardinality(Ctrs) + 2 : ~\E b \in InstancesOf(n) : b.inst = i

\* pre-created balloons: minballoons instances of every type at its minimum size
RECURSIVE PreCreate(_, _, _)
PreCreate(todo, bs, fr) ==
    IF todo = {} THEN [blns |-> bs, free |-> fr]
    ELSE LET t == CHOOSE t \in todo : TRUE
             X == CHOOSE X \in kSubset(t.d.mincpus, fr) : TRUE
         IN PreCreate(todo \ {t}, bs \cup {[def |-> t.d.name, inst |-> t.i, cpus |-> X, ctrs |-> {}, shared |-> {}]}, fr \ X)

\* setConfig: after all pre-created balloons exist, shareIdleCpus(freeCpus, {})
Init ==
    LET todo == {[d |-> d, i |-> i] : d \in Defs, i \in 0 .. 1}
        need == {t \in todo : t.i < t.d.minballoons}
        r == PreCreate(need, {}, Cpus)
    IN /\ blns = ShareIdle(r.blns, r.free, {}) /\ free = r.free /\ reqOf = <<>> /\ told = <<>>
       /\ cls = [c \in Cpus |-> IF \E b \in r.blns : c \in b.cpus THEN (CHOOSE b \in r.blns : c \in b.cpus).def ELSE "idle"]

(* The policy's steps, as functions on a working state s = [bs, fr, t] (p.balloons, p.freeCpus, the cpusets told).  An  *)
(* action of the spec is a composition of these, in the order the code performs them, because WHICH balloons are handed *)
(* to updatePinning is decided step by step.                                                                            *)
ByKey(bs, k) == CHOOSE b \in bs : Key(b) = k
\* p.updatePinning(p.shareIdleCpus(add, remove)...) followed by p.updatePinning(the balloons with a key in `also`)
DoShare(s, add, remove, also) ==
    LET bs2 == ShareIdle(s.bs, add, remove)
        ks  == IF ShareDeviation = "repin_self_only" THEN also ELSE Changed(s.bs, add, remove) \cup also
    IN [bs |-> bs2, fr |-> s.fr, t |-> Repin(s.t, bs2, ks)]
\* resizeBalloon(balloon k, n CPUs) on an official balloon (nondeterministic choice of CPUs); same size: return at once
Resize(s, k, n) ==
    LET b == ByKey(s.bs, k)
        sz == Cardinality(b.cpus)
    IN IF n = sz THEN {s}
       ELSE IF n > sz
       THEN {DoShare([bs |-> (s.bs \ {b}) \cup {[b EXCEPT !.cpus = @ \cup X]}, fr |-> s.fr \ X, t |-> s.t],
                     IF ShareDeviation = "inflate_adds_nothing" THEN {} ELSE s.fr \ X, X, {k}) : X \in kSubset(n - sz, s.fr)}
       ELSE {DoShare([bs |-> (s.bs \ {b}) \cup {[b EXCEPT !.cpus = @ \ X]}, fr |-> s.fr \cup X, t |-> s.t], X, {}, {k}) : X \in kSubset(sz - n, b.cpus)}
\* newBalloon + making it official: the type's minimum CPUs are taken while the balloon is not yet in p.balloons (the
\* others lose them from their shared sets), then it is appended and, if it has CPUs, shareIdleCpus(freeCpus, its CPUs)
NewBalloon(s, dn) ==
    LET d == DefByName(dn)
    IN {LET s1 == IF X0 = {} THEN s ELSE DoShare([s EXCEPT !.fr = @ \ X0], s.fr \ X0, X0, {})
            nb == [def |-> dn, inst |-> NextInst(dn), cpus |-> X0, ctrs |-> {}, shared |-> {}]
            s2 == [s1 EXCEPT !.bs = @ \cup {nb}]
        IN IF X0 = {} THEN s2 ELSE DoShare(s2, s2.fr, X0, {})
        : X0 \in kSubset(d.mincpus, s.fr)}

Cur == [bs |-> blns, fr |-> free, t |-> told]

Allocate(c, dn, r) ==
    /\ c \notin DOMAIN reqOf
    /\ LET d == DefByName(dn)
           existing == InstancesOf(dn)
           canNew   == (d.maxballoons = 0 \/ Cardinality(existing) < d.maxballoons) /\ Cardinality(free) >= (IF d.mincpus > 1 THEN d.mincpus ELSE 1)
           k0       == [def |-> dn, inst |-> NextInst(dn)]
           starts   == {[s |-> Cur, k |-> Key(b), old |-> b.cpus, req |-> ReqMilli(b)] : b \in existing}
                       \cup (IF canNew THEN {[s |-> s3, k |-> k0, old |-> {}, req |-> 0] : s3 \in NewBalloon(Cur, dn)} ELSE {})
       IN \E st \in starts :
            LET b0 == ByKey(st.s.bs, st.k)
                n  == Want(d, IF st.req + r < 1 THEN 1 ELSE st.req + r)
                sz == Cardinality(b0.cpus)
            IN /\ 1000 * n >= st.req + r                         \* the clamp must not cut below the requests
               /\ n - sz <= Cardinality(st.s.fr)
               /\ \E s4 \in Resize(st.s, st.k, IF n > sz THEN n ELSE sz) :
                    LET b4  == ByKey(s4.bs, st.k)
                        bs5 == (s4.bs \ {b4}) \cup {[b4 EXCEPT !.ctrs = @ \cup {c}]}
                    IN /\ blns' = bs5
                       /\ free' = s4.fr
                       /\ reqOf' = reqOf @@ (c :> r)
                       /\ told' = Repin(s4.t @@ (c :> {}), bs5, {st.k})          \* assignContainer: updatePinning(bln)
                       /\ cls' = Reclass(cls, dn, b4.cpus \ st.old, {})

\* a creation that fails AFTER a new balloon was made (newBalloon takes the type's minimum CPUs, inflating to the
\* request then fails): the undo path returns its CPUs to the idle set and re-shares them.  Nothing changes for the
\* balloons -- except that stale shared CPUs among the returned ones are dropped, and, before 2274836, the CPU class of
\* the returned CPUs (F-C02-3).
AllocateUndone(c, dn, r) ==
    /\ c \notin DOMAIN reqOf
    /\ LET d == DefByName(dn)
           n == Want(d, IF r < 1 THEN 1 ELSE r)
       IN /\ d.mincpus >= 1 /\ Cardinality(free) >= d.mincpus /\ n > Cardinality(free)
          /\ (d.maxballoons = 0 \/ Cardinality(InstancesOf(dn)) < d.maxballoons)
          /\ \E X \in kSubset(d.mincpus, free) :
                LET s1 == DoShare([Cur EXCEPT !.fr = @ \ X], free \ X, X, {})
                    s2 == DoShare([s1 EXCEPT !.fr = free], X, {}, {})
                IN /\ blns' = s2.bs /\ told' = s2.t
                   /\ cls' = IF ClassDeviation = "undo_keeps_type_class" THEN Reclass(cls, dn, X, {}) ELSE cls
    /\ UNCHANGED <<free, reqOf>>

Release(c) ==
    /\ c \in DOMAIN reqOf
    /\ LET b  == CHOOSE b \in blns : c \in b.ctrs
           d  == DefByName(b.def)
           b1 == [b EXCEPT !.ctrs = @ \ {c}]
           rq == ReqMilli(b) - reqOf[c]
           t1 == [x \in DOMAIN told \ {c} |-> told[x]]
           s1 == [bs |-> (blns \ {b}) \cup {b1}, fr |-> free, t |-> t1]
       IN /\ reqOf' = [x \in DOMAIN reqOf \ {c} |-> reqOf[x]]
          /\ IF b1.ctrs = {}
             THEN IF Cardinality(InstancesOf(b.def)) > d.minballoons
                  THEN LET sd == [bs |-> blns \ {b}, fr |-> free \cup b.cpus, t |-> t1]                       \* dynamic balloon: deleted
                           s2 == IF b.cpus = {} \/ ShareDeviation = "delete_no_reshare" THEN sd ELSE DoShare(sd, b.cpus, {}, {})
                       IN blns' = s2.bs /\ free' = s2.fr /\ told' = s2.t /\ cls' = Reclass(cls, b.def, {}, b.cpus)
                  ELSE \E s2 \in Resize(s1, Key(b), Clamp(d, 0)) :
                         LET b2 == ByKey(s2.bs, Key(b))
                         IN blns' = s2.bs /\ free' = s2.fr /\ told' = s2.t /\ cls' = Reclass(cls, b.def, b2.cpus \ b.cpus, b.cpus \ b2.cpus)
             ELSE LET n == Want(d, IF rq < 1 THEN 1 ELSE rq)
                  IN \E s2 \in Resize(s1, Key(b), IF n <= Cardinality(b.cpus) THEN n ELSE Cardinality(b.cpus)) :
                        LET b2 == ByKey(s2.bs, Key(b))
                        IN blns' = s2.bs /\ free' = s2.fr /\ told' = s2.t /\ cls' = Reclass(cls, b.def, {}, b.cpus \ b2.cpus)

Next ==
    \/ \E c \in Ctrs, d \in Defs, r \in Reqs : Allocate(c, d.name, r) \/ AllocateUndone(c, d.name, r)
    \/ \E c \in Ctrs : Release(c)

Spec == Init /\ [][Next]_bvars

-----------------------------------------------------------------------------
(* C02 *)
Managed == DOMAIN reqOf
Inv_BalloonsDisjoint       == Bad_BalloonsDisjoint(Snapshot) = {}
Inv_BalloonsWithinAllowed  == Bad_BalloonOutsideAllowed(Snapshot) = {}
Inv_FreeCpusAreUnowned     == Bad_FreeCpus(Snapshot) = {}
Inv_OneBalloonPerCtr       == Bad_OneBalloonPerCtr(Snapshot, Managed) = {}
Inv_SharedIdleNotOwned     == Bad_SharedIdleOwned(Snapshot) = {}
Inv_SharedIdleCoversScope  == Bad_SharedIdleCoversScope(Snapshot, Topo) = {}
Inv_MinMaxCpus             == Bad_MinMaxCpus(Snapshot) = {}
Inv_MinMaxInstances        == Bad_MinMaxInstances(Snapshot) = {}
Inv_NonEmptyHasCpus        == Bad_NonEmptyHasCpus(Snapshot) = {}
\* every member is told exactly its balloon's CPUs plus the balloon's stored shared idle CPUs (one thread per core for a
\* hyperthread-hiding type) -- although only the balloons whose stored shared set CHANGED are re-pinned in each step
HideOf == [c \in Managed |-> DefByName((CHOOSE b \in blns : c \in b.ctrs).def).hideht]
Inv_ToldIsCpusPlusShared   == Bad_ToldIsCpusPlusShared(Snapshot, told, Managed, HideOf, Topo) = {}
Inv_ToldNonEmpty           == \A c \in Managed : told[c] # {}
\* every CPU carries the class of the balloon that owns it, idle CPUs the idle class (what the CPU controller is told)
ClsRecords == {[class |-> k, cpus |-> SetToSeq({c \in Cpus : cls[c] = k})] : k \in {cls[c] : c \in Cpus}}
Inv_CpuClass               == Bad_CpuClass(Snapshot, ClsRecords) = {}
\* C09: with nothing assigned the policy is as right after configuration (up to which CPUs the pre-created balloons hold)
Inv_Quiescent ==
    (DOMAIN reqOf = {}) =>
        /\ \A b \in blns : b.ctrs = {} /\ Cardinality(b.cpus) = DefByName(b.def).mincpus
        /\ \A d \in Defs : Cardinality(InstancesOf(d.name)) = d.minballoons
=============================================================================
