------------------------------ MODULE Balloons ------------------------------
(***************************************************************************)
(* The balloons policy: CPUs are partitioned into balloons (instances of   *)
(* configured balloon types); a container is assigned to one balloon, which*)
(* is inflated/deflated to the CPUs its containers request (clamped to the *)
(* type's min/max); CPUs no balloon owns are idle and shared with the      *)
(* balloons whose type shares idle CPUs within a topology scope.           *)
(* Property C02 and the CPU half of C09 for this policy.                   *)
(*                                                                         *)
(* Design: Allocate (pick an existing balloon of the type or create a new  *)
(* one; inflate; assign), Release (dismiss; deflate; free or delete the    *)
(* empty balloon).  WHICH balloon is picked and WHICH CPUs are taken or    *)
(* returned is heuristic in the code and nondeterministic here.  The       *)
(* property predicates are those of BalloonPreds, evaluated on a snapshot  *)
(* of this spec's state in the same shape the harness logs.                *)
(***************************************************************************)
EXTENDS BalloonPreds, SequencesExt

CONSTANTS Cpus,            \* available CPUs
          PkgOf,           \* [Cpus -> package id]  (topology for sharing scopes)
          Defs,            \* balloon types: set of [name, mincpus, maxcpus (0 = unlimited), minballoons, maxballoons (0 = unlimited), shareidle]
          Ctrs,            \* containers
          Reqs             \* possible CPU requests (mCPU)

VARIABLES blns,            \* set of balloons [def, inst, cpus, ctrs]
          free,            \* idle CPUs
          reqOf            \* container -> mCPU, for assigned containers

bvars == <<blns, free, reqOf>>

DefByName(n) == CHOOSE d \in Defs : d.name = n
ReqMilli(b)  == MapThenSumSet(LAMBDA c : reqOf[c], b.ctrs)
Clamp(d, n)  == LET lo == IF n < d.mincpus THEN d.mincpus ELSE n IN IF d.maxcpus > 0 /\ lo > d.maxcpus THEN d.maxcpus ELSE lo
Want(d, milli) == Clamp(d, (milli + 999) \div 1000)

\* idle CPUs a balloon shares: those in the topology scope of its CPUs
SharedOf(b, fr) ==
    LET L == DefByName(b.def).shareidle
    IN IF L = "" THEN {}
       ELSE IF L = "system" THEN (IF b.cpus = {} THEN {} ELSE fr)
       ELSE {c \in fr : \E m \in b.cpus : PkgOf[c] = PkgOf[m]}           \* "package"

Topo == {[cpu |-> c, pkg |-> PkgOf[c], die |-> 0, node |-> PkgOf[c], core |-> c, isolated |-> FALSE] : c \in Cpus}

\* the state as a snapshot in the shape BalloonPreds expects
Snapshot ==
    [allowed |-> SetToSeq(Cpus), reserved |-> <<>>, free |-> SetToSeq(free), pincpu |-> TRUE, pinmemory |-> TRUE, idleclass |-> "",
     defs |-> SetToSeq({[name |-> d.name, mincpus |-> d.mincpus, maxcpus |-> d.maxcpus, minballoons |-> d.minballoons,
                         maxballoons |-> d.maxballoons, shareidle |-> d.shareidle, hideht |-> FALSE, pinmemory |-> TRUE,
                         cpuclass |-> d.name] : d \in Defs}),
     balloons |-> SetToSeq({[name |-> <<b.def, b.inst>>, def |-> b.def, inst |-> b.inst, cpus |-> SetToSeq(b.cpus),
                             shared |-> SetToSeq(SharedOf(b, free)), ctrs |-> SetToSeq(b.ctrs), reqmilli |-> ReqMilli(b)] : b \in blns})]

InstancesOf(n) == {b \in blns : b.def = n}
NextInst(n)    == CHOOSE i \in 0 .. Cardinality(Ctrs) + 2 : ~\E b \in InstancesOf(n) : b.inst = i

\* pre-created balloons: minballoons instances of every type at its minimum size
RECURSIVE PreCreate(_, _, _)
PreCreate(todo, bs, fr) ==
    IF todo = {} THEN [blns |-> bs, free |-> fr]
    ELSE LET t == CHOOSE t \in todo : TRUE
             X == CHOOSE X \in kSubset(t.d.mincpus, fr) : TRUE
         IN PreCreate(todo \ {t}, bs \cup {[def |-> t.d.name, inst |-> t.i, cpus |-> X, ctrs |-> {}]}, fr \ X)

Init ==
    LET todo == {[d |-> d, i |-> i] : d \in Defs, i \in 0 .. 1}
        need == {t \in todo : t.i < t.d.minballoons}
        r == PreCreate(need, {}, Cpus)
    IN blns = r.blns /\ free = r.free /\ reqOf = <<>>

\* resize balloon b to n CPUs: take from / return to the idle set (nondeterministic choice of CPUs)
Resized(b, n, fr) ==
    LET k == Cardinality(b.cpus)
    IN IF n >= k
       THEN {[b2 |-> [b EXCEPT !.cpus = @ \cup X], fr2 |-> fr \ X] : X \in kSubset(n - k, fr)}
       ELSE {[b2 |-> [b EXCEPT !.cpus = @ \ X], fr2 |-> fr \cup X] : X \in kSubset(k - n, b.cpus)}

Allocate(c, dn, r) ==
    /\ c \notin DOMAIN reqOf
    /\ LET d == DefByName(dn)
           existing == InstancesOf(dn)
           canNew   == (d.maxballoons = 0 \/ Cardinality(existing) < d.maxballoons) /\ Cardinality(free) >= (IF d.mincpus > 1 THEN d.mincpus ELSE 1)
           cands    == existing \cup (IF canNew THEN {[def |-> dn, inst |-> NextInst(dn), cpus |-> {}, ctrs |-> {}]} ELSE {})
       IN \E b \in cands :
            LET n == Want(d, IF ReqMilli(b) + r < 1 THEN 1 ELSE ReqMilli(b) + r)
            IN /\ 1000 * n >= ReqMilli(b) + r                    \* the clamp must not cut below the requests
               /\ n - Cardinality(b.cpus) <= Cardinality(free)
               /\ \E z \in Resized(b, IF n > Cardinality(b.cpus) THEN n ELSE Cardinality(b.cpus), free) :
                    /\ blns' = (blns \ {b}) \cup {[z.b2 EXCEPT !.ctrs = @ \cup {c}]}
                    /\ free' = z.fr2
                    /\ reqOf' = reqOf @@ (c :> r)

Release(c) ==
    /\ c \in DOMAIN reqOf
    /\ LET b  == CHOOSE b \in blns : c \in b.ctrs
           d  == DefByName(b.def)
           b1 == [b EXCEPT !.ctrs = @ \ {c}]
           rq == ReqMilli(b) - reqOf[c]
       IN /\ reqOf' = [x \in DOMAIN reqOf \ {c} |-> reqOf[x]]
          /\ IF b1.ctrs = {}
             THEN IF Cardinality(InstancesOf(b.def)) > d.minballoons
                  THEN blns' = blns \ {b} /\ free' = free \cup b.cpus                       \* dynamic balloon: deleted
                  ELSE \E z \in Resized(b1, Clamp(d, 0), free) : blns' = (blns \ {b}) \cup {z.b2} /\ free' = z.fr2
             ELSE LET n == Want(d, IF rq < 1 THEN 1 ELSE rq)
                  IN \E z \in Resized(b1, IF n <= Cardinality(b.cpus) THEN n ELSE Cardinality(b.cpus), free) :
                        blns' = (blns \ {b}) \cup {z.b2} /\ free' = z.fr2

Next ==
    \/ \E c \in Ctrs, d \in Defs, r \in Reqs : Allocate(c, d.name, r)
    \/ \E c \in Ctrs : Release(c)

Spec == Init /\ [][Next]_bvars

-----------------------------------------------------------------------------
(* C02 *)
Managed == DOMAIN reqOf
Inv_BalloonsDisjoint       == Bad_BalloonsDisjoint(Snapshot) = {}
Inv_BalloonsWithinAllowed  == Bad_BalloonOutsideAllowed(Snapshot) = {}
Inv_FreeCpusAreUnowned     == Bad_FreeCpus(Snapshot) = {}
Inv_OneBalloonPerCtr       == Bad_OneBalloonPerCtr(Snapshot, Managed) = {}
Inv_SharedIdleNotOwned     == Bad_SharedIdleOwned(Snapshot) = {}
Inv_SharedIdleCoversScope  == Bad_SharedIdleCoversScope(Snapshot, Topo) = {}
Inv_MinMaxCpus             == Bad_MinMaxCpus(Snapshot) = {}
Inv_MinMaxInstances        == Bad_MinMaxInstances(Snapshot) = {}
Inv_NonEmptyHasCpus        == Bad_NonEmptyHasCpus(Snapshot) = {}
\* C09: with nothing assigned the policy is as right after configuration (up to which CPUs the pre-created balloons hold)
Inv_Quiescent ==
    (DOMAIN reqOf = {}) =>
        /\ \A b \in blns : b.ctrs = {} /\ Cardinality(b.cpus) = DefByName(b.def).mincpus
        /\ \A d \in Defs : Cardinality(InstancesOf(d.name)) = d.minballoons
=============================================================================
