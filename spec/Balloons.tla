------------------------------ MODULE Balloons ------------------------------
(***************************************************************************)
(* The balloons policy: CPUs are partitioned into balloons (instances of   *)
(* configured balloon types); a container is assigned to one balloon, which*)
(* is inflated/deflated to the CPUs its containers request (clamped to the *)
(* type's min/max); CPUs no balloon owns are idle and shared with the      *)
(* balloons whose type shares idle CPUs within a topology scope.           *)
(* Property C02 and the CPU half of C09 for this policy.                   *)
(*                                                                         *)
(* Design: Allocate (pick an existing balloon of the type or create a new  *)
(* one; inflate; assign), Release (dismiss; deflate; free or delete the    *)
(* empty balloon).  WHICH balloon is picked and WHICH CPUs are taken or    *)
(* returned is heuristic in the code and nondeterministic here.  The       *)
(* property predicates are those of BalloonPreds, evaluated on a snapshot  *)
(* of this spec's state in the same shape the harness logs.                *)
(***************************************************************************)
EXTENDS BalloonPreds, SequencesExt

CONSTANTS Cpus,            \* available CPUs
          PkgOf,           \* [Cpus -> package id]  (topology for sharing scopes)
          Defs,            \* balloon types: set of [name, mincpus, maxcpus (0 = unlimited), minballoons, maxballoons (0 = unlimited), shareidle]
          Ctrs,            \* containers
          Reqs,            \* possible CPU requests (mCPU)
          ClassDeviation   \* "none" | "undo_keeps_type_class" (F-C02-3, fixed 2274836)

VARIABLES blns,            \* set of balloons [def, inst, cpus, ctrs]
          free,            \* idle CPUs
          reqOf,           \* container -> mCPU, for assigned containers
          cls              \* CPU -> CPU class configured for it (the balloon type's class, "idle" for idle CPUs)

bvars == <<blns, free, reqOf, cls>>
\* the classes the CPU controller is told after a step in which `got` CPUs went to a balloon of type dn and `back`
\* CPUs returned to the idle set
Reclass(c0, dn, got, back) == [c \in Cpus |-> IF c \in got THEN dn ELSE IF c \in back THEN "idle" ELSE c0[c]]

DefByName(n) == CHOOSE d \in Defs : d.name = n
ReqMilli(b)  == MapThenSumSet(LAMBDA c : reqOf[c], b.ctrs)
Clamp(d, n)  == LET lo == IF n < d.mincpus THEN d.mincpus ELSE n IN IF d.maxcpus > 0 /\ lo > d.maxcpus THEN d.maxcpus ELSE lo
Want(d, milli) == Clamp(d, (milli + 999) \div 1000)

\* idle CPUs a balloon shares: those in the topology scope of its CPUs
SharedOf(b, fr) ==
    LET L == DefByName(b.def).shareidle
    IN IF L = "" THEN {}
       ELSE IF L = "system" THEN (IF b.cpus = {} THEN {} ELSE fr)
       ELSE {c \in fr : \E m \in b.cpus : PkgOf[c] = PkgOf[m]}           \* "package"

Topo == {[cpu |-> c, pkg |-> PkgOf[c], die |-> 0, node |-> PkgOf[c], core |-> c, isolated |-> FALSE] : c \in Cpus}

\* the state as a snapshot in the shape BalloonPreds expects
Snapshot ==
    [allowed |-> SetToSeq(Cpus), reserved |-> <<>>, free |-> SetToSeq(free), pincpu |-> TRUE, pinmemory |-> TRUE, idleclass |-> "idle",
     defs |-> SetToSeq({[name |-> d.name, mincpus |-> d.mincpus, maxcpus |-> d.maxcpus, minballoons |-> d.minballoons,
                         maxballoons |-> d.maxballoons, shareidle |-> d.shareidle, hideht |-> FALSE, pinmemory |-> TRUE,
                         cpuclass |-> d.name] : d \in Defs}),
     balloons |-> SetToSeq({[name |-> <<b.def, b.inst>>, def |-> b.def, inst |-> b.inst, cpus |-> SetToSeq(b.cpus),
                             shared |-> SetToSeq(SharedOf(b, free)), ctrs |-> SetToSeq(b.ctrs), reqmilli |-> ReqMilli(b)] : b \in blns})]

InstancesOf(n) == {b \in blns : b.def = n}
NextInst(n)    == CHOOSE i \in 0 .. Cardinality(Ctrs) + 2 : ~\E b \in InstancesOf(n) : b.inst = i

\* pre-created balloons: minballoons instances of every type at its minimum size
RECURSIVE PreCreate(_, _, _)
PreCreate(todo, bs, fr) ==
    IF todo = {} THEN [blns |-> bs, free |-> fr]
    ELSE LET t == CHOOSE t \in todo : TRUE
             X == CHOOSE X \in kSubset(t.d.mincpus, fr) : TRUE
         IN PreCreate(todo \ {t}, bs \cup {[def |-> t.d.name, inst |-> t.i, cpus |-> X, ctrs |-> {}]}, fr \ X)

Init ==
    LET todo == {[d |-> d, i |-> i] : d \in Defs, i \in 0 .. 1}
        need == {t \in todo : t.i < t.d.minballoons}
        r == PreCreate(need, {}, Cpus)
    IN /\ blns = r.blns /\ free = r.free /\ reqOf = <<>>
       /\ cls = [c \in Cpus |-> IF \E b \in r.blns : c \in b.cpus THEN (CHOOSE b \in r.blns : c \in b.cpus).def ELSE "idle"]

\* resize balloon b to n CPUs: take from / return to the idle set (nondeterministic choice of CPUs)
Resized(b, n, fr) ==
    LET k == Cardinality(b.cpus)
    IN IF n >= k
       THEN {[b2 |-> [b EXCEPT !.cpus = @ \cup X], fr2 |-> fr \ X] : X \in kSubset(n - k, fr)}
       ELSE {[b2 |-> [b EXCEPT !.cpus = @ \ X], fr2 |-> fr \cup X] : X \in kSubset(k - n, b.cpus)}

Allocate(c, dn, r) ==
    /\ c \notin DOMAIN reqOf
    /\ LET d == DefByName(dn)
           existing == InstancesOf(dn)
           canNew   == (d.maxballoons = 0 \/ Cardinality(existing) < d.maxballoons) /\ Cardinality(free) >= (IF d.mincpus > 1 THEN d.mincpus ELSE 1)
           cands    == existing \cup (IF canNew THEN {[def |-> dn, inst |-> NextInst(dn), cpus |-> {}, ctrs |-> {}]} ELSE {})
       IN \E b \in cands :
            LET n == Want(d, IF ReqMilli(b) + r < 1 THEN 1 ELSE ReqMilli(b) + r)
            IN /\ 1000 * n >= ReqMilli(b) + r                    \* the clamp must not cut below the requests
               /\ n - Cardinality(b.cpus) <= Cardinality(free)
               /\ \E z \in Resized(b, IF n > Cardinality(b.cpus) THEN n ELSE Cardinality(b.cpus), free) :
                    /\ blns' = (blns \ {b}) \cup {[z.b2 EXCEPT !.ctrs = @ \cup {c}]}
                    /\ free' = z.fr2
                    /\ reqOf' = reqOf @@ (c :> r)
                    /\ cls' = Reclass(cls, dn, z.b2.cpus \ b.cpus, {})

\* a creation that fails AFTER a new balloon was made (newBalloon takes the type's minimum CPUs, inflating to the
\* request then fails): the undo path deletes the balloon again and its CPUs go back to the idle set.  Nothing
\* changes -- except, before 2274836, the CPU class of the returned CPUs (F-C02-3).
AllocateUndone(c, dn, r) ==
    /\ c \notin DOMAIN reqOf
    /\ LET d == DefByName(dn)
           n == Want(d, IF r < 1 THEN 1 ELSE r)
       IN /\ d.mincpus >= 1 /\ Cardinality(free) >= d.mincpus /\ n > Cardinality(free)
          /\ (d.maxballoons = 0 \/ Cardinality(InstancesOf(dn)) < d.maxballoons)
          /\ \E X \in kSubset(d.mincpus, free) :
                cls' = IF ClassDeviation = "undo_keeps_type_class" THEN Reclass(cls, dn, X, {}) ELSE cls
    /\ UNCHANGED <<blns, free, reqOf>>

Release(c) ==
    /\ c \in DOMAIN reqOf
    /\ LET b  == CHOOSE b \in blns : c \in b.ctrs
           d  == DefByName(b.def)
           b1 == [b EXCEPT !.ctrs = @ \ {c}]
           rq == ReqMilli(b) - reqOf[c]
       IN /\ reqOf' = [x \in DOMAIN reqOf \ {c} |-> reqOf[x]]
          /\ IF b1.ctrs = {}
             THEN IF Cardinality(InstancesOf(b.def)) > d.minballoons
                  THEN blns' = blns \ {b} /\ free' = free \cup b.cpus /\ cls' = Reclass(cls, b.def, {}, b.cpus)   \* dynamic balloon: deleted
                  ELSE \E z \in Resized(b1, Clamp(d, 0), free) :
                         blns' = (blns \ {b}) \cup {z.b2} /\ free' = z.fr2 /\ cls' = Reclass(cls, b.def, z.b2.cpus \ b.cpus, b.cpus \ z.b2.cpus)
             ELSE LET n == Want(d, IF rq < 1 THEN 1 ELSE rq)
                  IN \E z \in Resized(b1, IF n <= Cardinality(b.cpus) THEN n ELSE Cardinality(b.cpus), free) :
                        blns' = (blns \ {b}) \cup {z.b2} /\ free' = z.fr2 /\ cls' = Reclass(cls, b.def, {}, b.cpus \ z.b2.cpus)

Next ==
    \/ \E c \in Ctrs, d \in Defs, r \in Reqs : Allocate(c, d.name, r) \/ AllocateUndone(c, d.name, r)
    \/ \E c \in Ctrs : Release(c)

Spec == Init /\ [][Next]_bvars

-----------------------------------------------------------------------------
(* C02 *)
Managed == DOMAIN reqOf
Inv_BalloonsDisjoint       == Bad_BalloonsDisjoint(Snapshot) = {}
Inv_BalloonsWithinAllowed  == Bad_BalloonOutsideAllowed(Snapshot) = {}
Inv_FreeCpusAreUnowned     == Bad_FreeCpus(Snapshot) = {}
Inv_OneBalloonPerCtr       == Bad_OneBalloonPerCtr(Snapshot, Managed) = {}
Inv_SharedIdleNotOwned     == Bad_SharedIdleOwned(Snapshot) = {}
Inv_SharedIdleCoversScope  == Bad_SharedIdleCoversScope(Snapshot, Topo) = {}
Inv_MinMaxCpus             == Bad_MinMaxCpus(Snapshot) = {}
Inv_MinMaxInstances        == Bad_MinMaxInstances(Snapshot) = {}
Inv_NonEmptyHasCpus        == Bad_NonEmptyHasCpus(Snapshot) = {}
\* every CPU carries the class of the balloon that owns it, idle CPUs the idle class (what the CPU controller is told)
ClsRecords == {[class |-> k, cpus |-> SetToSeq({c \in Cpus : cls[c] = k})] : k \in {cls[c] : c \in Cpus}}
Inv_CpuClass               == Bad_CpuClass(Snapshot, ClsRecords) = {}
\* C09: with nothing assigned the policy is as right after configuration (up to which CPUs the pre-created balloons hold)
Inv_Quiescent ==
    (DOMAIN reqOf = {}) =>
        /\ \A b \in blns : b.ctrs = {} /\ Cardinality(b.cpus) = DefByName(b.def).mincpus
        /\ \A d \in Defs : Cardinality(InstancesOf(d.name)) = d.minballoons
=============================================================================
