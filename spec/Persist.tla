------------------------------- MODULE Persist -------------------------------
(***************************************************************************)
(* C10 -- persistence of the pod/container cache, the save protocol of     *)
(* pkg/resmgr/cache/cache.go at system-call granularity.                   *)
(*                                                                         *)
(*   Save():  data := Snapshot()                                           *)
(*            os.WriteFile(filePath+".saving", data, 0644)                 *)
(*                 = openat(O_WRONLY|O_CREAT|O_TRUNC) ; write* ; close     *)
(*            os.Rename(filePath+".saving", filePath)                      *)
(*   NewCache(): checkPerm(file) ; mkdirAll(dir) ; mkdirAll(dataDir) ; Load *)
(*   Load():  ReadFile ; not-exist or empty => empty cache ; else Restore  *)
(*                                                                         *)
(* One action per system call (OpenTmp, WriteTmp (one chunk), CloseTmp,    *)
(* Rename); the environment may kill the process between any two steps      *)
(* (Crash) or make the next step return an error (Fail: ENOSPC, EIO); while *)
(* the process is down it may replace the cache file / directory by        *)
(* something unsafe (Tamper).  Memory contents are abstracted to a version  *)
(* number; versions have different serialized sizes (Size(v) chunks: the    *)
(* cache grows and shrinks).  A file is [ex, id, n, len]: exists, the       *)
(* version its first n chunks were written from, its length in chunks;      *)
(* chunks n+1 .. len are whatever the file held before it was opened        *)
(* WITHOUT truncation (the real code truncates, so len = n there).  A file  *)
(* is a complete snapshot iff n = len = Size(id).                          *)
(*                                                                         *)
(* SEVERAL GENERATIONS (save / restart / save / restart ...):               *)
(*  - a save that was interrupted leaves its temporary file behind; the     *)
(*    next save (of this or of a later process) opens that very path;      *)
(*  - after a restart the memory consists of a part that was only LOADED   *)
(*    (kept in its serialized form until somebody asks for it: the policy   *)
(*    entries, cch.PolicyJSON vs cch.policyData) and the part touched in    *)
(*    this process; `untouched` says that a loaded-only part exists.  A     *)
(*    save has to serialize both.                                          *)
(*                                                                         *)
(* Deviation # "none" models a defect class each; TLC must find the        *)
(* violation (MC_Persist_dev_*.cfg) -- this shows that the predicates can  *)
(* see the bug classes the real-code fault enumeration is looking for.     *)
(***************************************************************************)
EXTENDS PersistPreds, Integers, TLC

CONSTANTS Chunks,     \* write(2)-level chunks per snapshot, >= 1
          MaxVer,     \* memory versions explored
          Deviation   \* "none" | "inplace" | "ignore_write_error" | "early_rename" | "unlink_first" | "stat_follows_symlink"
                      \* | "no_trunc" (the temporary file is opened without O_TRUNC)
                      \* | "drop_untouched" (a save serializes only what was touched in this process)
                      \* | "swallow_read_error" (a failed read of an existing cache file is taken for an empty cache)

VARIABLES mem,        \* version of the cache in memory (0 = the empty cache)
          untouched,  \* part of the memory content was loaded from the file and not yet touched in this process
          up,         \* "up" | "down" | "refused" | "loaderror" | "readerror"
          pc,         \* next step of the running Save: "idle" | "open" | "write" | "close" | "rename" | "unlink"
          snap,       \* version being saved
          cache, tmp, \* the two files
          lastOk,     \* version of the last save that returned success (what a restart must find)
          inflight,   \* version whose save was interrupted by the crash (-1: none)
          fpath, dpath, \* [kind, mode] of the cache file path and the cache directory
          usedUnsafe  \* history: a start-up went on with an unsafe path

vars == <<mem, untouched, up, pc, snap, cache, tmp, lastOk, inflight, fpath, dpath, usedUnsafe>>

\* serialized size of a version in chunks, 1 .. Chunks: consecutive versions grow and shrink (Chunks = 2: 1,2,1,2,..;
\* Chunks = 3: 1,3,2,1,3,..).  Stripped(v) is what the deviation "drop_untouched" writes for v: v without the part
\* that was only loaded (negative codes; the real code never produces one).
Stripped(v) == -1 - v
Size(v) == IF v < 0 THEN 1 ELSE 1 + ((v * (Chunks - 1)) % Chunks)
Max2(a, b) == IF a >= b THEN a ELSE b

Absent == [ex |-> FALSE, id |-> 0, n |-> 0, len |-> 0]
File(v, k, l) == [ex |-> TRUE, id |-> v, n |-> k, len |-> l]
Complete(f) == f.ex /\ WholeFile(f.n, f.len, Size(f.id))

InPlace == Deviation = "inplace"
\* the file the save writes to
Target == IF InPlace THEN cache ELSE tmp
SetTarget(f) == IF InPlace THEN cache' = f /\ UNCHANGED tmp ELSE tmp' = f /\ UNCHANGED cache

SafeFile == [kind |-> "regular", mode |-> {}]
SafeDir  == [kind |-> "directory", mode |-> {}]

Init == /\ mem = 0 /\ untouched = FALSE /\ up = "up" /\ pc = "idle" /\ snap = 0
        /\ cache = Absent /\ tmp = Absent /\ lastOk = 0 /\ inflight = -1
        /\ fpath = SafeFile /\ dpath = SafeDir /\ usedUnsafe = FALSE

Running == up = "up"
keepPaths == UNCHANGED <<fpath, dpath, usedUnsafe>>

\* a change of the cache content (pods, containers, one entry ...); what was only loaded stays as it is
Mutate == /\ Running /\ pc = "idle" /\ mem >= 0 /\ mem < MaxVer
          /\ mem' = mem + 1
          /\ UNCHANGED <<untouched, up, pc, snap, cache, tmp, lastOk, inflight>> /\ keepPaths

\* everything that was only loaded is asked for (GetPolicyEntry of every key): nothing is left in its loaded form
Touch == /\ Running /\ pc = "idle" /\ untouched
         /\ untouched' = FALSE
         /\ UNCHANGED <<mem, up, pc, snap, cache, tmp, lastOk, inflight>> /\ keepPaths

\* what Snapshot() serializes for the content `snap`: both the loaded-only and the touched part
Written == IF Deviation = "drop_untouched" /\ untouched /\ snap > 0 THEN Stripped(snap) ELSE snap

SaveBegin == /\ Running /\ pc = "idle"
             /\ snap' = mem /\ pc' = "open"
             /\ UNCHANGED <<mem, untouched, up, cache, tmp, lastOk, inflight>> /\ keepPaths

\* openat(O_WRONLY|O_CREAT|O_TRUNC): the target exists and is empty; without O_TRUNC a file that is already there
\* (left behind by an interrupted save) keeps its length
OpenTmp == /\ Running /\ pc = "open"
           /\ SetTarget(IF Deviation = "no_trunc" /\ Target.ex THEN File(Written, 0, Target.len) ELSE File(Written, 0, 0))
           /\ pc' = IF Deviation = "early_rename" THEN "rename" ELSE "write"
           /\ UNCHANGED <<mem, untouched, up, snap, lastOk, inflight>> /\ keepPaths

WriteTmp == /\ Running /\ pc = "write" /\ Target.ex /\ Target.n < Size(Target.id)
            /\ SetTarget(File(Target.id, Target.n + 1, Max2(Target.len, Target.n + 1)))
            /\ pc' = IF Target.n + 1 = Size(Target.id) THEN "close" ELSE "write"
            /\ UNCHANGED <<mem, untouched, up, snap, lastOk, inflight>> /\ keepPaths

CloseTmp == /\ Running /\ pc = "close"
            /\ pc' = CASE Deviation = "early_rename" -> "done"
                       [] Deviation = "unlink_first" -> "unlink"
                       [] OTHER -> "rename"
            /\ UNCHANGED <<mem, untouched, up, snap, cache, tmp, lastOk, inflight>> /\ keepPaths

\* a deviation: remove the old file first, then move the new one in place
Unlink == /\ Running /\ pc = "unlink"
          /\ cache' = Absent /\ pc' = "rename"
          /\ UNCHANGED <<mem, untouched, up, snap, tmp, lastOk, inflight>> /\ keepPaths

\* rename(2) replaces the destination atomically; for the in-place deviation there is nothing left to do
Rename == /\ Running /\ pc = "rename"
          /\ IF InPlace THEN UNCHANGED <<cache, tmp>>
             ELSE IF Deviation = "early_rename"
                  THEN cache' = tmp /\ UNCHANGED tmp     \* the descriptor still writes to the (renamed) file
                  ELSE cache' = tmp /\ tmp' = Absent
          /\ pc' = IF Deviation = "early_rename" THEN "write2" ELSE "done"
          /\ UNCHANGED <<mem, untouched, up, snap, lastOk, inflight>> /\ keepPaths

\* early_rename: the data is written after the rename, through the still open descriptor
WriteLate == /\ Running /\ pc = "write2" /\ cache.n < Size(cache.id)
             /\ cache' = File(cache.id, cache.n + 1, Max2(cache.len, cache.n + 1)) /\ tmp' = Absent
             /\ pc' = IF cache.n + 1 = Size(cache.id) THEN "close" ELSE "write2"
             /\ UNCHANGED <<mem, untouched, up, snap, lastOk, inflight>> /\ keepPaths

\* Save returns nil
SaveOk == /\ Running /\ pc = "done"
          /\ lastOk' = snap /\ pc' = "idle"
          /\ UNCHANGED <<mem, untouched, up, snap, cache, tmp, inflight>> /\ keepPaths

\* the next system call of the save returns an error (ENOSPC, EIO): Save gives up and returns the error; what was
\* written so far stays where it is (os.WriteFile closes the descriptor)
Fail == /\ Running /\ pc \in {"open", "write", "close", "rename", "unlink", "write2"}
        /\ pc' = IF Deviation = "ignore_write_error" /\ pc = "write" THEN "close" ELSE "idle"
        /\ UNCHANGED <<mem, untouched, up, snap, cache, tmp, lastOk, inflight>> /\ keepPaths

\* SIGKILL at any instant: memory is gone, the disk stays as it is
Crash == /\ Running
         /\ up' = "down" /\ pc' = "idle"
         /\ inflight' = IF pc = "idle" THEN -1 ELSE snap
         /\ untouched' = FALSE
         /\ UNCHANGED <<mem, snap, cache, tmp, lastOk>> /\ keepPaths

\* while the plugin is down somebody replaces the cache file or the directory
\* (one unsafe thing at a time: the refusal must not depend on the other path)
Tamper == /\ up = "down" /\ fpath = SafeFile /\ dpath = SafeDir
          /\ \E k \in PathKinds, m \in SUBSET {"gw", "ow"}, which \in {"file", "dir"} :
                IF which = "file" THEN fpath' = [kind |-> k, mode |-> m] /\ UNCHANGED dpath
                ELSE dpath' = [kind |-> k, mode |-> m] /\ UNCHANGED fpath
          /\ UNCHANGED <<mem, untouched, up, pc, snap, cache, tmp, lastOk, inflight, usedUnsafe>>

Repair == /\ up = "refused"
          /\ fpath' = SafeFile /\ dpath' = SafeDir /\ up' = "down"
          /\ UNCHANGED <<mem, untouched, pc, snap, cache, tmp, lastOk, inflight, usedUnsafe>>

\* what checkPerm sees: os.Lstat does not follow a symbolic link; the deviation uses os.Stat
Seen(p, want) == IF Deviation = "stat_follows_symlink" /\ p.kind = "symlink" THEN [kind |-> want, mode |-> {}] ELSE p
PathsPass == /\ ~Unsafe(Seen(fpath, "regular").kind, Seen(fpath, "regular").mode, "regular") \/ ~cache.ex
             /\ ~Unsafe(Seen(dpath, "directory").kind, Seen(dpath, "directory").mode, "directory")
PathsSafe == /\ ~Unsafe(fpath.kind, fpath.mode, "regular") \/ ~cache.ex
             /\ ~Unsafe(dpath.kind, dpath.mode, "directory")

\* NewCache: refuse unsafe paths, else Load (a missing or empty file is an empty cache, a torn one -- cut short, or a
\* snapshot followed by stale bytes -- is an error).  What a non-empty file held is in memory in its loaded form.
Restart == /\ up = "down"
           /\ IF ~PathsPass
              THEN up' = "refused" /\ UNCHANGED <<mem, untouched, lastOk, usedUnsafe, inflight>>
              ELSE /\ usedUnsafe' = (usedUnsafe \/ ~PathsSafe)
                   /\ IF ~cache.ex \/ cache.len = 0
                      THEN up' = "up" /\ mem' = 0 /\ untouched' = FALSE /\ lastOk' = 0 /\ inflight' = -1
                      ELSE IF Complete(cache)
                           THEN up' = "up" /\ mem' = cache.id /\ untouched' = (cache.id # 0) /\ lastOk' = cache.id /\ inflight' = -1
                           ELSE up' = "loaderror" /\ UNCHANGED <<mem, untouched, lastOk, inflight>>
           /\ UNCHANGED <<pc, snap, cache, tmp, fpath, dpath>>

\* NewCache whose READ of the cache file fails (openat or read returns EIO / EACCES / EMFILE; the file itself is an
\* intact snapshot): the start-up has to fail -- nothing is loaded, the disk stays as it is, and a later start (GiveUp,
\* then Restart) finds the snapshot.  The deviation takes the failure for "no cache yet" and comes up EMPTY; its next
\* successful save replaces the intact snapshot although no save was ever interrupted.
RestartReadFail == /\ up = "down" /\ PathsPass /\ cache.ex /\ cache.len > 0
                   /\ IF Deviation = "swallow_read_error"
                      THEN up' = "up" /\ mem' = 0 /\ untouched' = FALSE /\ inflight' = -1
                      ELSE up' = "readerror" /\ UNCHANGED <<mem, untouched, inflight>>
                   /\ UNCHANGED <<pc, snap, cache, tmp, lastOk>> /\ keepPaths

\* the start-up that failed on the read error has exited; whoever supervises the plugin starts it again
GiveUp == /\ up = "readerror"
          /\ up' = "down"
          /\ UNCHANGED <<mem, untouched, pc, snap, cache, tmp, lastOk, inflight>> /\ keepPaths

Next == Mutate \/ Touch \/ SaveBegin \/ OpenTmp \/ WriteTmp \/ CloseTmp \/ Unlink \/ Rename \/ WriteLate \/ SaveOk \/ Fail \/ Crash
        \/ Tamper \/ Repair \/ Restart \/ RestartReadFail \/ GiveUp

Spec == Init /\ [][Next]_vars

-----------------------------------------------------------------------------
TypeOK == /\ mem \in 0 .. MaxVer /\ snap \in 0 .. MaxVer /\ lastOk \in 0 .. MaxVer /\ inflight \in -1 .. MaxVer
          /\ untouched \in BOOLEAN
          /\ up \in {"up", "down", "refused", "loaderror", "readerror"}
          /\ pc \in {"idle", "open", "write", "close", "rename", "unlink", "write2", "done"}
          /\ cache.n \in 0 .. Chunks /\ tmp.n \in 0 .. Chunks
          /\ cache.len \in cache.n .. Chunks /\ tmp.len \in tmp.n .. Chunks
          \* the real code truncates the temporary file: no file ever carries stale bytes
          /\ (Deviation = "none" => cache.len = cache.n /\ tmp.len = tmp.n)

\* the versions a complete cache file may hold right now: the last successful save, or the one in progress
\* (also the one that was in progress when the process was killed)
Legit == {lastOk} \cup (IF pc # "idle" THEN {snap} ELSE {}) \cup (IF inflight >= 0 THEN {inflight} ELSE {})

\* what a fresh NewCache would find if it were started now, as an observation in the shape of PersistPreds
LoadsNow == ~cache.ex \/ cache.len = 0 \/ Complete(cache)
FoundNow == IF ~cache.ex \/ cache.len = 0 THEN 0 ELSE cache.id

\* C10: at EVERY instant the cache file is None (only before the first successful save), or a complete old or new snapshot
Inv_FileIsCompleteSnapshot ==
    /\ CompleteSnapshot(LoadsNow, FoundNow = lastOk, FoundNow \in Legit)
    /\ (~cache.ex => lastOk = 0)
    /\ (cache.ex => Complete(cache))
Inv_LoadsWithoutError == up # "loaderror"

\* C10: a restart finds the cache of the last successful save (or of the save the crash interrupted, if that got as far
\* as the rename)
Act_ReloadEqualsLastSave ==
    [][(up = "down" /\ up' = "up") => (mem' = lastOk \/ (inflight >= 0 /\ mem' = inflight))]_vars

\* C10: unsafe paths are refused, never used
Inv_RefuseUnsafePath == ~usedUnsafe

\* vacuity: the interesting situations are reachable (checked as expected violations in MC_Persist_reach.cfg)
Reach_TornTmpAfterCrash == ~(up = "down" /\ tmp.ex /\ tmp.n > 0 /\ tmp.n < Size(tmp.id) /\ Complete(cache))
Reach_NewAfterCrashInSave == ~(up = "down" /\ inflight >= 0 /\ Complete(cache) /\ cache.id = inflight /\ inflight # lastOk)
Reach_Refused == up # "refused"
\* several generations: a save starts over a LONGER temporary file that an interrupted save left behind (of a later
\* process: the save is the first one after the restart, lastOk is what was loaded); a save starts while part of the
\* memory is only loaded; and that save gets reloaded (the file on disk was written while `untouched` held)
Reach_SaveOverLongerLeftover == ~(Running /\ pc = "open" /\ tmp.ex /\ tmp.len > Size(snap) /\ snap # lastOk /\ inflight = -1 /\ Complete(cache))
\* a start-up failed on a read error while an intact snapshot other than the empty cache was on disk
Reach_ReadError == ~(up = "readerror" /\ Complete(cache) /\ cache.id = lastOk /\ lastOk # 0)
Reach_SaveWhileUntouched == ~(Running /\ pc = "done" /\ untouched /\ snap # lastOk)
=============================================================================
