------------------------------- MODULE ExprDom -------------------------------
(***************************************************************************)
(* C19 -- the input domain on which the real code is exercised.            *)
(*                                                                         *)
(* The domain is DEFINED here (base part: full products of the universes   *)
(* below) and extended by a seeded sample (EXTRA_FILE, produced by         *)
(* engines/expr.py: random key structures, value lists, weights, type      *)
(* lists -- admitted only if they are inside the grammar checked by        *)
(* ExtraOK).  ExprGen serialises the domain for the Go driver; Trace_Expr  *)
(* re-derives it and requires that the recorded trace covers exactly this  *)
(* domain, record by record (a driver that skips or reorders inputs is     *)
(* rejected: inconclusive, never a verdict).                               *)
(*                                                                         *)
(* Global record index i:  [0, NEval) eval records (base product first,    *)
(* key-major, then subject, then value list; then the extra sample),       *)
(* [NEval, NEval+NWeight) weight records, then NChoose choose records      *)
(* (type-list-major, then container).                                      *)
(***************************************************************************)
EXTENDS Expr, Json, IOUtils, SequencesExt

Extra == JsonDeserialize(IOEnv.EXTRA_FILE)
\* fields: subjects, evals [key, s, vl], weights [anti, w, scope], deflists [defs, rsv, e2e]
\* A trace validator that checks one chunk of the trace is given only the slice of the sample its chunk refers to:
\*   evals    = sample points eoff+1 .. eoff+Len(evals)    of neval,
\*   deflists = sample lists  doff+1 .. doff+Len(deflists) of ndefl   (ExprGen gets everything: eoff = doff = 0)

SetOf(s) == {s[i] : i \in DOMAIN s}
RECURSIVE FlatSeq(_)
FlatSeq(ss) == IF Len(ss) = 0 THEN <<>> ELSE Head(ss) \o FlatSeq(Tail(ss))

-----------------------------------------------------------------------------
(* subjects *)
Pod(id, name, ns, qos, uid, labels) ==
    [kind |-> "pod", id |-> id, name |-> name, ns |-> ns, qos |-> qos, uid |-> uid, labels |-> labels]
NoAnn == [ctr |-> <<>>, pod |-> <<>>, plain |-> <<>>]
Ctr(id, name, labels, tags, pod, ann) ==
    [kind |-> "ctr", id |-> id, name |-> name, labels |-> labels, tags |-> tags, pod |-> pod, ann |-> ann]

BaseSubjects == <<
    Ctr("c1", "a", << <<"app", "a">>, <<"io.test/tier", "b">> >>, << <<"t", "a">> >>,
        Pod("p1", "b", "a", "Burstable", "u1", << <<"app", "b">>, <<"x", "">> >>), NoAnn),
    Ctr("c2", "b", <<>>, <<>>,
        Pod("p2", "a", "b", "BestEffort", "u2", <<>>), NoAnn),
    Ctr("c3", "ab", << <<"app", "*">> >>, << <<"t", "?">> >>,
        Pod("p3", "a*", "kube-system", "Guaranteed", "u3", << <<"app", "a*">> >>), NoAnn),
    Ctr("c4", "a", << <<"app", "b">>, <<"x", "">> >>, << <<"t", "">> >>,
        Pod("p4", "p-4", "a", "Burstable", "u4", << <<"app", "a">> >>), NoAnn),
    Ctr("c5", "[", << <<"app", "ab">>, <<"io.test/tier", "a">> >>, << <<"t", "a/b">> >>,
        Pod("p5", "b", "b", "BestEffort", "u5", << <<"app", "[">>, <<"x", "b">> >>), NoAnn),
    Pod("p8", "a", "b", "Burstable", "u8", << <<"app", "a">>, <<"io.test/tier", "">> >>),
    Pod("p9", "b", "a", "Guaranteed", "u9", <<>>) >>

Subjects == BaseSubjects \o Extra.subjects
NS == Len(Subjects)

-----------------------------------------------------------------------------
(* keys *)
Single(sub)         == [form |-> "single", ksep |-> "", vsep |-> "", subs |-> <<sub>>]
Simple(subs)        == [form |-> "simple", ksep |-> "", vsep |-> "", subs |-> subs]
Full(ks, vs, subs)  == [form |-> "full", ksep |-> ks, vsep |-> vs, subs |-> subs]

DocSubs == <<
    <<"name">>, <<"namespace">>, <<"qosclass">>, <<"id">>,
    <<"labels", "app">>, <<"labels", "io.test/tier">>, <<"labels", "x">>, <<"labels", "missing">>,
    <<"tags", "t">>, <<"tags", "missing">>,
    <<"pod", "name">>, <<"pod", "namespace">>, <<"pod", "qosclass">>, <<"pod", "id">>, <<"pod", "uid">>,
    <<"pod", "labels", "app">>, <<"pod", "labels", "x">>, <<"pod", "labels", "missing">> >>
\* accepted by the key syntax but not offered by every kind of subject (evaluate as absent)
OddSubs == << <<"uid">>, <<"pod", "tags", "t">>, <<"pod", "pod", "name">> >>
\* outside the key syntax: no semantics claimed; only "accepted by Validate => safe"
BadSubs == << <<"bogus">>, <<"labels">>, <<"pod">>, <<"name", "x">>, <<"">> >>

\* separators: none of these characters occurs in a sub-key of this domain
KSeps == {":", ",", ";", "|", "+", "=", "@", "#", "%", "&", "!", "~", "^", " ", "$", "<", ">", "(", ")", "'"}
VSeps == KSeps \cup {"-", "_", "*", "?", "["}

JointKeys == <<
    Simple(<< <<"name">>, <<"namespace">> >>),
    Simple(<< <<"pod", "qosclass">>, <<"pod", "name">>, <<"name">> >>),            \* the documented example
    Simple(<< <<"pod", "labels", "app">>, <<"labels", "app">>, <<"tags", "t">> >>),
    Simple(<< <<"labels", "missing">>, <<"tags", "missing">> >>),                 \* no sub-key exists
    Simple(<< <<"labels", "missing">>, <<"name">> >>),                            \* some exist
    Full(":", ":", << <<"name">>, <<"namespace">> >>),                            \* == the simple form
    Full(",", "-", << <<"labels", "app">>, <<"name">> >>),
    Full(",", "-", << <<"pod", "labels", "app">>, <<"labels", "missing">>, <<"tags", "t">> >>),
    Full(";", "=", << <<"name">>, <<"namespace">> >>),
    Full(";", "=", << <<"labels", "x">>, <<"labels", "x">> >>),                   \* empty values
    Full("|", " ", << <<"namespace">>, <<"labels", "app">> >>),
    Full("+", "+", << <<"labels", "missing">>, <<"pod", "labels", "missing">> >>),\* no sub-key exists
    Full("+", "+", << <<"labels", "app">>, <<"pod", "labels", "app">> >>),
    Full(":", ",", << <<"pod", "name">>, <<"name">> >>),
    Full(",", ":", << <<"name">>, <<"pod", "name">> >>),
    Full("#", "%", << <<"tags", "t">>, <<"labels", "io.test/tier">> >>),
    Full("&", "~", << <<"qosclass">>, <<"pod", "uid">>, <<"id">> >>),
    Full("@", "*", << <<"name">>, <<"labels", "app">> >>),                        \* value separator is a glob character
    Full("!", "?", << <<"namespace">>, <<"name">> >>),
    Full("^", "_", << <<"labels", "app">>, <<"tags", "missing">> >>),
    Full(" ", "-", << <<"name">>, <<"namespace">> >>),
    Full("$", "[", << <<"name">>, <<"name">> >>),
    Full(",", "-", << <<"uid">>, <<"name">> >>),                                  \* uid: pods only
    Full(",", "-", << <<"bogus">>, <<"name">> >>) >>                              \* outside the syntax

BaseKeys == [i \in DOMAIN DocSubs |-> Single(DocSubs[i])] \o [i \in DOMAIN OddSubs |-> Single(OddSubs[i])]
            \o [i \in DOMAIN BadSubs |-> Single(BadSubs[i])] \o JointKeys
NK == Len(BaseKeys)

KeyKind(key) == IF Len(key.subs) > 1 THEN "joint" ELSE IF Len(key.subs[1]) > 1 THEN "nested" ELSE "simple"

-----------------------------------------------------------------------------
(* value lists *)
BaseVLs == << <<>>,
    <<"a">>, <<"b">>, <<"a*">>, <<"*">>, <<"?">>, <<"">>, <<"[">>, <<"ab">>,
    <<"a", "b">>, <<"b", "a">>, <<"a", "a">>, <<"a*", "b">>, <<"b", "*">>, <<"*", "a">>, <<"?", "ab">>,
    <<"", "a">>, <<"[", "a">>, <<"a", "[">>, <<"ab", "a*">>, <<"?", "?">>,
    <<"b", "a*", "?">>, <<"a", "b", "ab">>,
    <<"a:a">>, <<"a-a">>, <<"b:a", "a:a">>, <<"a-b", "a-a", "?-?">> >>     \* values of joint keys
NV == Len(BaseVLs)

-----------------------------------------------------------------------------
(* eval domain *)
NBase   == NK * NS * NV
NExtraE == Extra.neval
NEval   == NBase + NExtraE

\* the (key, subject index, value list) of eval record i (0-based)
EvalAt(i) ==
    IF i < NBase
    THEN [key |-> BaseKeys[(i \div (NS * NV)) + 1], s |-> ((i \div NV) % NS) + 1, vl |-> BaseVLs[(i % NV) + 1]]
    ELSE LET x == Extra.evals[i - NBase - Extra.eoff + 1] IN [key |-> x.key, s |-> x.s, vl |-> x.vl]

-----------------------------------------------------------------------------
(* affinity weights: [anti, w, scope (an explicit scope is given), simple (the simplified notation)] *)
BaseWs == <<0, 1, -1, 5, -5, 999, 1000, 1001, -999, -1000, -1001, 65536, -65536,
            2147483647, -2147483647, MinInt32>>
BaseWeights ==
    FlatSeq([i \in DOMAIN BaseWs |->
        << [anti |-> FALSE, w |-> BaseWs[i], scope |-> FALSE, simple |-> FALSE],
           [anti |-> TRUE,  w |-> BaseWs[i], scope |-> FALSE, simple |-> FALSE],
           [anti |-> FALSE, w |-> BaseWs[i], scope |-> TRUE,  simple |-> FALSE],
           [anti |-> TRUE,  w |-> BaseWs[i], scope |-> TRUE,  simple |-> FALSE] >>])
    \o << [anti |-> FALSE, w |-> 0, scope |-> FALSE, simple |-> TRUE],
          [anti |-> TRUE,  w |-> 0, scope |-> FALSE, simple |-> TRUE] >>
Weights == BaseWeights \o [i \in DOMAIN Extra.weights |->
                              [anti |-> Extra.weights[i].anti, w |-> Extra.weights[i].w,
                               scope |-> Extra.weights[i].scope, simple |-> FALSE]]
NWeight == Len(Weights)

-----------------------------------------------------------------------------
(* balloon-type selection *)
CPod(i, ns) == Pod("q" \o ToString(i), "pod" \o ToString(i), ns, "BestEffort", "v" \o ToString(i), <<>>)
AnnMenu == <<
    [NoAnn EXCEPT !.ctr = << <<"c", "T1">> >>],                                   \* container-specific
    [NoAnn EXCEPT !.pod = <<"T3">>],                                               \* pod-wide
    [NoAnn EXCEPT !.plain = <<"T2">>],                                             \* plain
    [NoAnn EXCEPT !.ctr = << <<"c", "nosuch">> >>],                                \* unknown name
    [NoAnn EXCEPT !.ctr = << <<"c", "T3">> >>, !.pod = <<"T1">>, !.plain = <<"nosuch">>],  \* precedence
    [NoAnn EXCEPT !.ctr = << <<"other", "T1">> >>],                                \* another container's
    [NoAnn EXCEPT !.pod = <<"default">>, !.plain = <<"T1">>],                      \* names a builtin type
    [NoAnn EXCEPT !.ctr = << <<"other", "T1">>, <<"c", "reserved">> >>],
    [NoAnn EXCEPT !.plain = <<"">>] >>                                             \* empty name
CNs == <<"kube-system", "rsv-1", "a", "b", "prod-x">>
CLb == << << <<"app", "a">> >>, << <<"app", "b">> >> >>

BaseCCtrs ==
    [i \in 1 .. 10 |-> Ctr("k" \o ToString(i), "c", CLb[((i - 1) % 2) + 1], <<>>,
                           CPod(i, CNs[((i - 1) \div 2) + 1]), NoAnn)]
    \o [j \in 1 .. 18 |-> LET i == 10 + j IN
                          Ctr("k" \o ToString(i), "c", CLb[1], <<>>,
                              CPod(i, IF j <= 9 THEN "a" ELSE "kube-system"), AnnMenu[((j - 1) % 9) + 1])]
CCtrs == BaseCCtrs
NC == Len(CCtrs)

X(key, op, vals) == [key |-> key, op |-> op, vals |-> vals]
D(name, nss, exprs) == [name |-> name, nss |-> nss, exprs |-> exprs]
DefMenu == <<
    D("T1", <<"a">>, <<>>),
    D("T2", <<"*">>, <<>>),
    D("T3", <<>>, << X(Single(<<"labels", "app">>), "Equals", <<"a">>) >>),
    D("T4", <<"prod-*", "b">>, << X(Single(<<"namespace">>), "In", <<"kube-system", "b">>) >>),
    D("reserved", <<>>, <<>>),
    D("default", <<"b">>, <<>>),
    D("T7", <<"[">>, << X(Full(",", "-", << <<"namespace">>, <<"labels", "app">> >>), "MatchesAny", <<"b-?", "a-a">>) >>) >>
NM == Len(DefMenu)

Distinct(t) == \A i, j \in DOMAIN t : i # j => t[i] # t[j]
Perms(n, k) == {t \in [1 .. k -> 1 .. n] : Distinct(t)}
\* all ordered lists of at most 3 distinct menu entries, in a fixed order
IdxLists == LET S == Perms(NM, 1) \cup Perms(NM, 2) \cup Perms(NM, 3)
                Key(t) == Len(t) * 1000 + (IF Len(t) >= 1 THEN t[1] * 100 ELSE 0)
                          + (IF Len(t) >= 2 THEN t[2] * 10 ELSE 0) + (IF Len(t) >= 3 THEN t[3] ELSE 0)
            IN  <<<<>>>> \o SortSeq(SetToSeq(S), LAMBDA a, b : Key(a) < Key(b))
RsvMenu == << <<>>, <<"rsv-*">> >>
BaseDefLists ==
    FlatSeq([i \in DOMAIN IdxLists |->
        [r \in 1 .. 2 |-> [defs |-> [j \in DOMAIN IdxLists[i] |-> DefMenu[IdxLists[i][j]]],
                           rsv  |-> RsvMenu[r],
                           e2e  |-> TRUE]]])
NBD == Len(BaseDefLists)
LoadedDefLists == BaseDefLists \o Extra.deflists                     \* what this run can see
DefListAt(d) == IF d <= NBD THEN BaseDefLists[d] ELSE Extra.deflists[d - NBD - Extra.doff]
ND == NBD + Extra.ndefl
NChoose == ND * NC

ChooseAt(j) == [d |-> (j \div NC) + 1, c |-> (j % NC) + 1]        \* j 0-based within the choose section

Total == NEval + NWeight + NChoose
KindAt(i) == IF i < NEval THEN "eval" ELSE IF i < NEval + NWeight THEN "weight" ELSE "choose"

\* every (pattern, string) pair whose glob result the selection oracle needs
AllDefs     == UNION {SetOf(LoadedDefLists[i].defs) : i \in DOMAIN LoadedDefLists}
AllExprs    == UNION {SetOf(d.exprs) : d \in AllDefs}
NsPatterns  == UNION {SetOf(d.nss) : d \in AllDefs} \cup UNION {SetOf(LoadedDefLists[i].rsv) : i \in DOMAIN LoadedDefLists} \cup {SystemNs}
Namespaces  == {CCtrs[i].pod.ns : i \in DOMAIN CCtrs}
ExprPairs   == UNION {{<<p, KeyValue(CCtrs[i], e.key).val>> : p \in SetOf(e.vals)} : e \in AllExprs, i \in DOMAIN CCtrs}
ChoosePairs == (NsPatterns \X Namespaces) \cup ExprPairs

-----------------------------------------------------------------------------
(* admission of the seeded sample: inside the grammar, nothing else *)
Segs    == {"name", "namespace", "qosclass", "id", "uid", "labels", "tags", "pod", "bogus", ""}
MapKeys == {"app", "io.test/tier", "x", "missing", "t", "k8s-app", "a.b_c-d"}
SubOK(sub) == /\ Len(sub) \in 1 .. 4
              /\ \A i \in DOMAIN sub : sub[i] \in Segs \cup MapKeys
KeyOK(k) == /\ DOMAIN k = {"form", "ksep", "vsep", "subs"}
            /\ k.form \in {"single", "simple", "full"}
            /\ Len(k.subs) >= 1 /\ \A i \in DOMAIN k.subs : SubOK(k.subs[i])
            /\ (k.form = "single" => Len(k.subs) = 1 /\ k.ksep = "" /\ k.vsep = "")
            /\ (k.form = "simple" => Len(k.subs) >= 2 /\ k.ksep = "" /\ k.vsep = "")      \* "joining the value of several keys"
            /\ (k.form = "full" => Len(k.subs) >= 2 /\ k.ksep \in KSeps /\ k.vsep \in VSeps)
PairsOK(ps) == (\A i \in DOMAIN ps : Len(ps[i]) = 2) /\ (\A i, j \in DOMAIN ps : ps[i][1] = ps[j][1] => i = j)
PodOK(p) == p.kind = "pod" /\ PairsOK(p.labels) /\ p.qos \in {"BestEffort", "Burstable", "Guaranteed"}
SubjectOK(s) == IF s.kind = "pod" THEN PodOK(s)
                ELSE s.kind = "ctr" /\ PairsOK(s.labels) /\ PairsOK(s.tags) /\ PodOK(s.pod) /\ s.ann = NoAnn
ExprOK(e) == KeyOK(e.key) /\ e.op \in Ops /\ ArityOK(e.op, Len(e.vals)) /\ KeyDocumented(e.key, "ctr")
             /\ ~\E i \in DOMAIN e.key.subs : IsPodQos(e.key.subs[i], "ctr")           \* see F-C19-2; covered by the eval half
             /\ ~(e.op \in {"Equals", "In", "NotIn"} /\ "*" \in SetOf(e.vals))      \* see F-C19-1; covered by the eval half
DefOK(d) == d.name # "" /\ \A i \in DOMAIN d.exprs : ExprOK(d.exprs[i])
ExtraOK ==
    /\ Extra.eoff >= 0 /\ Extra.eoff + Len(Extra.evals) <= Extra.neval
    /\ Extra.doff >= 0 /\ Extra.doff + Len(Extra.deflists) <= Extra.ndefl
    /\ \A i \in DOMAIN Extra.subjects : SubjectOK(Extra.subjects[i])
    /\ \A i, j \in DOMAIN Subjects : (i # j) => /\ Subjects[i].id # Subjects[j].id
                                                 /\ (Subjects[i].kind = "ctr" => Subjects[i].pod.id # Subjects[j].id)
                                                 /\ (Subjects[i].kind = "ctr" /\ Subjects[j].kind = "ctr" => Subjects[i].pod.id # Subjects[j].pod.id)
    /\ \A i \in DOMAIN Extra.evals : /\ KeyOK(Extra.evals[i].key) /\ Extra.evals[i].s \in 1 .. NS
                                     /\ Len(Extra.evals[i].vl) <= 6
    /\ \A i \in DOMAIN Extra.weights : Extra.weights[i].w \in MinInt32 .. 2147483647
    /\ \A i \in DOMAIN Extra.deflists : /\ \A j \in DOMAIN Extra.deflists[i].defs : DefOK(Extra.deflists[i].defs[j])
                                        /\ Distinct([j \in DOMAIN Extra.deflists[i].defs |-> Extra.deflists[i].defs[j].name])
                                        /\ Len(Extra.deflists[i].defs) <= 4
=============================================================================
