SPECIFICATION Spec
CONSTANTS
  Cpus <- MCCpus5
  Configs <- MCConfigs4
  Boot <- CfgA
  Ctrs = {"c1", "c2", "c3", "c4"}
  TypeOf <- MCTypeOf4
  Req <- MCReq4
  Deviation = "none"
INVARIANTS TypeOK Inv_StoppedHoldsNothing Inv_NoDeadMember Inv_Quiescent Inv_AtMostOneBalloon
PROPERTIES Act_ExitedNotReadmitted
