---------------------------- MODULE MC_CpuAlloc ----------------------------
(* Exhaustive check of the behavioural contract model on a small CPU set:  *)
(* every reachable candidate set, every count 0..|CPUs|+1, both calls.     *)
EXTENDS CpuAlloc
MCCPUs == 0 .. 5
=============================================================================
