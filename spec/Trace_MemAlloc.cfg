SPECIFICATION TraceSpec
CONSTANTS
  Layouts = {}
  Ids = {}
  ReqMenu = {}
  ReallocNodes = {}
  ReallocTypes = {}
  MaxOffers = 0
  MaxMut = 0
  Faithful = TRUE
CHECK_DEADLOCK FALSE
