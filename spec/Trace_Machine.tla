---------------------------- MODULE Trace_Machine ----------------------------
(***************************************************************************)
(* Trace validation for property C16.  The trace is written by             *)
(* harness/internal/machinedrv from the REAL code:                          *)
(*   ev = "machine": a machine description (flat) next to what pkg/sysfs    *)
(*        discovery reports for the sysfs tree generated from it (disc),    *)
(*        nset = number of settings that follow;                            *)
(*   ev = "setup":   one available/reserved setting (cfg) for the last      *)
(*        machine and, if the topology-aware policy accepted it             *)
(*        (res = "ok"), the pool tree right after Setup (snap).             *)
(* Every line binds the variables from the log (linear search).  The        *)
(* predicates of Machine.tla are evaluated on every record; each falsified  *)
(* predicate is recorded with a signature and its witnesses and the rest of *)
(* the trace is still checked.  Settings the policy rejected and settings   *)
(* outside the property's quantifier are consumed but not judged.           *)
(* Domain coverage: every machine is followed by exactly nset settings      *)
(* numbered 0..nset-1 (otherwise a "Trace" violation = inconclusive run).   *)
(***************************************************************************)
EXTENDS Machine, Json, IOUtils

VARIABLES l,        \* next trace line
          viols,    \* recorded violations
          mach,     \* the machine of the last "machine" line: [ok, mi, name, M]
          nexts,    \* index of the next expected setting of that machine
          judged,   \* <<machines judged, settings judged, settings not judged>>
          done

tvars == <<l, viols, mach, nexts, judged, done>>

Trace == ndJsonDeserialize(IOEnv.TRACE_FILE)
N     == Len(Trace)
E     == Trace[l]

Has(r, f) == f \in DOMAIN r
RECURSIVE SetToSeq(_)
SetToSeq(S) == IF S = {} THEN <<>> ELSE LET x == CHOOSE y \in S : TRUE IN <<x>> \o SetToSeq(S \ {x})
SetOf(s)  == {s[i] : i \in DOMAIN s}

\* ---- binding of the logged JSON to the records of Machine.tla
ById(seq)    == LET S == SetOf(seq) IN [i \in {r.id : r \in S} |-> CHOOSE r \in S : r.id = i]
CacheOf(k)   == [index |-> k.index, id |-> k.id, level |-> k.level, type |-> k.type, size |-> k.size, shared |-> SetOf(k.shared)]

MachineOf(f) ==
    LET C == ById(f.cpus)
        Nn == ById(f.nodes)
        off == SetOf(f.offline)
    IN  [cpus |-> DOMAIN C,
         pkg  |-> [c \in DOMAIN C |-> C[c].pkg], die |-> [c \in DOMAIN C |-> C[c].die],
         node |-> [c \in DOMAIN C |-> C[c].node], core |-> [c \in DOMAIN C |-> C[c].core],
         offline |-> off, isolated |-> SetOf(f.isolated),
         nodes |-> DOMAIN Nn,
         mem |-> [n \in DOMAIN Nn |-> Nn[n].mem_kb], normal |-> [n \in DOMAIN Nn |-> Nn[n].normal],
         type |-> [n \in DOMAIN Nn |-> Nn[n].type], dist |-> [n \in DOMAIN Nn |-> Nn[n].dist],
         caches |-> [c \in (DOMAIN C) \ off |-> {CacheOf(k) : k \in SetOf(C[c].caches)}]]

DiscOf(d) ==
    LET C == ById(d.cpus)
        Nn == ById(d.nodes)
        P == ById(d.pkgs)
    IN  [cpuids |-> SetOf(d.cpuids), online |-> SetOf(d.online), offline |-> SetOf(d.offline), isolated |-> SetOf(d.isolated),
         cpu |-> [c \in DOMAIN C |-> [pkg |-> C[c].pkg, die |-> C[c].die, node |-> C[c].node, core |-> C[c].core,
                                     online |-> C[c].online, isolated |-> C[c].isolated, threads |-> SetOf(C[c].threads),
                                     caches |-> {CacheOf(k) : k \in SetOf(C[c].caches)},
                                     getcaches |-> {CacheOf(k) : k \in SetOf(C[c].getcaches)},
                                     l2 |-> SetOf(C[c].l2), llc |-> SetOf(C[c].llc)]],
         nodeids |-> SetOf(d.nodeids),
         node |-> [n \in DOMAIN Nn |-> [cpus |-> SetOf(Nn[n].cpus), dist |-> Nn[n].dist,
                                       mem |-> IF Nn[n].mem_rem = 0 THEN Nn[n].mem_kb ELSE -2,
                                       type |-> Nn[n].type, normal |-> Nn[n].normal]],
         pkgids |-> SetOf(d.pkgids),
         pkg |-> [p \in DOMAIN P |-> LET Dd == ById(P[p].dies) IN
                                    [cpus |-> SetOf(P[p].cpus), nodes |-> SetOf(P[p].nodes), dies |-> DOMAIN Dd,
                                     diecpus |-> [x \in DOMAIN Dd |-> SetOf(Dd[x].cpus)],
                                     dienodes |-> [x \in DOMAIN Dd |-> SetOf(Dd[x].nodes)]]]]

\* the second accessor of each set must agree with the first (Offlined = OfflineCPUs, Isolated = IsolatedCPUs, ...)
AccessorPairs(d) ==
    {x \in {<<"Offlined-vs-OfflineCPUs", d.offlined, d.offline>>, <<"Isolated-vs-IsolatedCPUs", d.isolated2, d.isolated>>,
            <<"CPUSet-vs-CPUIDs", d.cpuset, d.cpuids>>} : x[2] # x[3]}

SettingOf(c) == [availset |-> c.availset, avail |-> SetOf(c.avail), rsvkind |-> c.rsvkind, rsv |-> SetOf(c.rsv), milli |-> c.milli]

SnapOf(s) ==
    LET P == SetOf(s.pools)
        names == {p.name : p \in P}
        rec(n) == CHOOSE p \in P : p.name = n
    IN  [pools |-> names, root |-> s.root, reserved |-> SetOf(s.reserved),
         parent |-> [n \in names |-> rec(n).parent], kind |-> [n \in names |-> rec(n).kind],
         isol |-> [n \in names |-> SetOf(rec(n).isol)], rsv |-> [n \in names |-> SetOf(rec(n).rsv)],
         shar |-> [n \in names |-> SetOf(rec(n).shar)], dram |-> [n \in names |-> SetOf(rec(n).dram)],
         pmem |-> [n \in names |-> SetOf(rec(n).pmem)], hbm |-> [n \in names |-> SetOf(rec(n).hbm)]]

\* ---- violations
V(pred, sig, w) == [pred |-> pred, sig |-> sig, w |-> ToString(w), line |-> l, mi |-> E.mi,
                    si |-> IF Has(E, "si") THEN E.si ELSE -1, name |-> E.name, ev |-> E.ev]

OfTable(T) == {V(T[i][1], T[i][2], T[i][3]) : i \in {j \in DOMAIN T : T[j][3] # {}}}

\* refine the signature of two predicates so that a finding can be told apart from anything else of the same predicate
\*  - a child pool lists a memory node its parent does not: is the node one without memory?
ChildMemSig(M, S) ==
    IF \A p \in Bad_ChildMems(S) : (PoolMems(S, p) \ PoolMems(S, S.parent[p])) \cap HasMem(M) = {}
    THEN "child-lists-memoryless-node-not-in-parent" ELSE "child-memory-node-not-in-parent"

Refine(M, S, v) ==
    IF v.pred = "Mem_ChildSubset" THEN [v EXCEPT !.sig = ChildMemSig(M, S)] ELSE v

MachineViolations ==
    IF E.res # "ok"
    THEN {V("Fid_Accepted", "discovery-" \o E.res, E.err)}
    ELSE LET M == MachineOf(E.flat)
             D == DiscOf(E.disc)
         IN  (IF WellFormedMachine(M) THEN {} ELSE {V("Trace", "machine-description-not-well-formed", E.name)})
             \cup OfTable(Fidelity(M, D))
             \cup {V("Fid_CPUSets", "accessors-disagree", x[1]) : x \in AccessorPairs(E.disc)}

SetupViolations ==
    IF E.res \in {"panic", "hang"} THEN {V("Tree_Exists", "setup-" \o E.res, E.err)}
    ELSE IF E.res = "ok"
         THEN LET S == SnapOf(E.snap) IN {Refine(mach.M, S, v) : v \in OfTable(PoolTree(mach.M, SettingOf(E.cfg), S))}
         ELSE {}

Judge == E.res \in {"ok", "panic", "hang"} /\ mach.ok /\ InDomain(mach.M, SettingOf(E.cfg))

\* ---- trace actions
TrMachine ==
    /\ E.ev = "machine"
    /\ viols' = viols \o SetToSeq(MachineViolations
                                  \cup (IF nexts # mach.nset THEN {V("Trace", "setting-records-missing", mach.name)} ELSE {}))
    /\ mach' = [ok |-> E.res = "ok", mi |-> E.mi, name |-> E.name, nset |-> E.nset,
                M |-> IF E.res = "ok" THEN MachineOf(E.flat) ELSE <<>>]
    /\ nexts' = IF E.res = "ok" THEN 0 ELSE E.nset
    /\ judged' = [judged EXCEPT ![1] = @ + 1]
    /\ l' = l + 1 /\ UNCHANGED done

TrSetup ==
    /\ E.ev = "setup"
    /\ LET seqok == mach.ok /\ E.mi = mach.mi /\ E.si = nexts
       IN  /\ viols' = viols \o SetToSeq((IF seqok THEN {} ELSE {V("Trace", "setting-record-out-of-sequence", E.name)})
                                         \cup (IF seqok /\ Judge THEN SetupViolations ELSE {}))
           /\ judged' = IF seqok /\ Judge THEN [judged EXCEPT ![2] = @ + 1] ELSE [judged EXCEPT ![3] = @ + 1]
    /\ nexts' = nexts + 1
    /\ l' = l + 1 /\ UNCHANGED <<mach, done>>

TrUnknown ==
    /\ E.ev \notin {"machine", "setup"}
    /\ viols' = Append(viols, [pred |-> "Trace", sig |-> "unknown-event", w |-> E.ev, line |-> l, mi |-> -1, si |-> -1, name |-> "", ev |-> E.ev])
    /\ l' = l + 1 /\ UNCHANGED <<mach, nexts, judged, done>>

Finish ==
    /\ l = N + 1 /\ ~done
    /\ ndJsonSerialize(IOEnv.VIOL_FILE,
                       viols \o (IF nexts # mach.nset
                                 THEN <<[pred |-> "Trace", sig |-> "setting-records-missing", w |-> mach.name, line |-> l, mi |-> mach.mi,
                                         si |-> -1, name |-> mach.name, ev |-> "end"]>> ELSE <<>>))
    /\ PrintT("CONSUMED " \o ToString(l - 1))
    /\ PrintT("JUDGED " \o ToString(judged[1]) \o " " \o ToString(judged[2]) \o " " \o ToString(judged[3]))
    /\ done' = TRUE /\ UNCHANGED <<l, viols, mach, nexts, judged>>

TraceInit ==
    /\ l = 1 /\ viols = <<>> /\ done = FALSE /\ nexts = 0 /\ judged = <<0, 0, 0>>
    /\ mach = [ok |-> FALSE, mi |-> -1, name |-> "", nset |-> 0, M |-> <<>>]

TraceNext ==
    \/ (l <= N /\ (TrMachine \/ TrSetup \/ TrUnknown))
    \/ Finish

TraceSpec == TraceInit /\ [][TraceNext]_tvars
=============================================================================
