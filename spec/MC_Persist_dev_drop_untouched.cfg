SPECIFICATION Spec
CONSTANTS
  Chunks = 2
  MaxVer = 4
  Deviation = "drop_untouched"
PROPERTIES Act_ReloadEqualsLastSave
CHECK_DEADLOCK FALSE
