---------------------------- MODULE BalloonPreds ----------------------------
(***************************************************************************)
(* Balloons policy: the property predicates of C02 (and the balloons half  *)
(* of C04/C09/C12) over a SNAPSHOT of the policy as logged by the harness: *)
(*   S = [allowed, reserved, free, pincpu, pinmemory, idleclass,           *)
(*        defs: seq of balloon types, balloons: seq of balloon instances]  *)
(* No variables: used by the design spec Balloons and by the trace spec.   *)
(***************************************************************************)
EXTENDS Integers, FiniteSets, Sequences, TLC, FiniteSetsExt

LOCAL SetOfB(s) == {s[i] : i \in DOMAIN s}

Blns(S)  == SetOfB(S.balloons)
BDefs(S) == SetOfB(S.defs)
DefOf(S, b) == CHOOSE d \in BDefs(S) : d.name = b.def
BCpus(b)   == SetOfB(b.cpus)
BShared(b) == SetOfB(b.shared)
BCtrs(b)   == SetOfB(b.ctrs)
Owned(S)   == UNION {BCpus(b) : b \in Blns(S)}

BalloonMembers(S) == IF S = <<>> THEN {} ELSE UNION {BCtrs(b) : b \in Blns(S)}
BalloonsOf(S, c)  == {b \in Blns(S) : c \in BCtrs(b)}
\* memory pinning applies to a container iff it is on globally and for the type of its balloon
BalloonPinsMemory(S, c) ==
    /\ S # <<>> /\ S.pinmemory
    /\ \A b \in BalloonsOf(S, c) : DefOf(S, b).pinmemory

\* balloons are pairwise disjoint subsets of the available CPUs
Bad_BalloonsDisjoint(S) == {<<a.name, b.name>> : <<a, b>> \in {<<a, b>> \in Blns(S) \X Blns(S) : a.name # b.name /\ BCpus(a) \cap BCpus(b) # {}}}
Bad_BalloonOutsideAllowed(S) == {b.name : b \in {b \in Blns(S) : ~(BCpus(b) \subseteq SetOfB(S.allowed))}}
\* free CPUs are exactly the available CPUs no balloon owns
Bad_FreeCpus(S) == IF SetOfB(S.free) = SetOfB(S.allowed) \ Owned(S) THEN {} ELSE {"freeCpus"}
\* every managed container belongs to exactly one balloon
Bad_OneBalloonPerCtr(S, managed) == {c \in managed : Cardinality(BalloonsOf(S, c)) # 1}
\* shared idle CPUs are never part of any balloon (nor outside the available CPUs)
Bad_SharedIdleOwned(S) == {b.name : b \in {b \in Blns(S) : BShared(b) \cap Owned(S) # {} \/ ~(BShared(b) \subseteq SetOfB(S.allowed))}}
\* min/max CPUs per balloon (0 or negative max = unlimited)
Bad_MinMaxCpus(S) ==
    {b.name : b \in {b \in Blns(S) : LET d == DefOf(S, b) n == Cardinality(BCpus(b))
                                      IN n < d.mincpus \/ (d.maxcpus > 0 /\ n > d.maxcpus)}}
\* min/max instances per type (0 max = unlimited)
Bad_MinMaxInstances(S) ==
    {d.name : d \in {d \in BDefs(S) : LET n == Cardinality({b \in Blns(S) : b.def = d.name})
                                       IN n < d.minballoons \/ (d.maxballoons > 0 /\ n > d.maxballoons)}}
\* a non-empty balloon has at least one CPU and at least as many CPUs as its containers request
Bad_NonEmptyHasCpus(S) ==
    {b.name : b \in {b \in Blns(S) : BCtrs(b) # {} /\ (BCpus(b) = {} \/ 1000 * Cardinality(BCpus(b)) < b.reqmilli)}}
\* a member's allowed CPUs are exactly the balloon's CPUs plus its shared idle CPUs  (T: container -> cached cpuset;
\* hyperthread hiding only ever removes sibling threads: then a non-empty subset is required)
\* with hyperthreads hidden: a subset of those CPUs with exactly one thread of every physical core they touch
OneThreadPerCore(told, want, topo) ==
    /\ told \subseteq want
    /\ \A t \in {t \in topo : t.cpu \in want} :
          Cardinality({u \in topo : u.cpu \in told /\ u.pkg = t.pkg /\ u.die = t.die /\ u.core = t.core}) = 1
Bad_ToldIsCpusPlusShared(S, T, pinned, hide, topo) ==
    {c \in pinned : \E b \in BalloonsOf(S, c) :
        LET want == BCpus(b) \cup BShared(b)
        IN IF hide[c] THEN ~OneThreadPerCore(T[c], want, topo) ELSE T[c] # want}

\* shared idle CPUs include every idle non-isolated CPU in the balloon's configured sharing scope
\*   topo: set of records [cpu, pkg, die, node, core, isolated]
SameDomain(level, a, b) ==
    CASE level = "system"  -> TRUE
      [] level = "package" -> a.pkg = b.pkg
      [] level = "die"     -> a.pkg = b.pkg /\ a.die = b.die
      [] level = "numa"    -> a.node = b.node
      [] level = "core"    -> a.pkg = b.pkg /\ a.die = b.die /\ a.core = b.core
      [] level = "thread"  -> a.cpu = b.cpu
      [] OTHER -> FALSE
Bad_SharedIdleCoversScope(S, topo) ==
    LET idle == {t \in topo : t.cpu \in SetOfB(S.free) /\ ~t.isolated}
    IN {b.name : b \in {b \in Blns(S) :
            LET L == DefOf(S, b).shareidle
                mine == {t \in topo : t.cpu \in BCpus(b)}
            IN L \notin {"", "l2cache"} /\ \E t \in idle : (\E m \in mine : SameDomain(L, t, m)) /\ t.cpu \notin BShared(b)}}
\* shared idle CPUs are never kernel-isolated
Bad_SharedIdleIsolated(S, topo) == {b.name : b \in {b \in Blns(S) : \E t \in topo : t.isolated /\ t.cpu \in BShared(b)}}

\* every available CPU carries the CPU class of its balloon, or else the idle class
\*   cls: set of records [class, cpus]
Bad_CpuClass(S, cls) ==
    LET ClassesOf(c) == {k.class : k \in {k \in cls : c \in SetOfB(k.cpus)}}
        Want(c) == LET own == {b \in Blns(S) : c \in BCpus(b)}
                   IN IF own = {} THEN S.idleclass ELSE DefOf(S, CHOOSE b \in own : TRUE).cpuclass
    IN {c \in SetOfB(S.allowed) : ClassesOf(c) # {Want(c)}}

\* C09: with nothing alive only the pre-created balloons exist, at their configured minimum size, everything else idle
BalloonNotPristine(S, S0) ==
    IF S0 = <<>> \/ S = <<>> THEN {}
    ELSE LET Count(X, d, n) == Cardinality({b \in Blns(X) : b.def = d /\ Cardinality(BCpus(b)) = n})
             defs  == {b.def : b \in Blns(S) \cup Blns(S0)}
             sizes == {Cardinality(BCpus(b)) : b \in Blns(S) \cup Blns(S0)}
         IN {b.name : b \in {b \in Blns(S) : BCtrs(b) # {}}}
            \* the same number of balloons of every type and size as right after configuration (instance numbers
            \* may differ: which of several equal instances survives is not part of the property)
            \cup {d \in defs : \E n \in sizes : Count(S, d, n) # Count(S0, d, n)}
            \cup (IF Cardinality(SetOfB(S.free)) = Cardinality(SetOfB(S0.free)) THEN {} ELSE {"freeCpus"})

\* all C02 state predicates over a snapshot, as (predicate, witness) pairs
BalloonState(S, ctrs, view, live, world, topo, cls, excusedSet) ==
    IF S = <<>> THEN {}
    ELSE LET \* containers opted out with cpu.preserve are not handled by the policy at all and legitimately hold nothing
             managed == {c \in DOMAIN ctrs : ctrs[c].st \in {"created", "running"} /\ ~ctrs[c].pcpu /\ c \in live}
             pinned  == {c \in managed \cap BalloonMembers(S) : world.pincpu /\ ~ctrs[c].pcpu}
             T       == [c \in pinned |-> ctrs[c].res.cpus]
             \* hyperthreads are hidden for a container by its effective annotation, else by its balloon type
             hide    == [c \in pinned |-> IF "hideht" \in DOMAIN ctrs[c].ann THEN ctrs[c].ann.hideht = "true"
                                           ELSE \E b \in BalloonsOf(S, c) : DefOf(S, b).hideht]
         IN {<<"Inv_BalloonsDisjoint", w>> : w \in Bad_BalloonsDisjoint(S)}
            \cup {<<"Inv_BalloonsWithinAllowed", w>> : w \in Bad_BalloonOutsideAllowed(S)}
            \cup {<<"Inv_FreeCpusAreUnowned", w>> : w \in Bad_FreeCpus(S)}
            \cup {<<"Inv_OneBalloonPerCtr", w>> : w \in Bad_OneBalloonPerCtr(S, managed) \ excusedSet}
            \cup {<<"Inv_SharedIdleNotOwned", w>> : w \in Bad_SharedIdleOwned(S)}
            \cup {<<"Inv_MinMaxCpus", w>> : w \in Bad_MinMaxCpus(S)}
            \cup {<<"Inv_MinMaxInstances", w>> : w \in Bad_MinMaxInstances(S)}
            \cup {<<"Inv_NonEmptyHasCpus", w>> : w \in Bad_NonEmptyHasCpus(S)}
            \cup {<<"Inv_ToldIsCpusPlusShared", w>> : w \in Bad_ToldIsCpusPlusShared(S, T, pinned, hide, topo)}
            \cup {<<"Inv_SharedIdleCoversScope", w>> : w \in Bad_SharedIdleCoversScope(S, topo)}
            \cup {<<"Inv_SharedIdleNotIsolated", w>> : w \in Bad_SharedIdleIsolated(S, topo)}
            \cup {<<"Inv_CpuClass", w>> : w \in Bad_CpuClass(S, cls)}
=============================================================================
