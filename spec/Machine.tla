------------------------------- MODULE Machine -------------------------------
(***************************************************************************)
(* Property C16: hardware discovery is faithful and the pool tree of the   *)
(* topology-aware policy is well-formed on every machine.                  *)
(*                                                                         *)
(* This is a functional specification (no behaviour): an abstract machine  *)
(* description, and predicates over                                        *)
(*   (a) a "discovered" record D (what pkg/sysfs reports through its       *)
(*       public accessors) -- the fidelity half of the property,           *)
(*   (b) a pool-tree snapshot S (what the policy built for a setting C of  *)
(*       available/reserved CPUs) -- the well-formedness half,             *)
(*   (c) the expected shape of the tree, ExpectedPools(M, C).              *)
(* Every predicate is written as the SET OF WITNESSES that falsify it      *)
(* (empty set = the predicate holds), so that the trace specification can  *)
(* report what exactly is wrong.  The predicates transcribe the property   *)
(* statement; they are not derived from pools.go.                          *)
(*                                                                         *)
(* A machine description M is a record                                     *)
(*   cpus      set of CPU ids                                              *)
(*   pkg, die, node, core   [cpus -> Int]  (die and core ids are per       *)
(*             package, as in sysfs)                                       *)
(*   offline, isolated      subsets of cpus (isolated CPUs are online)     *)
(*   nodes     set of NUMA node ids                                        *)
(*   mem       [nodes -> Nat] kB,  normal [nodes -> BOOLEAN],              *)
(*   type      [nodes -> {"dram","pmem","hbm"}]  ("dram" iff the node has  *)
(*             CPUs)                                                       *)
(*   dist      [nodes -> Seq(Int)]  the distance vector of a node, indexed *)
(*             by the position of the other node among the sorted node ids *)
(*   caches    [online cpus -> set of [index, id, level, type, size,       *)
(*             shared]]                                                    *)
(***************************************************************************)
EXTENDS Integers, Sequences, FiniteSets, TLC

MemTypes == {"dram", "pmem", "hbm"}

Min(S) == CHOOSE x \in S : \A y \in S : x <= y

-----------------------------------------------------------------------------
(* Derived views of a description *)

Online(M)        == M.cpus \ M.offline
NodeCPUs(M, n)   == {c \in Online(M) : M.node[c] = n}          \* what nodeN/cpulist shows
CPUNodes(M)      == {n \in M.nodes : NodeCPUs(M, n) # {}}
CPUlessNodes(M)  == M.nodes \ CPUNodes(M)
HasMem(M)        == {n \in M.nodes : M.mem[n] > 0}
\* online hardware threads of the core of c (core ids are unique within a package)
Threads(M, c)    == {d \in Online(M) : M.pkg[d] = M.pkg[c] /\ M.core[d] = M.core[c]}

Pkgs(M)          == {M.pkg[c] : c \in Online(M)}
PkgCPUs(M, p)    == {c \in Online(M) : M.pkg[c] = p}
PkgNodes(M, p)   == {M.node[c] : c \in PkgCPUs(M, p)}
Dies(M, p)       == {M.die[c] : c \in PkgCPUs(M, p)}
DieCPUs(M, p, d) == {c \in PkgCPUs(M, p) : M.die[c] = d}
DieNodes(M, p, d) == {M.node[c] : c \in DieCPUs(M, p, d)}

Pos(M, n)        == Cardinality({e \in M.nodes : e < n}) + 1
Dist(M, a, b)    == M.dist[a][Pos(M, b)]

\* CPU-less nodes with special memory, and their closest CPU-bearing DRAM nodes
Special(M)       == {x \in CPUlessNodes(M) : M.mem[x] > 0 /\ M.type[x] \in {"pmem", "hbm"}}
Closest(M, x)    == LET cand == {d \in CPUNodes(M) : M.type[d] = "dram"}
                    IN  IF cand = {} THEN {}
                        ELSE LET dmin == Min({Dist(M, x, d) : d \in cand})
                             IN  {d \in cand : Dist(M, x, d) = dmin}

\* A description is one the property quantifies over
WellFormedMachine(M) ==
    /\ M.offline \subseteq M.cpus /\ M.isolated \subseteq Online(M)
    /\ \A c \in M.cpus : M.node[c] \in M.nodes
    /\ \A n \in M.nodes : M.type[n] \in MemTypes /\ M.mem[n] >= 0 /\ Len(M.dist[n]) = Cardinality(M.nodes)
    /\ \A n \in M.nodes : (M.type[n] = "dram") <=> (n \in CPUNodes(M))
    /\ \A n \in CPUlessNodes(M) : M.mem[n] > 0
    /\ \A a, b \in M.nodes : Dist(M, a, b) = Dist(M, b, a)

-----------------------------------------------------------------------------
(* (a) FIDELITY.  D is the discovered record:                               *)
(*   cpuids, online, offline, isolated  sets of CPU ids                     *)
(*   cpu   [cpuids -> [pkg, die, node, core, online, isolated, threads,     *)
(*                     caches, getcaches, l2, llc]]                         *)
(*   nodeids; node [nodeids -> [cpus, dist, mem, type, normal]]             *)
(*   pkgids;  pkg  [pkgids -> [cpus, nodes, dies, diecpus, dienodes]]       *)

SymDiff(A, B) == (A \ B) \cup (B \ A)

Bad_CPUIds(M, D)     == SymDiff(M.cpus, D.cpuids)
Bad_OnlineSet(M, D)  == SymDiff(Online(M), D.online)
Bad_OfflineSet(M, D) == SymDiff(M.offline, D.offline)
Bad_IsolatedSet(M, D) == SymDiff(M.isolated, D.isolated)

Known(M, D) == M.cpus \cap D.cpuids
\* package, die, core and thread siblings are only defined (readable) for online CPUs; the NUMA node for every CPU
Bad_CPUPackage(M, D) == {c \in Known(M, D) \cap Online(M) : D.cpu[c].pkg # M.pkg[c]}
Bad_CPUDie(M, D)     == {c \in Known(M, D) \cap Online(M) : D.cpu[c].die # M.die[c]}
Bad_CPUCore(M, D)    == {c \in Known(M, D) \cap Online(M) : D.cpu[c].core # M.core[c]}
Bad_CPUNode(M, D)    == {c \in Known(M, D) : D.cpu[c].node # M.node[c]}
Bad_CPUThreads(M, D) == {c \in Known(M, D) \cap Online(M) : D.cpu[c].threads # Threads(M, c)}
Bad_CPUFlags(M, D)   == {c \in Known(M, D) : D.cpu[c].online # (c \notin M.offline) \/ D.cpu[c].isolated # (c \in M.isolated)}

Bad_NodeIds(M, D)    == SymDiff(M.nodes, D.nodeids)
KnownNodes(M, D)     == M.nodes \cap D.nodeids
Bad_NodeCPUs(M, D)   == {n \in KnownNodes(M, D) : D.node[n].cpus # NodeCPUs(M, n)}
Bad_NodeMem(M, D)    == {n \in KnownNodes(M, D) : D.node[n].mem # M.mem[n]}
Bad_NodeDist(M, D)   == {n \in KnownNodes(M, D) : D.node[n].dist # M.dist[n]}
Bad_NodeType(M, D)   == {n \in KnownNodes(M, D) : D.node[n].type # M.type[n]}
Bad_NodeNormal(M, D) == {n \in KnownNodes(M, D) : D.node[n].normal # M.normal[n]}

\* cache-sharing sets: the caches of an online CPU, as (level, type, sharing set [, size])
CacheKey(k)          == [level |-> k.level, type |-> k.type, shared |-> k.shared, size |-> k.size]
Bad_Caches(M, D)     == {c \in Known(M, D) \cap Online(M) :
                            {CacheKey(k) : k \in D.cpu[c].caches} # {CacheKey(k) : k \in M.caches[c]}}
\* ... whichever accessor is used to enumerate them
Bad_GetCaches(M, D)  == {c \in Known(M, D) \cap Online(M) :
                            {CacheKey(k) : k \in D.cpu[c].getcaches} # {CacheKey(k) : k \in M.caches[c]}}
LevelShared(M, c, n) == UNION {k.shared : k \in {j \in M.caches[c] : j.level = n}}
LastLevel(M, c)      == CHOOSE n \in {k.level : k \in M.caches[c]} : \A k \in M.caches[c] : k.level <= n
Bad_CacheSets(M, D)  == {c \in Known(M, D) \cap Online(M) :
                            M.caches[c] # {} /\ (\/ D.cpu[c].l2 # LevelShared(M, c, 2)
                                                 \/ D.cpu[c].llc # LevelShared(M, c, LastLevel(M, c)))}

\* the package view (what the pool builder reads)
Bad_PkgIds(M, D)     == SymDiff(Pkgs(M), D.pkgids)
KnownPkgs(M, D)      == Pkgs(M) \cap D.pkgids
Bad_PkgView(M, D)    == {p \in KnownPkgs(M, D) :
                            \/ D.pkg[p].cpus # PkgCPUs(M, p) \/ D.pkg[p].nodes # PkgNodes(M, p) \/ D.pkg[p].dies # Dies(M, p)
                            \/ \E d \in Dies(M, p) \cap D.pkg[p].dies :
                                  D.pkg[p].diecpus[d] # DieCPUs(M, p, d) \/ D.pkg[p].dienodes[d] # DieNodes(M, p, d)}

\* all fidelity predicates: <<predicate, signature, witnesses>>
Fidelity(M, D) == <<
    <<"Fid_CPUIds",      "cpu-id-set-differs",              Bad_CPUIds(M, D)>>,
    <<"Fid_CPUSets",     "online-set-differs",              Bad_OnlineSet(M, D)>>,
    <<"Fid_CPUSets",     "offline-set-differs",             Bad_OfflineSet(M, D)>>,
    <<"Fid_CPUSets",     "isolated-set-differs",            Bad_IsolatedSet(M, D)>>,
    <<"Fid_CPUTopology", "package-differs",                 Bad_CPUPackage(M, D)>>,
    <<"Fid_CPUTopology", "die-differs",                     Bad_CPUDie(M, D)>>,
    <<"Fid_CPUTopology", "core-differs",                    Bad_CPUCore(M, D)>>,
    <<"Fid_CPUTopology", "numa-node-differs",               Bad_CPUNode(M, D)>>,
    <<"Fid_CPUTopology", "thread-siblings-differ",          Bad_CPUThreads(M, D)>>,
    <<"Fid_CPUTopology", "online-or-isolated-flag-differs", Bad_CPUFlags(M, D)>>,
    <<"Fid_Nodes",       "node-id-set-differs",             Bad_NodeIds(M, D)>>,
    <<"Fid_Nodes",       "node-cpu-list-differs",           Bad_NodeCPUs(M, D)>>,
    <<"Fid_Nodes",       "node-memory-size-differs",        Bad_NodeMem(M, D)>>,
    <<"Fid_Nodes",       "node-distances-differ",           Bad_NodeDist(M, D)>>,
    <<"Fid_Nodes",       "node-memory-type-differs",        Bad_NodeType(M, D)>>,
    <<"Fid_Nodes",       "node-normal-memory-flag-differs", Bad_NodeNormal(M, D)>>,
    <<"Fid_Caches",      "cache-sharing-sets-differ",       Bad_Caches(M, D)>>,
    <<"Fid_Caches",      "GetCaches-does-not-return-the-caches", Bad_GetCaches(M, D)>>,
    <<"Fid_Caches",      "level-cache-cpuset-differs",      Bad_CacheSets(M, D)>>,
    <<"Fid_Packages",    "package-id-set-differs",          Bad_PkgIds(M, D)>>,
    <<"Fid_Packages",    "package-view-differs",            Bad_PkgView(M, D)>> >>

\* the identity discovery: what a faithful discovery reports for M
Faithful(M) ==
    [cpuids |-> M.cpus, online |-> Online(M), offline |-> M.offline, isolated |-> M.isolated,
     cpu |-> [c \in M.cpus |->
                 IF c \in M.offline
                 THEN [pkg |-> 0, die |-> 0, core |-> 0, node |-> M.node[c], online |-> FALSE, isolated |-> FALSE, threads |-> {},
                       caches |-> {}, getcaches |-> {}, l2 |-> {}, llc |-> {}]
                 ELSE [pkg |-> M.pkg[c], die |-> M.die[c], core |-> M.core[c], node |-> M.node[c], online |-> TRUE,
                       isolated |-> c \in M.isolated, threads |-> Threads(M, c), caches |-> M.caches[c], getcaches |-> M.caches[c],
                       l2 |-> LevelShared(M, c, 2), llc |-> LevelShared(M, c, LastLevel(M, c))]],
     nodeids |-> M.nodes,
     node |-> [n \in M.nodes |-> [cpus |-> NodeCPUs(M, n), dist |-> M.dist[n], mem |-> M.mem[n], type |-> M.type[n], normal |-> M.normal[n]]],
     pkgids |-> Pkgs(M),
     pkg |-> [p \in Pkgs(M) |-> [cpus |-> PkgCPUs(M, p), nodes |-> PkgNodes(M, p), dies |-> Dies(M, p),
                                 diecpus |-> [d \in Dies(M, p) |-> DieCPUs(M, p, d)],
                                 dienodes |-> [d \in Dies(M, p) |-> DieNodes(M, p, d)]]]]

-----------------------------------------------------------------------------
(* (b), (c) POOL TREE.                                                      *)
(* A setting C: [availset, avail, rsvkind ("cpuset"|"quantity"), rsv, milli] *)
(* A snapshot S: pools (set of names), root, reserved (the policy's reserved *)
(*   cpuset), and per pool: parent ("" for a root), kind, isol, rsv, shar,   *)
(*   dram, pmem, hbm.                                                        *)

Available(M, C) == IF C.availset THEN C.avail ELSE Online(M)

\* The property's quantifier: settings whose reserved cpuset is itself kernel-isolated are excluded.  An available
\* cpuset is taken to name online CPUs only (an offline CPU is not available).
InDomain(M, C) ==
    /\ Available(M, C) \subseteq Online(M)
    /\ ~(C.rsvkind = "cpuset" /\ C.rsv # {} /\ C.rsv \subseteq M.isolated)

PoolCPUs(S, p) == S.isol[p] \cup S.rsv[p] \cup S.shar[p]
PoolMems(S, p) == S.dram[p] \cup S.pmem[p] \cup S.hbm[p]
Roots(S)       == {p \in S.pools : S.parent[p] = ""}
HasParent(S, p) == S.parent[p] # "" /\ S.parent[p] \in S.pools

RECURSIVE Ancestors(_, _, _)
Ancestors(S, p, k) == IF k = 0 \/ ~HasParent(S, p) THEN {}
                      ELSE {S.parent[p]} \cup Ancestors(S, S.parent[p], k - 1)

\* --- the pools form a single tree
Bad_SingleRoot(S)  == IF Cardinality(Roots(S)) = 1 THEN {} ELSE {Roots(S)}
Bad_Connected(S)   == {p \in S.pools \ Roots(S) : Ancestors(S, p, Cardinality(S.pools)) \cap Roots(S) = {}}
\* --- a virtual root only with several sockets (and only as the root)
Bad_VirtualRoot(M, S) == {p \in S.pools : S.kind[p] = "virtual node" /\ (Cardinality(Pkgs(M)) <= 1 \/ p \notin Roots(S))}
\* --- sockets, dies and NUMA nodes below, in this order
Rank(k) == CASE k = "virtual node" -> 0 [] k = "socket" -> 1 [] k = "die" -> 2 [] k = "numa node" -> 3 [] OTHER -> 9
Bad_LevelOrder(S)  == {p \in S.pools : Rank(S.kind[p]) = 9 \/ (HasParent(S, p) /\ Rank(S.kind[S.parent[p]]) >= Rank(S.kind[p]))}
\* --- sibling pools have disjoint CPU sets
Bad_Siblings(S)    == {pq \in {{p, q} : p, q \in S.pools} :
                          \E p, q \in pq : p # q /\ S.parent[p] = S.parent[q] /\ PoolCPUs(S, p) \cap PoolCPUs(S, q) # {}}
\* --- each pool's CPUs contain those of its children
Bad_ChildCPUs(S)   == {p \in S.pools : HasParent(S, p) /\ ~(PoolCPUs(S, p) \subseteq PoolCPUs(S, S.parent[p]))}
\* --- the root holds every available CPU
Bad_RootCPUs(M, C, S) == {r \in Roots(S) : ~(Available(M, C) \subseteq PoolCPUs(S, r))}
\* --- each pool's CPUs split disjointly into isolated, reserved and sharable
Bad_SplitDisjoint(S) == {p \in S.pools : \/ S.isol[p] \cap S.rsv[p] # {} \/ S.isol[p] \cap S.shar[p] # {} \/ S.rsv[p] \cap S.shar[p] # {}}
\*     ... where isolated means kernel-isolated and reserved means in the policy's reserved cpuset
Bad_SplitIsolated(M, S) == {p \in S.pools : S.isol[p] # PoolCPUs(S, p) \cap M.isolated}
Bad_SplitReserved(M, S) == {p \in S.pools : S.rsv[p] # PoolCPUs(S, p) \cap S.reserved}
\*     ... and the reserved cpuset is the configured one (cpuset settings) and consists of available CPUs
Bad_ReservedSet(M, C, S) == IF \/ (C.rsvkind = "cpuset" /\ S.reserved # C.rsv)
                               \/ ~(S.reserved \subseteq Available(M, C)) \/ S.reserved = {}
                            THEN {S.reserved} ELSE {}
\* --- every memory node that has memory belongs to the root
Bad_RootMems(M, S) == {r \in Roots(S) : ~(HasMem(M) \subseteq PoolMems(S, r))}
\* --- a child's memory nodes are a subset of its parent's
Bad_ChildMems(S)   == {p \in S.pools : HasParent(S, p) /\ ~(PoolMems(S, p) \subseteq PoolMems(S, S.parent[p]))}
\* --- memory nodes are filed under their own type
Bad_MemTypes(M, S) == {p \in S.pools : \/ \E n \in S.dram[p] \cap M.nodes : M.type[n] # "dram"
                                       \/ \E n \in S.pmem[p] \cap M.nodes : M.type[n] # "pmem"
                                       \/ \E n \in S.hbm[p] \cap M.nodes : M.type[n] # "hbm"
                                       \/ ~(PoolMems(S, p) \subseteq M.nodes)}

(* (c) Expected shape.  Documented rule (docs/resource-policy/policy/topology-aware.md, "Overview"): the pools at     *)
(* various depths represent, bottom to top, the NUMA nodes, dies, sockets and finally the whole system; a level that *)
(* has a single member under its parent is redundant and omitted: a virtual root exists iff there are several       *)
(* sockets, die pools iff the socket has several dies, NUMA node pools iff their parent (die, or socket without a    *)
(* die level) has several NUMA nodes.  A NUMA node with CPUs but without memory gets no pool of its own (its CPUs    *)
(* stay in the parent).  Each pool holds the available CPUs of the hardware entity it stands for.                    *)
SocketName(p) == "socket #" \o ToString(p)
DieName(p, d) == "die #" \o ToString(p) \o "/" \o ToString(d)
NumaName(n)   == "NUMA node #" \o ToString(n)
RootName      == "root"

MultiSocket(M) == Cardinality(Pkgs(M)) > 1
MultiDie(M, p) == Cardinality(Dies(M, p)) > 1

ExpectedPools(M, C) ==
    LET av == Available(M, C) IN
    (IF MultiSocket(M)
     THEN {[name |-> RootName, kind |-> "virtual node", parent |-> "", cpus |-> Online(M) \cap av, nodes |-> M.nodes]}
     ELSE {})
    \cup {[name |-> SocketName(p), kind |-> "socket", parent |-> IF MultiSocket(M) THEN RootName ELSE "",
           cpus |-> PkgCPUs(M, p) \cap av, nodes |-> PkgNodes(M, p)] : p \in Pkgs(M)}
    \cup UNION {IF MultiDie(M, p)
                THEN {[name |-> DieName(p, d), kind |-> "die", parent |-> SocketName(p),
                       cpus |-> DieCPUs(M, p, d) \cap av, nodes |-> DieNodes(M, p, d)] : d \in Dies(M, p)}
                ELSE {} : p \in Pkgs(M)}
    \cup UNION {IF MultiDie(M, p)
                THEN UNION {IF Cardinality(DieNodes(M, p, d)) > 1
                            THEN {[name |-> NumaName(n), kind |-> "numa node", parent |-> DieName(p, d),
                                   cpus |-> NodeCPUs(M, n) \cap av, nodes |-> {n}] : n \in DieNodes(M, p, d) \cap HasMem(M)}
                            ELSE {} : d \in Dies(M, p)}
                ELSE IF Cardinality(PkgNodes(M, p)) > 1
                     THEN {[name |-> NumaName(n), kind |-> "numa node", parent |-> SocketName(p),
                            cpus |-> NodeCPUs(M, n) \cap av, nodes |-> {n}] : n \in PkgNodes(M, p) \cap HasMem(M)}
                     ELSE {} : p \in Pkgs(M)}

ExpNames(E)   == {e.name : e \in E}
Exp(E, name)  == CHOOSE e \in E : e.name = name

Bad_ShapeMissing(M, C, S)    == ExpNames(ExpectedPools(M, C)) \ S.pools
Bad_ShapeUnexpected(M, C, S) == S.pools \ ExpNames(ExpectedPools(M, C))
Bad_ShapeKind(M, C, S)   == LET E == ExpectedPools(M, C) IN {p \in S.pools \cap ExpNames(E) : S.kind[p] # Exp(E, p).kind}
Bad_ShapeParent(M, C, S) == LET E == ExpectedPools(M, C) IN {p \in S.pools \cap ExpNames(E) : S.parent[p] # Exp(E, p).parent}
Bad_ShapeCPUs(M, C, S)   == LET E == ExpectedPools(M, C) IN {p \in S.pools \cap ExpNames(E) : PoolCPUs(S, p) # Exp(E, p).cpus}

\* --- a CPU-less PMEM/HBM node is attached to exactly the pools that contain one of its closest CPU-bearing DRAM nodes.
\* A pool contains the NUMA nodes of the hardware entity it stands for; the root contains every node.
PoolNodes(M, E, S, p) == IF p \in Roots(S) THEN M.nodes ELSE Exp(E, p).nodes
Bad_Attach(M, C, S) ==
    LET E == ExpectedPools(M, C) IN
    {xp \in Special(M) \X (S.pools \cap ExpNames(E)) :
        (xp[1] \in PoolMems(S, xp[2])) # (Closest(M, xp[1]) \cap PoolNodes(M, E, S, xp[2]) # {})}
\* the same, split by direction (for signatures)
AttachMissing(M, xp, S) == xp[1] \notin PoolMems(S, xp[2])

\* all pool-tree predicates: <<predicate, signature, witnesses>>
PoolTree(M, C, S) == <<
    <<"Tree_SingleRoot",     "not-exactly-one-root",                 Bad_SingleRoot(S)>>,
    <<"Tree_SingleRoot",     "pool-not-connected-to-root",           Bad_Connected(S)>>,
    <<"Tree_Shape",          "virtual-root-without-several-sockets", Bad_VirtualRoot(M, S)>>,
    <<"Tree_Shape",          "level-order-broken",                   Bad_LevelOrder(S)>>,
    <<"Tree_Shape",          "expected-pool-missing",                Bad_ShapeMissing(M, C, S)>>,
    <<"Tree_Shape",          "unexpected-pool",                      Bad_ShapeUnexpected(M, C, S)>>,
    <<"Tree_Shape",          "pool-kind-differs",                    Bad_ShapeKind(M, C, S)>>,
    <<"Tree_Shape",          "pool-parent-differs",                  Bad_ShapeParent(M, C, S)>>,
    <<"Tree_Shape",          "pool-cpus-differ-from-hardware-entity", Bad_ShapeCPUs(M, C, S)>>,
    <<"Tree_SiblingsDisjoint", "sibling-pools-share-cpus",           Bad_Siblings(S)>>,
    <<"Tree_ChildWithinParent", "child-cpus-outside-parent",         Bad_ChildCPUs(S)>>,
    <<"Tree_RootHoldsAvailable", "available-cpu-not-in-root",        Bad_RootCPUs(M, C, S)>>,
    <<"Split_Disjoint",      "isolated-reserved-sharable-overlap",   Bad_SplitDisjoint(S)>>,
    <<"Split_Disjoint",      "isolated-set-is-not-the-kernel-isolated-cpus", Bad_SplitIsolated(M, S)>>,
    <<"Split_Disjoint",      "reserved-set-is-not-the-reserved-cpus", Bad_SplitReserved(M, S)>>,
    <<"Split_Disjoint",      "reserved-cpuset-not-as-configured",    Bad_ReservedSet(M, C, S)>>,
    <<"Mem_RootHasAll",      "memory-node-missing-from-root",        Bad_RootMems(M, S)>>,
    <<"Mem_ChildSubset",     "child-memory-node-not-in-parent",      Bad_ChildMems(S)>>,
    <<"Mem_Types",           "memory-node-filed-under-wrong-type",   Bad_MemTypes(M, S)>>,
    <<"Mem_SpecialAttach",   "cpuless-node-attachment-differs",      Bad_Attach(M, C, S)>> >>

-----------------------------------------------------------------------------
(* The tree the property describes, constructed: used by MC_Machine to show that the predicates are jointly         *)
(* satisfiable on every setting of small machines (and as documentation of the intended tree).  R is the reserved    *)
(* cpuset the policy chose.                                                                                        *)
ModelTree(M, C, R) ==
    LET E     == ExpectedPools(M, C)
        names == ExpNames(E)
        isroot(p) == Exp(E, p).parent = ""
        nodes(p)  == IF isroot(p) THEN M.nodes ELSE Exp(E, p).nodes
        mems(p)   == (nodes(p) \cap HasMem(M) \cap CPUNodes(M)) \cup {x \in Special(M) : Closest(M, x) \cap nodes(p) # {}}
    IN  [pools |-> names, root |-> (CHOOSE p \in names : isroot(p)), reserved |-> R,
         parent |-> [p \in names |-> Exp(E, p).parent],
         kind   |-> [p \in names |-> Exp(E, p).kind],
         isol   |-> [p \in names |-> Exp(E, p).cpus \cap M.isolated],
         rsv    |-> [p \in names |-> (Exp(E, p).cpus \ M.isolated) \cap R],
         shar   |-> [p \in names |-> (Exp(E, p).cpus \ M.isolated) \ R],
         dram   |-> [p \in names |-> {n \in mems(p) : M.type[n] = "dram"}],
         pmem   |-> [p \in names |-> {n \in mems(p) : M.type[n] = "pmem"}],
         hbm    |-> [p \in names |-> {n \in mems(p) : M.type[n] = "hbm"}]]

Violated(T) == {i \in DOMAIN T : T[i][3] # {}}
=============================================================================
