--------------------------- MODULE MC_SidePlugin ---------------------------
(* Exhaustive check of the design spec SidePlugin on small constants (MC_SidePlugin.cfg; the engine derives the *)
(* configurations of the other two plugins by replacing the value of Plugin).                                  *)
EXTENDS SidePlugin

\* reachability of the situations the drivers have to produce (expected to be VIOLATED: MC_SidePlugin_Reach.cfg)
Reach_StartAfterClassRemoved ==
    ~(\E c \in Ctrs : ClassRemoved(c) /\ phase[c] = "created" /\ Idle /\ HasStart)
=============================================================================
