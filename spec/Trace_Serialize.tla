--------------------------- MODULE Trace_Serialize ---------------------------
(***************************************************************************)
(* Trace validation for C15 (serialized request processing).               *)
(*                                                                         *)
(* The trace is recorded from the REAL resource manager while 4-8          *)
(* goroutines issue handler calls concurrently (harness/internal/concdrv). *)
(* One line per round:                                                     *)
(*   reqs[i].ev   the events of a request in program order: start, acc     *)
(*                (a call of a cache / policy method made by the handler;  *)
(*                h = the request held the lock), lock / unlock (seq = the *)
(*                number the shadowing Lock()/Unlock() of verif builds     *)
(*                write UNDER the lock), end.  b / a = the last sequence   *)
(*                number issued when the event began / ended (-1 = not     *)
(*                read: race-detector build).  Cross-request order is      *)
(*                taken from the sequence numbers only, never from a clock *)
(*   equiv        the comparison, made by the driver, of replies and final *)
(*                projected state with a SEQUENTIAL replay of the requests *)
(*                in lock order on a twin world, plus the control replay   *)
(* Other lines: rv (one round of the pod-resource rendezvous on a real     *)
(* cache), race (one distinct race-detector report, both stacks reduced to *)
(* the request handler they belong to), crash (the Go runtime killed the   *)
(* process: concurrent map access).                                        *)
(*                                                                         *)
(* Predicates (transcriptions of the property statement):                  *)
(*   Inv_AtMostOne   lock/unlock events alternate in sequence order        *)
(*   Inv_Mutex       every access to cache/policy is made by the holder;   *)
(*                   a race report is an access pair without mutual        *)
(*                   exclusion                                             *)
(*   Act_Terminates  every started request ended                           *)
(*   Act_NoPanic     no request panicked                                   *)
(*   Act_SequentialEquivalent  replies and end state equal those of the    *)
(*                   sequential replay in lock order                       *)
(*   Act_ReadSeesFetch  a read started after InsertPod returned returns    *)
(*                   what the fetch delivered                              *)
(* A difference from the sequential replay (or a panic) in a round in      *)
(* which a request worked outside the lock while another one was inside    *)
(* its critical section is a CONSEQUENCE of the Inv_Mutex violation        *)
(* reported for that request; it is recorded as Info_... and bears no      *)
(* verdict (the order of such requests is not defined, so there is no      *)
(* sequential run to compare with).                                        *)
(***************************************************************************)
EXTENDS SerializeOps, Integers, TLC, Json, IOUtils, SequencesExt

VARIABLES l, viols, done

Trace == ndJsonDeserialize(IOEnv.TRACE_FILE)
N     == Len(Trace)
E     == Trace[l]

Has(r, f)    == f \in DOMAIN r
Get(r, f, d) == IF f \in DOMAIN r THEN r[f] ELSE d
SetOf(s)     == {s[i] : i \in DOMAIN s}

V(pred, sig, w) == [pred |-> pred, sig |-> sig, w |-> ToString(w), line |-> l, ev |-> E.ev,
                    s |-> Get(E, "s", -1), r |-> Get(E, "r", -1), race |-> Get(E, "race", FALSE)]

-----------------------------------------------------------------------------
(* round *)

Reqs == SetOf(E.reqs)
LockIdx(q) == {i \in DOMAIN q.ev : q.ev[i].e \in {"lock", "unlock"}}
LockEvs == UNION {{[seq |-> q.ev[i].seq, e |-> q.ev[i].e, q |-> q.q] : i \in LockIdx(q)} : q \in Reqs}
Seqs    == {x.seq : x \in LockEvs}

\* Inv_AtMostOne
AtMostOneViols ==
    IF LockEvs = {} THEN {}
    ELSE LET base == CHOOSE s \in Seqs : \A t \in Seqs : s <= t
             n    == Cardinality(LockEvs)
         IN IF Seqs # base..(base + n - 1)
            THEN {V("Inv_AtMostOne", "lock-sequence-numbers-not-contiguous", [base |-> base, n |-> n])}
            ELSE LET byseq == [i \in 1..n |-> CHOOSE x \in LockEvs : x.seq = base + i - 1]
                 IN IF AlternatesOK(byseq, E.hang) THEN {}
                    ELSE {V("Inv_AtMostOne", "two-owners-of-the-lock",
                            CHOOSE i \in 1..n : ~AlternatesOK(SubSeq(byseq, 1, i), E.hang /\ i = n))}

\* Inv_Mutex
Methods(q, I) == {q.ev[i].m : i \in I}
MutexViols ==
    {V("Inv_Mutex", "unlocked-access:" \o q.kind, [q |-> q.q, calls |-> Methods(q, UnlockedAccesses(q.ev))]) :
        q \in {q \in Reqs : UnlockedAccesses(q.ev) # {}}}

\* --- which requests really overlapped a critical section (needs the sequence mirror: build without race detector) ---
Free(q)   == UnlockedAccesses(q.ev)
HasLock(q) == LockIdx(q) # {}
\* the window (in sequence numbers) in which q worked outside the lock
Lo(q) == q.ev[1].b
Hi(q) == IF HasLock(q) THEN Max({q.ev[i].a : i \in Free(q)}) ELSE q.ev[Len(q.ev)].b
CS(q) == {<<q.ev[i].seq, q.ev[i].seq + 1>> : i \in {i \in LockIdx(q) : q.ev[i].e = "lock"}}
Overlapped(q) ==
    /\ Free(q) # {} /\ Lo(q) >= 0
    /\ \E o \in Reqs : o.g # q.g /\
          \/ \E cs \in CS(o) : cs[1] <= Hi(q) /\ cs[2] >= Lo(q) + 1
          \/ (Free(o) # {} /\ Lo(o) <= Hi(q) /\ Lo(q) <= Hi(o))
Tainted    == {q \in Reqs : Overlapped(q)}
AnyFree    == \E q \in Reqs : Free(q) # {}
TaintKinds == {q.kind : q \in Tainted}

\* Act_Terminates
Stuck   == {q \in Reqs : ~q.ended}
Holding(q) == Cardinality({i \in LockIdx(q) : q.ev[i].e = "lock"}) > Cardinality({i \in LockIdx(q) : q.ev[i].e = "unlock"})
TermViols ==
    {V("Act_Terminates",
       IF Holding(q) THEN "did-not-return-holding-the-lock:" \o q.kind
       ELSE IF \E o \in Stuck : Holding(o) THEN "did-not-return-waiting-for-the-lock"
       ELSE "did-not-return:" \o q.kind, [q |-> q.q]) : q \in Stuck}

\* Act_NoPanic
Panicked == {q \in Reqs : q.panic \/ Has(q, "statepanic")}
PanicViols ==
    {V(IF AnyFree THEN "Info_PanicAfterUnsynchronized" ELSE "Act_NoPanic", "panic-in:" \o q.kind,
       [q |-> q.q, msg |-> Get(q, "panicmsg", Get(q, "statepanic", ""))]) : q \in Panicked}
    \cup (IF Has(E, "statepanic") THEN {V(IF AnyFree THEN "Info_PanicAfterUnsynchronized" ELSE "Act_NoPanic",
                                          "panic-while-reading-state-after-round", E.statepanic)} ELSE {})

\* Act_SequentialEquivalent.  The driver compares two projections of replies + end state with the sequential replay:
\* the full one and its DETERMINED part (pods, containers, lifecycle states, resource requests, error/panic flags) -- which
\* CPUs a container gets is not a function of the request order alone, sequentially either.  ctl_agree: independent
\* sequential control replays all reproduce the first replay's determined part; ctl_explains: one of them reproduces the
\* concurrent outcome.  first_diff: the first request (in lock order) after which the two runs differ -- both went through
\* identical full states before it; when that first difference is one of allocation choice only (first_diff.det_same) the
\* driver reports same_det = TRUE: everything that differs later follows from a choice the order does not determine.
Eq == E.equiv
Diff == Get(Eq, "diff", "")
EquivViols ==
    IF ~Eq.checked THEN {}
    ELSE IF Eq.same_full THEN {}
    ELSE IF Eq.same_det THEN {V("Info_AllocationChoiceDiffers", "determined-part-equal", Diff)}
    ELSE IF ~Get(Eq, "ctl_agree", FALSE) \/ Get(Eq, "ctl_explains", FALSE)
         THEN {V("Info_SequentialReplayNotDeterministic", "control-replays-disagree-or-reproduce-the-concurrent-outcome", Diff)}
    ELSE IF Tainted # {} THEN {V("Info_DivergedAfterUnsynchronized", "after-unsynchronized", [kinds |-> TaintKinds, diff |-> Diff])}
    ELSE {V("Act_SequentialEquivalent", "determined-state-or-reply-flags-differ-from-sequential-replay",
            [first |-> Get(Eq, "first_diff", <<>>), diff |-> Diff])}

PushViols == IF Get(E, "pushed_outside_lock", 0) > 0
             THEN {V("Inv_Mutex", "update-pushed-outside-critical-section", E.pushed_outside_lock)} ELSE {}

TrRound ==
    /\ E.ev = "round"
    /\ viols' = viols \o SetToSeq(AtMostOneViols \cup MutexViols \cup TermViols \cup PanicViols \cup EquivViols \cup PushViols
                                  \cup (IF Tainted # {} THEN {V("Info_Tainted", "tainted", TaintKinds)} ELSE {}))
    /\ l' = l + 1 /\ UNCHANGED done

-----------------------------------------------------------------------------
(* rendezvous *)
RvViols ==
    {V("Act_ReadSeesFetch",
       IF x.hang THEN "read-did-not-return"
       ELSE IF E.expect THEN "read-after-insert-missed-the-fetched-value" ELSE "read-returned-a-value-that-was-never-delivered",
       [mode |-> E.mode, gmp |-> E.gmp, who |-> x.who]) :
        x \in {x \in SetOf(E.reads) : x.hang \/ (E.expect /\ ~x.got) \/ (~E.expect /\ ~x.nil)}}
TrRv == /\ E.ev = "rv"
        /\ viols' = viols \o SetToSeq(RvViols)
        /\ l' = l + 1 /\ UNCHANGED done

(* race-detector report / runtime crash: an access pair that was not ordered by the lock.  Every side that cannot be shown
   to have held the lock is an unsynchronized access of its handler. *)
Sides == SetOf(E.sides)
RaceViols ==
    LET free == {x \in Sides : ~x.locked}
    IN IF free # {} THEN {V("Inv_Mutex", "unlocked-access:" \o x.kind, [via |-> E.ev, key |-> E.key]) : x \in free}
       ELSE {V("Inv_Mutex", "race-between-lock-holders", [via |-> E.ev, key |-> E.key])}
TrRace == /\ E.ev \in {"race", "crash"}
          /\ viols' = viols \o SetToSeq(RaceViols)
          /\ l' = l + 1 /\ UNCHANGED done

TrOther == /\ E.ev \notin {"round", "rv", "race", "crash"}
           /\ l' = l + 1 /\ UNCHANGED <<viols, done>>

Finish ==
    /\ l = N + 1 /\ ~done
    /\ ndJsonSerialize(IOEnv.VIOL_FILE, viols)
    /\ PrintT("CONSUMED " \o ToString(l - 1))
    /\ done' = TRUE
    /\ UNCHANGED <<l, viols>>

TraceInit == l = 1 /\ viols = <<>> /\ done = FALSE
TraceNext == (l <= N /\ (TrRound \/ TrRv \/ TrRace \/ TrOther)) \/ Finish
TraceSpec == TraceInit /\ [][TraceNext]_<<l, viols, done>>
=============================================================================
