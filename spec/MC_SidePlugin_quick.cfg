SPECIFICATION Spec
CONSTANTS
  Plugin = "memtierd"
  Classes = {"a", "b"}
  Ctrs = {"c1"}
  CfgKinds = {"valid", "nocfg", "malformed"}
  AnnKinds = {"none", "class", "unknowncls", "fuzzpar"}
  ResKinds = {"full", "nolinux"}
INVARIANTS
  TypeOK
  Inv_DueAfterRefusal
  Inv_DueWithinProbes
  Inv_RefusalOwesProbe
  Inv_CalibAfterConfigure
  Inv_ClosedQuiet
  Inv_HandlersExist
PROPERTIES
  Act_RefusedIsNoop
  Act_ProbeServed
  Act_ClosedIsFinal
CHECK_DEADLOCK FALSE
