SPECIFICATION Spec
CONSTANTS
  Plugin = "memtierd"
  Classes = {"a", "b"}
  Ctrs = {"c1", "c2"}
  CfgKinds = {"valid", "malformed"}
  AnnKinds = {"none", "class", "unknowncls"}
  ResKinds = {"full", "nolinux"}
INVARIANTS
  TypeOK
  Inv_DueAfterRefusal
  Inv_DueWithinProbes
  Inv_RefusalOwesProbe
  Inv_CalibAfterConfigure
  Inv_ClosedQuiet
  Inv_HandlersExist
PROPERTIES
  Act_RefusedIsNoop
  Act_ProbeServed
  Act_ClosedIsFinal
CHECK_DEADLOCK FALSE
