SPECIFICATION Spec
INVARIANTS
  Inv_WellFormed
  Inv_OrderIndependent
  Inv_Precedence
  Inv_OthersIgnored
  Inv_ExplicitOverrides
CHECK_DEADLOCK FALSE
