------------------------------ MODULE MemAlloc ------------------------------
(***************************************************************************)
(* libmem (pkg/resmgr/lib/memory): zones, requests, offers, versioning.    *)
(* Properties C06 (transactional operations, stale offers refused) and C07 *)
(* (placement rules).  Component of C04/C09 through the policy specs.      *)
(*                                                                         *)
(* Shape: one action per API entry point (GetOffer, Commit, Allocate,      *)
(* Realloc, Release, Reset).  The journal is modelled by atomicity: the    *)
(* failing branch of every action is UNCHANGED on the allocation state.    *)
(* Placement is a relation (Placements): WHICH requests are widened WHERE  *)
(* is heuristic in the code and left nondeterministic here; the initial    *)
(* zone (findInitialZone + ensureNormalMemory + defaultExpand) is          *)
(* transcribed deterministically.                                          *)
(*                                                                         *)
(* The machine layout is a variable (constant along a behaviour) so that   *)
(* one model-checking run covers several layouts and the trace spec can    *)
(* take the layout from the trace's reset line.                            *)
(***************************************************************************)
EXTENDS MemOps

CONSTANTS
    Layouts,      \* set of layouts (see LayoutOK)
    Ids,          \* request ids usable by the environment
    ReqMenu,      \* request templates the environment may submit
    MaxOffers,    \* bound on outstanding offers (model checking only)
    ReallocNodes, ReallocTypes,   \* menus for Realloc arguments
    MaxMut,       \* bound on successful mutations (model checking only)
    Faithful      \* TRUE: placements as the code guarantees them (assigned zones fit);
                  \* FALSE: placements as the property demands (every node set fits)

VARIABLES
    lay,          \* layout: [nodes, type, cap, normal, dist]
    req,          \* id -> [size, prio, strict, types, aff]   live allocations
    zone,         \* id -> SUBSET nodes                       assigned zones
    version,      \* allocator version (offers carry the version they were made at)
    mut,          \* history: number of successful state-changing operations so far
    offers,       \* set of [oid, id, r, ver, mut, upd]  outstanding offers
    noid,         \* next offer id
    last          \* the last operation and its result (observable reply)

avars == <<req, zone>>
vars  == <<lay, req, zone, version, mut, offers, noid, last>>

-----------------------------------------------------------------------------
(* Initial zone: findInitialZone + ensureNormalMemory + defaultExpand *)

RECURSIVE CloseFold(_, _, _, _, _, _)
CloseFold(L, Z, t, ns, max, acc) ==
    IF ns = <<>> THEN acc
    ELSE LET n    == Head(ns)
             cand == ByTypes(L, {t}) \ Z
             ds   == {L.dist[n][m] : m \in cand}
         IN IF ds = {} THEN CloseFold(L, Z, t, Tail(ns), max, acc)
            ELSE LET d == Min(ds)
                 IN IF d <= max
                    THEN CloseFold(L, Z, t, Tail(ns), d, acc \cup {m \in cand : L.dist[n][m] = d})
                    ELSE CloseFold(L, Z, t, Tail(ns), max, acc)

\* newCloseNodesOfType: nodes of the zone are visited in ascending id order with a running minimum.
CloseNew(L, Z, t) == CloseFold(L, Z, t, SetToSortSeq(Z \cap L.nodes, LAMBDA a, b : a < b), 1000000, {})
Expand(L, Z, T)   == UNION {CloseNew(L, Z, t) : t \in T}

Valid(L, r) == /\ r.aff # {} /\ r.aff \subseteq L.nodes
               /\ (r.strict => r.types \subseteq AvailTypes(L))

\* validateRequest: types &= available; if none, the types of the affinity nodes
EffTypes(L, r) == LET t == r.types \cap AvailTypes(L) IN IF t = {} THEN TypesOfAll(L, r.aff) ELSE t

InitZone0(L, r) ==   \* findInitialZone; {} = failure
    LET et   == EffTypes(L, r)
        z0   == r.aff
        miss == et \ TypesOfAll(L, z0)
        z1   == IF miss # {} THEN z0 \cup Expand(L, z0, miss) ELSE z0
    IN IF r.strict
       THEN LET z2 == z1 \cap ByTypes(L, et)
            IN IF et \ TypesOfAll(L, z2) # {} THEN {} ELSE z2
       ELSE LET p == z1 \cap ByTypes(L, et) IN IF p # {} THEN p ELSE z1

RECURSIVE GrowNormal(_, _, _)
GrowNormal(L, Z, T) ==
    IF Z \cap NormalNodes(L) # {} THEN Z
    ELSE LET n == Expand(L, Z, T) IN IF n = {} THEN {} ELSE GrowNormal(L, Z \cup n, T)

NormalTypesFor(L, r) ==   \* the types ensureNormalMemory expands with; {} = failure
    LET nt == TypesOfAll(L, NormalNodes(L))
        t  == EffTypes(L, r) \cap nt
    IN IF t # {} THEN t
       ELSE IF r.strict THEN {}
       ELSE IF "DRAM" \in nt THEN {"DRAM"} ELSE IF "PMEM" \in nt THEN {"PMEM"}
       ELSE IF "HBM" \in nt THEN {"HBM"} ELSE {}

InitialZoneRaw(L, r) ==
    IF ~Valid(L, r) THEN {}
    ELSE LET z == InitZone0(L, r)
         IN IF z = {} THEN {}
            ELSE IF z \cap NormalNodes(L) # {} THEN z
            ELSE LET t == NormalTypesFor(L, r) IN IF t = {} THEN {} ELSE GrowNormal(L, z, t)
\* nodes without memory are a starting point for the expansion but never part of the zone
InitialZone(L, r) == InitialZoneRaw(L, r) \cap HasMem(L)     \* {} = the request is refused before any placement

\* req.types as the allocator stores it after admission
StoredTypes(L, r) ==
    LET z == InitZone0(L, r)
    IN IF z # {} /\ z \cap NormalNodes(L) = {} THEN EffTypes(L, r) \cup NormalTypesFor(L, r) ELSE EffTypes(L, r)

-----------------------------------------------------------------------------
(* Placement relation *)

\* zn2 is a legal successor assignment when request i (new, or re-allocated with extra nodes X) is placed.
MovesOK(L, rq, zn, zn2, i) ==
    \A j \in DOMAIN zn \ {i} :
        /\ zn[j] \subseteq zn2[j]                                       \* only to supersets
        /\ (rq[j].prio = "reservation" => zn2[j] = zn[j])               \* reservations never move
        /\ (rq[j].strict => TypesOfAll(L, zn2[j] \ zn[j]) \subseteq rq[j].types)

Fits(L, rq, zn2) == IF Faithful THEN BadAssigned(L, rq, zn2) = {} ELSE BadSets(L, rq, zn2) = {}

Added(zn, zn2) == MapThenSumSet(LAMBDA j : Cardinality(zn2[j] \ zn[j]), DOMAIN zn)

\* All legal assignments after adding request i with stored record r and initial zone z0.
RawPlacements(L, rq, zn, i, r, z0) ==
    {zn2 \in [DOMAIN zn \cup {i} -> SUBSET L.nodes \ {{}}] :
        /\ z0 \subseteq zn2[i]
        /\ zn2[i] \cap NormalNodes(L) # {}
        /\ (r.strict => TypesOfAll(L, zn2[i]) \subseteq r.types)
        /\ MovesOK(L, rq, zn, zn2, i)
        /\ Fits(L, rq @@ (i :> r), zn2)}

\* Model checking explores only placements that add the fewest nodes (still a relation: ties).
Cost(zn, zn2, i, z0) == Added(zn, zn2) + Cardinality(zn2[i] \ z0)
Placements(L, rq, zn, i, r, z0) ==
    LET P == RawPlacements(L, rq, zn, i, r, z0)
    IN IF P = {} THEN {}
       ELSE LET m == Min({Cost(zn, p, i, z0) : p \in P}) IN {p \in P : Cost(zn, p, i, z0) = m}

Diff(zn, zn2, i) == [j \in {j \in DOMAIN zn \ {i} : zn2[j] # zn[j]} |-> zn2[j]]

-----------------------------------------------------------------------------
(* Actions *)

Stored(L, r) == [r EXCEPT !.types = StoredTypes(L, r)]

Init ==
    /\ lay \in Layouts
    /\ req = <<>> /\ zone = <<>> /\ version = 1 /\ mut = 0 /\ offers = {} /\ noid = 1
    /\ last = [op |-> "Init", err |-> FALSE]

Fail(op, i) ==
    /\ UNCHANGED <<lay, req, zone, version, mut, offers, noid>>
    /\ last' = [op |-> op, id |-> i, err |-> TRUE]

Allocate(i, r) ==
    /\ i \notin DOMAIN req
    /\ LET z0 == InitialZone(lay, r)
           P  == IF z0 = {} THEN {} ELSE Placements(lay, req, zone, i, Stored(lay, r), z0)
       IN IF P = {} THEN Fail("Allocate", i)
          ELSE \E zn2 \in P :
                 /\ zone' = zn2 /\ req' = req @@ (i :> Stored(lay, r))
                 /\ version' = version + 1 /\ mut' = mut + 1
                 /\ last' = [op |-> "Allocate", id |-> i, err |-> FALSE, z |-> zn2[i], upd |-> Diff(zone, zn2, i)]
                 /\ UNCHANGED <<lay, offers, noid>>

GetOffer(i, r) ==
    /\ i \notin DOMAIN req
    /\ Cardinality(offers) < MaxOffers
    /\ LET z0 == InitialZone(lay, r)
           P  == IF z0 = {} THEN {} ELSE Placements(lay, req, zone, i, Stored(lay, r), z0)
       IN IF P = {} THEN Fail("GetOffer", i)
          ELSE \E zn2 \in P :
                 /\ offers' = offers \cup {[oid |-> noid, id |-> i, r |-> Stored(lay, r), ver |-> version,
                                            mut |-> mut, zn |-> zn2]}
                 /\ noid' = noid + 1
                 /\ last' = [op |-> "GetOffer", id |-> i, err |-> FALSE]
                 /\ UNCHANGED <<lay, req, zone, version, mut>>    \* an offer never changes allocator state

Commit(o) ==
    /\ o \in offers
    /\ offers' = offers \ {o}
    /\ IF o.ver = version /\ o.id \notin DOMAIN req
       THEN /\ zone' = o.zn /\ req' = req @@ (o.id :> o.r)
            /\ version' = version + 1 /\ mut' = mut + 1
            /\ last' = [op |-> "Commit", id |-> o.id, err |-> FALSE, z |-> o.zn[o.id], upd |-> Diff(zone, o.zn, o.id)]
            /\ UNCHANGED <<lay, noid>>
       ELSE /\ UNCHANGED <<lay, req, zone, version, mut, noid>>
            /\ last' = [op |-> "Commit", id |-> o.id, err |-> TRUE]

\* Realloc(id, X, T): add nodes X (filtered by T) -- expansive or no-op.
Realloc(i, X, T) ==
    /\ i \in DOMAIN req
    /\ LET r  == req[i]
           nx == (IF T = {} THEN X ELSE X \cap ByTypes(lay, T)) \cap HasMem(lay)
           ty == IF T = {} THEN TypesOfAll(lay, X) ELSE T
           noop == \/ (X = {} /\ T = {})
                   \/ (r.aff = X /\ r.types = T)
                   \/ (X \subseteq zone[i] /\ T \subseteq TypesOfAll(lay, zone[i]))
       IN IF noop
          THEN /\ UNCHANGED <<lay, req, zone, version, mut, offers, noid>>
               /\ last' = [op |-> "Realloc", id |-> i, err |-> FALSE, z |-> zone[i], upd |-> <<>>]
          ELSE LET grow == Expand(lay, zone[i] \cup nx, ty)
                   z0   == zone[i] \cup nx \cup grow
                   r2   == [r EXCEPT !.types = @ \cup ty \cup TypesOfAll(lay, grow)]   \* "requested types" grow with realloc
                   \* no further node found is an error only if a requested type that some node of the machine HAS is
                   \* still missing from the zone (a type no node has cannot be demanded: Allocate accepts it, too)
                   P    == IF grow = {} /\ ~((ty \cap TypesOfAll(lay, HasMem(lay))) \subseteq TypesOfAll(lay, zone[i] \cup nx)) THEN {}
                           ELSE {zn2 \in [DOMAIN zone -> SUBSET lay.nodes \ {{}}] :
                                    /\ zn2[i] = z0
                                    /\ MovesOK(lay, req, zone, zn2, i)
                                    /\ Fits(lay, req, zn2)}
                   PM   == IF P = {} THEN {}
                           ELSE LET m == Min({Added(zone, p) : p \in P}) IN {p \in P : Added(zone, p) = m}
               IN IF PM = {} THEN Fail("Realloc", i)
                  ELSE \E zn2 \in PM :
                         /\ zone' = zn2 /\ req' = [req EXCEPT ![i] = r2]
                         /\ version' = version + 1 /\ mut' = mut + 1
                         /\ last' = [op |-> "Realloc", id |-> i, err |-> FALSE, z |-> zn2[i], upd |-> Diff(zone, zn2, i)]
                         /\ UNCHANGED <<lay, offers, noid>>

Release(i) ==
    IF i \in DOMAIN req
    THEN /\ req' = [j \in DOMAIN req \ {i} |-> req[j]]
         /\ zone' = [j \in DOMAIN zone \ {i} |-> zone[j]]
         /\ version' = version + 1 /\ mut' = mut + 1
         /\ last' = [op |-> "Release", id |-> i, err |-> FALSE]
         /\ UNCHANGED <<lay, offers, noid>>
    ELSE Fail("Release", i)

Reset ==
    /\ req' = <<>> /\ zone' = <<>> /\ version' = version + 1 /\ mut' = mut + 1
    /\ last' = [op |-> "Reset", err |-> FALSE]
    /\ UNCHANGED <<lay, offers, noid>>

Next ==
    \/ \E i \in Ids, r \in ReqMenu : Allocate(i, r) \/ GetOffer(i, r)
    \/ \E o \in offers : Commit(o)
    \/ \E i \in Ids, X \in ReallocNodes, T \in ReallocTypes : Realloc(i, X \cap lay.nodes, T)
    \/ \E i \in Ids : Release(i)
    \/ (req # <<>> /\ Reset)

Spec == Init /\ [][Next]_vars

-----------------------------------------------------------------------------
(* Properties.  Bad_* are witness sets (empty = holds) so that the trace     *)
(* spec can report WHICH request / node set breaks a predicate.              *)

TypeOK ==
    /\ DOMAIN req = DOMAIN zone
    /\ \A i \in DOMAIN zone : zone[i] # {} /\ zone[i] \subseteq lay.nodes

\* C07/C04: every node set with allocations confined to it holds no more than its capacity
Inv_NoOvercommit     == BadSets(lay, req, zone) = {}
Inv_AssignedZonesFit == BadAssigned(lay, req, zone) = {}
\* C07: strict requests only on nodes of their types
Bad_StrictTypes == {i \in DOMAIN zone : req[i].strict /\ ~(TypesOfAll(lay, zone[i]) \subseteq req[i].types)}
Inv_StrictTypes == Bad_StrictTypes = {}
\* C07: every assigned zone contains a node with normal memory
Bad_NormalNode == {i \in DOMAIN zone : zone[i] \cap NormalNodes(lay) = {}}
Inv_NormalNode == Bad_NormalNode = {}

Survivors == DOMAIN zone \cap DOMAIN zone'
\* C06: a failing operation (and any offer request) leaves every assignment exactly as before
Step_FailAtomic == last'.err => (zone' = zone /\ req' = req)
Step_OfferPure  == last'.op = "GetOffer" => (zone' = zone /\ req' = req)
\* C07: moves only to supersets; reservations never move; realloc never removes nodes
Bad_Monotone    == {i \in Survivors : ~(zone[i] \subseteq zone'[i])}
Bad_Reservation == {i \in Survivors : /\ req[i].prio = "reservation" /\ zone'[i] # zone[i]
                                       /\ ~(last'.op = "Realloc" /\ last'.id = i)}   \* its owner may widen it
\* C07: the reported update map is exactly the set of changed assignments (requester excluded)
Step_ExactUpdates ==
    (~last'.err /\ last'.op \in {"Allocate", "Commit", "Realloc"}) =>
        last'.upd = [j \in {j \in Survivors \ {last'.id} : zone'[j] # zone[j]} |-> zone'[j]]
\* C06: releasing removes that allocation only
Step_ReleaseOnly ==
    (last'.op = "Release" /\ ~last'.err) =>
        /\ DOMAIN zone' = DOMAIN zone \ {last'.id}
        /\ \A j \in DOMAIN zone' : zone'[j] = zone[j] /\ req'[j] = req[j]
\* C06: an offer taken before ANY later successful state-changing operation is refused
Step_StaleRefused ==
    \A o \in offers \ offers' : (last'.op = "Commit" /\ o.mut < mut) => last'.err
\* C06: committing a fresh offer gives exactly what the offer promised (= what Allocate would do)
Step_FreshCommits ==
    \A o \in offers \ offers' : (last'.op = "Commit" /\ o.mut = mut /\ o.id \notin DOMAIN req
                                   /\ ~("amb" \in DOMAIN o /\ o.amb)) => ~last'.err

Act_FailAtomic   == [][Step_FailAtomic]_vars
Act_OfferPure    == [][Step_OfferPure]_vars
Act_Monotone     == [][Bad_Monotone = {}]_vars
Act_Reservation  == [][Bad_Reservation = {}]_vars
Act_ExactUpdates == [][Step_ExactUpdates]_vars
Act_ReleaseOnly  == [][Step_ReleaseOnly]_vars
Act_StaleRefused == [][Step_StaleRefused]_vars
Act_FreshCommits == [][Step_FreshCommits]_vars
\* version logic implies staleness detection: the version moves with every mutation
Inv_VersionTracksMutations == version = mut + 1

\* state-space control for the exhaustive configurations
Bound  == mut <= MaxMut /\ noid <= MaxOffers + 2
\* `last` and absolute counters are output-only: the action properties are evaluated on every generated
\* transition anyway, so they are left out of the VIEW
View   == <<lay, req, zone, version - mut, mut, {[id |-> o.id, r |-> o.r, stale |-> o.mut < mut, zn |-> o.zn] : o \in offers}>>
=============================================================================
