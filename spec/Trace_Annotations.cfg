SPECIFICATION TraceSpec
POSTCONDITION DomainCovered
CHECK_DEADLOCK FALSE
