--------------------------- MODULE Trace_CpuAlloc ---------------------------
(***************************************************************************)
(* Conformance of the real pkg/cpuallocator to CpuAlloc (C08).             *)
(*                                                                         *)
(* One trace file = one chunk of the recorded function graph:              *)
(*   line 1      {"ev":"hdr","kind":"full"|"sample"|"replay","m":machine,  *)
(*                "online":[..],"lo":a,"hi":b,"groups":g}                   *)
(*   line 2..N   {"ev":"call","op":"A"|"R","mask":..,"from":[..],"n":..,   *)
(*                "prio":..,"flags":..,"err":..,"res":[..],"after":[..],    *)
(*                "err2":..,"res2":[..],"after2":[..]}                      *)
(* (the second outcome is the same call made on a second allocator that    *)
(* was built from an independent discovery of the same topology).          *)
(*                                                                         *)
(* On every call line TLC evaluates the law of CpuAlloc (AllocLaw,         *)
(* ReleaseLaw, OverAskLaw, Det) on the logged values; `from` and `last`    *)
(* are bound to the logged post-state.  Violations are recorded as         *)
(* (pred, sig, line) and the rest of the chunk is still checked.           *)
(*                                                                         *)
(* Domain coverage: the spec re-derives, line by line, which input the     *)
(* canonical enumeration of this chunk has at that position (CpuAlloc:     *)
(* FirstKey/SuccKey/FromMask/NSeq) and compares it with the logged input;  *)
(* at the end the enumeration must be exhausted.  The result is printed    *)
(* as "COVER {...}"; a chunk with ok=FALSE makes the check inconclusive.   *)
(***************************************************************************)
EXTENDS CpuAlloc, Json, IOUtils, TLC, SequencesExt

VARIABLES l,        \* next trace line
          hdr,      \* the chunk header
          exp,      \* position of the canonical enumeration the next call line must have
          gfrom,    \* sample chunks: the candidate set of the current group
          viols,    \* recorded violations <<pred, sig, line>>
          miss,     \* lines whose input is not the expected input (first few)
          done

Trace == ndJsonDeserialize(IOEnv.TRACE_FILE)
N     == Len(Trace)
E     == Trace[l]

tvars == <<vars, l, hdr, exp, gfrom, viols, miss, done>>

Has(r, f) == f \in DOMAIN r
SetOf(s)  == {s[i] : i \in DOMAIN s}

V(pred, sig) == [pred |-> pred, sig |-> sig, line |-> l]

\* the verdict-bearing evaluation of one recorded call
CallViolations ==
    LET F  == SetOf(E.from)
        R  == SetOf(E.res)
        F2 == SetOf(E.after)
        n  == E.n
        k  == Cardinality(F)
    IN  (IF Has(E, "panic") THEN {V(IF n > k THEN "Act_OverAskFails" ELSE IF E.op = "A" THEN "Act_AllocExact" ELSE "Act_ReleaseExact", "call-panicked")}
         ELSE
           (IF E.op = "A" /\ ~AllocLaw(F, n, E.err, R, F2) THEN {V("Act_AllocExact", AllocSig(F, n, E.err, R, F2))} ELSE {})
           \cup (IF E.op = "R" /\ ~ReleaseLaw(F, n, E.err, R, F2) THEN {V("Act_ReleaseExact", ReleaseSig(F, n, E.err, R, F2))} ELSE {})
           \cup (IF ~OverAskLaw(F, n, E.err, R, F2) THEN {V("Act_OverAskFails", OverAskSig(E.op, F, n, E.err, R, F2))} ELSE {})
           \cup (IF ~Det(E.err, R, F2, E.err2, SetOf(E.res2), SetOf(E.after2)) THEN {V("Act_Deterministic", "same-inputs-different-outcome")} ELSE {}))

\* is the logged input the one the canonical enumeration has at position exp?
InputExpected ==
    LET F      == SetOf(E.from)
        online == hdr.online
        ns     == NSeq(hdr.kind, Cardinality(F))
        fl     == FlagSeq(hdr.kind)
    IN  /\ E.mask = exp.g
        /\ E.op = Ops[exp.oi]
        /\ E.prio = Prios[exp.pi]
        /\ exp.fi <= Len(fl) /\ E.flags = fl[exp.fi]
        /\ exp.ni <= Len(ns) /\ E.n = ns[exp.ni]
        /\ IF hdr.kind = "full"
           THEN exp.g <= hdr.hi /\ F = FromMask(exp.g, online)
           ELSE /\ exp.g <= hdr.groups
                /\ F \subseteq SetOf(online)
                /\ (exp = FirstKey(exp.g) \/ F = gfrom)

TrHdr ==
    /\ l = 1 /\ E.ev = "hdr"
    /\ hdr' = E
    /\ exp' = FirstKey(IF E.kind = "full" THEN E.lo ELSE 1)
    /\ l' = l + 1
    /\ UNCHANGED <<vars, gfrom, viols, miss, done>>

TrCall ==
    /\ l > 1 /\ E.ev = "call"
    /\ from' = SetOf(E.after)
    /\ last' = Outcome(E.op, E.n, E.err, SetOf(E.res))
    /\ viols' = viols \o SetToSeq(CallViolations)
    /\ IF hdr.kind = "replay"
       THEN UNCHANGED <<exp, gfrom, miss>>
       ELSE /\ exp' = SuccKey(exp, Len(NSeq(hdr.kind, Len(E.from))), Len(FlagSeq(hdr.kind)))
            /\ gfrom' = SetOf(E.from)
            /\ miss' = IF InputExpected \/ Len(miss) >= 3 THEN miss ELSE Append(miss, [line |-> l, expected |-> exp])
    /\ l' = l + 1
    /\ UNCHANGED <<hdr, done>>

TrUnknown ==
    /\ ~(l = 1 /\ E.ev = "hdr") /\ ~(l > 1 /\ E.ev = "call")
    /\ miss' = Append(miss, [line |-> l, expected |-> exp])
    /\ l' = l + 1
    /\ UNCHANGED <<vars, hdr, exp, gfrom, viols, done>>

\* the enumeration of the chunk is exhausted exactly when the trace ends
Exhausted ==
    CASE hdr.kind = "full"   -> exp = FirstKey(hdr.hi + 1)
      [] hdr.kind = "sample" -> exp = FirstKey(hdr.groups + 1)
      [] OTHER               -> TRUE

Finish ==
    /\ l = N + 1 /\ ~done
    /\ ndJsonSerialize(IOEnv.VIOL_FILE, viols)
    /\ PrintT("CONSUMED " \o ToString(l - 1))
    /\ PrintT("COVER " \o ToJson([ok |-> (N >= 1 /\ miss = <<>> /\ Exhausted), m |-> hdr.m, kind |-> hdr.kind,
                                   lo |-> hdr.lo, hi |-> hdr.hi, groups |-> hdr.groups, ncpu |-> Len(hdr.online),
                                   calls |-> N - 1, miss |-> miss]))
    /\ done' = TRUE /\ UNCHANGED <<vars, l, hdr, exp, gfrom, viols, miss>>

NoHdr == [ev |-> "hdr", kind |-> "none", m |-> "", online |-> <<>>, lo |-> 0, hi |-> -1, groups |-> 0]

TraceInit ==
    /\ l = 1 /\ hdr = NoHdr /\ exp = FirstKey(0) /\ gfrom = {} /\ viols = <<>> /\ miss = <<>> /\ done = FALSE
    /\ from = {} /\ last = Outcome("G", 0, FALSE, {})

TraceNext ==
    \/ (l <= N /\ (TrHdr \/ TrCall \/ TrUnknown))
    \/ Finish

TraceSpec == TraceInit /\ [][TraceNext]_tvars
=============================================================================
