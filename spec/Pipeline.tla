------------------------------ MODULE Pipeline ------------------------------
(***************************************************************************)
(* The request pipeline of the resource manager (pkg/resmgr/nri.go) over   *)
(* the cache's pending-change machinery (pkg/resmgr/cache/container.go):   *)
(* how resource decisions made by a policy reach the container runtime.    *)
(* Properties C05 (runtime view equals cache view) and C14 (no handler     *)
(* panics, refused requests leave the plugin serving).                     *)
(*                                                                         *)
(* The policy is abstracted: a request lets it perform a bounded sequence  *)
(* of Set(container, field, value) calls on cached containers and then     *)
(* succeed or fail (PolicyRun).  Everything else follows nri.go line by    *)
(* line: which pending request object a Set lands in (adjustment while     *)
(* the container is being created, update otherwise), when pending         *)
(* changes are drained into a reply, which container is skipped, and that  *)
(* failing handlers return without draining.                               *)
(*                                                                         *)
(* The environment is unconstrained (C14): any event for known or unknown  *)
(* pods/containers, duplicated or out of order.                            *)
(***************************************************************************)
EXTENDS Integers, FiniteSets, Sequences, TLC

CONSTANTS Pods, Ctrs, PodOf,       \* PodOf \in [Ctrs -> Pods]
          Fields, Vals,            \* resource fields the plugin may tell, abstract values
          MaxWrites,               \* bound on Set calls per request
          SyncStates,              \* container states a Synchronize list may report (subset of created/running/stopped)
          ConsistentEnv,           \* TRUE: the runtime only sends lifecycle events that fit its own view of a container (C05);
                                   \* FALSE: any event at any time, for known and unknown ids (C14)
          StrictPolicy,            \* TRUE: the policy only writes to created/running containers and the one being created
          WithEvents,              \* TRUE: policy events (cold start completion) arrive between requests
          FlushOnError             \* TRUE: a failing CreateContainer/UpdateContainer pushes what it changed for OTHER containers
                                   \* (the code since the repair of F-C05-1/2); FALSE: it returns without (the code before)

VARIABLES
    pods,      \* pods in the cache
    ctrs,      \* cached containers: id -> [st, res]   res: partial function Fields -> Vals (what the cache records)
    req,       \* pending request object per cached container: id -> [k \in {"none","adj","upd"}, f: partial fn]
    pend,      \* ids marked pending in the cache (may name containers that are gone)
    rt,        \* runtime view: id -> partial function Fields -> Vals: what the plugin has told the runtime
    rtlive,    \* containers the runtime considers alive (created/running, not stopped/removed)
    residue,   \* history: ids whose change was left pending by a FAILED request (explains known findings)
    evpend,    \* history: ids whose pending change was made by a policy EVENT and awaits the next request that drains
    reply      \* last reply: [ev, c, err, adj, upd, pushed]

vars == <<pods, ctrs, req, pend, rt, rtlive, residue, evpend, reply>>

States == {"creating", "created", "running", "exited", "stale"}
NoReq  == [k |-> "none", f |-> <<>>]
Cached == DOMAIN ctrs
Live   == {c \in Cached : ctrs[c].st \in {"created", "running"}}

\* f1 overridden by f2
Merge(f1, f2) == [x \in DOMAIN f1 \cup DOMAIN f2 |-> IF x \in DOMAIN f2 THEN f2[x] ELSE f1[x]]

-----------------------------------------------------------------------------
(* One Set call of the policy: cache/container.go Set* + markPending *)
Write == [c : Ctrs, f : Fields, v : Vals]

ApplyWrite(st, w) ==      \* st = [ctrs, req, pend]
    IF w.c \notin DOMAIN st.ctrs THEN st
    ELSE LET k0 == st.req[w.c].k
             k  == IF k0 # "none" THEN k0
                   ELSE IF st.ctrs[w.c].st = "creating" THEN "adj" ELSE "upd"
         IN [ctrs |-> [st.ctrs EXCEPT ![w.c].res = Merge(@, (w.f :> w.v))],
             req  |-> [st.req EXCEPT ![w.c] = [k |-> k, f |-> Merge(@.f, (w.f :> w.v))]],
             pend |-> st.pend \cup {w.c}]

RECURSIVE ApplyWrites(_, _)
ApplyWrites(st, ws) == IF ws = <<>> THEN st ELSE ApplyWrites(ApplyWrite(st, Head(ws)), Tail(ws))

\* the write sequences a policy may perform during a request that concerns container c (or none)
WriteSeqs(targets) ==
    UNION {[1 .. n -> {w \in Write : w.c \in targets}] : n \in 0 .. MaxWrites}

Targets(c) == IF StrictPolicy THEN Live \cup (IF c \in Cached THEN {c} ELSE {}) ELSE Cached

-----------------------------------------------------------------------------
(* Draining: getPendingAdjustment / getPendingUpdates(skip) *)

\* the adjustment of container c and the state after taking it
TakeAdj(st, c) ==
    LET r == st.req[c]
    IN [adj  |-> IF r.k = "adj" THEN r.f ELSE <<>>,
        has  |-> r.k = "adj",
        st   |-> [st EXCEPT !.req[c] = NoReq, !.pend = @ \ {c}]]

\* updates for every pending cached container except `skip`; a pending container whose request object
\* is not an update yields nothing and stays pending (GetPendingUpdate returns nil)
DrainSet(st, skip) == {c \in st.pend \cap DOMAIN st.ctrs : c # skip}
Drain(st, skip) ==
    LET D  == DrainSet(st, skip)
        U  == {c \in D : st.req[c].k = "upd"}
        X  == {c \in D : st.req[c].k = "adj"}           \* type mismatch: request dropped, stays pending
    IN [upd |-> [c \in U |-> st.req[c].f],
        st  |-> [st EXCEPT !.req = [c \in DOMAIN st.req |-> IF c \in U \cup X THEN NoReq ELSE st.req[c]],
                           !.pend = @ \ U]]

\* fold a set of updates into the runtime view (only for containers the runtime has)
FoldUpd(view, upd) == [c \in DOMAIN view |-> IF c \in DOMAIN upd THEN Merge(view[c], upd[c]) ELSE view[c]]

St == [ctrs |-> ctrs, req |-> req, pend |-> pend]
SetSt(st) == ctrs' = st.ctrs /\ req' = st.req /\ pend' = st.pend

Reply(ev, c, err, adj, upd, pushed) == [ev |-> ev, c |-> c, err |-> err, adj |-> adj, upd |-> upd, pushed |-> pushed]
None == "-"

-----------------------------------------------------------------------------
(* Handlers *)

Init ==
    /\ pods = {} /\ ctrs = <<>> /\ req = <<>> /\ pend = {} /\ rt = <<>> /\ rtlive = {} /\ residue = {} /\ evpend = {}
    /\ reply = Reply("Init", None, FALSE, <<>>, <<>>, <<>>)

RunPod(p) ==
    /\ pods' = pods \cup {p}
    /\ reply' = Reply("RunPod", None, FALSE, <<>>, <<>>, <<>>)
    /\ UNCHANGED <<ctrs, req, pend, rt, rtlive, residue>>

\* StopPodSandbox: post-release hooks only; the runtime has stopped the pod's containers
StopPod(p) ==
    /\ rtlive' = {c \in rtlive : PodOf[c] # p}
    /\ reply' = Reply("StopPod", None, FALSE, <<>>, <<>>, <<>>)
    /\ UNCHANGED <<pods, ctrs, req, pend, rt, residue>>

RemovePod(p) ==
    /\ pods' = pods \ {p}
    /\ rtlive' = {c \in rtlive : PodOf[c] # p}
    /\ reply' = Reply("RemovePod", None, FALSE, <<>>, <<>>, <<>>)
    /\ UNCHANGED <<ctrs, req, pend, rt, residue>>

Create(c) ==
    IF PodOf[c] \notin pods
    THEN /\ reply' = Reply("Create", c, TRUE, <<>>, <<>>, <<>>)          \* refused: the pod is not cached
         /\ UNCHANGED <<pods, ctrs, req, pend, rt, rtlive, residue>>
    ELSE LET st0 == [ctrs |-> (c :> [st |-> "creating", res |-> <<>>]) @@ ctrs,
                     req  |-> (c :> NoReq) @@ req,
                     pend |-> pend]
         IN \E ws \in WriteSeqs(Targets(c) \cup {c}), ok \in BOOLEAN :
              LET st1 == ApplyWrites(st0, ws)
              IN IF ~ok
                 THEN \* allocation failed: the container goes stale and its own pending adjustment is dropped; what the
                      \* attempt changed for other containers is pushed (unsolicited update) -- before the repair the
                      \* handler returned without draining anything
                      IF FlushOnError
                      THEN LET st2 == [st1 EXCEPT !.ctrs[c].st = "stale"]
                               a   == TakeAdj(st2, c)
                               d   == Drain([a.st EXCEPT !.req[c] = NoReq, !.pend = @ \ {c}], c)
                           IN /\ SetSt(d.st)
                              /\ rt' = FoldUpd(rt, d.upd)
                              /\ reply' = Reply("Create", c, TRUE, <<>>, <<>>, d.upd)
                              /\ rtlive' = rtlive \ {c}
                              /\ UNCHANGED <<pods, residue>>
                      ELSE /\ SetSt([st1 EXCEPT !.ctrs[c].st = "stale"])
                           /\ residue' = residue \cup (st1.pend \cap DOMAIN st1.ctrs)
                           /\ reply' = Reply("Create", c, TRUE, <<>>, <<>>, <<>>)
                           /\ rtlive' = rtlive \ {c}          \* a refused creation: the runtime has no such container
                           /\ UNCHANGED <<pods, rt>>
                 ELSE LET st2 == [st1 EXCEPT !.ctrs[c].st = "created"]
                          a   == TakeAdj(st2, c)
                          d   == Drain(a.st, c)
                      IN /\ SetSt(d.st)
                         /\ rtlive' = rtlive \cup {c}
                         /\ rt' = FoldUpd((c :> a.adj) @@ rt, d.upd)
                         /\ reply' = Reply("Create", c, FALSE, a.adj, d.upd, <<>>)
                         /\ UNCHANGED <<pods, residue>>

Start(c) ==
    /\ IF c \in Cached THEN ctrs' = [ctrs EXCEPT ![c].st = "running"] ELSE UNCHANGED ctrs
    /\ reply' = Reply("Start", c, FALSE, <<>>, <<>>, <<>>)
    /\ UNCHANGED <<pods, req, pend, rt, rtlive, residue>>

\* UpdateContainer with real resource changes: the policy re-allocates (or fails, returning without draining)
Update(c) ==
    IF c \notin Cached
    THEN /\ reply' = Reply("Update", c, FALSE, <<>>, <<>>, <<>>)
         /\ UNCHANGED <<pods, ctrs, req, pend, rt, rtlive, residue>>
    ELSE \E ws \in WriteSeqs(Targets(c)), ok \in BOOLEAN :
           LET st1 == ApplyWrites(St, ws)
           IN IF ~ok
              THEN IF FlushOnError
                   THEN LET d == Drain(st1, None)
                        IN /\ SetSt(d.st)
                           /\ rt' = FoldUpd(rt, d.upd)
                           /\ reply' = Reply("Update", c, TRUE, <<>>, <<>>, d.upd)
                           /\ UNCHANGED <<pods, rtlive, residue>>
                   ELSE /\ SetSt(st1)
                        /\ residue' = residue \cup (st1.pend \cap DOMAIN st1.ctrs)
                        /\ reply' = Reply("Update", c, TRUE, <<>>, <<>>, <<>>)
                        /\ UNCHANGED <<pods, rt, rtlive>>
              ELSE LET d == Drain(st1, None)
                   IN /\ SetSt(d.st)
                      /\ rt' = FoldUpd(rt, d.upd)
                      /\ reply' = Reply("Update", c, FALSE, <<>>, d.upd, <<>>)
                      /\ UNCHANGED <<pods, rtlive, residue>>

Stop(c) ==
    IF c \notin Cached
    THEN /\ reply' = Reply("Stop", c, FALSE, <<>>, <<>>, <<>>)
         /\ rtlive' = rtlive \ {c}
         /\ UNCHANGED <<pods, ctrs, req, pend, rt, residue>>
    ELSE \E ws \in WriteSeqs(Targets(c) \ {c}), ok \in BOOLEAN :
           LET st1 == ApplyWrites(St, ws)
           IN IF ~ok
              THEN \* the policy refused to release: the handler returns early, the container keeps its cached
                   \* state (and whatever it holds) although the runtime has stopped it -- named deviation
                   /\ SetSt(st1)
                   /\ residue' = residue \cup (st1.pend \cap DOMAIN st1.ctrs) \cup {c}
                   /\ rtlive' = rtlive \ {c}
                   /\ reply' = Reply("Stop", c, TRUE, <<>>, <<>>, <<>>)
                   /\ UNCHANGED <<pods, rt>>
              ELSE LET st2 == [st1 EXCEPT !.ctrs[c].st = "exited"]
                       d   == Drain(st2, c)               \* the stopped container itself is skipped ...
                       st3 == [d.st EXCEPT !.req[c] = NoReq, !.pend = @ \ {c}]     \* ... and its own changes discarded
                   IN /\ SetSt(st3)
                      /\ rtlive' = rtlive \ {c}
                      /\ rt' = FoldUpd(rt, d.upd)
                      /\ reply' = Reply("Stop", c, FALSE, <<>>, d.upd, <<>>)
                      /\ UNCHANGED <<pods, residue>>

\* RemoveContainer: a container that is still created/running in the cache (it was never stopped: the runtime removes
\* a never-started container without a StopContainer event) is released first; the request has no reply that could
\* carry updates, so what the release changed for others is pushed through the stub
Remove(c) ==
    IF c \in Cached /\ ctrs[c].st \in {"created", "running"}
    THEN \E ws \in WriteSeqs(Targets(c) \ {c}) :
           LET st1 == ApplyWrites(St, ws)
               d   == Drain([st1 EXCEPT !.req[c] = NoReq, !.pend = @ \ {c}], None)
           IN /\ ctrs' = [x \in Cached \ {c} |-> d.st.ctrs[x]]
              /\ req' = [x \in DOMAIN req \ {c} |-> d.st.req[x]]
              /\ pend' = d.st.pend
              /\ rtlive' = rtlive \ {c}
              /\ rt' = FoldUpd([x \in DOMAIN rt \ {c} |-> rt[x]], d.upd)
              /\ reply' = Reply("Remove", c, FALSE, <<>>, <<>>, d.upd)
              /\ UNCHANGED <<pods, residue>>
    ELSE /\ ctrs' = [x \in Cached \ {c} |-> ctrs[x]]
         /\ req' = [x \in DOMAIN req \ {c} |-> req[x]]
         /\ rtlive' = rtlive \ {c}
         /\ rt' = [x \in DOMAIN rt \ {c} |-> rt[x]]        \* the runtime forgets the container
         /\ reply' = Reply("Remove", c, FALSE, <<>>, <<>>, <<>>)
         /\ UNCHANGED <<pods, pend, residue>>              \* the cache's pending mark is not cleared by deletion

\* Synchronize(P, C): C maps the runtime's containers to "created" | "running" | "stopped"
Sync(P, C) ==
    LET gonePods == pods \ P
        kept     == {c \in Cached : PodOf[c] \in P /\ c \in DOMAIN C}
        new      == {c \in DOMAIN C \ Cached : PodOf[c] \in P}
        st0 == [ctrs |-> [c \in kept \cup new |->
                             \* known containers keep their record but take the state the runtime reports
                             [st  |-> IF C[c] = "stopped" THEN "exited" ELSE C[c],
                              \* a discovered container is inserted with the resources the runtime reports for it,
                              \* i.e. with what the plugin has told the runtime so far
                              res |-> IF c \in kept THEN ctrs[c].res ELSE IF c \in DOMAIN rt THEN rt[c] ELSE <<>>]],
                req  |-> [c \in kept \cup new |-> IF c \in kept THEN req[c] ELSE NoReq],
                pend |-> pend]
        tg  == {c \in kept \cup new : st0.ctrs[c].st \in {"created", "running"}}
    IN \E ws \in WriteSeqs(IF StrictPolicy THEN tg ELSE kept \cup new), ok \in BOOLEAN :
         LET st1 == ApplyWrites(st0, ws)
             live2 == {c \in DOMAIN C : C[c] \in {"created", "running"}}
             rt0 == [c \in live2 |-> IF c \in DOMAIN rt THEN rt[c] ELSE <<>>]
         IN /\ pods' = P
            /\ rtlive' = live2
            /\ IF ~ok
               THEN /\ SetSt(st1) /\ rt' = rt0
                    /\ residue' = residue \cup (st1.pend \cap DOMAIN st1.ctrs)
                    /\ reply' = Reply("Sync", None, TRUE, <<>>, <<>>, <<>>)
               ELSE LET d == Drain(st1, None)
                    IN /\ SetSt(d.st) /\ rt' = FoldUpd(rt0, d.upd)
                       /\ reply' = Reply("Sync", None, FALSE, <<>>, d.upd, <<>>)
                       /\ UNCHANGED residue

\* reconfigure(): policy.Reconfigure, then every pending change is pushed through the stub;
\* on failure the previous configuration is re-applied the same way
Reconfigure ==
    \E ws \in WriteSeqs(Targets(None)), ok \in BOOLEAN :
      LET st1 == ApplyWrites(St, ws)
      IN IF ok
         THEN LET d == Drain(st1, None)
              IN /\ SetSt(d.st) /\ rt' = FoldUpd(rt, d.upd)
                 /\ reply' = Reply("Reconfigure", None, FALSE, <<>>, <<>>, d.upd)
                 /\ UNCHANGED <<pods, rtlive, residue>>
         ELSE \E ws2 \in WriteSeqs(Targets(None)) :        \* revert: apply(previous configuration), assumed to succeed
              LET st2 == ApplyWrites(st1, ws2)
                  d == Drain(st2, None)
              IN /\ SetSt(d.st) /\ rt' = FoldUpd(rt, d.upd)
                 /\ reply' = Reply("Reconfigure", None, TRUE, <<>>, <<>>, d.upd)
                 /\ UNCHANGED <<pods, rtlive, residue>>

\* A policy event (topology-aware: the cold start timer of container c fires) handled under the lock: the policy
\* re-allocates c's memory and records the new pinning; there is no reply to carry it, the change is delivered by
\* whichever request comes next (at this commit resmgr.processEvent drops policy events; the action models the
\* hand-over HandleEvent is written for).
PolicyEvent(c) ==
    /\ WithEvents /\ c \in Cached /\ ctrs[c].st \in {"created", "running"}
    /\ \E ws \in WriteSeqs({c}) : SetSt(ApplyWrites(St, ws))
    /\ evpend' = evpend \cup (pend' \ pend)
    /\ reply' = Reply("Event", c, FALSE, <<>>, <<>>, <<>>)
    /\ UNCHANGED <<pods, rt, rtlive, residue>>

\* what a runtime that is consistent with its own bookkeeping may send
EnvOK(ev, c) ==
    ~ConsistentEnv \/
    CASE ev = "Create" -> c \notin rtlive /\ c \notin Cached /\ PodOf[c] \in pods
      [] ev \in {"Start", "Update", "Stop"} -> c \in rtlive
      [] ev = "Remove" -> c \notin rtlive \/ (c \in Cached /\ ctrs[c].st = "created")
      [] OTHER -> TRUE

\* a consistent runtime stops the containers of a pod (StopContainer) before it stops or removes the pod
PodEnvOK(p) == ~ConsistentEnv \/ ~\E c \in rtlive : PodOf[c] = p

Request ==
    \/ \E p \in Pods : RunPod(p) \/ (PodEnvOK(p) /\ StopPod(p)) \/ (PodEnvOK(p) /\ RemovePod(p))
    \/ \E c \in Ctrs : \/ (EnvOK("Create", c) /\ Create(c)) \/ (EnvOK("Start", c) /\ Start(c))
                       \/ (EnvOK("Update", c) /\ Update(c)) \/ (EnvOK("Stop", c) /\ Stop(c))
                       \/ (EnvOK("Remove", c) /\ Remove(c))
    \/ \E P \in SUBSET Pods, D \in SUBSET Ctrs : \E C \in [D -> SyncStates] :
          \* the runtime lists the pod of every container it lists, and a container it reports alive is one
          \* the plugin admitted earlier or one the plugin has never seen (not one whose creation it refused)
          /\ (ConsistentEnv => \A c \in D : PodOf[c] \in P /\ (C[c] # "stopped" => (c \in rtlive \/ c \notin Cached)))
          /\ Sync(P, C)
    \/ Reconfigure

Next ==
    \/ Request /\ evpend' = evpend \cap pend'
    \/ \E c \in Ctrs : PolicyEvent(c)

Spec == Init /\ [][Next]_vars

-----------------------------------------------------------------------------
(* Properties (C05).  Bad_* are witness sets. *)

TypeOK ==
    /\ DOMAIN req = DOMAIN ctrs
    /\ \A c \in Cached : ctrs[c].st \in States /\ req[c].k \in {"none", "adj", "upd"}
    /\ rtlive \subseteq DOMAIN rt

\* after every request the runtime's view of every live container equals the cache's record, field by field
Bad_RuntimeEqualsCache(view, live, cache) ==
    {<<c, f>> \in (DOMAIN view) \X Fields :
        /\ c \in live /\ c \in DOMAIN cache /\ f \in DOMAIN view[c]
        /\ (f \notin DOMAIN cache[c].res \/ view[c][f] # cache[c].res[f])}
\* no change stays pending after the reply (for containers the runtime still has)
Bad_NothingPending(pnd, live, cache) == pnd \cap live \cap DOMAIN cache

\* every update of the reply addresses a container the runtime has not stopped or removed
\* (the subject of an UpdateContainer request is alive by the runtime's own account)
Bad_UpdateToDead(r, liveAfter) ==
    ((DOMAIN r.upd \cup DOMAIN r.pushed) \ liveAfter) \ (IF r.ev = "Update" THEN {r.c} ELSE {})
\* the creation adjustment describes the created container: every field it sets is that container's cached value
AdjDescribesCreated(r, cache) ==
    (r.ev = "Create" /\ ~r.err) =>
        /\ r.c \in DOMAIN cache
        /\ \A f \in DOMAIN r.adj : f \in DOMAIN cache[r.c].res /\ r.adj[f] = cache[r.c].res[f]

\* design-level statement: the invariants hold except for changes left behind by failed requests
\* (named deviation, see `residue`; the trace spec checks the plain predicates against the real code)
\* (a change made by a policy event is pending by design until a request whose reply can carry updates drains it)
Inv_RuntimeEqualsCache ==
    \A w \in Bad_RuntimeEqualsCache(rt, rtlive, ctrs) : w[1] \in residue \cup evpend
Inv_NothingPending == Bad_NothingPending(pend, rtlive, ctrs) \subseteq residue \cup evpend
Inv_NoUpdateToDead == Bad_UpdateToDead(reply, rtlive) \subseteq residue
\* a failing CreateContainer/UpdateContainer leaves nothing pending for a container the runtime has (it pushes what it
\* changed): holds with FlushOnError, refuted by TLC for the code before the repair (MC_Pipeline_noflush.cfg, must-find)
Inv_FailedRequestFlushes ==
    (reply.ev \in {"Create", "Update"} /\ reply.err) => {c \in Bad_NothingPending(pend, rtlive, ctrs) : req[c].k = "upd"} = {}
Inv_AdjDescribesCreated == AdjDescribesCreated(reply, ctrs)
\* the pending request object is an adjustment only while the container is being created (or its creation failed)
Inv_ReqKind == \A c \in Cached : req[c].k = "adj" => ctrs[c].st \in {"creating", "stale"}

Bound == TRUE
=============================================================================
