----------------------------- MODULE SidePlugin -----------------------------
(***************************************************************************)
(* The life of one instance of a side plugin (memory-qos, memtierd,        *)
(* sgx-epc) as far as property C14 speaks about it:                        *)
(*                                                                         *)
(*   "For every sequence of well-formed NRI events - including events that *)
(*    name pods or containers the plugin has never seen or has already     *)
(*    forgotten, duplicated or out-of-order lifecycle events, and pods     *)
(*    carrying arbitrary annotation values - every handler ... returns     *)
(*    (successfully or with an error) and never panics.  A request that is *)
(*    refused leaves the plugin able to serve all later requests."         *)
(*                                                                         *)
(* One action per handler; the NRI event is the argument.  The outcome of  *)
(* a handler is "ok" or "refused": where the plugin may legitimately       *)
(* refuse, the specification leaves the choice open (Allowed).  It forbids *)
(* a refusal only where the property itself does: a benign probe request   *)
(* (CreateContainer of a container without annotations, or of a container  *)
(* of a class that was served under the configuration in force) that       *)
(* follows a refused request must be served -- a refused request changes   *)
(* nothing.  "panic" and "hang" are outcomes of no action at all.          *)
(*                                                                         *)
(* The bookkeeping variables (cfg, phase, info) demand nothing from the    *)
(* code.  They classify events (container never created, class no longer   *)
(* configured, ...): the simulation driver uses them to reach such events, *)
(* the trace specification uses them for signatures and for coverage.      *)
(***************************************************************************)
EXTENDS Naturals, FiniteSets, TLC

CONSTANTS
    Plugin,     \* "memtierd" | "memqos" | "epc": which handlers exist
    Classes,    \* the class names configurations may define (strings)
    Ctrs,       \* the container identities events may name (strings)
    CfgKinds,   \* kinds of configuration texts, see CfgKindsAll
    AnnKinds,   \* abstract annotation profiles of the pod/container, see AnnKindsAll
    ResKinds    \* which optional sub-messages of the container are present

VARIABLES
    cfg,        \* [set, classes, rejected]: a configuration was accepted / its classes / the last Configure was refused
    phase,      \* per container: "unknown" | "created" | "started" | "stopped" (served requests only)
    info,       \* per container: Nil or what the last CreateContainer event said about it
    servable,   \* classes whose calibration request was served under the configuration in force
    calib,      \* classes still to calibrate after an accepted Configure
    due,        \* probes still owed after a refused request
    closed,     \* onClose was delivered: the instance is gone
    last        \* [ev, out]: the last event and its outcome

vars == <<cfg, phase, info, servable, calib, due, closed, last>>

Nil == [nil |-> TRUE]

CfgKindsAll == {"valid",        \* well-formed configuration defining exactly the classes S
                "nocfg",        \* Configure with an empty configuration string ("no configuration from the runtime")
                "noclasses",    \* well-formed, defines no class (empty document, empty list, other keys only)
                "extra",        \* well-formed, the classes S plus fields the plugin does not know
                "malformed",    \* not YAML / not the expected shape / wrongly typed fields
                "huge"}         \* very large text defining S among many other classes
AnnKindsAll == {"none",         \* nothing the plugin interprets (no annotations, nil map, other plugins' keys)
                "class",        \* class = a name from Classes
                "class+par",    \* class from Classes and well-formed parameter annotations
                "class+fuzzpar",\* class from Classes and parameter annotations with fuzzed values
                "par",          \* well-formed parameter annotations only
                "unknowncls",   \* class = a name no configuration ever defines
                "emptycls",     \* class = ""
                "fuzzcls",      \* class = a fuzzed value (malformed, huge, wrongly typed YAML/JSON, ...)
                "fuzzpar"}      \* parameter annotations with fuzzed values
ResKindsAll == {"full", "nolimit", "nomem", "nores", "nolinux"}
WithClass   == {"class", "class+par", "class+fuzzpar"}

ASSUME Plugin \in {"memtierd", "memqos", "epc"}
ASSUME CfgKinds \subseteq CfgKindsAll /\ AnnKinds \subseteq AnnKindsAll /\ ResKinds \subseteq ResKindsAll

HasConfigure == Plugin \in {"memtierd", "memqos"}
HasStart     == Plugin = "memtierd"
HasStop      == Plugin = "memtierd"
HasClose     == Plugin \in {"memtierd", "memqos"}

\* the annotation profiles: a class name only where the profile carries one
Anns == {[kind |-> k, cls |-> c] : k \in AnnKinds \cap WithClass, c \in Classes}
        \cup {[kind |-> k, cls |-> "-"] : k \in AnnKinds \ WithClass}

Outcomes   == {"ok", "refused"}
Phases     == {"unknown", "created", "started", "stopped"}
Events     == {"Init", "Configure", "Calib", "Create", "Start", "Stop", "Close", "Probe"}
ProbeSet   == {"-"} \cup servable        \* "-" = the container without annotations

\* Where the specification forbids a refusal.  (onClose has no way to refuse.)
Allowed(ev) == IF ev \in {"Probe", "Close"} THEN {"ok"} ELSE Outcomes

TypeOK ==
    /\ cfg \in [set : BOOLEAN, classes : SUBSET Classes, rejected : BOOLEAN]
    /\ phase \in [Ctrs -> Phases]
    /\ \A c \in Ctrs : info[c] = Nil \/ info[c] \in [a : Anns, r : ResKinds, wascfg : BOOLEAN]
    /\ servable \subseteq Classes /\ calib \subseteq Classes /\ due \subseteq ({"-"} \cup Classes)
    /\ closed \in BOOLEAN
    /\ last \in [ev : Events, out : Outcomes]

Init ==
    /\ cfg = [set |-> FALSE, classes |-> {}, rejected |-> FALSE]
    /\ phase = [c \in Ctrs |-> "unknown"]
    /\ info = [c \in Ctrs |-> Nil]
    /\ servable = {} /\ calib = {} /\ due = {}
    /\ closed = FALSE
    /\ last = [ev |-> "Init", out |-> "ok"]

-----------------------------------------------------------------------------
(* classification of events in the state they arrive in (no demands) *)

ClassConfigured(a) == cfg.set /\ a.cls \in cfg.classes
\* (a configuration text of a fuzzed kind may be accepted and mean something else than its nominal classes: the
\*  calibration tells; such cases get labels of their own)
ClsCat(a) == IF a.kind \in WithClass
             THEN (IF ~cfg.set THEN "cls-unconfigured-plugin"
                   ELSE IF a.cls \in cfg.classes
                        THEN (IF a.cls \in servable THEN "cls-configured" ELSE "cls-configured-not-served")
                        ELSE (IF a.cls \in servable THEN "cls-served-not-configured" ELSE "cls-not-configured"))
             ELSE a.kind
\* the class of the container was configured when it was created and is not any more
ClassRemoved(c) == info[c] # Nil /\ info[c].wascfg /\ ~ClassConfigured(info[c].a)

-----------------------------------------------------------------------------
(* guards: when an event is a step of the specification at all *)

Idle == ~closed /\ calib = {} /\ due = {}

CanConfigure(kind, S) == HasConfigure /\ Idle /\ kind \in CfgKinds /\ S \subseteq Classes
                         /\ (kind \in {"nocfg", "noclasses"} => S = {})
CanCalib(k)      == ~closed /\ k \in calib
CanCreate(c, a, r) == Idle /\ c \in Ctrs /\ a \in Anns /\ r \in ResKinds
\* the runtime describes a container it has described before in the same way
Sticky(c, a, r)  == info[c] # Nil => (a = info[c].a /\ r = info[c].r)
CanStart(c, a, r) == HasStart /\ CanCreate(c, a, r) /\ Sticky(c, a, r)
CanStop(c, a, r)  == HasStop /\ CanCreate(c, a, r) /\ Sticky(c, a, r)
CanClose         == HasClose /\ Idle
CanProbe(t)      == ~closed /\ calib = {} /\ t \in ProbeSet /\ (due # {} => t \in due)

-----------------------------------------------------------------------------
(* actions: one per handler; o is the outcome *)

Owed(o) == IF o = "ok" THEN {} ELSE ProbeSet

Configure(kind, S, o) ==
    /\ CanConfigure(kind, S) /\ o \in Outcomes
    /\ cfg' = IF o = "ok"
              THEN (IF kind = "nocfg" THEN [cfg EXCEPT !.rejected = FALSE]
                    ELSE [set |-> TRUE, classes |-> S, rejected |-> FALSE])
              ELSE [cfg EXCEPT !.rejected = TRUE]
    \* an accepted configuration is followed by one calibration request per class name
    /\ calib' = IF o = "ok" THEN Classes ELSE {}
    /\ servable' = IF o = "ok" THEN {} ELSE servable
    /\ due' = Owed(o)
    /\ last' = [ev |-> "Configure", out |-> o]
    /\ UNCHANGED <<phase, info, closed>>

\* CreateContainer of a fresh, fully described container of class k: is the class served at all?
Calib(k, o) ==
    /\ CanCalib(k) /\ o \in Outcomes
    /\ calib' = calib \ {k}
    /\ servable' = IF o = "ok" THEN servable \cup {k} ELSE servable
    /\ last' = [ev |-> "Calib", out |-> o]
    /\ UNCHANGED <<cfg, phase, info, due, closed>>

Create(c, a, r, o) ==
    /\ CanCreate(c, a, r) /\ o \in Outcomes
    /\ info' = [info EXCEPT ![c] = [a |-> a, r |-> r, wascfg |-> (a.kind \in WithClass /\ ClassConfigured(a))]]
    /\ phase' = IF o = "ok" THEN [phase EXCEPT ![c] = "created"] ELSE phase
    /\ due' = Owed(o)
    /\ last' = [ev |-> "Create", out |-> o]
    /\ UNCHANGED <<cfg, servable, calib, closed>>

Start(c, a, r, o) ==
    /\ CanStart(c, a, r) /\ o \in Outcomes
    /\ phase' = IF o = "ok" THEN [phase EXCEPT ![c] = "started"] ELSE phase
    /\ due' = Owed(o)
    /\ last' = [ev |-> "Start", out |-> o]
    /\ UNCHANGED <<cfg, info, servable, calib, closed>>

Stop(c, a, r, o) ==
    /\ CanStop(c, a, r) /\ o \in Outcomes
    /\ phase' = IF o = "ok" THEN [phase EXCEPT ![c] = "stopped"] ELSE phase
    /\ due' = Owed(o)
    /\ last' = [ev |-> "Stop", out |-> o]
    /\ UNCHANGED <<cfg, info, servable, calib, closed>>

\* the connection to the runtime is lost: the handler returns or ends the process; nothing follows
Close(o) ==
    /\ CanClose /\ o \in Outcomes
    /\ closed' = TRUE
    /\ last' = [ev |-> "Close", out |-> o]
    /\ UNCHANGED <<cfg, phase, info, servable, calib, due>>

\* a benign request: t = "-" container without annotations, t = k container of class k (served at calibration)
Probe(t, o) ==
    /\ CanProbe(t) /\ o \in Outcomes
    /\ due' = due \ {t}
    /\ last' = [ev |-> "Probe", out |-> o]
    /\ UNCHANGED <<cfg, phase, info, servable, calib, closed>>

CfgArgs == {<<k, S>> \in CfgKinds \X SUBSET Classes : k \in {"nocfg", "noclasses"} => S = {}}

Next ==
    \/ \E ks \in CfgArgs, o \in Allowed("Configure") : Configure(ks[1], ks[2], o)
    \/ \E k \in Classes, o \in Allowed("Calib") : Calib(k, o)
    \/ \E c \in Ctrs, a \in Anns, r \in ResKinds :
          \/ \E o \in Allowed("Create") : Create(c, a, r, o)
          \/ \E o \in Allowed("Start") : Start(c, a, r, o)
          \/ \E o \in Allowed("Stop") : Stop(c, a, r, o)
    \/ \E o \in Allowed("Close") : Close(o)
    \/ \E t \in {"-"} \cup Classes, o \in Allowed("Probe") : Probe(t, o)

Spec == Init /\ [][Next]_vars

-----------------------------------------------------------------------------
(* what the design guarantees (checked exhaustively by TLC on small constants) *)

\* probes are owed only after a refused request and until all of them have been answered
Inv_DueAfterRefusal  == due # {} => (last.out = "refused" \/ last.ev = "Probe")
Inv_DueWithinProbes  == due \subseteq ProbeSet
Inv_RefusalOwesProbe == (last.out = "refused" /\ last.ev \notin {"Calib", "Probe", "Close"}) => "-" \in due
Inv_CalibAfterConfigure == calib # {} => (last.ev \in {"Configure", "Calib"} /\ due = {})
Inv_ClosedQuiet      == closed => (due = {} /\ calib = {})
Inv_HandlersExist    == /\ (~HasConfigure => (~cfg.set /\ servable = {} /\ calib = {}))
                        /\ (~HasStart => \A c \in Ctrs : phase[c] \in {"unknown", "created"})
                        /\ (~HasClose => ~closed)
\* a refused request changes nothing (the bookkeeping of what the runtime said aside)
Act_RefusedIsNoop == [][(last'.out = "refused" /\ last'.ev # "Calib") =>
                            /\ cfg'.set = cfg.set /\ cfg'.classes = cfg.classes
                            /\ phase' = phase /\ servable' = servable]_vars
\* ... and the probes that follow it are served
Act_ProbeServed   == [][last'.ev = "Probe" => last'.out = "ok"]_vars
Act_ClosedIsFinal == [][~closed]_vars
=============================================================================
