SPECIFICATION Spec
CONSTANTS
  Pods = {"p1"}
  Ctrs = {"c1", "c2"}
  PodOf <- MCPodOf
  Fields = {"cpus"}
  Vals = {1}
  MaxWrites = 1
  SyncStates = {"running", "stopped"}
  StrictPolicy = TRUE
  WithEvents = TRUE
  FlushOnError = TRUE
  ConsistentEnv = TRUE
INVARIANTS TypeOK Inv_RuntimeEqualsCache Inv_NothingPending Inv_AdjDescribesCreated Inv_FailedRequestFlushes
