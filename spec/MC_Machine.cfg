SPECIFICATION Spec
CONSTANTS
  MaxDropped = 8
INVARIANTS
  Inv_Machines
  Inv_Domain
  Inv_Faithful
  Inv_ModelTree
  Inv_FaultsFlagged
  Inv_TreeFaultsFlagged
  Inv_Shapes
CHECK_DEADLOCK FALSE
