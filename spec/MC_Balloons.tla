---------------------------- MODULE MC_Balloons ----------------------------
EXTENDS Balloons
\* 6 CPUs in two packages; three balloon types
MCCpus  == 0 .. 5
MCPkgOf == [c \in MCCpus |-> c \div 3]
D(n, lo, hi, minb, maxb, sh) == [name |-> n, mincpus |-> lo, maxcpus |-> hi, minballoons |-> minb, maxballoons |-> maxb, shareidle |-> sh]
MCDefs  == {D("dyn", 0, 0, 0, 0, "package"), D("solo", 1, 2, 0, 2, "system"), D("pre", 1, 3, 1, 0, "")}
CONSTANTS c1, c2, c3
MCCtrs == {c1, c2, c3}
Symm == Permutations(MCCtrs)
=============================================================================
