---------------------------- MODULE MC_Balloons ----------------------------
EXTENDS Balloons
\* 6 CPUs in two packages; three balloon types
MCCpus  == 0 .. 5
\* packages {0..3} and {4,5}; hyperthread pairs {0,1} {2,3} {4,5}
MCPkgOf == [c \in MCCpus |-> IF c < 4 THEN 0 ELSE 1]
MCCoreOf == [c \in MCCpus |-> c \div 2]
D(n, lo, hi, minb, maxb, sh, hh) == [name |-> n, mincpus |-> lo, maxcpus |-> hi, minballoons |-> minb, maxballoons |-> maxb, shareidle |-> sh, hideht |-> hh]
MCDefs  == {D("dyn", 0, 0, 0, 0, "package", FALSE), D("solo", 1, 2, 0, 2, "system", TRUE), D("pre", 1, 3, 1, 0, "", FALSE)}
CONSTANTS c1, c2, c3
MCCtrs == {c1, c2, c3}
Symm == Permutations(MCCtrs)
=============================================================================
