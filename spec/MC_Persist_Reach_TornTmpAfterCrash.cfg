SPECIFICATION Spec
CONSTANTS
  Chunks = 2
  MaxVer = 4
  Deviation = "none"
INVARIANTS Reach_TornTmpAfterCrash
PROPERTIES Act_ReloadEqualsLastSave
CHECK_DEADLOCK FALSE
