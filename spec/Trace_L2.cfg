SPECIFICATION TraceSpec
CONSTANTS
  Pods = {}
  Ctrs = {}
  PodOf = 0
  Fields = {"cpus", "mems", "shares", "quota", "period", "memlim", "swap"}
  Vals = {}
  MaxWrites = 0
  SyncStates = {}
  StrictPolicy = TRUE
  WithEvents = TRUE
  FlushOnError = TRUE
  ConsistentEnv = TRUE
CHECK_DEADLOCK FALSE
