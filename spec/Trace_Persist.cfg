SPECIFICATION TraceSpec
POSTCONDITION PostCovered
CHECK_DEADLOCK FALSE
