SPECIFICATION Spec
CONSTANTS
  Pool <- MCPool
  Parent <- MCParent
  Shar0 <- MCShar0
  Rsv0 <- MCRsv0
  Isol0 <- MCIsol0
  Classes <- MCClassesQ
  c1 = c1
  c2 = c2
  c3 = c3
  Ctr = {c1, c2, c3}
  StrictReserve = FALSE
SYMMETRY Symm
INVARIANTS Inv_ReinstateAlways
