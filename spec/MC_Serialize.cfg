\* Part 1 (safety and deadlock freedom; termination: MC_SerializeLive.cfg): the lock protocol of the request handlers as
\* they are today (since /repo commit 06edfe4 every handler takes the lock before it touches the cache or the policy);
\* 3 concurrent requests of every handler kind.
\* NoLockKinds / PreAccessKinds describe deviations of the code from that rule (none today); UnlockedKinds names the
\* deviations Inv_MutexLocking excuses (none today: Inv_MutexLocking = Inv_Mutex).
\* engines/serialize.py re-runs this configuration
\*   - with the handlers as they were before 06edfe4 (NoLockKinds <- OldNoLockKinds, PreAccessKinds <- OldPreAccessKinds of
\*     MC_Serialize.tla, all together and one kind at a time): TLC must report Inv_MutexLocking violated;
\*   - with one kind removed from UnlockedKinds at a time (nothing to do while it is empty);
\*   - with the seeded-mutation leads (RLockKinds, TwiceKinds).
SPECIFICATION SpecLock
CONSTANTS
  Procs <- MCProcs
  Kinds <- MCKinds
  Readers <- MCReaders
  p1 = p1
  p2 = p2
  p3 = p3
  r1 = r1
  r2 = r2
  NoLockKinds = {}
  PreAccessKinds = {}
  RLockKinds = {}
  TwiceKinds = {}
  UnlockedKinds = {}
  OldOrder = FALSE
SYMMETRY Symm
INVARIANTS TypeOKLock Inv_AtMostOne Inv_MutexLocking Inv_EventView Inv_SeqView
CHECK_DEADLOCK TRUE
