\* Part 1 (safety and deadlock freedom; termination: MC_SerializeLive.cfg): the lock protocol of the request handlers as they are today; 3 concurrent requests of every handler kind.
\* NoLockKinds / PreAccessKinds describe the code (pkg/resmgr/nri.go); UnlockedKinds names the deviations that
\* Inv_MutexLocking excuses.  engines/serialize.py re-runs this configuration with one kind removed from UnlockedKinds at a
\* time (TLC must then report Inv_MutexLocking violated) and with the seeded-mutation leads (RLockKinds, TwiceKinds).
SPECIFICATION SpecLock
CONSTANTS
  Procs <- MCProcs
  Kinds <- MCKinds
  Readers <- MCReaders
  p1 = p1
  p2 = p2
  p3 = p3
  r1 = r1
  r2 = r2
  NoLockKinds = {"StopPodSandbox", "Synchronize"}
  PreAccessKinds = {"RemovePodSandbox"}
  RLockKinds = {}
  TwiceKinds = {}
  UnlockedKinds = {"StopPodSandbox", "Synchronize", "RemovePodSandbox"}
  OldOrder = FALSE
SYMMETRY Symm
INVARIANTS TypeOKLock Inv_AtMostOne Inv_MutexLocking Inv_EventView Inv_SeqView
CHECK_DEADLOCK TRUE
