------------------------------ MODULE MC_Agent ------------------------------
(* Exhaustive design check of Agent and dump of its complete state graph.            *)
(* The notify log grows without bound, but every property and every step depends on   *)
(* it only through its last element: VIEW MCView makes the reachable graph finite.    *)
(* With Dump = TRUE every edge is printed once as                                     *)
(*    "EDGE <<node, group, current, last, rnode, rgroup, event, node', ... rgroup'>>"  *)
(* (indices into CfgTable / EvTable, which are printed first as JSON); the engine     *)
(* turns the graph into a transition tour that is replayed on the real agent.         *)
EXTENDS Agent, Json, SequencesExt

CONSTANT Dump

MCUids == {"a", "b"}
MCGens == {0, 1, 2}
\* thorough tier: a second, larger design check (no dump)
MCUidsBig == {"a", "b", "c"}
MCGensBig == {0, 1, 2, 3}

CfgTable == SetToSeq(Configs("node") \cup Configs("group") \cup {None})
EvTable  == SetToSeq(Events)
CfgIdx(c) == CHOOSE i \in DOMAIN CfgTable : CfgTable[i] = c
EvIdx(e)  == CHOOSE i \in DOMAIN EvTable : EvTable[i] = e

MCView == <<nodeCfg, groupCfg, current, LastOf(delivered), rcvNode, rcvGroup>>

StateCode == <<CfgIdx(nodeCfg), CfgIdx(groupCfg), CfgIdx(current), CfgIdx(LastOf(delivered)),
               CfgIdx(rcvNode), CfgIdx(rcvGroup)>>

MCInit == Init /\ (Dump => /\ PrintT("CFGTABLE " \o ToJson(CfgTable))
                           /\ PrintT("EVTABLE " \o ToJson(EvTable)))

MCNext == \E e \in Events :
            /\ Step(e)
            /\ (Dump => PrintT("EDGE " \o ToString(StateCode \o <<EvIdx(e)>> \o StateCode')))

MCSpec == MCInit /\ [][MCNext]_vars

Prop_GroupNeverOverridesNode == [][Act_GroupNeverOverridesNode]_vars
Prop_DeleteFallsBack         == [][Act_DeleteFallsBack]_vars
Prop_NoRedelivery            == [][Act_NoRedelivery]_vars
Prop_InvalidNeverDelivered   == [][Act_InvalidNeverDelivered]_vars
Prop_LogGrows                == [][Act_LogGrows]_vars
=============================================================================
