SPECIFICATION Spec
CONSTANTS
  Cpus <- MCCpus
  Configs <- MCConfigs
  Boot <- CfgA
  Ctrs = {"c1", "c2", "c3"}
  TypeOf <- MCTypeOf
  Req <- MCReq
  Deviation = "none"
INVARIANTS Goal_BalloonlessAlive
