SPECIFICATION Spec
CONSTANTS
  Cpus <- MCCpus
  Configs <- MCConfigs
  Boot <- CfgA
  Ctrs = {"c1", "c2", "c3"}
  TypeOf <- MCTypeOf
  Req <- MCReq
  Deviation = "leak_balloonless"
INVARIANTS TypeOK Inv_StoppedHoldsNothing Inv_NoDeadMember Inv_Quiescent Inv_AtMostOneBalloon
PROPERTIES Act_ExitedNotReadmitted
