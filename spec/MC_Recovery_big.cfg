SPECIFICATION Spec
CONSTANTS
  Ctrs = {"c1", "c2", "c3"}
  MaxVer = 3
  Deviation = "none"
INVARIANTS TypeOK Inv_ExactlyLiveHold Inv_UnknownPurged Inv_RuntimeEqualsCache Inv_StateAgrees
