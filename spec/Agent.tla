------------------------------- MODULE Agent -------------------------------
(***************************************************************************)
(* Configuration precedence of the agent (pkg/agent/agent.go) -- C17.      *)
(*                                                                         *)
(* Two independent watches deliver events to the agent: the node-specific  *)
(* config resource ("node") and the group-specific/default one ("group").  *)
(* The agent remembers the last object of each (nodeCfg, groupCfg), the    *)
(* config it considers in effect (current) and hands configurations to the *)
(* plugin through the notify callback (delivered = log of those calls).    *)
(*                                                                         *)
(* Two kinds of content, kept apart (DESIGN 1.2):                          *)
(*  * MECHANISM: Post(e)/Step(e) transcribe agent.go (select loop of Start,*)
(*    updateNodeConfig, updateGroupConfig, sameConfigVersion, updateConfig)*)
(*    including its quirks: generation 0 (config from a file) is never     *)
(*    "the same version"; a config failing validation becomes `current`    *)
(*    without being notified; a (non-fatal) notify error changes nothing.  *)
(*    The module is deterministic, so Step is verdict-bearing in the trace *)
(*    spec (a recorded step that is not Step(e) is a violation "Next").    *)
(*  * PROPERTY: Inv_... / Act_... transcribe the statement of C17.  They   *)
(*    mention only what is observable: the events received (ghost variables*)
(*    rcvNode/rcvGroup = the object each watch showed last, None when it   *)
(*    was deleted or never seen) and the notify log -- never the agent's   *)
(*    own nodeCfg/groupCfg/current.                                        *)
(***************************************************************************)
EXTENDS Integers, Sequences, FiniteSets, TLC

CONSTANTS Uids,     \* resource UIDs the environment may use (per watch)
          Gens      \* metadata.generation values (0 = object read from a file)

\* "no object"; a record so that field access is always defined
None == [kind |-> "none", uid |-> "-", gen |-> 0 - 1, valid |-> FALSE]
Cfg(k, u, g, v) == [kind |-> k, uid |-> u, gen |-> g, valid |-> v]

Watches  == {"node", "group"}
PutTypes == {"Added", "Modified"}
EvTypes  == PutTypes \cup {"Deleted", "Bookmark", "Error"}
Configs(k) == {Cfg(k, u, g, v) : u \in Uids, g \in Gens, v \in BOOLEAN}

\* An event: watch s, watch.EventType typ, the object it carries (None for the types without a
\* config object; the object of a Deleted event is ignored by the code), and whether the plugin's
\* notify callback answers with a (non-fatal) error should it be called during this event.
Events == [s : {"node"}, typ : PutTypes, o : Configs("node"), nerr : BOOLEAN]
          \cup [s : {"group"}, typ : PutTypes, o : Configs("group"), nerr : BOOLEAN]
          \cup [s : Watches, typ : {"Deleted", "Bookmark", "Error"}, o : {None}, nerr : BOOLEAN]

VARIABLES nodeCfg,    \* Agent.nodeCfg
          groupCfg,   \* Agent.groupCfg
          current,    \* Agent.currentCfg
          delivered,  \* sequence of configs passed to notifyFn, oldest first
          rcvNode,    \* ghost: the node-specific resource as the watch showed it last (None = does not exist)
          rcvGroup,   \* ghost: the group/default resource as the watch showed it last
          ev          \* ghost: the event handled by the last step

avars == <<nodeCfg, groupCfg, current, delivered>>
vars  == <<nodeCfg, groupCfg, current, delivered, rcvNode, rcvGroup, ev>>

NoEvent == [s |-> "none", typ |-> "none", o |-> None, nerr |-> FALSE]

TypeOK ==
    /\ nodeCfg \in Configs("node") \cup {None} /\ rcvNode \in Configs("node") \cup {None}
    /\ groupCfg \in Configs("group") \cup {None} /\ rcvGroup \in Configs("group") \cup {None}
    /\ current \in Configs("node") \cup Configs("group") \cup {None}
    /\ \A i \in DOMAIN delivered : delivered[i] \in Configs("node") \cup Configs("group")
    /\ ev \in Events \cup {NoEvent}

Init ==
    /\ nodeCfg = None /\ groupCfg = None /\ current = None /\ delivered = <<>>
    /\ rcvNode = None /\ rcvGroup = None /\ ev = NoEvent

-----------------------------------------------------------------------------
(* MECHANISM -- agent.go *)

\* sameConfigVersion (agent.go:669): UID and generation agree and the generation is not 0
SameConfigVersion(c1, c2) ==
    IF c1 = None /\ c2 = None THEN TRUE
    ELSE IF c1 = None \/ c2 = None THEN FALSE
    ELSE c1.uid = c2.uid /\ c1.gen = c2.gen /\ c1.gen # 0

\* updateConfig (agent.go:597): nil -> nothing; validation failure -> current only, no notify;
\* otherwise notify, then current (also when notify reports a non-fatal error).
\* Result: [cur, new] = the new currentCfg and the configs notified.
UpdateConfig(cfg, cur) ==
    IF cfg = None THEN [cur |-> cur, new |-> <<>>]
    ELSE IF ~cfg.valid THEN [cur |-> cfg, new |-> <<>>]
    ELSE [cur |-> cfg, new |-> <<cfg>>]

\* updateNodeConfig (agent.go:519), o = None for a deletion
NodeUpdate(o) ==
    IF SameConfigVersion(o, nodeCfg)
    THEN [node |-> nodeCfg, group |-> groupCfg, cur |-> current, new |-> <<>>]
    ELSE LET u == UpdateConfig(IF o = None THEN groupCfg ELSE o, current)
         IN [node |-> o, group |-> groupCfg, cur |-> u.cur, new |-> u.new]

\* updateGroupConfig (agent.go:558)
GroupUpdate(o) ==
    IF SameConfigVersion(o, groupCfg)
    THEN [node |-> nodeCfg, group |-> groupCfg, cur |-> current, new |-> <<>>]
    ELSE IF nodeCfg # None
         THEN [node |-> nodeCfg, group |-> o, cur |-> current, new |-> <<>>]
         ELSE LET u == UpdateConfig(o, current)
              IN [node |-> nodeCfg, group |-> o, cur |-> u.cur, new |-> u.new]

\* the select loop of Start (agent.go:232-253): Added/Modified -> update(obj), Deleted -> update(nil),
\* everything else is ignored
Post(e) ==
    IF e.typ \in PutTypes THEN (IF e.s = "node" THEN NodeUpdate(e.o) ELSE GroupUpdate(e.o))
    ELSE IF e.typ = "Deleted" THEN (IF e.s = "node" THEN NodeUpdate(None) ELSE GroupUpdate(None))
    ELSE [node |-> nodeCfg, group |-> groupCfg, cur |-> current, new |-> <<>>]

-----------------------------------------------------------------------------
(* ENVIRONMENT *)

Rcv(s) == IF s = "node" THEN rcvNode ELSE rcvGroup

\* The object a watch shows after event e
RcvAfter(e, old) == IF e.typ \in PutTypes THEN e.o ELSE IF e.typ = "Deleted" THEN None ELSE old

\* The one assumption about the API server: metadata.generation (when not 0) changes whenever the
\* spec of a resource changes, so an event that repeats the UID and generation of the object the
\* same watch showed last carries the same content, hence the same validation outcome.
EnvOK(e) ==
    e.typ \in PutTypes =>
        LET r == Rcv(e.s) IN
        ~(r # None /\ r.uid = e.o.uid /\ r.gen = e.o.gen /\ e.o.gen # 0 /\ r.valid # e.o.valid)

Step(e) ==
    /\ EnvOK(e)
    /\ LET p == Post(e) IN
         /\ nodeCfg' = p.node /\ groupCfg' = p.group /\ current' = p.cur
         /\ delivered' = delivered \o p.new
    /\ rcvNode'  = IF e.s = "node"  THEN RcvAfter(e, rcvNode)  ELSE rcvNode
    /\ rcvGroup' = IF e.s = "group" THEN RcvAfter(e, rcvGroup) ELSE rcvGroup
    /\ ev' = e

Next == \E e \in Events : Step(e)
Spec == Init /\ [][Next]_vars

-----------------------------------------------------------------------------
(* PROPERTY -- the statement of C17, over events received and the notify log only *)

LastOf(s) == IF s = <<>> THEN None ELSE s[Len(s)]

\* the configurations handed to the plugin during the step
NewIdx == (Len(delivered) + 1) .. Len(delivered')

\* "the node-specific custom resource if one currently exists, and otherwise the most recently
\*  received group-specific (or default) one"
Effective(n, g) == IF n # None THEN n ELSE g
Eff == Effective(rcvNode, rcvGroup)

\* "At every moment the configuration most recently delivered to the plugin is [the effective one]".
\* A configuration failing validation is never handed over, so the claim is made for valid ones.
Inv_LastDeliveredIsEffective ==
    (Eff # None /\ Eff.valid) => LastOf(delivered) = Eff

\* "a group or default update never replaces an existing node-specific configuration":
\* no step after which a node-specific resource exists hands a group/default config to the plugin.
Act_GroupNeverOverridesNode ==
    rcvNode' # None => \A i \in NewIdx : delivered'[i].kind # "group"

\* "deleting the node-specific one falls back to the current group configuration"
Act_DeleteFallsBack ==
    (ev'.s = "node" /\ ev'.typ = "Deleted" /\ rcvNode # None /\ rcvGroup # None /\ rcvGroup.valid)
        => LastOf(delivered') = rcvGroup

\* "Re-delivery of an already applied resource version causes no re-configuration":
\* re-delivery = the event repeats the UID and generation (not 0: an object from a file has no version)
\* of the object the same watch showed last; already applied = that version is what the plugin was
\* handed last.  Then the event causes no notification.
SameVersion(c, d) == c # None /\ d # None /\ c.kind = d.kind /\ c.uid = d.uid /\ c.gen = d.gen
Act_NoRedelivery ==
    (ev'.typ \in PutTypes /\ ev'.o.gen # 0
     /\ SameVersion(Rcv(ev'.s), ev'.o) /\ SameVersion(LastOf(delivered), ev'.o))
        => delivered' = delivered

\* "a configuration failing validation is never handed to the plugin"
Act_InvalidNeverDelivered == \A i \in NewIdx : delivered'[i].valid

\* the notify log only grows
Act_LogGrows == Len(delivered') >= Len(delivered) /\ SubSeq(delivered', 1, Len(delivered)) = delivered

-----------------------------------------------------------------------------
(* Facts about the mechanism (design check only) *)

\* under EnvOK the agent's memory of the two resources is what the watches showed last
Inv_MemoryIsReceived == nodeCfg = rcvNode /\ groupCfg = rcvGroup
\* current is the last config given to updateConfig: the node one while it exists
Inv_CurrentShape == /\ nodeCfg # None => current = nodeCfg
                    /\ (nodeCfg = None /\ groupCfg # None) => current = groupCfg
=============================================================================
