---------------------------- MODULE SerializeOps ----------------------------
(***************************************************************************)
(* The event view of C15: predicates over the events of requests, shared   *)
(* by the design spec (Serialize.tla, where Inv_EventView shows that what  *)
(* is derived from a request's own events agrees with the real owner of    *)
(* the lock) and by the trace spec (Trace_Serialize.tla, where the events  *)
(* are those recorded from the real resource manager).                     *)
(* An event is a record with at least a field e: "acc" (an access to the   *)
(* cache or the policy), "lock" (recorded right after the lock was         *)
(* acquired), "unlock" (recorded right before it is released).             *)
(***************************************************************************)
EXTENDS Naturals, Sequences, FiniteSets

Count(evs, e, i) == Cardinality({j \in 1..(i - 1) : evs[j].e = e})
\* the request holds the lock when it makes its i-th event
HeldAt(evs, i)   == Count(evs, "lock", i) > Count(evs, "unlock", i)
\* Inv_Mutex, per request: the accesses it made without holding the lock
UnlockedAccesses(evs) == {i \in DOMAIN evs : evs[i].e = "acc" /\ ~HeldAt(evs, i)}
\* Inv_AtMostOne: the lock/unlock events of all requests, in the order of the sequence numbers written under the lock,
\* alternate and pair up (open = the last lock may still be held: a request that never returned)
AlternatesOK(byseq, open) ==
    \A i \in DOMAIN byseq :
        IF i % 2 = 1 THEN byseq[i].e = "lock" /\ (i + 1 \in DOMAIN byseq \/ open)
                     ELSE byseq[i].e = "unlock" /\ byseq[i].q = byseq[i - 1].q
=============================================================================
