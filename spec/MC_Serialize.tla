---------------------------- MODULE MC_Serialize ----------------------------
EXTENDS Serialize

CONSTANTS p1, p2, p3, r1, r2
MCProcs   == {p1, p2, p3}
MCReaders == {r1, r2}
MCKinds   == {"RunPodSandbox", "StopPodSandbox", "RemovePodSandbox", "CreateContainer", "StartContainer", "UpdateContainer",
              "StopContainer", "RemoveContainer", "Synchronize", "Reconfigure"}
MCKindsLive == {"CreateContainer", "Reconfigure", "StopPodSandbox", "RemovePodSandbox", "Synchronize"}
\* named deviation: the handlers as they were before /repo commit 06edfe4 (finding F-C15-1) -- StopPodSandbox and
\* Synchronize took no lock at all, RemovePodSandbox looked up the cache and ran hooks before taking it
OldNoLockKinds    == {"StopPodSandbox", "Synchronize"}
OldPreAccessKinds == {"RemovePodSandbox"}
Symm      == Permutations(MCProcs) \cup Permutations(MCReaders)
\* the log is a function of (kind, pc, held flags): leave it out of the fingerprint only where it is redundant -- it is not
\* (the held flag of an access made before the lock depends on the schedule), so no VIEW is used.
=============================================================================
