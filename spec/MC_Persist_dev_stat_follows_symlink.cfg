SPECIFICATION Spec
CONSTANTS
  Chunks = 2
  MaxVer = 4
  Deviation = "stat_follows_symlink"
INVARIANTS Inv_RefuseUnsafePath
PROPERTIES Act_ReloadEqualsLastSave
CHECK_DEADLOCK FALSE
