------------------------------ MODULE TAPreds ------------------------------
(***************************************************************************)
(* Topology-aware policy, part 1: the property predicates of C01 / C03     *)
(* over a SNAPSHOT of the policy (pools, grants) and the runtime's view of *)
(* the containers.  No variables: used by the design spec TopologyAware    *)
(* on its own state and by the trace spec on snapshots of the real policy. *)
(***************************************************************************)
EXTENDS Integers, FiniteSets, Sequences, TLC, FiniteSetsExt

-----------------------------------------------------------------------------
(* Part 1: predicates over snapshots.                                        *)
(*   P : pool name -> [parent, shar, rsv, isol, fshar, frsv, fisol, gshar, grsv]   ("" = no parent)   *)
(*   G : container -> [pool, excl, isol, ctype, portion]                                     *)
(*   T : container -> set of CPUs the runtime has been told (live containers that were told a cpuset)  *)

RECURSIVE AncOf(_, _)
AncOf(P, p) == IF P[p].parent = "" \/ P[p].parent \notin DOMAIN P THEN {} ELSE {P[p].parent} \cup AncOf(P, P[p].parent)
DescOf(P, p) == {q \in DOMAIN P : p \in AncOf(P, q)}
SubOf(P, p)  == {p} \cup DescOf(P, p)
RelOf(P, p)  == SubOf(P, p) \cup AncOf(P, p)

Sum(f(_), S) == MapThenSumSet(f, S)

\* shared / reserved capacity promised to the containers of pool p and its descendants
PromisedShared(P, G, p) ==
    Sum(LAMBDA c : G[c].portion, {c \in DOMAIN G : G[c].pool \in SubOf(P, p) /\ G[c].ctype = "normal"})
PromisedReserved(P, G, p) ==
    Sum(LAMBDA c : G[c].portion, {c \in DOMAIN G : G[c].pool \in SubOf(P, p) /\ G[c].ctype = "reserved"})

\* ---- C01 ----
\* exclusive sets are pairwise disjoint
Bad_ExclDisjoint(G) == {<<c, d>> \in (DOMAIN G) \X (DOMAIN G) : c # d /\ G[c].excl \cap G[d].excl # {}}
\* exclusive CPUs occur in no other container's allowed set as told to the runtime
Bad_ExclInOthersTold(G, T) == {<<c, d>> \in (DOMAIN G) \X (DOMAIN T) : c # d /\ G[c].excl \cap T[d] # {}}
\* exclusive CPUs occur in no pool's shared set
Bad_ExclInPoolShared(P, G) == {<<c, p>> \in (DOMAIN G) \X (DOMAIN P) : G[c].excl \cap P[p].fshar # {}}
\* every CPU a container is pinned to lies inside the configured available CPUs
Bad_ToldOutsideAllowed(T, allowed) == {c \in DOMAIN T : ~(T[c] \subseteq allowed)}
\* reserved CPUs only for reserved-class containers, never mixed with others   (RC: set of reserved-class containers)
Bad_ReservedMisuse(T, reserved, RC) ==
    {c \in DOMAIN T : T[c] \cap reserved # {} /\ ~(c \in RC /\ T[c] \subseteq reserved)}

\* ---- C03 ----
Bad_SharedCapacity(P, G)   == {p \in DOMAIN P : PromisedShared(P, G, p) > 1000 * Cardinality(P[p].fshar)}
Bad_ReservedCapacity(P, G) == {p \in DOMAIN P : PromisedReserved(P, G, p) > 1000 * Cardinality(P[p].frsv)}
\* isolated CPUs only when all of the exclusive CPUs are isolated
Bad_IsolatedAllOrNone(G) == {c \in DOMAIN G : G[c].isol # {} /\ G[c].isol # G[c].excl}
\* the same, with the kernel-isolated CPUs taken from the machine instead of from the grant's own classification
Bad_IsolatedAllOrNoneOf(G, iso) == {c \in DOMAIN G : G[c].excl \cap iso # {} /\ ~(G[c].excl \subseteq iso)}
\* kernel-isolated CPUs are never part of a pool's sharable set (they are only handed out as isolated exclusive CPUs)
Bad_SharedHasIsolated(P, iso) == {p \in DOMAIN P : P[p].fshar \cap iso # {}}
\* ... and nobody is told an isolated CPU except as (part of) its own isolated exclusive grant
Bad_ToldIsolated(G, T, iso) == {c \in DOMAIN T : (T[c] \cap iso) \ (IF c \in DOMAIN G THEN G[c].excl ELSE {}) # {}}
\* the ledgers of a pool agree with the grants made from it (internal bookkeeping; reported as drift)
Bad_Ledger(P, G) ==
    {p \in DOMAIN P : \/ P[p].gshar # Sum(LAMBDA c : G[c].portion, {c \in DOMAIN G : G[c].pool = p /\ G[c].ctype = "normal"})
                      \/ P[p].grsv # Sum(LAMBDA c : G[c].portion, {c \in DOMAIN G : G[c].pool = p /\ G[c].ctype = "reserved"})}

\* Eligibility (documented rules): number of exclusive CPUs a container must receive.
\*   k = [qos, req (mCPU), rsvclass, pshared \in {"true","false","unset"}, pcpu (cpu.preserve)], cfgShared: configured preferSharedCPUs
ExpectedExclusive(k, cfgShared) ==
    LET cores == k.req \div 1000
        frac  == k.req % 1000
        preferShared == IF k.pshared = "true" THEN TRUE ELSE IF k.pshared = "false" THEN FALSE ELSE cfgShared
    IN IF k.pcpu \/ k.rsvclass \/ k.qos # "Guaranteed" \/ cores = 0 THEN 0
       ELSE IF cores < 2 THEN (IF preferShared THEN 0 ELSE cores)
       ELSE IF frac > 0 THEN (IF k.pshared = "false" THEN cores ELSE 0)
       ELSE (IF preferShared THEN 0 ELSE cores)

\* kubelet's encoding of CPU capacity as cpu.shares
MilliCPUToShares(m) == IF m = 0 THEN 2 ELSE LET s == (m * 1024) \div 1000 IN IF s < 2 THEN 2 ELSE IF s > 262144 THEN 262144 ELSE s
GrantCapacity(g) == IF g.portion > 0 THEN g.portion ELSE 1000 * Cardinality(g.excl)

=============================================================================
