SPECIFICATION TraceSpec
CONSTANTS
  Uids = {}
  Gens = {}
CHECK_DEADLOCK FALSE
