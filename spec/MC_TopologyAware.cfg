SPECIFICATION Spec
CONSTANTS
  Pool <- MCPool
  Parent <- MCParent
  Shar0 <- MCShar0
  Rsv0 <- MCRsv0
  Isol0 <- MCIsol0
  Classes <- MCClasses
  c1 = c1
  c2 = c2
  c3 = c3
  Ctr = {c1, c2, c3}
  StrictReserve = FALSE
SYMMETRY Symm
INVARIANTS TypeOK Inv_ExclDisjoint Inv_ExclInPoolShared Inv_ExclInOthersTold Inv_ToldWithinAllowed Inv_ReservedMisuse Inv_SharedCapacity Inv_ReservedCapacity Inv_IsolatedAllOrNone Inv_SharedHasNoIsolated Inv_IsolatedOnlyByGrant Inv_Ledger Inv_Quiescent Inv_LiveHoldsGrant Inv_GrantsAreLive Inv_ReinstateAnyOrder
