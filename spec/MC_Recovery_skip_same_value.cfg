SPECIFICATION Spec
CONSTANTS
  Ctrs = {"c1", "c2"}
  MaxVer = 4
  Deviation = "skip_same_value"
INVARIANTS TypeOK Inv_ExactlyLiveHold Inv_UnknownPurged Inv_RuntimeEqualsCache Inv_StateAgrees
