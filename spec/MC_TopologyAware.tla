------------------------- MODULE MC_TopologyAware -------------------------
EXTENDS TopologyAware
\* T1: one socket (root) with two NUMA pools; CPU 0 reserved, CPU 7 kernel-isolated
MCPool   == {"root", "n0", "n1"}
MCParent == [p \in MCPool |-> IF p = "root" THEN "" ELSE "root"]
MCShar0  == [p \in MCPool |-> CASE p = "root" -> {1, 2, 3, 4, 5, 6} [] p = "n0" -> {1, 2, 3} [] p = "n1" -> {4, 5, 6}]
MCRsv0   == [p \in MCPool |-> CASE p = "root" -> {0} [] p = "n0" -> {0} [] p = "n1" -> {}]
MCIsol0  == [p \in MCPool |-> CASE p = "root" -> {7} [] p = "n0" -> {} [] p = "n1" -> {7}]
K(f, fr, i, t) == [full |-> f, fraction |-> fr, isolate |-> i, ctype |-> t]
MCClasses == {K(0, 0, FALSE, "normal"), K(0, 500, FALSE, "normal"), K(0, 1500, FALSE, "normal"), K(1, 0, TRUE, "normal"),
              K(1, 500, FALSE, "normal"), K(2, 0, FALSE, "normal"), K(0, 200, FALSE, "reserved"), K(0, 1200, FALSE, "reserved"),
              K(0, 700, FALSE, "preserve")}
\* quick tier: six of the nine classes
MCClassesQ == {K(0, 0, FALSE, "normal"), K(0, 500, FALSE, "normal"), K(1, 0, TRUE, "normal"), K(1, 500, FALSE, "normal"),
               K(0, 1200, FALSE, "reserved"), K(0, 700, FALSE, "preserve")}
CONSTANTS c1, c2, c3
Symm == Permutations({c1, c2, c3})
=============================================================================
