SPECIFICATION TraceSpec
CONSTANTS
  CPUs = {}
CHECK_DEADLOCK FALSE
