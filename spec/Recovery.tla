------------------------------ MODULE Recovery ------------------------------
(***************************************************************************)
(* Restart + Synchronize (property C11), as a design.                      *)
(*                                                                         *)
(* Pipeline.tla has Synchronize as one request among others on an          *)
(* in-memory cache.  This module adds what makes recovery hard: the cache  *)
(* is PERSISTED only at some points of some requests (cache.Save() is      *)
(* called by InsertPod/InsertContainer/DeleteContainer/DeletePod and by    *)
(* the topology-aware policy after an allocation, NOT by state changes,    *)
(* releases or re-pinning), the plugin can die at any point, the runtime   *)
(* keeps going while the plugin is down (NRI carries on without a plugin   *)
(* whose connection broke: a container being created comes up unadjusted), *)
(* and the restarted plugin sees a STALE cache plus the runtime's lists.   *)
(*                                                                         *)
(* State is per container (pods add nothing here):                         *)
(*   rt[c]    the runtime's truth: "absent" | "created" | "running" | "stopped" *)
(*   rtres[c] what the runtime has the container pinned to (0 = untouched) *)
(*   mem[c]   the plugin's in-memory cache record, NoRec if none           *)
(*   disk[c]  the persisted record                                         *)
(*   alloc    containers holding an allocation in the policy               *)
(*   up, pc   plugin alive; the request in progress and its next step      *)
(* Resources are version numbers: every allocation decision is a fresh one.*)
(*                                                                         *)
(* C11: after a successful Synchronize exactly the containers the runtime  *)
(* reports created/running hold allocations, everything else is purged,    *)
(* and the returned updates bring the runtime's view in line with the      *)
(* cache (Inv_AfterSync, checked in the state right after the reply).      *)
(*                                                                         *)
(* Deviations (TLC MUST find each; they are the defects found on the real  *)
(* code and the independently seeded changes for C11):                     *)
(*  "keep_cached_state"  F-C11-1 (fixed e483d53): RefreshContainers kept   *)
(*                       the cached state of containers it already knew    *)
(*  "skip_creating"      seeded C11-m1: cached containers still in state   *)
(*                       creating are not refreshed                        *)
(*  "skip_same_value"    seeded C11-m2: no update when the newly decided   *)
(*                       value equals the (stale) cached one               *)
(***************************************************************************)
EXTENDS Integers, FiniteSets, TLC

CONSTANTS Ctrs, MaxVer, Deviation

NoRec == [st |-> "none", res |-> 0]
Live(s) == s \in {"created", "running"}

VARIABLES rt, rtres, mem, disk, alloc, up, pc, ver, synced

vars == <<rt, rtres, mem, disk, alloc, up, pc, ver, synced>>

Idle == [op |-> "idle", c |-> "-", step |-> 0]

Init ==
    /\ rt = [c \in Ctrs |-> "absent"] /\ rtres = [c \in Ctrs |-> 0]
    /\ mem = [c \in Ctrs |-> NoRec] /\ disk = [c \in Ctrs |-> NoRec]
    /\ alloc = {} /\ up = TRUE /\ pc = Idle /\ ver = 0 /\ synced = TRUE

Ready == up /\ synced /\ pc.op = "idle"

\* ---- CreateContainer, step by step (the plugin holds its lock throughout; the only interleaving is a crash) ----
\* 1. InsertContainer(state creating) + Save
Create1(c) ==
    /\ Ready /\ rt[c] = "absent" /\ ver < MaxVer
    /\ mem' = [mem EXCEPT ![c] = [st |-> "creating", res |-> 0]]
    /\ disk' = mem'
    /\ pc' = [op |-> "create", c |-> c, step |-> 2]
    /\ UNCHANGED <<rt, rtres, alloc, up, ver, synced>>
\* 2. the policy allocates (topology-aware saves its allocations: Save again)
Create2 ==
    /\ up /\ pc.op = "create" /\ pc.step = 2
    /\ ver' = ver + 1
    /\ mem' = [mem EXCEPT ![pc.c].res = ver']
    /\ alloc' = alloc \cup {pc.c}
    /\ disk' \in {disk, mem'}                                   \* balloons does not save here, topology-aware does
    /\ pc' = [pc EXCEPT !.step = 3]
    /\ UNCHANGED <<rt, rtres, up, synced>>
\* 3. state created (no save), reply: the runtime creates the container with the adjustment
Create3 ==
    /\ up /\ pc.op = "create" /\ pc.step = 3
    /\ mem' = [mem EXCEPT ![pc.c].st = "created"]
    /\ rt' = [rt EXCEPT ![pc.c] = "created"] /\ rtres' = [rtres EXCEPT ![pc.c] = mem[pc.c].res]
    /\ pc' = Idle
    /\ UNCHANGED <<disk, alloc, up, ver, synced>>

Start(c) ==
    /\ Ready /\ rt[c] = "created" /\ mem[c].st = "created"
    /\ rt' = [rt EXCEPT ![c] = "running"] /\ mem' = [mem EXCEPT ![c].st = "running"]      \* UpdateState: not saved
    /\ UNCHANGED <<rtres, disk, alloc, up, pc, ver, synced>>

\* StopContainer: state exited, resources released; nothing is saved
Stop(c) ==
    /\ Ready /\ Live(rt[c])
    /\ rt' = [rt EXCEPT ![c] = "stopped"]
    /\ mem' = [mem EXCEPT ![c].st = IF mem[c].st = "none" THEN "none" ELSE "exited"]
    /\ alloc' = alloc \ {c}
    /\ UNCHANGED <<rtres, disk, up, pc, ver, synced>>

\* RemoveContainer: DeleteContainer + Save
Remove(c) ==
    /\ Ready /\ rt[c] = "stopped"
    /\ rt' = [rt EXCEPT ![c] = "absent"] /\ rtres' = [rtres EXCEPT ![c] = 0]
    /\ mem' = [mem EXCEPT ![c] = NoRec] /\ disk' = mem'
    /\ alloc' = alloc \ {c}
    /\ UNCHANGED <<up, pc, ver, synced>>

\* another container's request re-pins c (shared set change): new value told and cached, not saved
Repin(c) ==
    /\ Ready /\ c \in alloc /\ Live(rt[c]) /\ ver < MaxVer
    /\ ver' = ver + 1
    /\ mem' = [mem EXCEPT ![c].res = ver'] /\ rtres' = [rtres EXCEPT ![c] = ver']
    /\ UNCHANGED <<rt, disk, alloc, up, pc, synced>>

\* ---- the plugin dies; in the middle of a CreateContainer the runtime carries on without the adjustment ----
Crash ==
    /\ up
    /\ up' = FALSE /\ pc' = Idle /\ alloc' = {} /\ mem' = [c \in Ctrs |-> NoRec] /\ synced' = FALSE
    /\ IF pc.op = "create"
       THEN /\ rt' = [rt EXCEPT ![pc.c] = "created"] /\ rtres' = [rtres EXCEPT ![pc.c] = 0]
       ELSE UNCHANGED <<rt, rtres>>
    /\ UNCHANGED <<disk, ver>>

\* ---- the runtime while the plugin is down ----
DownCreate(c) == ~up /\ rt[c] = "absent" /\ rt' = [rt EXCEPT ![c] = "created"] /\ rtres' = [rtres EXCEPT ![c] = 0]
                 /\ UNCHANGED <<mem, disk, alloc, up, pc, ver, synced>>
DownStart(c)  == ~up /\ rt[c] = "created" /\ rt' = [rt EXCEPT ![c] = "running"] /\ UNCHANGED <<rtres, mem, disk, alloc, up, pc, ver, synced>>
DownStop(c)   == ~up /\ Live(rt[c]) /\ rt' = [rt EXCEPT ![c] = "stopped"] /\ UNCHANGED <<rtres, mem, disk, alloc, up, pc, ver, synced>>
DownRemove(c) == ~up /\ rt[c] = "stopped" /\ rt' = [rt EXCEPT ![c] = "absent"] /\ rtres' = [rtres EXCEPT ![c] = 0]
                 /\ UNCHANGED <<mem, disk, alloc, up, pc, ver, synced>>

\* ---- restart: the cache is what was saved last ----
Restart ==
    /\ ~up
    /\ up' = TRUE /\ mem' = disk /\ alloc' = {} /\ pc' = Idle
    /\ UNCHANGED <<rt, rtres, disk, ver, synced>>

\* ---- Synchronize: the runtime lists every container it has, with its state and current pinning ----
RefreshedState(c) ==
    LET listed == IF rt[c] = "stopped" THEN "exited" ELSE rt[c]
    IN IF mem[c].st = "none" THEN listed                                         \* unknown so far: inserted with the listed state
       ELSE IF Deviation = "keep_cached_state" THEN mem[c].st                    \* F-C11-1
       ELSE IF Deviation = "skip_creating" /\ mem[c].st = "creating" THEN "creating"
       ELSE listed

Sync ==
    /\ up /\ ~synced /\ pc.op = "idle"
    /\ LET listed == {c \in Ctrs : rt[c] # "absent"}
           st1    == [c \in Ctrs |-> IF c \in listed THEN RefreshedState(c) ELSE "none"]
           live1  == {c \in listed : Live(st1[c])}
           n      == Cardinality(live1)
       IN /\ ver + n <= MaxVer + Cardinality(Ctrs)               \* (versions are only labels: allow the last Sync to finish)
          /\ \E newres \in [live1 -> (ver + 1) .. (ver + n)] :
               /\ \A a, b \in live1 : a # b => newres[a] # newres[b]
               \* the policy may also decide the very value the stale cache holds
               /\ \E same \in SUBSET {c \in live1 : mem[c].res # 0} :
                    LET val(c) == IF c \in same THEN mem[c].res ELSE newres[c]
                        \* an update is generated for every live container ... unless the deviation skips "unchanged" ones
                        told(c) == ~(Deviation = "skip_same_value" /\ val(c) = mem[c].res)
                    IN /\ mem' = [c \in Ctrs |-> IF c \in live1 THEN [st |-> st1[c], res |-> val(c)]
                                                 ELSE IF c \in listed THEN [st |-> st1[c], res |-> mem[c].res] ELSE NoRec]
                       /\ rtres' = [c \in Ctrs |-> IF c \in live1 /\ Live(rt[c]) /\ told(c) THEN val(c) ELSE rtres[c]]
                       /\ alloc' = live1
                       /\ ver' = ver + n
    /\ disk' \in {disk, mem'}                                    \* purging and inserting save; refreshing a state does not
    /\ synced' = TRUE
    /\ UNCHANGED <<rt, up, pc>>

Next ==
    \/ \E c \in Ctrs : Create1(c) \/ Start(c) \/ Stop(c) \/ Remove(c) \/ Repin(c)
    \/ Create2 \/ Create3 \/ Crash \/ Restart \/ Sync
    \/ \E c \in Ctrs : DownCreate(c) \/ DownStart(c) \/ DownStop(c) \/ DownRemove(c)

Spec == Init /\ [][Next]_vars

-----------------------------------------------------------------------------
TypeOK ==
    /\ \A c \in Ctrs : rt[c] \in {"absent", "created", "running", "stopped"}
    /\ \A c \in Ctrs : mem[c].st \in {"none", "creating", "created", "running", "exited"}
    /\ alloc \subseteq Ctrs /\ ver \in 0 .. MaxVer + Cardinality(Ctrs)

\* C11, evaluated whenever the plugin is up, synchronized and between requests
Quiet == up /\ synced /\ pc.op = "idle"
Inv_ExactlyLiveHold    == Quiet => alloc = {c \in Ctrs : Live(rt[c])}
Inv_UnknownPurged      == Quiet => \A c \in Ctrs : rt[c] = "absent" => mem[c] = NoRec
Inv_RuntimeEqualsCache == Quiet => \A c \in Ctrs : Live(rt[c]) => rtres[c] = mem[c].res
Inv_StateAgrees        == Quiet => \A c \in Ctrs : Live(rt[c]) => mem[c].st = rt[c]
\* reachability goals (each must be violated = reached)
Goal_MidRequestCrash   == ~(~up /\ \E c \in Ctrs : disk[c].st = "creating" /\ rt[c] = "created")
Goal_StaleRunning      == ~(~up /\ \E c \in Ctrs : disk[c].st \in {"created", "creating"} /\ rt[c] = "stopped")
=============================================================================
