----------------------------- MODULE Annotations -----------------------------
(***************************************************************************)
(* C18 -- effective annotations.                                           *)
(*                                                                         *)
(* A pod carries a SET of annotation entries.  TLA+ strings are atomic, so *)
(* an entry is the structured form of an annotation key                    *)
(*                                                                         *)
(*     [key, scope, ctr, val, vp]                                          *)
(*                                                                         *)
(*   key    the setting that is annotated (e.g. "memory-type.resource-     *)
(*          policy.nri.io", "epc-limit.nri.io", "class", "memory.high")    *)
(*   scope  "container"  the entry addresses container `ctr` only          *)
(*          "pod"        the explicit pod-wide form                        *)
(*          "bare"       the key alone                                     *)
(*   ctr    the addressed container ("" unless scope = "container")        *)
(*   val    the annotation value (a string)                                *)
(*   vp     the value as the site's value parser reads it ("!" = does not  *)
(*          parse); only used where the setting is not a plain string      *)
(*                                                                         *)
(* How a (key, scope, ctr) triple is spelled as one Go string differs per  *)
(* site (notes/annotations.md); the drivers log the structured form next   *)
(* to the raw string.  Sites whose documented syntax has only two forms    *)
(* (memory-qos, memtierd: "P.<suffix>/<container>" and "P.<suffix>") never *)
(* produce scope "pod"; their pod-wide form is the bare key.               *)
(*                                                                         *)
(* The module is purely functional (no behaviour).  Everything in it is a  *)
(* transcription of the property statement, not of the code:               *)
(*   - the value for container c is the container-specific entry for c if  *)
(*     present, otherwise the pod-wide entry, otherwise the bare entry;    *)
(*   - a SET has no order: the result cannot depend on a storage order;    *)
(*   - entries addressed to other containers are ignored;                  *)
(*   - memory-qos/memtierd: an explicitly annotated cgroup parameter       *)
(*     overrides the value derived from the annotated class.               *)
(***************************************************************************)
EXTENDS Naturals, Sequences, FiniteSets, TLC

Scopes == {"container", "pod", "bare"}

\* at most one entry per (key, scope, ctr): a Go map cannot hold a key twice
WellFormed(S) ==
    \A a, b \in S : (a.key = b.key /\ a.scope = b.scope /\ a.ctr = b.ctr) => a = b

AddressedTo(a, c) == a.scope # "container" \/ a.ctr = c

Cands(S, k, c, sc) == {a \in S : a.key = k /\ a.scope = sc /\ AddressedTo(a, c)}

\* the set (of at most one element, for well-formed S) holding the entry that decides key k for container c
Winner(S, k, c) ==
    IF Cands(S, k, c, "container") # {} THEN Cands(S, k, c, "container")
    ELSE IF Cands(S, k, c, "pod") # {} THEN Cands(S, k, c, "pod")
    ELSE Cands(S, k, c, "bare")

Absent == [ok |-> FALSE, v |-> ""]

\* the effective annotation: [ok, v] like Go's (value, ok)
Effective(S, k, c) ==
    LET w == Winner(S, k, c)
    IN  IF w = {} THEN Absent ELSE [ok |-> TRUE, v |-> (CHOOSE a \in w : TRUE).val]

\* ... and the parsed reading of the winning value ("" when absent)
EffectiveParsed(S, k, c) ==
    LET w == Winner(S, k, c)
    IN  IF w = {} THEN [ok |-> FALSE, vp |-> ""] ELSE [ok |-> TRUE, vp |-> (CHOOSE a \in w : TRUE).vp]

KeysOf(S) == {a.key : a \in S}

\* keys that have an effective value for c
EffKeys(S, c) == {k \in KeysOf(S) : Effective(S, k, c).ok}

-----------------------------------------------------------------------------
(* sgx-epc: the limit is the effective "epc-limit.nri.io" annotation read as an unsigned decimal; *)
(* no effective annotation = no limit ("0"); an effective annotation that does not parse is an    *)
(* error (it is not skipped in favour of a less specific form).  Limits are decimal strings       *)
(* because TLC integers are 32-bit.                                                               *)
EpcLimit(S, k, c) ==
    LET e == EffectiveParsed(S, k, c)
    IN  IF ~e.ok THEN [err |-> FALSE, limit |-> "0"]
        ELSE IF e.vp = "!" THEN [err |-> TRUE, limit |-> "0"]
        ELSE [err |-> FALSE, limit |-> e.vp]

-----------------------------------------------------------------------------
(* memory-qos / memtierd.  cfg =                                                                 *)
(*   [configured  BOOLEAN              the plugin has a configuration                            *)
(*    allowed     set of parameter names that may be annotated directly                          *)
(*    strict      BOOLEAN              an effective annotation outside allowed+class is an error *)
(*                                     (memory-qos) or ignored (memtierd)                        *)
(*    emptyIsNone BOOLEAN              class "" means "no class" (memtierd)                      *)
(*    derived     class name -> (parameter -> value)   what the class alone yields]              *)
(* The class-derived values are mechanism (C18 does not say what a class means); the drivers     *)
(* measure them on the real plugin with a pod that carries nothing but the class.                *)
ClassKey == "class"

QosClass(S, c, cfg) ==
    LET e == Effective(S, ClassKey, c)
    IN  IF e.ok /\ ~(cfg.emptyIsNone /\ e.v = "") THEN e ELSE Absent

QosExplicit(S, c, cfg) ==
    [p \in (EffKeys(S, c) \cap cfg.allowed) |-> Effective(S, p, c).v]

QosUnified(S, c, cfg) ==
    LET cls    == QosClass(S, c, cfg)
        clsErr == cls.ok /\ (~cfg.configured \/ cls.v \notin DOMAIN cfg.derived)
        parErr == cfg.strict /\ (EffKeys(S, c) \ ({ClassKey} \cup cfg.allowed)) # {}
    IN  IF clsErr \/ parErr
        THEN [err |-> TRUE, unified |-> <<>>]
        ELSE [err |-> FALSE,
              \* @@ prefers its left operand: explicit parameters override class-derived ones
              unified |-> QosExplicit(S, c, cfg) @@ (IF cls.ok THEN cfg.derived[cls.v] ELSE <<>>)]

-----------------------------------------------------------------------------
(* An operational reading -- how an implementation that ranges over the stored annotations one   *)
(* at a time may resolve a key: container-specific entries always overwrite, less specific ones  *)
(* only fill a gap or replace an even less specific one.  `store` is a sequence (= one storage   *)
(* order of the set).  MC_Annotations shows Scan(store) = Effective(set) for every order.        *)
Rank(a) == CASE a.scope = "container" -> 3 [] a.scope = "pod" -> 2 [] OTHER -> 1

RECURSIVE ScanFrom(_, _, _, _, _)
ScanFrom(store, i, k, c, best) ==       \* best: <<>> or <<entry>>
    IF i > Len(store) THEN best
    ELSE LET a == store[i]
             take == a.key = k /\ AddressedTo(a, c) /\ (best = <<>> \/ Rank(a) > Rank(best[1]))
         IN  ScanFrom(store, i + 1, k, c, IF take THEN <<a>> ELSE best)

Scan(store, k, c) ==
    LET b == ScanFrom(store, 1, k, c, <<>>)
    IN  IF b = <<>> THEN Absent ELSE [ok |-> TRUE, v |-> b[1].val]

\* second stage of the side plugins, applied in a given order of the effective keys:
\* a class fills only parameters that are still unset, an explicit parameter always (over)writes
RECURSIVE ApplyFrom(_, _, _, _, _, _)
ApplyFrom(order, i, S, c, cfg, u) ==
    IF i > Len(order) THEN u
    ELSE LET k == order[i]
             e == Effective(S, k, c)
         IN  ApplyFrom(order, i + 1, S, c, cfg,
                 IF k = ClassKey
                 THEN (IF QosClass(S, c, cfg).ok /\ e.v \in DOMAIN cfg.derived THEN u @@ cfg.derived[e.v] ELSE u)
                 ELSE IF k \in cfg.allowed THEN (k :> e.v) @@ u ELSE u)

=============================================================================
