-------------------------- MODULE Trace_SidePlugin --------------------------
(***************************************************************************)
(* Trace validation for the side-plugin part of C14.  One trace file holds *)
(* the event sequences replayed on the REAL handlers of one plugin (one    *)
(* long-lived plugin instance per sequence, `reset` starts a new one); one *)
(* line per delivered event: the event, its abstract arguments, what the   *)
(* handler answered (ok / refused / panic / hang).                         *)
(*                                                                         *)
(* Every line is stepped through the SidePlugin action of its handler with *)
(* the REAL outcome; what the property demands is evaluated on the way:    *)
(*   Act_NoPanic       no handler panicked (onClose: the process ended     *)
(*                     normally)                                           *)
(*   Act_Returns       every handler returned (watchdog of the driver)     *)
(*   Act_StillServing  the benign probe requests that follow a request     *)
(*                     which was not served, and those at the end of every *)
(*                     sequence, are served                                *)
(* A line that is no step of SidePlugin (driver discipline: calibration    *)
(* after an accepted Configure, probes after a refusal and at the end) is  *)
(* recorded under the predicate "Trace" (= inconclusive, not a verdict).   *)
(* Violations are recorded (pred, sig, witness) and the rest of the trace  *)
(* is still checked.  `cov` counts the situations that were exercised.     *)
(***************************************************************************)
EXTENDS SidePlugin, Sequences, SequencesExt, Json, IOUtils

VARIABLES l, viols, cov, done
tvars == <<vars, l, viols, cov, done>>

Trace == ndJsonDeserialize(IOEnv.TRACE_FILE)
N     == Len(Trace)
E     == Trace[l]

SetOf(s) == {s[i] : i \in DOMAIN s}
Has(r, f) == f \in DOMAIN r

V(pred, sig, w) == [pred |-> pred, sig |-> sig, w |-> ToString(w), line |-> l, s |-> E.s, k |-> IF Has(E, "k") THEN E.k ELSE -1,
                    ev |-> E.ev, plugin |-> Plugin]

\* the outcome as far as the state of the specification goes: a handler that panicked or hung served nothing
O == IF E.out = "ok" THEN "ok" ELSE "refused"
A == [kind |-> E.a.kind, cls |-> E.a.cls]

CtrEv == {"Create", "Start", "Stop"}

\* the situation the event arrives in: part of the signature of a failure
Cat == CASE E.ev \in CtrEv -> ClsCat(A) \o ":" \o E.r
         [] E.ev = "Configure" -> E.kind
         [] E.ev \in {"Calib", "Probe"} -> (IF E.t = "-" THEN "benign" ELSE "class")
         [] OTHER -> "-"

C14Viols ==
    (IF E.out = "panic" THEN {V("Act_NoPanic", Plugin \o ":panic-in-" \o E.ev \o ":" \o Cat, E.frame \o " | " \o E.panicmsg)} ELSE {})
    \cup (IF E.out = "hang" THEN {V("Act_Returns", Plugin \o ":handler-did-not-return-" \o E.ev \o ":" \o Cat, E.ev)} ELSE {})
    \cup (IF E.ev = "Probe" /\ E.out \notin Allowed("Probe")
          THEN {V("Act_StillServing", Plugin \o ":" \o Cat \o "-probe-" \o E.out \o "-after-" \o E.after, E.err)} ELSE {})

-----------------------------------------------------------------------------
(* coverage: what was exercised, classified in the state the event arrived in *)

Tokens ==
    {E.ev \o ":" \o E.out}
    \cup (IF E.ev \in CtrEv /\ E.c \in Ctrs
          THEN {E.ev \o ":phase-" \o phase[E.c], E.ev \o ":" \o ClsCat(A), E.ev \o ":res-" \o E.r}
               \cup (IF ClassRemoved(E.c) THEN {E.ev \o ":class-removed", E.ev \o ":class-removed:" \o E.out} ELSE {})
               \cup (IF info[E.c] # Nil /\ E.ev = "Create" THEN {"Create:told-before"} ELSE {})
               \cup (IF info[E.c] = Nil /\ E.ev # "Create" THEN {E.ev \o ":never-told"} ELSE {})
          ELSE {})
    \cup (IF E.ev = "Configure"
          THEN {"Configure:" \o E.kind \o ":" \o E.out}
               \cup (IF cfg.set THEN {"Configure:reconfigure:" \o E.out} ELSE {"Configure:first:" \o E.out})
               \cup (IF cfg.set /\ E.out = "ok" /\ E.kind # "nocfg" /\ cfg.classes \ SetOf(E.classes) # {} THEN {"Configure:removes-class"} ELSE {})
               \cup (IF cfg.set /\ E.out = "ok" /\ SetOf(E.classes) \ cfg.classes # {} THEN {"Configure:adds-class"} ELSE {})
               \cup (IF cfg.set /\ E.out = "ok" /\ E.kind # "nocfg" /\ SetOf(E.classes) = {} THEN {"Configure:to-no-classes"} ELSE {})
               \cup (IF cfg.rejected THEN {"Configure:after-rejected"} ELSE {})
          ELSE {})
    \cup (IF E.ev = "Calib" THEN {"Calib:" \o (IF E.t \in cfg.classes THEN "configured" ELSE "not-configured") \o ":" \o E.out} ELSE {})
    \cup (IF E.ev = "Probe" THEN {"Probe:" \o E.tag \o ":" \o Cat \o ":" \o E.out, "Probe:after-" \o E.after \o ":" \o E.out} ELSE {})
    \cup (IF E.ev = "Probe" /\ due # {} /\ E.out = "ok" THEN {"Probe:served-after-refusal"} ELSE {})
    \cup (IF ~cfg.set /\ E.ev \in CtrEv THEN {E.ev \o ":unconfigured-plugin"} ELSE {})

Bump(f, S) == [t \in DOMAIN f \cup S |-> (IF t \in DOMAIN f THEN f[t] ELSE 0) + (IF t \in S THEN 1 ELSE 0)]

-----------------------------------------------------------------------------
NotAStep(why) ==
    /\ viols' = Append(viols, V("Trace", why, E.ev)) \o SetToSeq(C14Viols)
    /\ UNCHANGED <<vars, cov>>

Record == viols' = viols \o SetToSeq(C14Viols) /\ cov' = Bump(cov, Tokens)

TrReset ==
    /\ E.ev = "reset"
    \* the previous sequence ended the way sequences must end: closed, or with the final probes, nothing owed
    /\ viols' = IF l = 1 \/ closed \/ (last.ev = "Probe" /\ due = {} /\ calib = {}) \/ last.ev = "Init"
                THEN viols ELSE Append(viols, V("Trace", "sequence-ended-without-final-probes", l))
    /\ cfg' = [set |-> FALSE, classes |-> {}, rejected |-> FALSE]
    /\ phase' = [c \in Ctrs |-> "unknown"]
    /\ info' = [c \in Ctrs |-> Nil]
    /\ servable' = {} /\ calib' = {} /\ due' = {} /\ closed' = FALSE
    /\ last' = [ev |-> "Init", out |-> "ok"]
    /\ cov' = Bump(cov, {"sequences"})

TrConfigure ==
    /\ E.ev = "Configure"
    /\ LET S == SetOf(E.classes) IN
       IF CanConfigure(E.kind, S) THEN Configure(E.kind, S, O) /\ Record ELSE NotAStep("Configure-is-not-a-step")

TrCalib ==
    /\ E.ev = "Calib"
    /\ IF CanCalib(E.t) THEN Calib(E.t, O) /\ Record ELSE NotAStep("Calib-is-not-a-step")

TrCtr ==
    /\ E.ev \in CtrEv
    /\ IF E.ev = "Create" /\ CanCreate(E.c, A, E.r) THEN Create(E.c, A, E.r, O) /\ Record
       ELSE IF E.ev = "Start" /\ CanStart(E.c, A, E.r) THEN Start(E.c, A, E.r, O) /\ Record
       ELSE IF E.ev = "Stop" /\ CanStop(E.c, A, E.r) THEN Stop(E.c, A, E.r, O) /\ Record
       ELSE NotAStep(E.ev \o "-is-not-a-step")

TrClose ==
    /\ E.ev = "Close"
    /\ IF CanClose THEN Close(O) /\ Record ELSE NotAStep("Close-is-not-a-step")

TrProbe ==
    /\ E.ev = "Probe"
    /\ IF CanProbe(E.t) THEN Probe(E.t, O) /\ Record ELSE NotAStep("Probe-is-not-a-step")

TrUnknown ==
    /\ E.ev \notin {"reset", "Configure", "Calib", "Create", "Start", "Stop", "Close", "Probe"}
    /\ NotAStep("unknown-event")

Step ==
    /\ l <= N
    /\ IF E.p # Plugin THEN NotAStep("line-of-another-plugin")
       ELSE (TrReset \/ TrConfigure \/ TrCalib \/ TrCtr \/ TrClose \/ TrProbe \/ TrUnknown)
    /\ l' = l + 1 /\ UNCHANGED done

Finish ==
    /\ l = N + 1 /\ ~done
    /\ ndJsonSerialize(IOEnv.VIOL_FILE,
          IF closed \/ (last.ev = "Probe" /\ due = {} /\ calib = {}) \/ last.out # "ok" THEN viols
          ELSE Append(viols, [pred |-> "Trace", sig |-> "sequence-ended-without-final-probes", w |-> "end of trace",
                              line |-> N, s |-> -1, k |-> -1, ev |-> "end", plugin |-> Plugin]))
    /\ PrintT("CONSUMED " \o ToString(l - 1))
    /\ PrintT("COVER " \o ToJson(cov))
    /\ done' = TRUE /\ UNCHANGED <<vars, l, viols, cov>>

TraceInit == Init /\ l = 1 /\ viols = <<>> /\ cov = [t \in {} |-> 0] /\ done = FALSE

TraceNext == Step \/ Finish

TraceSpec == TraceInit /\ [][TraceNext]_tvars
=============================================================================
