SPECIFICATION Spec
CONSTANTS
  Pods = {"p1"}
  Ctrs = {"c1", "c2"}
  PodOf <- MCPodOf
  Fields = {"cpus"}
  Vals = {1}
  MaxWrites = 1
  SyncStates = {"running"}
  StrictPolicy = TRUE
  WithEvents = FALSE
  FlushOnError = TRUE
  ConsistentEnv = FALSE
INVARIANTS TypeOK Inv_AdjDescribesCreated
