----------------------------- MODULE Trace_Kube -----------------------------
(***************************************************************************)
(* Conformance of the real conversions (pkg/kubernetes/resources.go) and   *)
(* of estimateResourceRequirements (through a real cache.InsertContainer)  *)
(* to the laws of Kube (C20).                                               *)
(*                                                                         *)
(* One trace file = the lines of some consecutive segments of Plan(tier):  *)
(*   {"ev":"hdr","tier":t,"first":a,"last":b}                               *)
(*   {"ev":"s2m"|"rt"|"m2s"|"m2q","seg":k,"lo":x,"v":[...]}    function table over x, x+1, ...   *)
(*   {"ev":"q2m","seg":k,"p":p,"st":st,"lo":x,"v":[...]}       QuotaToMilliCPU((x+i-1)*st, p)    *)
(*   {"ev":"mem","seg":k,"idx":j,"cap":limbs,"panic":b,"hang":b,"est":[limbs for adj 3..999]}     *)
(*   {"ev":"est","seg":k,"idx":j,"qos","mreq","mlim","adj","shares","quota","period","cap",        *)
(*    "cpureq","cpulim" (mCPU, -1 = absent),"memreq":limbs ([] = absent),"err":b}                  *)
(* Byte quantities are little-endian limbs in base 10^6 (see Kube).         *)
(*                                                                         *)
(* Every line is checked (a) against the plan: it must be exactly the next  *)
(* block of the current segment (inputs are re-derived from the plan, so a  *)
(* driver that skips or alters inputs is detected: COVER ok=FALSE), and     *)
(* (b) against the laws; violations are recorded as (pred, sig, line, at).  *)
(* Where the real value differs from today's reference decoder without     *)
(* breaking a law, only the drift counter is incremented.                   *)
(***************************************************************************)
EXTENDS Kube, Json, IOUtils, TLC, SequencesExt

VARIABLES l,        \* next trace line
          hdr,      \* chunk header
          seg,      \* index (in Plan) of the segment the next line belongs to
          pos,      \* next input index within that segment
          prev,     \* last table value of the previous line of the same segment (-1: none) -- monotonicity across lines
          viols, drift, miss, done

Trace == ndJsonDeserialize(IOEnv.TRACE_FILE)
N     == Len(Trace)
E     == Trace[l]

tvars == <<l, hdr, seg, pos, prev, viols, drift, miss, done>>

Has(rec, f) == f \in DOMAIN rec
Tier == IOEnv.TIER            \* constant for the run; the chunk header must name the same tier
ThePlan == Plan(Tier)
S == ThePlan[seg]

V(pred, sig, at) == [pred |-> pred, sig |-> sig, line |-> l, at |-> at]

\* the (at most 3) smallest members of a set of integers
RECURSIVE FirstFew(_, _)
FirstFew(X, n) == IF X = {} \/ n = 0 THEN {} ELSE LET mn == CHOOSE x \in X : \A y \in X : x <= y IN {mn} \cup FirstFew(X \ {mn}, n - 1)

-----------------------------------------------------------------------------
(* table lines *)

IsTable == E.ev \in {"s2m", "rt", "m2s", "m2q", "q2m"}
In(i) == E.lo + i - 1                   \* the input of the i-th value of the line

ReqSig(m, v) == IF Shares(m) = MinShares THEN "deviation-over-2-mcpu-at-min-shares"
                ELSE IF Abs(v - m) > 1 THEN "deviation-over-1-mcpu"
                ELSE "inexact-at-multiple-of-125-mcpu"

\* first value of the line against the last value of the previous line, then within the line
MonoBad == (IF prev >= 0 /\ Len(E.v) >= 1 /\ prev > E.v[1] THEN {0} ELSE {})
           \cup {i \in 1 .. Len(E.v) - 1 : E.v[i] > E.v[i + 1]}

TableViolations ==
    LET idx == 1 .. Len(E.v) IN
    CASE E.ev = "s2m" ->
            LET bad == {i \in idx : ~SharesLaw(In(i), E.v[i])} IN
            {V("Law_RequestFromShares",
               ReqSig(CHOOSE m \in Preimage(In(i)) : ~RequestLaw(m, E.v[i]), E.v[i]), In(i)) : i \in FirstFew(bad, 3)}
            \cup {V("Law_Monotone", "request-from-shares-decreases", In(i)) : i \in FirstFew(MonoBad, 3)}
      [] E.ev = "rt" ->
            LET bad == {i \in idx : ~RequestLaw(In(i), E.v[i])} IN
            {V("Law_RoundTrip", ReqSig(In(i), E.v[i]), In(i)) : i \in FirstFew(bad, 3)}
            \cup {V("Law_Monotone", "round-trip-decreases", In(i)) : i \in FirstFew(MonoBad, 3)}
      [] E.ev = "q2m" ->
            LET bad == {i \in idx : ~LimitLaw(In(i) * E.st, E.p, E.v[i])} IN
            {V("Law_LimitFromQuota", "inexact-limit", In(i)) : i \in FirstFew(bad, 3)}
            \cup {V("Law_Monotone", "limit-from-quota-decreases", In(i)) : i \in FirstFew(MonoBad, 3)}
      [] OTHER -> {}

\* differences from the encoders/decoders of today that break no law
TableDrift ==
    LET idx == 1 .. Len(E.v) IN
    CASE E.ev = "s2m" -> Cardinality({i \in idx : E.v[i] # MilliFromShares(In(i))})
      [] E.ev = "rt"  -> Cardinality({i \in idx : E.v[i] # MilliFromShares(Shares(In(i)))})
      [] E.ev = "m2s" -> Cardinality({i \in idx : E.v[i] # Shares(In(i))})
      [] E.ev = "m2q" -> Cardinality({i \in idx : E.v[i] # Quota(In(i), DefaultPeriod)})
                         + (IF E.periods = <<DefaultPeriod>> \/ E.periods = <<0, DefaultPeriod>> THEN 0 ELSE 1)
      [] E.ev = "q2m" -> Cardinality({i \in idx : E.v[i] # MilliFromQuota(In(i) * E.st, E.p)})

TableExpected ==
    /\ E.ev = S.ev /\ E.seg = seg
    /\ E.lo = pos
    /\ Len(E.v) = Min(Blk, S.hi - pos + 1)
    /\ (E.ev = "q2m" => E.p = S.p /\ E.st = S.st)

-----------------------------------------------------------------------------
(* memory estimate tables *)

IsMem == E.ev = "mem"

MemViolations ==
    IF E.hang THEN {V("Law_MemTableBuilds", "table-build-did-not-return", E.idx)}
    ELSE IF E.panic THEN {V("Law_MemTableBuilds", "table-build-panicked", E.idx)}
    ELSE {V("Law_MemMapsBack", "estimate-maps-to-other-adjustment", a) : a \in FirstFew(BadAdjs(E.cap, E.est), 3)}

MemExpected ==
    /\ E.seg = seg /\ E.idx = pos /\ WellFormed(E.cap)
    /\ CASE S.ev = "memd" -> Same(E.cap, AddSmall(MiB, pos))
         [] S.ev = "memp" -> Same(E.cap, Pow2Cap(pos))
         [] S.ev = "memw" -> Same(E.cap, AddSmall(Pow2L(S.p), pos))
         [] S.ev = "memr" -> Leq(MiB, E.cap) /\ Leq(E.cap, AddSmall(Pow2L(46), 1))
         [] OTHER -> FALSE

-----------------------------------------------------------------------------
(* containers through cache.InsertContainer *)

IsEst == E.ev = "est"

EstViolations ==
    IF E.err THEN {V("Law_Estimate", "insert-container-failed", E.idx)}
    ELSE
    LET c == EstCase(E.idx)
        req == IF E.cpureq < 0 THEN 0 ELSE E.cpureq
    IN  (IF RequestLaw(c.mreq, req) THEN {} ELSE {V("Law_Estimate", "cpu-request-" \o ReqSig(c.mreq, req), E.idx)})
        \cup (IF c.qos # "Guaranteed" /\ c.mlim >= 10 /\ E.cpulim # c.mlim THEN {V("Law_Estimate", "cpu-limit-inexact", E.idx)} ELSE {})
        \cup (IF c.qos = "Burstable" /\ ~(E.memreq # <<>> /\ WellFormed(E.memreq) /\ MapsBack(E.cap, E.memreq, c.adj))
              THEN {V("Law_Estimate", "memory-request-maps-to-other-adjustment", E.idx)} ELSE {})

EstExpected ==
    /\ S.ev = "est" /\ E.seg = seg /\ E.idx = pos
    /\ LET c == EstCase(pos) IN
          /\ E.qos = c.qos /\ E.mreq = c.mreq /\ E.mlim = c.mlim /\ E.adj = c.adj
          /\ E.shares = Shares(c.mreq)
          /\ E.quota = Quota(c.mlim, DefaultPeriod) /\ E.period = DefaultPeriod
          /\ Same(E.cap, EstCapacity)

-----------------------------------------------------------------------------

Width == IF IsTable THEN Len(E.v) ELSE 1
LastOfSeg == pos + Width > S.hi

Advance ==
    IF LastOfSeg THEN seg' = seg + 1 /\ pos' = (IF seg + 1 <= Len(ThePlan) THEN ThePlan[seg + 1].lo ELSE 0) /\ prev' = -1
    ELSE seg' = seg /\ pos' = pos + Width /\ prev' = (IF IsTable /\ Len(E.v) > 0 THEN E.v[Len(E.v)] ELSE -1)

TrHdr ==
    /\ l = 1 /\ E.ev = "hdr"
    /\ hdr' = E /\ seg' = E.first /\ prev' = -1
    /\ IF E.tier = Tier /\ E.first >= 1 /\ E.first <= E.last /\ E.last <= Len(ThePlan)
       THEN pos' = ThePlan[E.first].lo /\ UNCHANGED miss
       ELSE pos' = 0 /\ miss' = Append(miss, [line |-> l, seg |-> 0, pos |-> 0])
    /\ l' = l + 1 /\ UNCHANGED <<viols, drift, done>>

Mismatch == miss' = (IF Len(miss) >= 3 THEN miss ELSE Append(miss, [line |-> l, seg |-> seg, pos |-> pos]))

TrLine ==
    /\ l > 1 /\ hdr.ev = "hdr" /\ (IsTable \/ IsMem \/ IsEst)
    /\ IF seg > hdr.last \/ seg > Len(ThePlan)
       THEN Mismatch /\ UNCHANGED <<seg, pos, prev, viols, drift>>
       ELSE IF ~((IsTable /\ TableExpected) \/ (IsMem /\ MemExpected) \/ (IsEst /\ EstExpected))
       THEN Mismatch /\ UNCHANGED <<seg, pos, prev, viols, drift>>
       ELSE /\ viols' = viols \o SetToSeq(IF IsTable THEN TableViolations ELSE IF IsMem THEN MemViolations ELSE EstViolations)
            /\ drift' = drift + (IF IsTable THEN TableDrift ELSE 0)
            /\ Advance
            /\ UNCHANGED miss
    /\ l' = l + 1 /\ UNCHANGED <<hdr, done>>

TrUnknown ==
    /\ ~(l = 1 /\ E.ev = "hdr") /\ ~(l > 1 /\ hdr.ev = "hdr" /\ (IsTable \/ IsMem \/ IsEst))
    /\ Mismatch
    /\ l' = l + 1 /\ UNCHANGED <<hdr, seg, pos, prev, viols, drift, done>>

Finish ==
    /\ l = N + 1 /\ ~done
    /\ ndJsonSerialize(IOEnv.VIOL_FILE, viols)
    /\ PrintT("CONSUMED " \o ToString(l - 1))
    /\ PrintT("DRIFT " \o ToString(drift))
    /\ PrintT("COVER " \o ToJson([ok |-> (hdr.ev = "hdr" /\ miss = <<>> /\ seg = hdr.last + 1), tier |-> hdr.tier,
                                   first |-> hdr.first, last |-> hdr.last, nsegs |-> IF hdr.ev = "hdr" THEN Len(ThePlan) ELSE 0,
                                   lines |-> N - 1, miss |-> miss]))
    /\ done' = TRUE /\ UNCHANGED <<l, hdr, seg, pos, prev, viols, drift, miss>>

TraceInit ==
    /\ l = 1 /\ hdr = [ev |-> "none", tier |-> "quick", first |-> 1, last |-> 0]
    /\ seg = 1 /\ pos = 0 /\ prev = -1 /\ viols = <<>> /\ drift = 0 /\ miss = <<>> /\ done = FALSE

TraceNext ==
    \/ (l <= N /\ (TrHdr \/ TrLine \/ TrUnknown))
    \/ Finish

TraceSpec == TraceInit /\ [][TraceNext]_tvars
=============================================================================
