SPECIFICATION Spec
CONSTANTS
  Layouts <- MCLayouts
  Ids <- MCIds
  ReqMenu <- MCReqMenu
  MaxOffers = 1
  a = a
  b = b
  c = c
  MaxMut = 2
  ReallocNodes <- MCReallocNodes
  ReallocTypes <- MCReallocTypes
  Faithful = FALSE
CONSTRAINT Bound
VIEW View
SYMMETRY Symm
INVARIANTS TypeOK Inv_NoOvercommit Inv_AssignedZonesFit Inv_StrictTypes Inv_NormalNode Inv_VersionTracksMutations
PROPERTIES Act_FailAtomic Act_OfferPure Act_Monotone Act_Reservation Act_ExactUpdates Act_ReleaseOnly Act_StaleRefused Act_FreshCommits
