---------------------------- MODULE Trace_Agent ----------------------------
(***************************************************************************)
(* Trace validation of the real agent (pkg/agent) against Agent -- C17.    *)
(* One trace line = one watch event handled by the real Agent (through the *)
(* verif hooks, the way the select loop of Start dispatches it): the       *)
(* event, the configs passed to the notify callback while it was handled   *)
(* (identity and order, "valid" = outcome of the real Validate()), and     *)
(* Agent.nodeCfg/groupCfg/currentCfg afterwards.  Every agent variable is  *)
(* bound from the log; the ghost variables rcvNode/rcvGroup follow the     *)
(* events.  On every step                                                  *)
(*   * the five property predicates of Agent are evaluated, and            *)
(*   * the step must be the specification's step: Agent is deterministic   *)
(*     and C17 fixes the outcome completely, so a step the specification   *)
(*     cannot explain is a violation (pred "Next") too.                    *)
(* Violations are recorded (pred, sig, witness) and the rest of the trace  *)
(* is still checked; after a deviation the next step starts from the       *)
(* logged state, so every deviation is reported where it happens.          *)
(* pred "Trace" marks a malformed trace (not a verdict: inconclusive).     *)
(***************************************************************************)
EXTENDS Agent, Json, IOUtils, SequencesExt

VARIABLES l,        \* next trace line
          viols,    \* recorded violations
          skip,     \* the rest of the history is abandoned (event that did not return)
          done

Trace == ndJsonDeserialize(IOEnv.TRACE_FILE)
N     == Len(Trace)
E     == Trace[l]

tvars == <<vars, l, viols, skip, done>>

Has(r, f) == f \in DOMAIN r

V(pred, sig, w) == [pred |-> pred, sig |-> sig, w |-> ToString(w), line |-> l, h |-> E.h, k |-> E.k,
                    ev |-> E.ev, typ |-> E.typ]

\* Every kind (pred, sig) of violation is recorded at least once; beyond MaxViols records per trace file only
\* kinds not seen before are added (a broken agent fails on most steps; the count is in the evidence as ">= n").
MaxViols == 60
Record(S) ==
    IF S = {} THEN viols
    ELSE IF Len(viols) < MaxViols THEN viols \o SetToSeq(S)
    ELSE viols \o SetToSeq({v \in S : \A i \in DOMAIN viols : viols[i].pred # v.pred \/ viols[i].sig # v.sig})

EventOf(j) == [s |-> j.ev, typ |-> j.typ, o |-> j.o, nerr |-> j.nerr]

WellFormed(e) ==
    /\ e.s \in Watches /\ e.typ \in EvTypes /\ e.nerr \in BOOLEAN
    /\ IF e.typ \in PutTypes THEN e.o # None /\ e.o.kind = e.s ELSE e.o = None

-----------------------------------------------------------------------------
(* Mechanism: the recorded step must be Step(e) *)

NextViolations(e) ==
    LET p == Post(e) IN
      (IF p.new = E.nt THEN {}
       ELSE {V("Next", IF p.new = <<>> THEN "notify-unexpected"
                       ELSE IF E.nt = <<>> THEN "notify-missing" ELSE "notify-different",
               [expected |-> p.new, got |-> E.nt])})
      \cup (IF p.node = E.st.node THEN {} ELSE {V("Next", "state-nodeCfg", [expected |-> p.node, got |-> E.st.node])})
      \cup (IF p.group = E.st.group THEN {} ELSE {V("Next", "state-groupCfg", [expected |-> p.group, got |-> E.st.group])})
      \cup (IF p.cur = E.st.cur THEN {} ELSE {V("Next", "state-currentCfg", [expected |-> p.cur, got |-> E.st.cur])})

-----------------------------------------------------------------------------
(* Property: the predicates of C17 on <<state, state'>> (evaluated after the primed variables are bound) *)

PropViolations ==
    (IF Inv_LastDeliveredIsEffective' \/ (~Inv_LastDeliveredIsEffective /\ Eff' = Eff) THEN {}
     ELSE {V("Inv_LastDeliveredIsEffective", "effective-" \o Eff'.kind \o "-config-is-not-the-last-delivered",
             [effective |-> Eff', last |-> LastOf(delivered')])})
    \cup (IF Act_GroupNeverOverridesNode THEN {}
          ELSE {V("Act_GroupNeverOverridesNode", "group-config-delivered-while-node-config-exists",
                  [node |-> rcvNode', delivered |-> E.nt])})
    \cup (IF Act_DeleteFallsBack THEN {}
          ELSE {V("Act_DeleteFallsBack", "group-config-not-last-delivered-after-node-delete",
                  [group |-> rcvGroup, last |-> LastOf(delivered')])})
    \cup (IF Act_NoRedelivery THEN {}
          ELSE {V("Act_NoRedelivery", "same-version-notified-again", [shown |-> Rcv(ev'.s), delivered |-> E.nt])})
    \cup (IF Act_InvalidNeverDelivered THEN {}
          ELSE {V("Act_InvalidNeverDelivered", "invalid-config-notified", E.nt)})

-----------------------------------------------------------------------------
(* Trace actions *)

TrReset ==
    /\ E.ev = "reset"
    /\ nodeCfg' = None /\ groupCfg' = None /\ current' = None /\ delivered' = <<>>
    /\ rcvNode' = None /\ rcvGroup' = None /\ ev' = NoEvent
    /\ skip' = FALSE /\ l' = l + 1 /\ UNCHANGED <<viols, done>>

\* lines of an abandoned history
TrSkip ==
    /\ E.ev # "reset" /\ skip
    /\ l' = l + 1 /\ UNCHANGED <<vars, viols, skip, done>>

TrMalformed ==
    /\ E.ev # "reset" /\ ~skip
    /\ ~(Has(E, "typ") /\ Has(E, "o") /\ Has(E, "nerr") /\ Has(E, "nt") /\ Has(E, "st") /\ WellFormed(EventOf(E)))
    /\ viols' = Append(viols, [pred |-> "Trace", sig |-> "malformed-line", w |-> ToString(E), line |-> l,
                               h |-> -1, k |-> -1, ev |-> "?", typ |-> "?"])
    /\ skip' = TRUE /\ l' = l + 1 /\ UNCHANGED <<vars, done>>

Good == /\ E.ev # "reset" /\ ~skip
        /\ Has(E, "typ") /\ Has(E, "o") /\ Has(E, "nerr") /\ Has(E, "nt") /\ Has(E, "st") /\ WellFormed(EventOf(E))

\* an event that did not return within the harness' time limit: the history is abandoned
TrHang ==
    /\ Good /\ Has(E, "hang")
    /\ viols' = Record({V("Next", "event-did-not-return", EventOf(E))})
    /\ skip' = TRUE /\ l' = l + 1 /\ UNCHANGED <<vars, done>>

TrEvent ==
    /\ Good /\ ~Has(E, "hang")
    /\ LET e == EventOf(E) IN
         /\ nodeCfg' = E.st.node /\ groupCfg' = E.st.group /\ current' = E.st.cur
         /\ delivered' = delivered \o E.nt
         /\ rcvNode'  = IF e.s = "node"  THEN RcvAfter(e, rcvNode)  ELSE rcvNode
         /\ rcvGroup' = IF e.s = "group" THEN RcvAfter(e, rcvGroup) ELSE rcvGroup
         /\ ev' = e
         /\ viols' = Record(
                (IF EnvOK(e) THEN {} ELSE {V("Trace", "environment-assumption-broken", e)})
                \cup (IF Has(E, "panic") THEN {V("Next", "event-panicked", E.panic)} ELSE {})
                \cup NextViolations(e)
                \cup PropViolations)
    /\ l' = l + 1 /\ UNCHANGED <<skip, done>>

Finish ==
    /\ l = N + 1 /\ ~done
    /\ ndJsonSerialize(IOEnv.VIOL_FILE, viols)
    /\ PrintT("CONSUMED " \o ToString(l - 1))
    /\ done' = TRUE /\ UNCHANGED <<vars, l, viols, skip>>

TraceInit ==
    /\ Init /\ l = 1 /\ viols = <<>> /\ skip = FALSE /\ done = FALSE

TraceNext ==
    \/ (l <= N /\ (TrReset \/ TrSkip \/ TrMalformed \/ TrHang \/ TrEvent))
    \/ Finish

TraceSpec == TraceInit /\ [][TraceNext]_tvars
=============================================================================
