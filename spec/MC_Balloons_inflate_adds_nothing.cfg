SPECIFICATION Spec
CONSTANTS
  Cpus <- MCCpus
  PkgOf <- MCPkgOf
  Defs <- MCDefs
  CoreOf <- MCCoreOf
  ShareDeviation = "inflate_adds_nothing"
  Ctrs = {c1, c2}
  Reqs = {0, 500, 1500}
  ClassDeviation = "none"
  c1 = c1
  c2 = c2
  c3 = c3

INVARIANTS Inv_BalloonsDisjoint Inv_BalloonsWithinAllowed Inv_FreeCpusAreUnowned Inv_OneBalloonPerCtr Inv_SharedIdleNotOwned Inv_SharedIdleCoversScope Inv_MinMaxCpus Inv_MinMaxInstances Inv_NonEmptyHasCpus Inv_ToldIsCpusPlusShared Inv_ToldNonEmpty Inv_CpuClass Inv_Quiescent
