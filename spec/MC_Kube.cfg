SPECIFICATION MCSpec
CONSTANTS
  Tier = "quick"
  Step = 1
INVARIANTS Inv_Request Inv_Limit Inv_Default Inv_Preimage Inv_Range
CHECK_DEADLOCK FALSE
