---------------------------- MODULE TopologyAware ----------------------------
(***************************************************************************)
(* The topology-aware policy: a tree of pools, each with isolated,         *)
(* reserved and sharable CPUs; containers are granted exclusive CPUs       *)
(* (sliced off the sharable set of a pool, or kernel-isolated ones) and/or *)
(* a portion of the pool's shared or reserved capacity.                    *)
(* Properties C01 (exclusive CPUs are exclusive), C03 (no pool is          *)
(* oversubscribed, grants match the eligibility rules), the CPU half of    *)
(* C09 (releasing everything restores the pristine state).                 *)
(*                                                                         *)
(* Part 1: predicates over a SNAPSHOT of the policy (pools, grants) and    *)
(* the runtime's view of the containers.  They transcribe the property     *)
(* statements; the trace spec evaluates them on snapshots logged from the  *)
(* real policy, the design spec below on its own state.                    *)
(* Part 2: the design: Allocate / Release / Update as the code does them   *)
(* (admission test, accounting in ancestors and descendants, re-pinning of *)
(* shared sets).  Pool choice and CPU choice are heuristic in the code and *)
(* nondeterministic here.  Update is what UpdateResources does: release,   *)
(* then allocate again (two steps under the lock, nothing else between);   *)
(* when the second step fails the container stays alive WITHOUT a grant:   *)
(* the named deviation `dropped` = F-C05-1.                                *)
(***************************************************************************)
EXTENDS TAPreds, SequencesExt

-----------------------------------------------------------------------------
(* Part 2: the design *)

CONSTANTS Pool, Parent,            \* Parent \in [Pool -> Pool \cup {""}]
          Shar0, Rsv0, Isol0,      \* [Pool -> SUBSET CPU]: supply of each pool (children's supplies are subsets of the parent's)
          Ctr, Classes             \* containers; request classes [full, fraction, isolate, ctype]

VARIABLES grant,                   \* container -> [pool, excl, isol, ctype, portion, cls]
          fshar, fisol,            \* [Pool -> SUBSET CPU]: free sharable / isolated CPUs
          gshar, grsv,             \* [Pool -> Nat]: granted shared / reserved mCPU at each pool
          starved,                 \* history: pools whose shared set was taken away by slicing at an ancestor (F-C03-1)
          live,                    \* containers admitted and not yet released (created/running by the runtime's account)
          dropped,                 \* history: live containers whose grant a failed update took away (F-C05-1)
          upd                      \* <<>> or [c, r]: an UpdateResources in progress (released, not yet re-allocated)

tvars == <<grant, fshar, fisol, gshar, grsv, starved, live, dropped, upd>>
pvars == <<grant, fshar, fisol, gshar, grsv, starved>>

Tree == [p \in Pool |-> [parent |-> Parent[p], shar |-> Shar0[p], rsv |-> Rsv0[p], isol |-> Isol0[p],
                         fshar |-> fshar[p], frsv |-> Rsv0[p], fisol |-> fisol[p], gshar |-> gshar[p], grsv |-> grsv[p]]]
Root == CHOOSE p \in Pool : Parent[p] = ""
AllCpus == Shar0[Root] \cup Rsv0[Root] \cup Isol0[Root]

SubtreeShared(p)   == Sum(LAMBDA q : gshar[q], SubOf(Tree, p))        \* node.GrantedSharedCPU()
SubtreeReserved(p) == Sum(LAMBDA q : grsv[q], SubOf(Tree, p))
AllocatableShared(p) ==
    Min({1000 * Cardinality(fshar[a]) - SubtreeShared(a) : a \in {p} \cup AncOf(Tree, p)})
AllocatableReserved(p) ==
    IF Rsv0[p] = {} THEN -1
    ELSE Min({1000 * Cardinality(Rsv0[a]) - SubtreeReserved(a) : a \in {p} \cup AncOf(Tree, p)})

\* what the runtime is told for a grant (applyGrant + updateSharedAllocations), derived
ToldOf(c) ==
    LET g == grant[c]
    IN IF g.ctype = "reserved" THEN Rsv0[g.pool]
       ELSE IF g.excl = {} THEN fshar[g.pool]
       ELSE IF g.portion > 0 THEN g.excl \cup fshar[g.pool] ELSE g.excl
Told == [c \in {c \in DOMAIN grant : grant[c].ctype # "preserve" /\ ToldOf(c) # {}} |-> ToldOf(c)]

Init ==
    /\ grant = <<>> /\ fshar = Shar0 /\ fisol = Isol0
    /\ gshar = [p \in Pool |-> 0] /\ grsv = [p \in Pool |-> 0] /\ starved = {}
    /\ live = {} /\ dropped = {} /\ upd = <<>>

\* supply.AllocateCPU at pool p for class r, with the nondeterministic choices of the CPU allocator
AllocBody(c, r, p) ==
    /\ c \notin DOMAIN grant
    /\ LET ctype == IF r.ctype = "reserved" /\ r.fraction > 0 /\ AllocatableReserved(p) < r.fraction THEN "normal" ELSE r.ctype
           full  == IF r.ctype = "reserved" THEN 0 ELSE r.full
           frac  == IF r.ctype = "reserved" THEN r.fraction + 1000 * r.full ELSE r.fraction
           useIsol == full > 0 /\ Cardinality(fisol[p]) >= full /\ r.isolate
           src   == IF useIsol THEN fisol[p] ELSE fshar[p]
       IN /\ (full > 0 /\ ~useIsol) => AllocatableShared(p) > 1000 * full
          /\ \E X \in kSubset(full, src) :
               LET fs2 == [q \in Pool |-> IF q \in RelOf(Tree, p) THEN fshar[q] \ X ELSE fshar[q]]
                   fi2 == [q \in Pool |-> IF q \in RelOf(Tree, p) THEN fisol[q] \ X ELSE fisol[q]]
                   \* the fraction is admitted against the supply AFTER the slice
                   allocS == Min({1000 * Cardinality(fs2[a]) - SubtreeShared(a) : a \in {p} \cup AncOf(Tree, p)})
               IN /\ (frac > 0 /\ ctype = "normal") => allocS >= frac
                  /\ (frac > 0 /\ ctype = "reserved") => AllocatableReserved(p) >= frac
                  /\ fshar' = fs2 /\ fisol' = fi2
                  /\ gshar' = [gshar EXCEPT ![p] = @ + (IF ctype = "normal" THEN frac ELSE 0)]
                  /\ grsv'  = [grsv  EXCEPT ![p] = @ + (IF ctype = "reserved" THEN frac ELSE 0)]
                  /\ grant' = grant @@ (c :> [pool |-> p, excl |-> X, isol |-> IF useIsol THEN X ELSE {},
                                              ctype |-> ctype, portion |-> IF ctype = "preserve" THEN 0 ELSE frac])
                  /\ starved' = starved \cup
                        {q \in DescOf(Tree, p) : Sum(LAMBDA d : gshar[d], SubOf(Tree, q)) > 1000 * Cardinality(fs2[q])}

RelBody(c) ==
    /\ c \in DOMAIN grant
    /\ LET g == grant[c]
           backS == [q \in Pool |-> (g.excl \ g.isol) \cap Shar0[q]]
           backI == [q \in Pool |-> g.isol \cap Isol0[q]]
       IN /\ fshar' = [q \in Pool |-> IF q \in RelOf(Tree, g.pool) THEN fshar[q] \cup backS[q] ELSE fshar[q]]
          /\ fisol' = [q \in Pool |-> IF q \in RelOf(Tree, g.pool) THEN fisol[q] \cup backI[q] ELSE fisol[q]]
          /\ gshar' = [gshar EXCEPT ![g.pool] = @ - (IF g.ctype = "normal" THEN g.portion ELSE 0)]
          /\ grsv'  = [grsv  EXCEPT ![g.pool] = @ - (IF g.ctype = "reserved" THEN g.portion ELSE 0)]
          /\ grant' = [d \in DOMAIN grant \ {c} |-> grant[d]]
          /\ starved' = {q \in starved : Sum(LAMBDA d : gshar'[d], SubOf(Tree, q)) > 1000 * Cardinality(fshar'[q])}

Idle == upd = <<>>
Allocate(c, r, p) == Idle /\ c \notin live /\ AllocBody(c, r, p) /\ live' = live \cup {c} /\ UNCHANGED <<dropped, upd>>
Release(c) == Idle /\ RelBody(c) /\ live' = live \ {c} /\ UNCHANGED <<dropped, upd>>
\* stopping a container that a failed update left without a grant: nothing to release
ReleaseGrantless(c) ==
    /\ Idle /\ c \in live \ DOMAIN grant
    /\ live' = live \ {c} /\ dropped' = dropped \ {c} /\ UNCHANGED <<pvars, upd>>

\* UpdateResources(c): releasePool, then allocateResources with the new requirements
UpdateBegin(c, r) == Idle /\ RelBody(c) /\ upd' = [c |-> c, r |-> r] /\ UNCHANGED <<live, dropped>>
UpdateEnd ==
    /\ upd # <<>>
    /\ \/ \E p \in Pool : AllocBody(upd.c, upd.r, p) /\ UNCHANGED dropped
       \* the pool is picked by score, not by admission: the allocation may fail whenever some pool would refuse
       \/ /\ \E p \in Pool : ~ENABLED AllocBody(upd.c, upd.r, p)
          /\ dropped' = dropped \cup {upd.c} /\ UNCHANGED pvars
    /\ upd' = <<>> /\ UNCHANGED live
\* UpdateResources for a container without a grant is a plain allocation
UpdateGrantless(c, r) ==
    /\ Idle /\ c \in live \ DOMAIN grant
    /\ \E p \in Pool : AllocBody(c, r, p)
    /\ dropped' = dropped \ {c} /\ UNCHANGED <<live, upd>>

Next ==
    \/ \E c \in Ctr, r \in Classes, p \in Pool : Allocate(c, r, p)
    \/ \E c \in Ctr : Release(c) \/ ReleaseGrantless(c)
    \/ \E c \in Ctr, r \in Classes : UpdateBegin(c, r) \/ UpdateGrantless(c, r)
    \/ UpdateEnd

Spec == Init /\ [][Next]_tvars

GrantsOf == [c \in DOMAIN grant |-> grant[c]]

-----------------------------------------------------------------------------
(* Re-instating grants after a (re)configuration: policy.reinstateGrants rebuilds the pools and calls               *)
(* supply.Reserve for every saved grant, in map order, i.e. ANY order.  Reserve re-checks admission against the     *)
(* partially rebuilt state.  If any Reserve fails, everything is released and re-allocated from scratch (containers *)
(* may move: C13 "re-applying an unchanged configuration changes no container's resources").  The design question   *)
(* TLC answers: does EVERY order succeed?  It does, unless a pool is starved (F-C03-1) -- and it no longer does when *)
(* the admission test of Reserve is made strict (seeded change C13-m2: '<' -> '<=').                                *)
CONSTANT StrictReserve          \* FALSE: the code as it is (fails iff allocatable < need); TRUE: fails iff allocatable <= need

S0 == [fshar |-> Shar0, fisol |-> Isol0, gshar |-> [p \in Pool |-> 0], grsv |-> [p \in Pool |-> 0]]
SubShared(S, p)   == Sum(LAMBDA q : S.gshar[q], SubOf(Tree, p))
SubReserved(S, p) == Sum(LAMBDA q : S.grsv[q], SubOf(Tree, p))
AllocShared(S, p) == Min({1000 * Cardinality(S.fshar[a]) - SubShared(S, a) : a \in {p} \cup AncOf(Tree, p)})
AllocReserved(S, p) ==
    IF Rsv0[p] = {} THEN -1 ELSE Min({1000 * Cardinality(Rsv0[a]) - SubReserved(S, a) : a \in {p} \cup AncOf(Tree, p)})
\* supply.Reserve(g) on rebuilt state S: <<ok, S'>>
ReserveOn(S, g) ==
    LET p    == g.pool
        ex   == g.excl \ g.isol
        need == 1000 * Cardinality(ex) + g.portion
    IN IF g.ctype = "normal"
       THEN IF ~(g.isol \subseteq S.fisol[p]) \/ ~(ex \subseteq S.fshar[p])
               \/ (IF StrictReserve THEN AllocShared(S, p) <= need ELSE AllocShared(S, p) < need)
            THEN <<FALSE, S>>
            ELSE <<TRUE, [S EXCEPT !.fshar = [q \in Pool |-> IF q \in RelOf(Tree, p) THEN S.fshar[q] \ ex ELSE S.fshar[q]],
                                   !.fisol = [q \in Pool |-> IF q \in RelOf(Tree, p) THEN S.fisol[q] \ g.isol ELSE S.fisol[q]],
                                   !.gshar[p] = @ + g.portion]>>
       ELSE IF g.ctype = "reserved"
       THEN IF g.portion > 0 /\ AllocReserved(S, p) < g.portion THEN <<FALSE, S>>
            ELSE <<TRUE, [S EXCEPT !.grsv[p] = @ + g.portion]>>
       ELSE <<TRUE, S>>                                                   \* cpu.preserve grants reserve nothing
RECURSIVE ReinstateFrom(_, _)
ReinstateFrom(S, order) ==
    IF order = <<>> THEN TRUE
    ELSE LET r == ReserveOn(S, grant[Head(order)]) IN r[1] /\ ReinstateFrom(r[2], Tail(order))
ReinstatesInEveryOrder == \A order \in SetToSeqs(DOMAIN grant) : ReinstateFrom(S0, order)
\* C13 at design level: an identical re-configuration re-instates every grant verbatim, whatever the map order,
\* as long as no pool is starved (F-C03-1) and no update is half done
Inv_ReinstateAnyOrder == (starved = {} /\ upd = <<>>) => ReinstatesInEveryOrder
\* ... and WITH a starved pool some order fails: the root of F-C05-5 (an identical configuration is rejected or moves
\* containers).  Stated as an invariant that TLC must refute.
Inv_ReinstateAlways   == (upd = <<>>) => ReinstatesInEveryOrder

\* design-level invariants
TypeOK == /\ live \subseteq Ctr /\ dropped \subseteq live
          /\ \A p \in Pool : fshar[p] \subseteq Shar0[p] /\ fisol[p] \subseteq Isol0[p] /\ gshar[p] >= 0 /\ grsv[p] >= 0
Inv_ExclDisjoint       == Bad_ExclDisjoint(GrantsOf) = {}
Inv_ExclInPoolShared   == Bad_ExclInPoolShared(Tree, GrantsOf) = {}
\* a starved pool tells its containers an empty shared set; the runtime keeps their old pinning: only the
\* pairs explained by starvation may overlap (F-C03-1), nothing else
Inv_ExclInOthersTold   == Bad_ExclInOthersTold(GrantsOf, Told) = {}
Inv_ToldWithinAllowed  == Bad_ToldOutsideAllowed(Told, AllCpus) = {}
Inv_ReservedMisuse     == Bad_ReservedMisuse(Told, Rsv0[Root], {c \in DOMAIN grant : grant[c].ctype = "reserved"}) = {}
Inv_SharedCapacity     == Bad_SharedCapacity(Tree, GrantsOf) \subseteq starved
Inv_SharedCapacityStrict == Bad_SharedCapacity(Tree, GrantsOf) = {}      \* the property itself: violated by the design (F-C03-1)
Inv_ReservedCapacity   == Bad_ReservedCapacity(Tree, GrantsOf) = {}
Inv_IsolatedAllOrNone  == Bad_IsolatedAllOrNone(GrantsOf) = {} /\ Bad_IsolatedAllOrNoneOf(GrantsOf, Isol0[Root]) = {}
Inv_SharedHasNoIsolated == Bad_SharedHasIsolated(Tree, Isol0[Root]) = {}
Inv_IsolatedOnlyByGrant == Bad_ToldIsolated(GrantsOf, Told, Isol0[Root]) = {}
Inv_Ledger             == Bad_Ledger(Tree, GrantsOf) = {}
\* C09 (CPU half): with no grants left every pool is back at its full supply
Inv_Quiescent == (DOMAIN grant = {}) => (fshar = Shar0 /\ fisol = Isol0 /\ \A p \in Pool : gshar[p] = 0 /\ grsv[p] = 0)
\* every live container holds a grant, except while it is being updated and except the ones a failed update dropped
InUpdate == IF upd = <<>> THEN {} ELSE {upd.c}
Inv_LiveHoldsGrant       == (live \ InUpdate) \ DOMAIN grant \subseteq dropped
Inv_LiveHoldsGrantStrict == (live \ InUpdate) \subseteq DOMAIN grant            \* the property: violated by the design (F-C05-1)
Inv_GrantsAreLive        == DOMAIN grant \subseteq live
=============================================================================
