-------------------------- MODULE Trace_Annotations --------------------------
(***************************************************************************)
(* Trace validation for C18.  One trace line = one generated case replayed *)
(* on the REAL code of one site (cache, epc, memqos, memtierd): the        *)
(* structured annotation set, the container, the plugin configuration and  *)
(* the set of DISTINCT results the real handlers returned over >= 20       *)
(* re-creations of the pod's Go annotation map (different insertion orders *)
(* and map layouts).                                                       *)
(*                                                                         *)
(* For C18 the specification fixes the outcome completely (DESIGN 1.2), so *)
(* every result must EQUAL what Annotations.tla defines:                   *)
(*   Act_C18_Effective         resolved value of every key = Effective     *)
(*   Act_C18_Output            limit / unified map / helper = EpcLimit,    *)
(*                             QosUnified, helper reading of Effective     *)
(*   Act_C18_OrderIndependent  the result set is a singleton               *)
(*   Act_NoPanic               no handler panicked (C14 territory: reported*)
(*                             under its own predicate so that a known     *)
(*                             panic does not mask the C18 verdict)        *)
(*   Act_Terminates            no handler hung                             *)
(* Violations are recorded (pred, sig, witness) and the rest of the trace  *)
(* is still checked.  `cover` collects which part of the input domain was  *)
(* seen; the POSTCONDITION demands the domain the spec defines.            *)
(***************************************************************************)
EXTENDS Annotations, SequencesExt, Json, IOUtils

VARIABLES l, viols, cover, done
tvars == <<l, viols, cover, done>>

Trace == ndJsonDeserialize(IOEnv.TRACE_FILE)
N     == Len(Trace)
E     == Trace[l]

Has(r, f) == f \in DOMAIN r
SetOf(s)  == {s[i] : i \in DOMAIN s}
B2S(b)    == IF b THEN "true" ELSE "false"

Sites    == {"cache", "epc", "memqos", "memtierd"}
QosSites == {"memqos", "memtierd"}

AnnSet(e) == {[key |-> a.key, scope |-> a.scope, ctr |-> a.ctr, val |-> a.val, vp |-> a.vp] : a \in SetOf(e.ann)}

CfgOf(e) == [configured |-> e.cfg.configured, allowed |-> SetOf(e.cfg.allowed), strict |-> e.cfg.strict,
             emptyIsNone |-> e.cfg.emptyIsNone, derived |-> e.cfg.derived]

V(pred, sig, w) == [pred |-> pred, sig |-> sig, w |-> ToString(w), line |-> l, id |-> IF Has(E, "id") THEN E.id ELSE -1,
                    site |-> IF Has(E, "site") THEN E.site ELSE "?"]

-----------------------------------------------------------------------------
(* What the specification says the real code must have returned *)

ExpEff(e) == [k \in SetOf(e.keys) |-> Effective(AnnSet(e), k, e.ctr)]

\* [err, out]
ExpOut(e) ==
    LET S == AnnSet(e)
        c == e.ctr
    IN  CASE e.site = "cache" ->
               LET mt == EffectiveParsed(S, e.hkeys["memory-type"], c)
               IN  [err |-> FALSE,
                    out |-> ("cpu.preserve" :> B2S(Effective(S, e.hkeys["cpu.preserve"], c) = [ok |-> TRUE, v |-> "true"]))
                         @@ ("memory.preserve" :> B2S(Effective(S, e.hkeys["memory.preserve"], c) = [ok |-> TRUE, v |-> "true"]))
                         @@ ("memory-type" :> IF mt.ok THEN mt.vp ELSE e.hnone)]
          [] e.site = "epc" ->
               LET x == EpcLimit(S, e.epckey, c)
               IN  [err |-> x.err, out |-> ("limit" :> x.limit) @@ ("cc" :> x.limit) @@ ("ccerr" :> B2S(x.err))]
          [] OTHER ->
               LET q == QosUnified(S, c, CfgOf(e))
               IN  [err |-> q.err, out |-> q.unified]

-----------------------------------------------------------------------------
(* Signatures: classify the shape of a failure (known findings match on pred + sig) *)

WantScope(S, k, c) == LET w == Winner(S, k, c) IN IF w = {} THEN "none" ELSE (CHOOSE a \in w : TRUE).scope

GotScope(S, k, c, x) ==
    IF ~x.ok THEN "none"
    ELSE LET m == {a \in S : a.key = k /\ a.val = x.v}
         IN  IF m = {} THEN "foreign-value"
             ELSE IF \E a \in m : a.scope = "container" /\ a.ctr = c THEN "container"
             ELSE IF \E a \in m : a.scope = "pod" THEN "pod"
             ELSE IF \E a \in m : a.scope = "bare" THEN "bare"
             ELSE "other-container"

\* an entry addressed to ANOTHER container whose name ends with the site's key suffix
NsfxOther(e) == \E i \in DOMAIN e.ann : e.ann[i].nsfx /\ e.ann[i].scope = "container" /\ e.ann[i].ctr # e.ctr

OutSig(e, r, x) ==
    IF r.err # x.err
    THEN "err-want-" \o B2S(x.err) \o "-got-" \o B2S(r.err)
         \o (IF NsfxOther(e) THEN ":other-container-name-ends-with-key-suffix" ELSE "")
    ELSE CASE e.site = "cache" -> "helper-differs"
           [] e.site = "epc"   -> "limit-differs"
           [] OTHER ->
                LET S   == AnnSet(e)
                    cfg == CfgOf(e)
                    ex  == QosExplicit(S, e.ctr, cfg)
                    cls == QosClass(S, e.ctr, cfg)
                    dv  == IF cls.ok /\ cls.v \in DOMAIN cfg.derived THEN cfg.derived[cls.v] ELSE <<>>
                IN  IF \E p \in DOMAIN ex : /\ p \in DOMAIN dv /\ Has(r.out, p)
                                            /\ r.out[p] # ex[p] /\ r.out[p] = dv[p]
                    THEN "class-value-overrides-explicit-parameter"
                    ELSE "unified-differs"

\* The two input shapes of F-C14-4 (memory-qos nil dereferences, property C14).  What the plugin should answer
\* there -- an error? nothing? -- is not a question of annotation precedence, so on these shapes only the absence
\* of a panic and the resolved values (eff) are judged, not the error flag or the unified map.
\* (The real plugin takes an entry for another container whose name ends with the key suffix for a parameter.)
ShapeUnconfiguredParam(e) ==
    e.site = "memqos" /\ ~e.cfg.configured /\ ((EffKeys(AnnSet(e), e.ctr) \ {ClassKey}) # {} \/ NsfxOther(e))
ShapeClassNoMemory(e) ==
    e.site = "memqos" /\ e.res \in {"nomem", "nores", "nolinux"} /\ Effective(AnnSet(e), ClassKey, e.ctr).ok
OutcomeUndetermined(e) == ShapeUnconfiguredParam(e) \/ ShapeClassNoMemory(e)

PanicSig(e) ==
    IF ShapeUnconfiguredParam(e) THEN "unconfigured+parameter-annotation"
    ELSE IF ShapeClassNoMemory(e) THEN "class+no-memory-resources"
    ELSE "unexpected-panic"

-----------------------------------------------------------------------------
(* The verdict-bearing predicates on one case line *)

CaseViolations(e) ==
    LET S    == AnnSet(e)
        c    == e.ctr
        rs   == SetOf(e.results)
        live == {r \in rs : ~r.panic}
        x    == ExpOut(e)
        badEff(r, f) == {k \in SetOf(e.keys) : ~Has(r[f], k) \/ r[f][k] # Effective(S, k, c)}
    IN  (IF Cardinality(S) # Len(e.ann) \/ ~WellFormed(S) \/ rs = {} \/ e.nruns < 20
         THEN {V("Trace", "malformed-case", e.id)} ELSE {})
        \cup {V("Act_NoPanic", e.site \o ":" \o PanicSig(e), r) : r \in rs \ live}
        \cup (IF Cardinality(IF OutcomeUndetermined(e) THEN {r.eff : r \in live} ELSE live) > 1
              THEN {V("Act_C18_OrderIndependent", e.site \o ":results-differ-between-map-orders", live)} ELSE {})
        \cup UNION {{V("Act_C18_Effective",
                       e.site \o ":want=" \o WantScope(S, k, c) \o ":got=" \o GotScope(S, k, c, IF Has(r.eff, k) THEN r.eff[k] ELSE Absent),
                       <<k, r.eff>>) : k \in badEff(r, "eff")} : r \in live}
        \cup UNION {{V("Act_C18_Effective",
                       e.site \o ":container-api:want=" \o WantScope(S, k, c) \o ":got=" \o GotScope(S, k, c, IF Has(r.eff2, k) THEN r.eff2[k] ELSE Absent),
                       <<k, r.eff2>>) : k \in badEff(r, "eff2")} : r \in {q \in live : Has(q, "eff2")}}
        \cup {V("Act_C18_Output", e.site \o ":" \o OutSig(e, r, x), <<"want", x, "got", [err |-> r.err, out |-> r.out]>>) :
                 r \in {q \in live : ~OutcomeUndetermined(e) /\ (q.err # x.err \/ (~x.err /\ q.out # x.out))}}

CalibViolations(e) ==
    (IF e.bare.panic \/ e.cform.panic THEN {V("Act_NoPanic", e.site \o ":class-calibration", e.class)} ELSE {})
    \cup (IF ~e.bare.panic /\ ~e.cform.panic /\ (e.bare.err # e.cform.err \/ e.bare.out # e.cform.out)
          THEN {V("Act_C18_Output", e.site \o ":class-derived-differs-between-forms", e.class)} ELSE {})

-----------------------------------------------------------------------------
(* Domain coverage: per site, which subsets of the three spellings were present for a key, and    *)
(* (side plugins) whether explicit-over-class and class-alone were both exercised.                 *)
(* At the side plugins the string "<key>/pod" is the container form for a container called "pod". *)

FormToken(e, k) ==
    LET S == AnnSet(e)
        hc == \E a \in S : a.key = k /\ a.scope = "container" /\ a.ctr = e.ctr
        hp == \E a \in S : a.key = k /\ (a.scope = "pod" \/ (e.site \in QosSites /\ a.scope = "container" /\ a.ctr = "pod" /\ e.ctr # "pod"))
        hb == \E a \in S : a.key = k /\ a.scope = "bare"
    IN  e.site \o ":" \o (IF hc THEN "c" ELSE "-") \o (IF hp THEN "p" ELSE "-") \o (IF hb THEN "b" ELSE "-")

QosTokens(e) ==
    IF e.site \notin QosSites THEN {}
    ELSE LET S   == AnnSet(e)
             cfg == CfgOf(e)
             q   == QosUnified(S, e.ctr, cfg)
             cls == QosClass(S, e.ctr, cfg)
             ex  == QosExplicit(S, e.ctr, cfg)
         IN  IF q.err \/ ~cls.ok THEN {}
             ELSE (IF \E p \in DOMAIN cfg.derived[cls.v] : p \in DOMAIN ex /\ ex[p] # cfg.derived[cls.v][p]
                   THEN {e.site \o ":explicit-over-class"} ELSE {})
                  \cup (IF \E p \in DOMAIN cfg.derived[cls.v] : p \notin DOMAIN ex
                        THEN {e.site \o ":class-derived-shown"} ELSE {})

\* sgx-epc resolves a single, fixed key (logged as epckey); the other sites resolve every key of `keys`
KeysResolved(e) == SetOf(e.keys) \cup (IF e.site = "epc" THEN {e.epckey} ELSE {})

CaseTokens(e) == {e.site \o ":seen"} \cup {FormToken(e, k) : k \in KeysResolved(e)} \cup QosTokens(e)
                 \cup (IF \E r \in SetOf(e.results) : r.panic THEN {e.site \o ":panic"} ELSE {})

CoverageDomain(s) ==
    {s \o ":" \o x \o y \o z : x \in {"c", "-"}, y \in {"p", "-"}, z \in {"b", "-"}}
    \cup (IF s \in QosSites THEN {s \o ":explicit-over-class", s \o ":class-derived-shown"} ELSE {})

-----------------------------------------------------------------------------
TrCase ==
    /\ E.ev = "case"
    /\ viols' = viols \o SetToSeq(CaseViolations(E))
    /\ cover' = cover \cup CaseTokens(E)
    /\ l' = l + 1 /\ UNCHANGED done

TrCalib ==
    /\ E.ev = "calib"
    /\ viols' = viols \o SetToSeq(CalibViolations(E))
    /\ l' = l + 1 /\ UNCHANGED <<cover, done>>

TrHang ==
    /\ E.ev = "hang"
    /\ viols' = Append(viols, V("Act_Terminates", E.site \o ":call-did-not-return", E.id))
    /\ l' = l + 1 /\ UNCHANGED <<cover, done>>

TrUnknown ==
    /\ E.ev \notin {"case", "calib", "hang"}
    /\ viols' = Append(viols, V("Trace", "unknown-event", E.ev))
    /\ l' = l + 1 /\ UNCHANGED <<cover, done>>

Finish ==
    /\ l = N + 1 /\ ~done
    /\ ndJsonSerialize(IOEnv.VIOL_FILE, viols)
    /\ PrintT("CONSUMED " \o ToString(l - 1))
    /\ PrintT("COVER " \o ToJson(cover))
    /\ TLCSet(3, cover)
    /\ done' = TRUE /\ UNCHANGED <<l, viols, cover>>

TraceInit == l = 1 /\ viols = <<>> /\ cover = {} /\ done = FALSE /\ TLCSet(3, {})

TraceNext == (l <= N /\ (TrCase \/ TrCalib \/ TrHang \/ TrUnknown)) \/ Finish

TraceSpec == TraceInit /\ [][TraceNext]_tvars

\* the recorded input domain is the one the specification defines (a driver that silently skips inputs fails)
\* (per site, so that the sites can be validated as separate files)
DomainCovered == \A s \in Sites : (s \o ":seen") \in TLCGet(3) => CoverageDomain(s) \subseteq TLCGet(3)
=============================================================================
