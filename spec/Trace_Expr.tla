------------------------------ MODULE Trace_Expr ------------------------------
(***************************************************************************)
(* C19 -- validation of a trace recorded from the real code against Expr.  *)
(*                                                                         *)
(* Line 1 is the header (supplied glob table for the selection half); every*)
(* other line is the record of one point of the domain ExprDom defines:    *)
(*   eval   : the real Validate/Evaluate results of all 11 operators for   *)
(*            one (key, subject, value list), the real KeyValue/ResolveRef *)
(*            results, and filepath.Match(values[j], <spec key value>);    *)
(*   weight : the weights the real annotation parser produced;             *)
(*   choose : the type the real chooseBalloonDef chose (or its error) and, *)
(*            end to end, the balloon type the container landed in.        *)
(* The semantics is fully determined by the property, so every predicate   *)
(* here is verdict-bearing (DESIGN 1.2: for this module Next IS the        *)
(* property).  Violations are recorded (pred, sig, witness), the trace is  *)
(* always consumed to the end.  pred = "Trace" marks a fault of the        *)
(* checking machinery (wrong order, echo differs, table incomplete): the   *)
(* engine reports those as inconclusive, never as a verdict.               *)
(***************************************************************************)
EXTENDS ExprDom

VARIABLES l,       \* next trace line
          viols,   \* recorded violations (at most Cap witnesses per (pred, sig))
          cnt,     \* <<pred, sig>> -> number of violation instances
          cov,     \* coverage tags (vacuity guard)
          drift,   \* observations that are not part of the statement
          prev,    \* index of the previous record (-1: none yet)
          done

tvars == <<l, viols, cnt, cov, drift, prev, done>>

Trace == ndJsonDeserialize(IOEnv.TRACE_FILE)
N     == Len(Trace)
E     == Trace[l]
Hdr   == Trace[1]

Has(r, f) == f \in DOMAIN r

\* supplied glob relation of the selection half
GlobTab == Hdr.glob
GPairs  == {<<GlobTab[i][1], GlobTab[i][2]>> : i \in DOMAIN GlobTab}
GTrue   == {<<GlobTab[i][1], GlobTab[i][2]>> : i \in {j \in DOMAIN GlobTab : GlobTab[j][3]}}
G(p, s) == IF <<p, s>> \in GPairs THEN <<p, s>> \in GTrue
           ELSE Assert(FALSE, <<"glob pair missing from the header table", p, s>>)
HdrOK   == Hdr.ev = "hdr" /\ ChoosePairs \subseteq GPairs /\ Hdr.total = Total

V(pred, sig, w) == [pred |-> pred, sig |-> sig, w |-> w, line |-> l, i |-> IF Has(E, "i") THEN E.i ELSE -1, ev |-> E.ev]

\* record new violation instances: all are counted, the first Cap of every (pred, sig) are kept as witnesses
Cap == 25
RECURSIVE Add(_, _, _)
Add(vl, ct, new) ==
    IF Len(new) = 0 THEN [v |-> vl, c |-> ct]
    ELSE LET x == Head(new)
             k == <<x.pred, x.sig>>
             n == IF k \in DOMAIN ct THEN ct[k] ELSE 0
         IN  Add(IF n < Cap THEN Append(vl, x) ELSE vl, (k :> (n + 1)) @@ ct, Tail(new))
Record(new) == LET a == Add(viols, cnt, SetToSeq(new)) IN viols' = a.v /\ cnt' = a.c

OpIdx(op) == CHOOSE j \in DOMAIN OpSeq : OpSeq[j] = op
B(b) == IF b THEN "true" ELSE "false"

-----------------------------------------------------------------------------
(* eval records *)
EvalCheck ==
    LET pt   == EvalAt(E.i)
        subj == Subjects[pt.s]
        kind == subj.kind
        kvS  == KeyValue(subj, pt.key)
        doc  == KeyDocumented(pt.key, kind)
        kk   == KeyKind(pt.key)
        W(op, got, want) == [key |-> Render(pt.key), op |-> op, values |-> pt.vl, subject |-> subj.id,
                             keyvalue |-> kvS, got |-> got, want |-> want]
        echoOK == /\ E.sp = kvS.present /\ E.sv = kvS.val
                  /\ Len(E.m) = Len(pt.vl) /\ Len(E.mr) = Len(pt.vl) /\ Len(E.ops) = Len(OpSeq) /\ Len(E.subs) = Len(pt.key.subs)
        kvOK   == ~E.kvr.panic /\ E.kvr.ok = kvS.present /\ (kvS.present => E.kvr.val = kvS.val)
        kvObs  == [present |-> E.kvr.ok, val |-> E.kvr.val]
        kvQ    == KeyValueQ(subj, pt.key)
        \* the observed key value is exactly what "a pod's qosclass cannot be resolved" would give (F-C19-2)
        podQos == /\ kvQ # kvS /\ ~E.kvr.panic /\ E.kvr.ok = kvQ.present /\ (kvQ.present => E.kvr.val = kvQ.val)
        kvSig  == IF E.kvr.panic THEN "panic"
                  ELSE IF podQos THEN "pod-qosclass-key-unresolvable"
                  ELSE (IF Len(pt.key.subs) > 1 THEN "joint-" ELSE "")
                       \o (IF E.kvr.ok # kvS.present THEN "key-presence" ELSE "key-value")
        OpV(j) ==
            LET op   == OpSeq[j]
                r    == E.ops[j]
                wf   == WellFormed(op, pt.key, pt.vl, kind)
                want == Eval(op, kvS, pt.vl, E.m)
                star == op \in {"Equals", "In", "NotIn"} /\ "*" \in SetOf(pt.vl)
                        /\ ~r.panic /\ r.res = EvalStar(op, kvS, pt.vl, E.m)
                follows == doc /\ ~kvOK /\ ~E.kvr.panic /\ ~r.panic /\ r.res = Eval(op, kvObs, pt.vl, E.mr)
            IN  (IF wf /\ (r.panic \/ r.res # want)
                 THEN {V("Sem_Eval", IF r.panic THEN "panic:" \o op
                                     ELSE IF star THEN "literal-star-value-acts-as-wildcard"
                                     \* the operator did what it should on the (wrong) key value the code resolved
                                     ELSE IF follows THEN "follows-key-value/" \o kvSig
                                     ELSE "result-differs:" \o op,
                         W(op, IF r.panic THEN "panic" ELSE B(r.res), B(want)))}
                 ELSE {})
                \cup (IF r.valid /\ r.panic
                      THEN {V("Val_ValidNeverFails", "panic:" \o op, W(op, "panic", "a result"))} ELSE {})
        anyValid == \E j \in DOMAIN OpSeq : E.ops[j].valid /\ OpSeq[j] # "AlwaysTrue"
        resErr   == \E i \in DOMAIN E.subs : E.subs[i].err \/ E.subs[i].panic
        resQos   == \A i \in DOMAIN E.subs : (E.subs[i].err \/ E.subs[i].panic) => (~E.subs[i].panic /\ IsPodQos(pt.key.subs[i], kind))
        DualV(pr) ==
            LET a == E.ops[OpIdx(pr[1])]
                b == E.ops[OpIdx(pr[2])]
            IN  IF a.valid /\ b.valid /\ (a.panic \/ b.panic \/ a.res = b.res)
                THEN {V("Dual_Negation", pr[1] \o "/" \o pr[2],
                        W(pr[1] \o "/" \o pr[2], <<B(a.res), B(b.res)>>, "negations of each other"))}
                ELSE {}
        tags == {"eval|" \o OpSeq[j] \o "|" \o kk \o "|" \o (IF kvS.present THEN "present" ELSE "absent") \o "|"
                    \o B(Eval(OpSeq[j], kvS, pt.vl, E.m)) :
                    j \in {k \in DOMAIN OpSeq : WellFormed(OpSeq[k], pt.key, pt.vl, kind)}}
                \cup {"valid|" \o OpSeq[j] : j \in {k \in DOMAIN OpSeq : E.ops[k].valid}}
                \cup {"rejected|" \o OpSeq[j] : j \in {k \in DOMAIN OpSeq : ~E.ops[k].valid}}
                \cup {"dual|" \o pr[1] : pr \in {q \in NegPairs : E.ops[OpIdx(q[1])].valid /\ E.ops[OpIdx(q[2])].valid}}
                \cup (IF Len(pt.key.subs) > 1
                      THEN {"joint|" \o (IF kvS.present THEN (IF \A i \in DOMAIN pt.key.subs : Resolve(subj, pt.key.subs[i]).present
                                                              THEN "all-subkeys" ELSE "some-subkeys") ELSE "no-subkey"),
                            "jointform|" \o pt.key.form}
                      ELSE {})
    IN  IF ~echoOK
        THEN [v |-> {V("Trace", "driver-echo-differs-from-domain", W("", <<E.sp, E.sv>>, <<kvS.present, kvS.val>>))}, c |-> {}, d |-> {}]
        ELSE [v |-> (IF doc /\ ~kvOK THEN {V("Sem_KeyValue", kvSig, W("", E.kvr, kvS))} ELSE {})
                    \cup UNION {OpV(j) : j \in DOMAIN OpSeq}
                    \cup (IF anyValid /\ doc /\ resErr
                          THEN {V("Val_ValidNeverFails", IF resQos THEN "key-resolution-error:pod-qosclass" ELSE "key-resolution-error",
                                  W("", E.subs, "no error"))} ELSE {})
                    \cup UNION {DualV(pr) : pr \in NegPairs},
              c |-> tags,
              \* keys outside the documented grammar of this subject kind: expected absent, observed otherwise
              d |-> IF ~doc /\ ~kvOK
                    THEN {"drift|key-outside-documented-grammar-differs|" \o (IF podQos THEN "explained-by-F-C19-2" ELSE "other") \o "|" \o kind}
                    ELSE {}]

-----------------------------------------------------------------------------
(* weight records *)
WeightCheck ==
    LET w  == Weights[E.i - NEval + 1]
        Wt(got, want) == [anti |-> w.anti, weight |-> w.w, scope |-> w.scope, simple |-> w.simple, got |-> got, want |-> want]
        sw == SignedWeight(w.anti, w.w)
    IN  IF E.panic THEN [v |-> {V("Clamp_Weight", "panic", Wt("panic", "a weight"))}, c |-> {}]
        ELSE IF E.err THEN [v |-> {V("Clamp_Weight", "affinity-rejected", Wt("error", "a weight"))}, c |-> {}]
        ELSE IF Len(E.got) # 1 THEN [v |-> {V("Trace", "expected-exactly-one-affinity", Wt(E.got, "one"))}, c |-> {}]
        ELSE LET g == E.got[1] IN
             [v |-> IF g \notin (-WeightCutoff) .. WeightCutoff
                    THEN {V("Clamp_Weight", "weight-outside-range", Wt(g, "in [-1000,1000]"))}
                    ELSE IF SignedDefined(w.anti, w.w) /\ g # ExpectedWeight(w.anti, w.w)
                    THEN {V("Clamp_Weight", IF sw \in (-WeightCutoff) .. WeightCutoff THEN "in-range-weight-changed"
                                            ELSE "clamped-to-wrong-bound", Wt(g, ExpectedWeight(w.anti, w.w)))}
                    ELSE {},
              c |-> {IF ~SignedDefined(w.anti, w.w) THEN "weight|negation-overflow"
                     ELSE IF w.w = 0 THEN "weight|default"
                     ELSE IF sw > WeightCutoff THEN "weight|clamped-high"
                     ELSE IF sw < -WeightCutoff THEN "weight|clamped-low"
                     ELSE IF sw \in {WeightCutoff, -WeightCutoff} THEN "weight|at-bound" ELSE "weight|in-range"}]

-----------------------------------------------------------------------------
(* choose records *)
GotClass(g) == IF g \in {"panic", "error"} THEN "got-" \o g
               ELSE IF g = DefaultName THEN "got-default"
               ELSE IF g = ReservedName THEN "got-reserved" ELSE "got-other-type"

ChooseCheck ==
    LET at   == ChooseAt(E.i - NEval - NWeight)
        dl   == DefListAt(at.d)
        c    == CCtrs[at.c]
        R    == ChooseDef(G, dl.defs, dl.rsv, c)
        want == IF R.err THEN "error" ELSE R.name
        got  == IF E.panic THEN "panic" ELSE IF E.err THEN "error" ELSE E.name
        lgot == IF E.land.panic THEN "panic" ELSE IF E.land.err THEN "error" ELSE E.land.name
        Wc(g) == [types |-> [i \in DOMAIN dl.defs |-> dl.defs[i].name], reservedNs |-> dl.rsv, deflist |-> at.d,
                  container |-> c.id, ns |-> c.pod.ns, labels |-> c.labels, ann |-> c.ann,
                  clause |-> R.branch, got |-> g, want |-> want]
        effNames == [i \in DOMAIN EffectiveDefs(dl.defs, dl.rsv) |-> EffectiveDefs(dl.defs, dl.rsv)[i].name]
    IN  [v |-> (IF got # want THEN {V("Choose_Def", R.branch \o ":" \o GotClass(got), Wc(got))} ELSE {})
               \cup (IF E.land.done # dl.e2e THEN {V("Trace", "e2e-flag-differs", Wc(E.land.done))} ELSE {})
               \cup (IF E.land.done /\ lgot # want
                     THEN (IF lgot = "error" /\ got = want
                           \* the type was chosen correctly but the allocation failed for another reason: not a verdict
                           THEN {V("Trace", "e2e-allocation-failed", Wc(IF Has(E.land, "msg") THEN E.land.msg ELSE "error"))}
                           ELSE {V("Choose_Lands", R.branch \o ":" \o GotClass(lgot), Wc(lgot))})
                     ELSE {}),
         c |-> {"branch|" \o R.branch} \cup (IF E.land.done THEN {"landed|" \o R.branch} ELSE {}),
         d |-> IF E.eff # effNames THEN {"drift|effective-type-order-differs"} ELSE {}]

-----------------------------------------------------------------------------
OrderViols ==
    IF ~Has(E, "i") \/ ~Has(E, "ev") THEN {V("Trace", "malformed-record", "")}
    ELSE IF E.i < 0 \/ E.i >= Total THEN {V("Trace", "index-outside-domain", E.i)}
    ELSE IF prev >= 0 /\ E.i # prev + 1 THEN {V("Trace", "records-not-consecutive", <<prev, E.i>>)}
    ELSE IF E.ev # KindAt(E.i) THEN {V("Trace", "record-kind-differs-from-domain", <<E.ev, KindAt(E.i)>>)}
    ELSE {}

TrHeader ==
    /\ l = 1
    /\ Record(IF HdrOK THEN {} ELSE {[pred |-> "Trace", sig |-> "header-incomplete", w |-> "", line |-> 1, i |-> -1, ev |-> "hdr"]})
    /\ l' = 2 /\ UNCHANGED <<cov, drift, prev, done>>

TrRecord ==
    /\ l > 1 /\ l <= N
    /\ IF Has(E, "ev") /\ E.ev = "hang"
       THEN /\ Record({V("Val_ValidNeverFails", "call-did-not-return", E.what)})
            /\ UNCHANGED <<cov, drift, prev>>
       ELSE LET ov == OrderViols IN
            IF ov # {}
            THEN /\ Record(ov)
                 /\ prev' = IF Has(E, "i") THEN E.i ELSE prev
                 /\ UNCHANGED <<cov, drift>>
            ELSE LET r == CASE E.ev = "eval"   -> EvalCheck
                            [] E.ev = "weight" -> [v |-> WeightCheck.v, c |-> WeightCheck.c, d |-> {}]
                            [] E.ev = "choose" -> ChooseCheck
                 IN  /\ Record(r.v)
                     /\ cov' = cov \cup r.c
                     /\ drift' = drift \cup r.d
                     /\ prev' = E.i
    /\ l' = l + 1 /\ UNCHANGED done

Finish ==
    /\ l = N + 1 /\ ~done
    /\ ndJsonSerialize(IOEnv.VIOL_FILE, viols)
    /\ ndJsonSerialize(IOEnv.CNT_FILE, SetToSeq({[pred |-> k[1], sig |-> k[2], n |-> cnt[k]] : k \in DOMAIN cnt}))
    /\ ndJsonSerialize(IOEnv.COV_FILE, SetToSeq(cov \cup drift))
    /\ PrintT("CONSUMED " \o ToString(l - 1))
    /\ PrintT("LAST " \o ToString(prev))
    /\ PrintT("DOMAIN " \o ToString(Total))
    /\ PrintT("DRIFT " \o ToString(Cardinality(drift)))
    /\ done' = TRUE /\ UNCHANGED <<l, viols, cnt, cov, drift, prev>>

TraceInit == l = 1 /\ viols = <<>> /\ cnt = <<>> /\ cov = {} /\ drift = {} /\ prev = -1 /\ done = FALSE
TraceNext == TrHeader \/ TrRecord \/ Finish
TraceSpec == TraceInit /\ [][TraceNext]_tvars

ASSUME ExtraOK
=============================================================================
