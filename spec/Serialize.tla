------------------------------ MODULE Serialize ------------------------------
(***************************************************************************)
(* C15 -- request processing is serialized.                                *)
(*                                                                         *)
(* Part 1, the lock protocol.  Processes are concurrently delivered        *)
(* requests (NRI events, Synchronize, configuration updates).  Every       *)
(* request runs the small program of its handler AS THE HANDLER IS TODAY   *)
(* (pkg/resmgr/nri.go, resource-manager.go): accesses to the cache / the   *)
(* policy made before the lock is taken, acquire, accesses inside the      *)
(* critical section, release.  An access takes two steps (begin, end) so   *)
(* that overlapping accesses are visible in a state.                       *)
(*                                                                         *)
(*   holder     the request that owns the resource manager's lock          *)
(*   readers    requests holding the lock in read mode (no handler does    *)
(*              today; RLockKinds is a lead for a seeded mutation)          *)
(*   inacc      the requests that are in the middle of an access           *)
(*   log        per request, its events in program order -- exactly what   *)
(*              the harness records from the real code                     *)
(*   gseq       the lock/unlock events of all requests in the order of the *)
(*              sequence numbers written under the lock                    *)
(*                                                                         *)
(* Property predicates: Inv_Mutex (every access to cache/policy is made by *)
(* the lock holder), Inv_AtMostOne (at most one owner), deadlock freedom   *)
(* (TLC deadlock check), Termination (weak fairness).                      *)
(*                                                                         *)
(* Deviations of the code from the rule "take the lock before touching the *)
(* cache or the policy" (docs/.../architecture.md) are expressed by named   *)
(* constants:                                                              *)
(*   NoLockKinds     kinds whose handler never takes the lock              *)
(*   PreAccessKinds  kinds whose handler looks up the cache and runs hooks *)
(*                   before taking it                                      *)
(* Today both are empty.  Before /repo commit 06edfe4 (finding F-C15-1)    *)
(* they were {StopPodSandbox, Synchronize} and {RemovePodSandbox}          *)
(* (MC_Serialize: OldNoLockKinds, OldPreAccessKinds); with those programs  *)
(* TLC reports Inv_Mutex violated, for all of them and for each kind       *)
(* alone -- the engine re-checks this on every run.  Inv_MutexLocking is   *)
(* Inv_Mutex restricted to the kinds not listed in UnlockedKinds, so that  *)
(* a model with known deviations can still be checked for everything else; *)
(* UnlockedKinds is empty today.                                           *)
(*                                                                         *)
(* Part 2, the pod-resource rendezvous (pkg/resmgr/cache/pod.go):          *)
(* InsertPod starts an asynchronous fetch, GetPodResources waits for it.   *)
(* Act_ReadSeesFetch: a read that starts after InsertPod returned returns  *)
(* what the fetch delivers.  OldOrder = TRUE is the ordering the code had  *)
(* before commit ced198d (wait channel created inside the goroutine); TLC  *)
(* must show it violating the property.                                    *)
(***************************************************************************)
EXTENDS SerializeOps, TLC

CONSTANTS Procs, Kinds,
          NoLockKinds, PreAccessKinds,   \* today's deviations (faithful model)
          RLockKinds, TwiceKinds,        \* leads for seeded mutations: read lock only; locking twice
          UnlockedKinds,                 \* the kinds excused by Inv_MutexLocking
          Readers, OldOrder              \* part 2

None == "none"

VARIABLES kind, pc, holder, readers, inacc, log, gseq, \* part 1
          outcome, ch, wait, res, ins, fetch, rd      \* part 2

lockvars == <<kind, pc, holder, readers, inacc, log, gseq>>
rvvars   == <<outcome, ch, wait, res, ins, fetch, rd>>
vars     == <<lockvars, rvvars>>

-----------------------------------------------------------------------------
(* Part 1 *)

Program(k) ==
    IF k \in NoLockKinds         THEN <<"acc", "acc">>
    ELSE IF k \in PreAccessKinds THEN <<"acc", "acc", "lock", "acc", "unlock">>
    ELSE IF k \in RLockKinds     THEN <<"rlock", "acc", "acc", "runlock">>
    ELSE IF k \in TwiceKinds     THEN <<"lock", "lock", "acc", "unlock", "unlock">>
    ELSE                              <<"lock", "acc", "acc", "unlock">>

Done(p) == pc[p] > Len(Program(kind[p]))
Cur(p)  == Program(kind[p])[pc[p]]

\* the event view (HeldAt, UnlockedAccesses, AlternatesOK) lives in SerializeOps: it is shared with Trace_Serialize, which
\* evaluates it on the events recorded from the real code

InitLock ==
    /\ kind \in [Procs -> Kinds]
    /\ pc = [p \in Procs |-> 1]
    /\ holder = None /\ readers = {} /\ inacc = {}
    /\ log = [p \in Procs |-> <<>>] /\ gseq = <<>>

AccBegin(p) ==
    /\ ~Done(p) /\ Cur(p) = "acc" /\ p \notin inacc
    /\ inacc' = inacc \cup {p}
    /\ log' = [log EXCEPT ![p] = Append(@, [e |-> "acc", held |-> holder = p])]
    /\ UNCHANGED <<kind, pc, holder, readers, gseq>>

AccEnd(p) ==
    /\ p \in inacc
    /\ inacc' = inacc \ {p}
    /\ pc' = [pc EXCEPT ![p] = @ + 1]
    /\ UNCHANGED <<kind, holder, readers, log, gseq>>

\* sync.RWMutex: Lock waits until there is neither a writer nor a reader; it is not re-entrant
Lock(p) ==
    /\ ~Done(p) /\ Cur(p) = "lock"
    /\ holder = None /\ readers = {}
    /\ holder' = p
    /\ pc' = [pc EXCEPT ![p] = @ + 1]
    /\ log' = [log EXCEPT ![p] = Append(@, [e |-> "lock", held |-> TRUE])]
    /\ gseq' = Append(gseq, [e |-> "lock", q |-> p])
    /\ UNCHANGED <<kind, readers, inacc>>

Unlock(p) ==
    /\ ~Done(p) /\ Cur(p) = "unlock" /\ holder = p
    /\ holder' = None
    /\ pc' = [pc EXCEPT ![p] = @ + 1]
    /\ log' = [log EXCEPT ![p] = Append(@, [e |-> "unlock", held |-> TRUE])]
    /\ gseq' = Append(gseq, [e |-> "unlock", q |-> p])
    /\ UNCHANGED <<kind, readers, inacc>>

\* the shadowing Lock()/Unlock() of verif builds do not see RLock/RUnlock: no event is recorded
RLock(p) ==
    /\ ~Done(p) /\ Cur(p) = "rlock" /\ holder = None
    /\ readers' = readers \cup {p}
    /\ pc' = [pc EXCEPT ![p] = @ + 1]
    /\ UNCHANGED <<kind, holder, inacc, log, gseq>>

RUnlock(p) ==
    /\ ~Done(p) /\ Cur(p) = "runlock"
    /\ readers' = readers \ {p}
    /\ pc' = [pc EXCEPT ![p] = @ + 1]
    /\ UNCHANGED <<kind, holder, inacc, log, gseq>>

StepLock(p) == AccBegin(p) \/ AccEnd(p) \/ Lock(p) \/ Unlock(p) \/ RLock(p) \/ RUnlock(p)
AllDone     == \A p \in Procs : Done(p)
NextLock    == (\E p \in Procs : StepLock(p)) \/ (AllDone /\ UNCHANGED lockvars)

\* --- predicates --------------------------------------------------------------------------------------------------
Bad_Mutex        == {p \in inacc : holder # p}
Inv_Mutex        == Bad_Mutex = {}
Inv_MutexLocking == {p \in Bad_Mutex : kind[p] \notin UnlockedKinds} = {}
Inv_AtMostOne    == Cardinality((IF holder = None THEN {} ELSE {holder}) \cup readers) <= 1
\* what the harness derives from a request's recorded events is what really happened
Inv_EventView    == \A p \in Procs : \A i \in DOMAIN log[p] :
                        log[p][i].e = "acc" => (log[p][i].held <=> HeldAt(log[p], i))
\* ... and the recorded lock events alternate exactly when the lock has at most one owner
Inv_SeqView      == AlternatesOK(gseq, holder # None)
TypeOKLock == /\ kind \in [Procs -> Kinds] /\ holder \in Procs \cup {None} /\ readers \subseteq Procs /\ inacc \subseteq Procs
              /\ \A p \in Procs : pc[p] \in 1..(Len(Program(kind[p])) + 1)
Termination == <>AllDone

-----------------------------------------------------------------------------
(* Part 2: the rendezvous.
   ch      the channel the agent delivers on: "empty", "value" (delivered, then closed), "closed" (closed without a
           value: timeout or error), "nochan" (no pod-resources client: InsertPod gets a nil channel)
   wait    pod.waitResCh: "nil" | "open" | "closed"
   res     pod.PodResources: "none" | "v"
   ins     InsertPod: "start" -> ... -> "done" (returned)
   fetch   the fetch goroutine: "idle" | "mkwait" | "recv" | "close" | "done"
   rd      readers (GetPodResources): pc "idle" | "waiting" | "ret" | "done"; after = started after InsertPod returned *)

Expected == IF outcome = "value" THEN "v" ELSE "nil"

InitRv ==
    /\ outcome \in {"value", "closed", "nochan"}
    /\ ch \in (IF outcome = "nochan" THEN {"nochan"} ELSE {"empty", outcome})     \* possibly delivered before InsertPod
    /\ wait = "nil" /\ res = "none" /\ ins = "start" /\ fetch = "idle"
    /\ rd = [r \in Readers |-> [pc |-> "idle", after |-> FALSE, got |-> "none"]]

Deliver == /\ ch = "empty" /\ ch' = outcome
           /\ UNCHANGED <<outcome, wait, res, ins, fetch, rd>>

\* goFetchPodResources, new order: p.waitResCh = make(...); go func(){...}()   -- old order: go func(){ p.waitResCh = make(...) ...}()
InsMkWait == /\ ~OldOrder /\ ins = "start" /\ wait' = "open" /\ ins' = "spawn"
             /\ UNCHANGED <<outcome, ch, res, fetch, rd>>
InsSpawn  == /\ ins = (IF OldOrder THEN "start" ELSE "spawn")
             /\ fetch' = (IF OldOrder THEN "mkwait" ELSE "recv") /\ ins' = "ret"
             /\ UNCHANGED <<outcome, ch, wait, res, rd>>
InsReturn == /\ ins = "ret" /\ ins' = "done"
             /\ UNCHANGED <<outcome, ch, wait, res, fetch, rd>>

FetchMkWait == /\ fetch = "mkwait" /\ wait' = "open" /\ fetch' = "recv"
               /\ UNCHANGED <<outcome, ch, res, ins, rd>>
FetchRecv   == /\ fetch = "recv" /\ ch # "empty"
               /\ res' = (IF ch = "value" THEN "v" ELSE res) /\ fetch' = "close"
               /\ UNCHANGED <<outcome, ch, wait, ins, rd>>
FetchClose  == /\ fetch = "close" /\ wait' = "closed" /\ fetch' = "done"
               /\ UNCHANGED <<outcome, ch, res, ins, rd>>

ReadStart(r) == /\ rd[r].pc = "idle"
                /\ rd' = [rd EXCEPT ![r] = [pc |-> IF wait = "nil" THEN "ret" ELSE "waiting", after |-> ins = "done", got |-> "none"]]
                /\ UNCHANGED <<outcome, ch, wait, res, ins, fetch>>
ReadWait(r)  == /\ rd[r].pc = "waiting" /\ wait = "closed"
                /\ rd' = [rd EXCEPT ![r].pc = "ret"]
                /\ UNCHANGED <<outcome, ch, wait, res, ins, fetch>>
ReadRet(r)   == /\ rd[r].pc = "ret"
                /\ rd' = [rd EXCEPT ![r].pc = "done", ![r].got = IF res = "v" THEN "v" ELSE "nil"]
                /\ UNCHANGED <<outcome, ch, wait, res, ins, fetch>>

RvDone == ins = "done" /\ fetch = "done" /\ \A r \in Readers : rd[r].pc = "done"
NextRv == Deliver \/ InsMkWait \/ InsSpawn \/ InsReturn \/ FetchMkWait \/ FetchRecv \/ FetchClose
          \/ (\E r \in Readers : ReadStart(r) \/ ReadWait(r) \/ ReadRet(r))
          \/ (RvDone /\ UNCHANGED rvvars)

\* a read that starts after InsertPod returned returns what the fetch delivers
Bad_ReadSeesFetch == {r \in Readers : rd[r].pc = "done" /\ rd[r].after /\ rd[r].got # Expected}
Act_ReadSeesFetch == Bad_ReadSeesFetch = {}
RvTermination == <>RvDone

-----------------------------------------------------------------------------
IdleRv  == /\ outcome = "nochan" /\ ch = "nochan" /\ wait = "nil" /\ res = "none" /\ ins = "start" /\ fetch = "idle"
           /\ rd = [r \in Readers |-> [pc |-> "idle", after |-> FALSE, got |-> "none"]]
IdleLock == /\ kind = [p \in Procs |-> CHOOSE k \in Kinds : TRUE] /\ pc = [p \in Procs |-> 1] /\ holder = None /\ readers = {}
            /\ inacc = {} /\ log = [p \in Procs |-> <<>>] /\ gseq = <<>>

SpecLock == /\ InitLock /\ IdleRv /\ [][NextLock /\ UNCHANGED rvvars]_vars
            /\ \A p \in Procs : WF_vars(StepLock(p) /\ UNCHANGED rvvars)
SpecRv   == /\ InitRv /\ IdleLock /\ [][NextRv /\ UNCHANGED lockvars]_vars
            /\ WF_vars(NextRv /\ ~RvDone /\ UNCHANGED lockvars)
            /\ WF_vars(Deliver /\ UNCHANGED lockvars) /\ WF_vars((FetchMkWait \/ FetchRecv \/ FetchClose) /\ UNCHANGED lockvars)
            /\ WF_vars((InsMkWait \/ InsSpawn \/ InsReturn) /\ UNCHANGED lockvars)
            /\ \A r \in Readers : WF_vars((ReadStart(r) \/ ReadWait(r) \/ ReadRet(r)) /\ UNCHANGED lockvars)
=============================================================================
