SPECIFICATION Spec
CONSTANTS
  Chunks = 2
  MaxVer = 4
  Deviation = "none"
INVARIANTS TypeOK Inv_FileIsCompleteSnapshot Inv_LoadsWithoutError Inv_RefuseUnsafePath
PROPERTIES Act_ReloadEqualsLastSave
CHECK_DEADLOCK FALSE
