SPECIFICATION CoverSpec
CHECK_DEADLOCK FALSE
