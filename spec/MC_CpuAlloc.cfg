SPECIFICATION Spec
CONSTANTS
  CPUs <- MCCPUs
INVARIANTS TypeOK
PROPERTIES Act_AllocExact Act_ReleaseExact Act_OverAskFails Act_Conserved
