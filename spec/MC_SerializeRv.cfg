\* Part 2: the pod-resource rendezvous with the ordering the code has today (wait channel created before the goroutine
\* starts).  engines/serialize.py re-runs it with OldOrder = TRUE: TLC must then report Act_ReadSeesFetch violated.
SPECIFICATION SpecRv
CONSTANTS
  Procs <- MCProcs
  Kinds <- MCKinds
  Readers <- MCReaders
  p1 = p1
  p2 = p2
  p3 = p3
  r1 = r1
  r2 = r2
  NoLockKinds = {}
  PreAccessKinds = {}
  RLockKinds = {}
  TwiceKinds = {}
  UnlockedKinds = {}
  OldOrder = FALSE
INVARIANTS Act_ReadSeesFetch
PROPERTIES RvTermination
CHECK_DEADLOCK TRUE
