------------------------------- MODULE MemOps -------------------------------
(***************************************************************************)
(* Pure operators over a memory layout and an assignment of requests to    *)
(* zones (no variables): capacity, usage of a node set by the allocations  *)
(* confined to it, and the overcommit predicates of C07/C04.  Shared by    *)
(* MemAlloc (libmem), the policy specs and the trace specs.                *)
(***************************************************************************)
EXTENDS Integers, FiniteSets, Sequences, TLC, FiniteSetsExt, SequencesExt

AllTypes == {"DRAM", "PMEM", "HBM"}
Prios    == {"besteffort", "burstable", "guaranteed", "preserved", "reservation"}
PrioRank(p) == CASE p = "besteffort" -> 0 [] p = "burstable" -> 1 [] p = "guaranteed" -> 2
                 [] p = "preserved" -> 3 [] p = "reservation" -> 4

-----------------------------------------------------------------------------
(* Layout helpers *)

HasMem(L)        == {n \in L.nodes : L.cap[n] > 0}
ByTypes(L, T)    == {n \in HasMem(L) : L.type[n] \in T}         \* masks.nodes.byTypes (nodes with memory only)
AvailTypes(L)    == {L.type[n] : n \in HasMem(L)}                \* masks.types
NormalNodes(L)   == L.normal \cap HasMem(L)                      \* masks.nodes.normal
TypesOfAll(L, Z) == {L.type[n] : n \in Z \cap L.nodes}           \* zoneType()
Cap(L, Z)        == MapThenSumSet(LAMBDA n : L.cap[n], Z \cap HasMem(L))

-----------------------------------------------------------------------------
(* Usage / overcommit *)

Confined(zn, Z) == {i \in DOMAIN zn : zn[i] \subseteq Z}
Usage(rq, zn, Z) == LET C == Confined(zn, Z) IN
                    MapThenSumSet(LAMBDA i : rq[i].size, C)

\* The property (C07/C04): EVERY node set that has allocations confined to it fits.
BadSets(L, rq, zn) ==
    {Z \in SUBSET L.nodes : Z # {} /\ Confined(zn, Z) # {} /\ Usage(rq, zn, Z) > Cap(L, Z)}
\* What the code checks (checkOvercommit): only masks that are some request's zone.
BadAssigned(L, rq, zn) ==
    {Z \in {zn[i] : i \in DOMAIN zn} : Usage(rq, zn, Z) > Cap(L, Z)}

=============================================================================
