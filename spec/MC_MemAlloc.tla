---------------------------- MODULE MC_MemAlloc ----------------------------
EXTENDS MemAlloc

\* Layout A: 2 DRAM (cap 4) + 1 CPU-less PMEM (cap 6, movable only); B: DRAM + DRAM + HBM (small)
D3(a, b, c) == (0 :> (0 :> 10 @@ 1 :> a @@ 2 :> b) @@ 1 :> (0 :> a @@ 1 :> 10 @@ 2 :> c) @@ 2 :> (0 :> b @@ 1 :> c @@ 2 :> 10))
LayA == [nodes |-> {0, 1, 2}, type |-> (0 :> "DRAM" @@ 1 :> "DRAM" @@ 2 :> "PMEM"),
         cap |-> (0 :> 4 @@ 1 :> 4 @@ 2 :> 6), normal |-> {0, 1}, dist |-> D3(21, 17, 28)]
LayB == [nodes |-> {0, 1, 2}, type |-> (0 :> "DRAM" @@ 1 :> "DRAM" @@ 2 :> "HBM"),
         cap |-> (0 :> 4 @@ 1 :> 3 @@ 2 :> 2), normal |-> {0, 1, 2}, dist |-> D3(21, 12, 12)]
MCLayouts == {LayA, LayB}

R(s, p, st, ty, af) == [size |-> s, prio |-> p, strict |-> st, types |-> ty, aff |-> af]
MCReqMenu == { R(3, "burstable", FALSE, {}, {0}), R(3, "guaranteed", FALSE, {}, {1}),
               R(2, "burstable", TRUE, {"DRAM"}, {0}),
               R(3, "reservation", FALSE, {}, {0}), R(2, "besteffort", FALSE, {"PMEM", "HBM"}, {1}) }
CONSTANTS a, b, c
MCIds == {a, b, c}
Symm == Permutations(MCIds)
MCReallocNodes == {{}, {1}, {2}}
MCReallocTypes == {{}, {"PMEM"}, {"DRAM"}}
\* driver generation (simulation) also asks for a type mask that names a type the machine may not have at all
SimReallocTypes == MCReallocTypes \cup {{"DRAM", "HBM"}}
=============================================================================
