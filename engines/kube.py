"""Engine C20: resource requirements reconstructed from cgroup parameters (input-space property of pure functions).

1. design check: TLC exhaustively on MC_Kube -- every request/limit 0..256000 mCPU x every period of the tier goes
   through the kubelet's encoding (Kube!Shares, Kube!Quota) and the reference decoders; the laws of the property hold
   on them (they are satisfiable, today's rounding satisfies them) and Preimage covers the domain.  The same run
   prints Kube!Plan(tier): the input domain of the conformance run.
2. the Go driver (harness/cmd/kubedrv) executes that plan on the REAL code: full function tables of
   SharesToMilliCPU (2..262144), MilliCPUToShares / MilliCPUToQuota / their round trip (0..256000), QuotaToMilliCPU
   (strided and dense, several periods), the OOM-adjustment -> memory-request table for every planned node capacity
   (SetMemoryCapacity + OomAdjToMemReq for adj 3..999), and estimateResourceRequirements through a real
   cache.InsertContainer for the planned container cases.
3. TLC (Trace_Kube) evaluates the laws on every record and checks line by line that the recorded inputs are the
   planned ones; Cover_Kube checks that the chunks tile the plan.  Skipped inputs => inconclusive (exit 2).
Byte quantities are logged as little-endian limbs in base 10^6 (TLC integers are 32 bit).
"""
import concurrent.futures as cf
import json
import os
import re
import shutil
import time

import vlib

PROPS = ["C20"]

PREDS = {"Law_RequestFromShares", "Law_RoundTrip", "Law_LimitFromQuota", "Law_Monotone", "Law_MemTableBuilds",
         "Law_MemMapsBack", "Law_Estimate"}

WEIGHT = {"s2m": 1, "rt": 1, "m2s": 1, "m2q": 1, "q2m": 1, "memd": 5, "memp": 3, "memr": 7, "memw": 16, "est": 2}
JVM_OPTS = {"JAVA_TOOL_OPTIONS": "-XX:ParallelGCThreads=2 -XX:CICompilerCount=2"}


def _dir(ctx, name):
    d = os.path.join(ctx.out, name)
    os.makedirs(d, exist_ok=True)
    return d


def design_check(ctx):
    cfg = open(os.path.join(vlib.SPEC, "MC_Kube.cfg")).read().replace('Tier = "quick"', 'Tier = "%s"' % ctx.tier)
    cfgp = ctx.path("MC_Kube.cfg")
    open(cfgp, "w").write(cfg)
    mc = vlib.tlc("MC_Kube", cfgp, _dir(ctx, "mc"), workers=vlib.NCPU, timeout=900)
    if not mc["ok"]:
        raise vlib.Inconclusive("design model check did not pass: violated=%s error=%s\n%s" % (mc["violated"], mc["error"], mc["out"][-3000:]))
    plans = vlib.tlc_prints(mc["out"], "PLAN")
    if len(plans) != 1 or plans[0].get("tier") != ctx.tier:
        raise vlib.Inconclusive("the design run did not print the plan")
    return mc, plans[0]


def make_chunks(segs, only=None):
    """Consecutive segments packed into chunks of similar estimated TLC cost."""
    if only:
        return [[k, k] for k in sorted(set(only))]
    total = sum(WEIGHT[s["ev"]] for s in segs)
    target = max(4.0, total / (3.0 * vlib.NCPU))
    chunks, first, acc = [], 1, 0
    for k, s in enumerate(segs, 1):
        acc += WEIGHT[s["ev"]]
        if acc >= target or k == len(segs):
            chunks.append([first, k])
            first, acc = k + 1, 0
    return chunks


def run_driver(ctx, binp, plan, timeout):
    pp = ctx.path("plan.json")
    json.dump(plan, open(pp, "w"))
    rc, out = vlib.sh("timeout %d %s --plan %s 2>%s" % (timeout, binp, pp, ctx.path("driver.err")), timeout=timeout + 30)
    if rc == 4:
        return None, True
    if rc != 0:
        err = open(ctx.path("driver.err")).read()[-3000:]
        raise vlib.Inconclusive("driver failed rc=%d:\n%s\n%s" % (rc, out[-1000:], err))
    m = re.search(r"LINES (\d+) CHUNKS (\d+) WALL_MS (\d+)", out)
    if not m:
        raise vlib.Inconclusive("driver printed no summary:\n%s" % out[-2000:])
    return {"lines": int(m.group(1)), "chunks": int(m.group(2)), "driver_wall_ms": int(m.group(3))}, False


def validate_chunk(ctx, fp, timeout):
    md = ctx.path("tv", os.path.basename(fp))
    env = dict(JVM_OPTS)
    env["TIER"] = ctx.tier
    r = vlib.validate_trace("Trace_Kube", "Trace_Kube.cfg", fp, md, timeout=timeout, heap="3g", env=env)
    if r["consumed"] is None or r["consumed"] != r["total"]:
        raise vlib.Inconclusive("trace validation did not consume %s (%s of %s): %s\n%s" % (
            fp, r["consumed"], r["total"], r["res"]["error"], r["res"]["out"][-2500:]))
    covs = vlib.tlc_prints(r["res"]["out"], "COVER")
    if len(covs) != 1:
        raise vlib.Inconclusive("no coverage verdict for %s" % fp)
    m = re.search(r'"?DRIFT (\d+)"?', r["res"]["out"])
    drift = int(m.group(1)) if m else 0
    viols = []
    if r["viols"]:
        want = {}
        for v in r["viols"]:
            want.setdefault(v["line"], []).append(v)
        with open(fp) as f:
            for ln, l in enumerate(f, 1):
                if ln in want:
                    e = json.loads(l)
                    for v in want[ln]:
                        v = dict(v)
                        v.update({"chunk": os.path.basename(fp), "seg": e.get("seg"), "ev": e.get("ev")})
                        v["witness"] = witness(e, v)
                        viols.append(v)
    if not viols and not ctx.keep:
        os.remove(fp)
    shutil.rmtree(md, ignore_errors=True)
    return covs[0], viols, {"lines": r["consumed"], "drift": drift}


def unlimb(l):
    return sum(int(d) * (10 ** 6) ** i for i, d in enumerate(l))


def witness(e, v):
    """The recorded input/output the violation is about, in plain numbers."""
    ev = e.get("ev")
    if ev in ("s2m", "rt", "m2s", "m2q", "q2m"):
        i = v["at"] - e["lo"]
        w = {"input": v["at"] * (e.get("st") or 1) if ev == "q2m" else v["at"], "output": e["v"][i] if 0 <= i < len(e["v"]) else None}
        if 0 <= i + 1 < len(e["v"]):
            w["next_output"] = e["v"][i + 1]
        if ev == "q2m":
            w["period"] = e["p"]
        return w
    if ev == "mem":
        w = {"capacity": unlimb(e["cap"]), "panic": e["panic"], "hang": e["hang"]}
        a = v["at"]
        if not e["panic"] and not e["hang"] and 0 <= a - 3 < len(e["est"]):
            req = unlimb(e["est"][a - 3])
            w.update({"adj": a, "estimated_request": req, "maps_back_to": 1000 - (1000 * req) // unlimb(e["cap"])})
        return w
    if ev == "est":
        return {k: (unlimb(e[k]) if k in ("cap", "memreq") and e[k] else e[k]) for k in e if k not in ("ev",)}
    return {}


def replay_segs(viols, limit=20):
    """Segments to re-run: first one per violation kind, then the remaining ones up to the limit."""
    first = {}
    for v in viols:
        first.setdefault((v["pred"], v["sig"]), v["seg"])
    segs = list(dict.fromkeys(first.values()))
    for v in viols:
        if len(segs) >= limit:
            break
        if v["seg"] not in segs:
            segs.append(v["seg"])
    return sorted(segs)


def run(ctx):
    q = ctx.quick
    ctx.keep = bool(os.environ.get("VERIF_KEEP"))
    binp = vlib.build_harness(cmd="kubedrv")

    # 1. design check + plan -----------------------------------------------------------------------
    mc, plan = design_check(ctx)
    segs = plan["segs"]
    vlib.log("design MC: %d distinct states, %.1fs; plan has %d segments (t=%.0fs)" % (mc["distinct"], mc["wall_s"], len(segs), time.time() - ctx.t0))

    only = None
    if ctx.replay:
        rp = json.load(open(ctx.replay))
        if rp["replay"]["tier"] != ctx.tier:
            raise vlib.Inconclusive("replay file was recorded for tier %s (use --tier %s)" % (rp["replay"]["tier"], rp["replay"]["tier"]))
        only = rp["replay"]["segs"]
        ctx.seed = rp["replay"]["seed"]
    plan.update({"seed": int(ctx.seed), "workers": vlib.NCPU, "out": _dir(ctx, "tr"), "statedir": _dir(ctx, "state"),
                 "chunks": make_chunks(segs, only)})

    # 2. function graph of the real code --------------------------------------------------------------
    drv, hang = run_driver(ctx, binp, plan, 600 if q else 3000)
    trd = os.path.join(ctx.out, "tr")
    if hang:
        # SetMemoryCapacity did not return: the line is in one of the chunk files
        vs = []
        for fn in sorted(os.listdir(trd)):
            for l in open(os.path.join(trd, fn)):
                if '"hang":true' in l:
                    e = json.loads(l)
                    vs.append({"pred": "Law_MemTableBuilds", "sig": "table-build-did-not-return", "seg": e["seg"],
                               "witness": {"capacity": unlimb(e["cap"])}})
        if not vs:
            raise vlib.Inconclusive("driver reported a hang but recorded none")
        return vlib.verdict(ctx, vs, "model_checking", {"states": mc["distinct"], "transitions": mc["generated"],
                                                         "traces_validated_against_impl": 0, "samples": vs[:1]}, [],
                            {"tier": ctx.tier, "seed": ctx.seed, "segs": sorted({v["seg"] for v in vs})})
    vlib.log("driver: %s (t=%.0fs)" % (drv, time.time() - ctx.t0))
    index = vlib.read_ndjson(os.path.join(trd, "index.ndjson"))
    files = [os.path.join(trd, i["file"]) for i in index]
    inputs = {}
    for i in index:
        for k, n in i["inputs"].items():
            inputs[k] = inputs.get(k, 0) + n
    samples = [json.loads(open(files[0]).read().splitlines()[1][:200000])]
    samples[0]["v"] = samples[0]["v"][:16]

    # 3. TLC: laws on every record, per-chunk plan check, cross-chunk coverage ---------------------------
    with cf.ThreadPoolExecutor(max_workers=vlib.NCPU) as ex:
        results = list(ex.map(lambda fp: validate_chunk(ctx, fp, 1200 if q else 6000), files))
    vlib.log("TLC validated %d chunks (t=%.0fs)" % (len(files), time.time() - ctx.t0))
    covers = [c for c, _, _ in results]
    viols = [v for _, vv, _ in results for v in vv]
    drift = sum(s["drift"] for _, _, s in results)
    consumed = sum(s["lines"] for _, _, s in results)
    if consumed != drv["lines"] + len(files):
        raise vlib.Inconclusive("TLC consumed %d lines, the driver wrote %d lines in %d chunks" % (consumed, drv["lines"], len(files)))
    tiles = None
    if not only:
        cp = ctx.path("cover.ndjson")
        vlib.write_ndjson(cp, covers)
        r = vlib.tlc("Cover_Kube", "Cover_Kube.cfg", _dir(ctx, "cv"), workers=1, timeout=120, env={"COVER_FILE": cp, "TIER": ctx.tier})
        t = vlib.tlc_prints(r["out"], "TILES")
        if not r["ok"] or len(t) != 1:
            raise vlib.Inconclusive("coverage check did not run: %s\n%s" % (r["error"], r["out"][-2000:]))
        tiles = t[0]
        if not tiles["ok"]:
            badc = [c for c in covers if not c["ok"]][:3]
            raise vlib.Inconclusive("the recorded domain is not the domain Kube!Plan(%s) defines; first bad chunks: %s" % (ctx.tier, json.dumps(badc)[:1500]))
    elif not all(c["ok"] for c in covers):
        raise vlib.Inconclusive("replayed segments do not match the plan: %s" % json.dumps([c for c in covers if not c["ok"]][:3])[:1500])

    mine = [v for v in viols if v["pred"] in PREDS]
    if len(mine) != len(viols):
        raise vlib.Inconclusive("trace spec reported an unknown predicate: %s" % sorted({v["pred"] for v in viols} - PREDS))

    # vacuity guard: every kind of input was recorded in the planned amount
    evaluations = sum(inputs.values())
    if not only:
        need = {"s2m": 262143, "rt": 256001, "m2s": 256001, "m2q": 256001, "est": 1}
        short = [k for k, n in need.items() if inputs.get(k, 0) < n] + \
            [k for k in ("q2m", "memd", "memp", "memr") + (() if q else ("memw",)) if inputs.get(k, 0) == 0]
        if short:
            raise vlib.Inconclusive("drivers never exercised: %s (%s)" % (short, inputs))

    ncap = sum(inputs.get(k, 0) for k in ("memd", "memp", "memr", "memw"))
    cov = {"states": mc["distinct"], "transitions": mc["generated"], "design_depth": mc["depth"],
           "design_config": "MC_Kube: every request/limit 0..256000 mCPU x %d periods through kubelet encoding and reference decoders; "
                            "5 invariants + limb-arithmetic assumptions" % len({s["p"] for s in segs if s["ev"] == "q2m" and s["st"] != 1}),
           "traces_validated_against_impl": len(files), "trace_events": drv["lines"], "evaluations": evaluations,
           "distinct_nontrivial": evaluations,
           "rule": "one evaluation = one input of a recorded function table of the real code (a shares value, a mCPU value, a quota/period "
                   "pair, a node capacity with its 997-entry estimate table, a container created through cache.InsertContainer) on which TLC "
                   "evaluated the laws; inputs are pairwise distinct by construction of Kube!Plan",
           "inputs": inputs, "memory_capacities": ncap, "estimate_entries_checked": ncap * 997,
           "drift_from_reference_decoders": drift,
           "coverage_postcondition": tiles, "driver_wall_ms": drv["driver_wall_ms"], "predicates": sorted(PREDS),
           "samples": samples, "exhaustive": True,
           "exhaustive_note": "exhaustive over shares 2..262144, mCPU 0..256000, the tier's periods and dense capacity range; "
                              "%d seeded random capacities (VERIF_SEED)" % inputs.get("memr", 0)}
    if not ctx.keep and not mine:
        shutil.rmtree(trd, ignore_errors=True)
    shutil.rmtree(os.path.join(ctx.out, "state"), ignore_errors=True)
    return vlib.verdict(ctx, mine, "model_checking", cov,
                        ["TLC and the Json community module",
                         "the kubelet's encodings are the formulas in Kube.tla (Shares, Quota with whole-millisecond periods, "
                         "oom adj = 1000 - 1000*request/capacity)",
                         "byte quantities are exact little-endian limbs in base 10^6; capacities range from 1 MiB to 2^46+1",
                         "container cases use memory limit 0 (none) and a node capacity of 16 GiB + 12345"],
                        {"tier": ctx.tier, "seed": int(ctx.seed), "segs": replay_segs(mine)})
