"""History generators for the L2 engines (real resource manager driven through its NRI handlers).

A history = {"world": {policy, machine|fixture, config, name}, "ops": [...]}; see harness/internal/l2/world.go.
Everything random is drawn from a random.Random seeded by the caller (VERIF_SEED)."""
import copy
import json
import os
import random

import vlib

RP = "resource-policy.nri.io"
ANN = {
    "shared": "prefer-shared-cpus." + RP, "isol": "prefer-isolated-cpus." + RP, "rsv": "prefer-reserved-cpus." + RP,
    "pcpu": "cpu.preserve." + RP, "pmem": "memory.preserve." + RP, "memtype": "memory-type." + RP,
    "hideht": "hide-hyperthreads." + RP, "balloon": "balloon.balloons." + RP, "cold": "cold-start." + RP,
}

_machines = None


def machines(binp):
    """Builtin generated machines (sysgen), as JSON, from the harness binary."""
    global _machines
    if _machines is None:
        rc, out = vlib.sh([binp, "--machines"], timeout=60)
        line = [l for l in out.splitlines() if l.startswith("MACHINES ")]
        if not line:
            raise vlib.Inconclusive("harness did not print its machines: " + out[-500:])
        _machines = json.loads(line[0][len("MACHINES "):])
    return _machines


def machine_cpus(m):
    cpus = []
    for p in m["packages"]:
        for d in p["dies"]:
            for n in d["nodes"]:
                for c in n.get("cores") or []:
                    cpus += c["cpus"]
    off = set(m.get("offline") or [])
    return sorted(c for c in cpus if c not in off)


# ----------------------------------------------------------------------------------------- topology-aware worlds

def with_isolated(m, rnd):
    """A variant of machine m with 2-4 more kernel-isolated CPUs (whole cores where possible)."""
    m = copy.deepcopy(m)
    cores = []
    for p in m["packages"]:
        for d in p["dies"]:
            for n in d["nodes"]:
                for c in n.get("cores") or []:
                    cores.append(list(c["cpus"]))
    off = set(m.get("offline") or [])
    cores = [[c for c in k if c not in off] for k in cores[1:]]        # keep the first core for the reserved CPU
    cores = [k for k in cores if k]
    rnd.shuffle(cores)
    iso = set(m.get("isolated") or [])
    for k in cores[:rnd.randint(1, 2)]:
        iso |= set(k)
    m["isolated"] = sorted(iso)
    m["name"] = m["name"] + "-iso"
    return m


def ta_worlds(ms, rnd, n):
    """n worlds: machine x configuration variants the policy accepts."""
    out = []
    names = sorted(ms)
    for i in range(n):
        name = names[i % len(names)] if i < 2 * len(names) else rnd.choice(names)
        m = ms[name]
        if i % 4 == 3:
            m = with_isolated(m, rnd)
        cpus = machine_cpus(m)
        iso = set(m.get("isolated") or [])
        cand = [c for c in cpus if c not in iso]
        cfg = {"pinCPU": True, "pinMemory": True}
        k = rnd.random()
        if k < 0.55:
            cfg["reservedResources"] = {"cpu": "cpuset:%d" % cand[0]}
        elif k < 0.75:
            cfg["reservedResources"] = {"cpu": rnd.choice(["750m", "1", "1500m"])}
        else:
            r = sorted(rnd.sample(cand, min(2, len(cand))))
            cfg["reservedResources"] = {"cpu": "cpuset:" + ",".join(map(str, r))}
        if rnd.random() < 0.25 and len(cpus) > 4:
            keep = sorted(rnd.sample(cpus, max(4, len(cpus) - rnd.randint(1, 3))))
            rs = cfg["reservedResources"]["cpu"]
            if rs.startswith("cpuset:"):
                keep = sorted(set(keep) | {int(x) for x in rs[7:].split(",")})
            cfg["availableResources"] = {"cpu": "cpuset:" + ",".join(map(str, keep))}
        if rnd.random() < 0.12:
            cfg["pinCPU"] = False
        if rnd.random() < 0.12:
            cfg["pinMemory"] = False
        if rnd.random() < 0.2:
            cfg["preferSharedCPUs"] = True
        if rnd.random() < 0.3:
            cfg["reservedPoolNamespaces"] = ["rsv-*"]
        if rnd.random() < 0.2:
            cfg["preferIsolatedCPUs"] = rnd.random() < 0.5
        out.append({"policy": "ta", "machine": m, "config": cfg, "name": "%s-%d" % (name, i)})
    return out


# ----------------------------------------------------------------------------------------- balloons worlds

def balloon_types(rnd, ncpu):
    """A list of user balloon types (the builtin reserved/default types are filled in by the policy)."""
    menu = [
        {"name": "dyn", "minCPUs": 0, "maxCPUs": rnd.choice([0, 2, 4]), "namespaces": ["default"],
         "shareIdleCPUsInSame": rnd.choice(["", "numa", "package", "system"])},
        {"name": "solo", "preferNewBalloons": True, "minCPUs": 1, "maxCPUs": rnd.choice([1, 2]), "maxBalloons": rnd.choice([0, 2, 3]),
         "shareIdleCPUsInSame": rnd.choice(["", "system", "core"])},
        {"name": "pre", "minBalloons": 1, "minCPUs": rnd.choice([1, 2]), "maxCPUs": 4, "namespaces": ["other"],
         "hideHyperthreads": rnd.random() < 0.3},
        {"name": "spread", "preferSpreadingPods": True, "minCPUs": 1, "maxBalloons": 2, "namespaces": ["rsv-*"]},
        {"name": "nomem", "pinMemory": False, "minCPUs": 1, "maxCPUs": 2},
    ]
    menu += [
        # maxCPUs beyond what can ever be free: inflating an existing balloon can fail half-way
        {"name": "big", "minCPUs": 1, "maxCPUs": ncpu + 2, "shareIdleCPUsInSame": rnd.choice(["", "package", "system"])},
        {"name": "wide", "minCPUs": 0, "maxCPUs": ncpu, "minBalloons": rnd.choice([0, 1]), "preferNewBalloons": rnd.random() < 0.5,
         "shareIdleCPUsInSame": "numa"},
    ]
    k = rnd.randint(1, 5)
    out = [copy.deepcopy(t) for t in rnd.sample(menu, k)]
    ht_world = rnd.random() < 0.25      # every type hides hyperthreads and shares idle CPUs
    for t in out:
        if rnd.random() < 0.6:
            t["cpuClass"] = "cls-" + t["name"]
        if ht_world:
            t["hideHyperthreads"] = True
            t.setdefault("shareIdleCPUsInSame", "system")
            if not t["shareIdleCPUsInSame"]:
                t["shareIdleCPUsInSame"] = rnd.choice(["system", "package", "numa"])
    return out


def balloons_worlds(ms, rnd, n):
    out = []
    names = sorted(ms)
    for i in range(n):
        name = names[i % len(names)] if i < 2 * len(names) else rnd.choice(names)
        m = ms[name]
        cpus = machine_cpus(m)
        iso = set(m.get("isolated") or [])
        cand = [c for c in cpus if c not in iso]
        cfg = {"reservedResources": {"cpu": "cpuset:%d" % cand[0]} if rnd.random() < 0.7 else {"cpu": "1"},
               "balloonTypes": balloon_types(rnd, len(cpus)), "showContainersInNrt": True}
        if rnd.random() < 0.7:
            cfg["idleCPUClass"] = "idle"
        if rnd.random() < 0.2 and len(cpus) > 4:
            keep = sorted(set(rnd.sample(cpus, len(cpus) - rnd.randint(1, 2))) | {cand[0]})
            cfg["availableResources"] = {"cpu": "cpuset:" + ",".join(map(str, keep))}
        if rnd.random() < 0.1:
            cfg["pinCPU"] = False
        if rnd.random() < 0.1:
            cfg["pinMemory"] = False
        if rnd.random() < 0.2:
            cfg["reservedPoolNamespaces"] = ["rsv-x"]
        out.append({"policy": "balloons", "machine": m, "config": cfg, "name": "B-%s-%d" % (name, i)})
    return out


def pod_class(rnd, policy="ta", cold=0.12):
    qos = rnd.choice(["Guaranteed", "Guaranteed", "Burstable", "Burstable", "BestEffort"])
    ns = rnd.choice(["default"] * 6 + ["kube-system", "rsv-a", "other"])
    ann = {}
    r = rnd.random
    if r() < 0.15:
        ann[ANN["shared"]] = rnd.choice(["true", "false"])
    if r() < 0.2:
        ann[ANN["isol"]] = rnd.choice(["true", "true", "false"])
    if r() < 0.06:
        ann[ANN["rsv"]] = rnd.choice(["true", "false"])
    if r() < 0.08:
        ann[ANN["pcpu"]] = "true"
    if r() < 0.08:
        ann[ANN["pmem"]] = "true"
    if r() < 0.12:
        ann[ANN["memtype"]] = rnd.choice(["dram", "pmem", "dram,pmem", "hbm", "mixed"])
    if r() < 0.08:
        ann[ANN["hideht"]] = "true"
    if policy == "ta" and r() < cold:
        # cold start: PMEM only until the timer fires (the generator fires it: op ColdDone)
        ann[ANN["cold"]] = rnd.choice(["duration: 30m", "duration: 1h", "{duration: 10m}", "duration: 45m", "duration: 0s"])
        if r() < 0.8:
            ann[ANN["memtype"]] = rnd.choice(["dram,pmem", "pmem", "pmem,dram"])
        if r() < 0.3:
            ann[ANN["pmem"]] = "true"           # opted out of memory pinning: no cold start either
    if policy == "balloons":
        for k in ("shared", "isol", "rsv", "memtype"):
            ann.pop(ANN[k], None)
        if r() < 0.3:
            ann[ANN["balloon"]] = rnd.choice(["dyn", "solo", "pre", "spread", "nomem", "nosuchtype", "default", "reserved"])
    return {"ns": ns, "qos": qos, "ann": ann}


CPU_MENU = [0, 100, 250, 500, 999, 1000, 1000, 1000, 1200, 1500, 1500, 1800, 2000, 2000, 2500, 3000, 4000]


def ctr_class(rnd, qos, big_mem=False):
    if qos == "BestEffort":
        return {"cpureq": 0, "cpulim": 0, "memlim": 0, "memreq": 0}
    cpu = rnd.choice(CPU_MENU)
    if qos == "Guaranteed":
        cpu = max(cpu, 100)
        mem = rnd.choice([64, 128, 256, 512, 1024, 3000 if big_mem else 256])
        return {"cpureq": cpu, "cpulim": cpu, "memlim": mem, "memreq": mem}
    cpu = max(cpu, 100)
    lim = rnd.choice([0, cpu, cpu * 2])
    mem = rnd.choice([0, 128, 512, 2048, 3500 if big_mem else 512])
    return {"cpureq": cpu, "cpulim": lim, "memlim": mem, "memreq": rnd.choice([16, 64, 128, 256])}


SHAPES = ["nomem", "nores", "noperiod", "noperiod", "noshares", "nocpu"]


def odd_shape(rnd, spec, p=0.3):
    """C14: a well-formed request whose optional resource sub-messages are partly absent (no memory block, no resources
    at all, a CFS quota without a period, no shares, no CPU block)."""
    if rnd.random() < p:
        spec = dict(spec)
        spec[rnd.choice(SHAPES)] = True
        if spec.get("noperiod") and not spec.get("cpulim"):
            spec["cpulim"] = max(100, spec.get("cpureq") or 100)
    return spec


def cold_ok_world(world):
    """The topology-aware policy switches cold start off for good when any PMEM node is movable-only."""
    pmem = [n for n in (world["machine"].get("cpuless_nodes") or []) if n.get("type") == "pmem"]
    return world["policy"] == "ta" and bool(pmem) and all(n.get("normal") for n in pmem)


def lifecycle_history(world, rnd, nops, disorder=0.0, reconf_cfgs=None, sync=True, fuzz=0.0, cold_bias=False, reconf_bias=False, stale_first=False):
    """A history over one world.  With disorder=0 the environment is a runtime consistent with its own bookkeeping
    (create before start, stop before remove, containers stopped before their pod); disorder>0 injects events for
    unknown ids, duplicates and out-of-order lifecycle events (C14)."""
    ops = []
    pods = {}      # pod -> {"qos":..., "ctrs": [...], "stopped": bool}
    ctrs = {}      # c -> state: created|running|stopped
    pod_of = {}
    npod = [0]
    nctr = [0]

    cold_ok = cold_ok_world(world)

    def new_pod():
        npod[0] += 1
        p = "p%d" % npod[0]
        pc = pod_class(rnd, world["policy"], cold=(0.9 if cold_bias else 0.45) if cold_ok else 0.08)
        if fuzz and rnd.random() < fuzz:
            pc["ann"].update(fuzz_annotations(rnd, ["c%d" % (nctr[0] + i) for i in range(1, 4)]))
        pods[p] = {"qos": pc["qos"], "ctrs": [], "ann": pc["ann"]}
        ops.append({"op": "RunPod", "pod": p, "pods": pc})
        return p

    def live():
        return [c for c, s in ctrs.items() if s in ("created", "running")]

    big = rnd.random() < 0.3
    if stale_first and world["policy"] == "balloons":
        # a container whose creation is refused (unknown balloon type) stays cached; later a configuration defines that type
        t = copy.deepcopy(world["config"].get("balloonTypes") or [])
        ops.append({"op": "RunPod", "pod": "ps", "pods": {"ns": "default", "qos": "Burstable", "ann": {ANN["balloon"]: "nosuchtype"}}})
        ops.append({"op": "Create", "pod": "ps", "c": "cs", "ctr": {"cpureq": 500, "cpulim": 0, "memlim": 64, "memreq": 64}})
        pods["ps"] = {"qos": "Burstable", "ctrs": [], "ann": {}}
        stale_cfg = dict(world["config"], balloonTypes=t + [{"name": "nosuchtype", "minCPUs": 1, "maxCPUs": 2}])
        stale_at = rnd.randint(4, max(5, nops // 2))
    else:
        stale_at = -1
    cold = []       # [requests to go, container]: cold start timers (dropped by the harness unless the policy armed one)
    while len(ops) < nops:
        k = rnd.random()
        for t in list(cold):
            t[0] -= 1
            if t[0] < 0:
                cold.remove(t)
                ops.append({"op": "ColdDone", "pod": pod_of.get(t[1], "px"), "c": t[1]})
        if stale_at >= 0 and len(ops) >= stale_at:
            ops.append({"op": "Reconfigure", "config": stale_cfg, "tag": "stale"})
            stale_at = -1
        if disorder and rnd.random() < disorder:
            kind = rnd.choice(["StopPod", "RemovePod", "Create", "Start", "Update", "Stop", "Remove", "dupCreate", "earlyRemovePod"])
            if kind in ("StopPod", "RemovePod"):
                ops.append({"op": kind, "pod": rnd.choice(["px", "p0"] + list(pods))})
            elif kind == "Create":
                ops.append({"op": "Create", "pod": rnd.choice(["px"] + list(pods)), "c": "cx%d" % len(ops),
                            "ctr": odd_shape(rnd, ctr_class(rnd, "Burstable"))})
            elif kind == "dupCreate" and ctrs:
                c = rnd.choice(list(ctrs))
                ops.append({"op": "Create", "pod": pod_of[c], "c": c, "ctr": odd_shape(rnd, ctr_class(rnd, pods[pod_of[c]]["qos"]))})
                ctrs[c] = "created"
            elif kind == "earlyRemovePod" and pods:
                p = rnd.choice(list(pods))
                ops.append({"op": "RemovePod", "pod": p})
            elif kind in ("Start", "Update", "Stop", "Remove"):
                c = rnd.choice(["cx"] + list(ctrs)) if ctrs else "cx"
                o = {"op": kind, "pod": pod_of.get(c, "px"), "c": c}
                if kind == "Update":
                    o["ctr"] = odd_shape(rnd, ctr_class(rnd, "Burstable"))
                ops.append(o)
                if kind == "Stop" and c in ctrs:
                    ctrs[c] = "stopped"
                if kind == "Remove" and c in ctrs:
                    del ctrs[c]
            continue
        if k < 0.38 or not ctrs:
            if pods and rnd.random() < 0.25:
                p = rnd.choice(list(pods))
            else:
                p = new_pod()
            nctr[0] += 1
            c = "c%d" % nctr[0]
            spec = ctr_class(rnd, pods[p]["qos"], big)
            if rnd.random() < 0.15:
                spec["mems0"] = "0"
            if disorder:
                spec = odd_shape(rnd, spec, 0.15)
            ops.append({"op": "Create", "pod": p, "c": c, "ctr": spec})
            pods[p]["ctrs"].append(c)
            ctrs[c] = "created"          # if the plugin refuses, later events for it are harmless (unknown container)
            pod_of[c] = p
            if cold_bias and ANN["cold"] in pods[p]["ann"] and rnd.random() < 0.7:
                ops.append({"op": "Start", "pod": p, "c": c})
                ctrs[c] = "running"
                cold.append([rnd.randint(0, 3), c])
        elif k < 0.52:
            cs = [c for c, s in ctrs.items() if s == "created"]
            if cs:
                c = rnd.choice(cs)
                ops.append({"op": "Start", "pod": pod_of[c], "c": c})
                ctrs[c] = "running"
                if ANN["cold"] in pods[pod_of[c]]["ann"]:
                    cold.append([rnd.randint(0, 4), c])
        elif k < 0.70:
            if live():
                c = rnd.choice(live())
                ops.append({"op": "Stop", "pod": pod_of[c], "c": c})
                ctrs[c] = "stopped"
        elif k < 0.80:
            cs = [c for c, s in ctrs.items() if s == "stopped"]
            # a container that was created but never started is removed without a StopContainer event
            if rnd.random() < 0.2:
                cs = [c for c, s in ctrs.items() if s == "created"] or cs
            if cs:
                c = rnd.choice(cs)
                ops.append({"op": "Remove", "pod": pod_of[c], "c": c})
                del ctrs[c]
        elif k < 0.88:
            if live():
                c = rnd.choice(live())
                uspec = ctr_class(rnd, pods[pod_of[c]]["qos"], big)
                ops.append({"op": "Update", "pod": pod_of[c], "c": c, "ctr": odd_shape(rnd, uspec, 0.15) if disorder else uspec})
        elif k < 0.93 or (reconf_bias and k < 0.97 and rnd.random() < 0.6):
            cfg = world["config"]
            if reconf_cfgs and rnd.random() < (0.9 if reconf_bias else 0.5):
                cfg = rnd.choice(reconf_cfgs)
            ops.append({"op": "Reconfigure", "config": cfg})
        elif k < 0.97 and sync:
            # the runtime's truthful list
            ops.append({"op": "Sync", "pods_list": sorted(pods), "ctrs": {c: ("stopped" if s == "stopped" else s) for c, s in ctrs.items()}})
        else:
            # a whole pod goes away, in order
            ps = [p for p in pods if pods[p]["ctrs"]]
            if ps:
                p = rnd.choice(ps)
                for c in pods[p]["ctrs"]:
                    if ctrs.get(c) in ("created", "running"):
                        ops.append({"op": "Stop", "pod": p, "c": c})
                        ctrs[c] = "stopped"
                ops.append({"op": "StopPod", "pod": p})
                for c in pods[p]["ctrs"]:
                    if c in ctrs:
                        ops.append({"op": "Remove", "pod": p, "c": c})
                        del ctrs[c]
                ops.append({"op": "RemovePod", "pod": p})
                del pods[p]
    for t in cold:      # timers still running fire before the drain
        ops.append({"op": "ColdDone", "pod": pod_of.get(t[1], "px"), "c": t[1]})
    # back to the configuration booted with (under load, or once everything is gone): quiescence is then the boot state
    back = rnd.random() if reconf_cfgs else 1.0
    if back < 0.5:
        ops.append({"op": "Reconfigure", "config": world["config"], "tag": "back"})
    # drain: stop and remove everything, then probe that the plugin still serves
    for c in list(ctrs):
        if ctrs[c] in ("created", "running"):
            ops.append({"op": "Stop", "pod": pod_of[c], "c": c, "tag": "drain"})
    for c in list(ctrs):
        ops.append({"op": "Remove", "pod": pod_of[c], "c": c, "tag": "drain"})
    for p in list(pods):
        ops.append({"op": "StopPod", "pod": p, "tag": "drain"})
        ops.append({"op": "RemovePod", "pod": p, "tag": "drain"})
    if 0.5 <= back < 0.8:
        ops.append({"op": "Reconfigure", "config": world["config"], "tag": "back"})
    ops.append({"op": "RunPod", "pod": "probe", "pods": {"ns": "default", "qos": "BestEffort"}, "tag": "probe"})
    ops.append({"op": "Create", "pod": "probe", "c": "probe-c", "ctr": {"cpureq": 0, "cpulim": 0, "memlim": 0, "memreq": 0}, "tag": "probe"})
    ops.append({"op": "Stop", "pod": "probe", "c": "probe-c", "tag": "probe"})
    ops.append({"op": "Remove", "pod": "probe", "c": "probe-c", "tag": "probe"})
    ops.append({"op": "StopPod", "pod": "probe", "tag": "drain"})
    ops.append({"op": "RemovePod", "pod": "probe", "tag": "drain"})
    return {"world": world, "ops": ops, "consistent": disorder == 0.0}



def memfill_history(world, rnd, nops):
    """Memory pressure: small CPU requests, memory limits of the order of a NUMA node, so that zones overflow, widen and push
    existing containers' zones (their cpuset.mems must follow); some containers opted out of memory pinning; then drain."""
    ops, ctrs, pod_of = [], {}, {}
    n = 0
    while len(ops) < nops:
        if ctrs and rnd.random() < 0.25:
            c = rnd.choice(sorted(ctrs))
            ops.append({"op": "Stop", "pod": pod_of[c], "c": c})
            ops.append({"op": "Remove", "pod": pod_of[c], "c": c})
            del ctrs[c]
            continue
        if ctrs and rnd.random() < 0.1:
            c = rnd.choice(sorted(ctrs))
            mem = rnd.choice([256, 1024, 2048, 3000])
            ops.append({"op": "Update", "pod": pod_of[c], "c": c, "ctr": {"cpureq": 200, "cpulim": 200, "memlim": mem, "memreq": mem}})
            continue
        n += 1
        p, c = "p%d" % n, "c%d" % n
        qos = rnd.choice(["Guaranteed", "Guaranteed", "Burstable"])
        ann = {}
        if rnd.random() < 0.12:
            ann[ANN["pmem"]] = "true"
        if rnd.random() < 0.2:
            ann[ANN["memtype"]] = rnd.choice(["dram", "dram,pmem", "pmem", "hbm,dram"])
        mem = rnd.choice([512, 1024, 1500, 2048, 2500, 3000, 3500])
        cpu = rnd.choice([100, 200, 300, 500])
        spec = {"cpureq": cpu, "cpulim": cpu if qos == "Guaranteed" else 0, "memlim": mem, "memreq": mem if qos == "Guaranteed" else 64}
        if rnd.random() < 0.2:
            spec["mems0"] = "0"
        ops.append({"op": "RunPod", "pod": p, "pods": {"ns": "default", "qos": qos, "ann": ann}})
        ops.append({"op": "Create", "pod": p, "c": c, "ctr": spec})
        ctrs[c], pod_of[c] = "created", p
    for c in list(ctrs):
        ops.append({"op": "Stop", "pod": pod_of[c], "c": c, "tag": "drain"})
        ops.append({"op": "Remove", "pod": pod_of[c], "c": c, "tag": "drain"})
    return {"world": world, "ops": ops, "consistent": True}


def fill_history(world, rnd, nops, reconf=0.0, topup=False):
    """Fill the machine to capacity and keep it there: many fractional and mixed (exclusive + fraction) requests,
    occasional departures, so that admission decisions are made at nearly full pools."""
    ops, ctrs, pod_of = [], {}, {}
    menu = [300, 500, 500, 700, 800, 1000, 1000, 1200, 1300, 1500, 1500, 1700, 1800, 2000, 2000, 2500, 3000]
    n = 0
    while len(ops) < nops:
        live = [c for c, s in ctrs.items() if s != "stopped"]
        if reconf and rnd.random() < reconf:
            ops.append({"op": "Reconfigure", "config": world["config"]})       # identical re-delivery at a (nearly) full machine
            continue
        if live and rnd.random() < 0.22:
            c = rnd.choice(live)
            ops.append({"op": "Stop", "pod": pod_of[c], "c": c})
            ops.append({"op": "Remove", "pod": pod_of[c], "c": c})
            del ctrs[c]
            continue
        n += 1
        p, c = "p%d" % n, "c%d" % n
        # (Burstable requests travel as CPU shares and come back a milli-CPU short: only Guaranteed ones add up exactly)
        qos = "Guaranteed" if topup else rnd.choice(["Guaranteed", "Guaranteed", "Burstable"])
        ann = {}
        if rnd.random() < 0.25:
            ann[ANN["shared"]] = "false"
        if rnd.random() < 0.15:
            ann[ANN["isol"]] = rnd.choice(["true", "false"])
        # (top-up mode: only requests that survive the milli-CPU -> cpu.shares -> milli-CPU round trip: multiples of 125m)
        cpu = rnd.choice([250, 500, 500, 750, 1000, 1000, 1250, 1500, 1500, 1750, 2000, 2000, 2500, 3000]) if topup else rnd.choice(menu)
        ops.append({"op": "RunPod", "pod": p, "pods": {"ns": "default", "qos": qos, "ann": ann}})
        ops.append({"op": "Create", "pod": p, "c": c,
                    "ctr": {"cpureq": cpu, "cpulim": cpu if qos == "Guaranteed" else 0, "memlim": 64, "memreq": 64}})
        ctrs[c], pod_of[c] = "created", p
    if topup:
        # top the machine up to EXACTLY its capacity (every request is a multiple of 125m; refused ones do not exist),
        # then deliver configurations at the full machine, make a hole and deliver again
        for size, cnt in ((500, 6), (250, 4), (125, 8)):
            for _ in range(cnt):
                n += 1
                p, c = "p%d" % n, "c%d" % n
                ops.append({"op": "RunPod", "pod": p, "pods": {"ns": "default", "qos": "Guaranteed", "ann": {}}})
                ops.append({"op": "Create", "pod": p, "c": c, "ctr": {"cpureq": size, "cpulim": size, "memlim": 64, "memreq": 64}, "tag": "topup"})
                ctrs[c], pod_of[c] = "created", p
        ops.append({"op": "Reconfigure", "config": world["config"], "tag": "full"})
        for c in rnd.sample(sorted(ctrs), min(2, len(ctrs))):
            ops.append({"op": "Stop", "pod": pod_of[c], "c": c})
            ops.append({"op": "Remove", "pod": pod_of[c], "c": c})
            del ctrs[c]
        ops.append({"op": "Reconfigure", "config": world["config"], "tag": "full"})
    for c in list(ctrs):
        ops.append({"op": "Stop", "pod": pod_of[c], "c": c, "tag": "drain"})
        ops.append({"op": "Remove", "pod": pod_of[c], "c": c, "tag": "drain"})
    return {"world": world, "ops": ops, "consistent": True}


# ----------------------------------------------------------------------------------------- C14: malformed annotation values

FUZZ_KEYS = ["prefer-shared-cpus", "prefer-isolated-cpus", "prefer-reserved-cpus", "prefer-cpu-priority", "cpu.preserve", "memory.preserve",
             "memory-type", "cold-start", "hide-hyperthreads", "topologyhints", "allow.topologyhints", "deny.topologyhints", "affinity",
             "anti-affinity", "rdtclass", "blockioclass", "toptierlimit", "balloon.balloons"]
FUZZ_VALUES = ["", " ", "true", "TRUE", "maybe", "0", "-1", "123456789012345678901234567890", "null", "~", "{", "}", "[", "[1,2", "{a: 1",
               "- a\n- b", "a: {b: [c, d]}", "dram,", ",pmem", "dram,pmem,hbm,mixed,bogus", "duration: 5s", "5", "5s", "-5s", "99999h",
               "\"", "\\", "\t\n", "x" * 10000, "%s%s%s%n", "../../etc", "c1: [foo]", "[{scope: {key: name, operator: In, values: [c1]}, match: {key: name, operator: Matches, values: ['*']}, weight: 9999999999}]",
               "[{scope: {key: labels/x, operator: Bogus}}]", "[{match: {}}]", "name: [", "high", "low", "none", "normal", "HIGH",
               "{\"duration\": \"10s\"}", "{\"duration\": 10}", "{\"duration\": \"-1\"}", "{\"bogus\": true}",
               # affinity / anti-affinity shapes: per-container lists with null entries, tiny and odd joint keys
               "c1: [null]", "c2: [~, ~]", "c1: null", "c1: []", "c1: [{}]", "c3: [{match: null}]",
               "c1: [{match: {key: ':', operator: Exists}}]", "c1: [{match: {key: ':x', operator: Exists}}]",
               "c2: [{scope: {key: '::', operator: Exists}, match: {key: ':/', operator: Equals, values: [a]}}]",
               "c1: [{match: {key: ':::', operator: In, values: []}}]", "c1: [{match: {key: '', operator: Exists}}]",
               "c2: [{match: {key: 'labels/', operator: Matches, values: ['[']}}]", "c1: [{match: {key: name, operator: Equals}}]",
               "c1: [{match: {key: name, operator: Equals, values: [a, b]}, weight: -9999999999}]", "c3: [c1, c2]", "c1: [c1]"]


def fuzz_annotations(rnd, containers=("c1", "c2", "c3", "c4")):
    ann = {}

    def value():
        # per-container shapes name the containers the pod is going to get
        v = rnd.choice(FUZZ_VALUES)
        if len(v) < 300:
            for i, c in enumerate(containers[:3]):
                v = v.replace("c%d:" % (i + 1), "\0%d:" % i).replace("[c%d" % (i + 1), "[\0%d" % i).replace(" c%d]" % (i + 1), " \0%d]" % i)
            for i, c in enumerate(containers[:3]):
                v = v.replace("\0%d" % i, c)
        return v
    for _ in range(rnd.randint(1, 4)):
        name = rnd.choice(FUZZ_KEYS)
        if name in ("affinity", "anti-affinity") and rnd.random() < 0.85:
            ann[RP + "/" + name] = value()             # (these two are prefixed, not suffixed, keys)
            continue
        key = name + "." + RP
        form = rnd.random()
        if form < 0.4:
            key += "/container." + rnd.choice(containers)
        elif form < 0.6:
            key += "/pod"
        elif form < 0.65:
            key += "/container."
        ann[key] = value()
    return ann


# ----------------------------------------------------------------------------------------- C11: restart + Synchronize

LIGHT_CPU = [0, 100, 100, 250, 250, 500, 1000]


def light_ctr(rnd, qos):
    if qos == "BestEffort":
        return {"cpureq": 0, "cpulim": 0, "memlim": 0, "memreq": 0}
    cpu = max(100, rnd.choice(LIGHT_CPU))
    mem = rnd.choice([64, 128, 256])
    if qos == "Guaranteed":
        return {"cpureq": cpu, "cpulim": cpu, "memlim": mem, "memreq": mem}
    return {"cpureq": cpu, "cpulim": rnd.choice([0, cpu * 2]), "memlim": rnd.choice([0, mem]), "memreq": 64}


def restart_history(world, rnd, nops):
    """Light load (requests stay below half of the machine), then plugin restarts each followed by a Synchronize whose
    runtime list differs from what the plugin last saw: containers gone, states changed, new pods/containers."""
    ncpu = len(machine_cpus(world["machine"]))
    budget = max(500, 400 * ncpu)          # mCPU, < 50 % of capacity
    ops, pods, ctrs, pod_of, req = [], {}, {}, {}, {}
    n = [0, 0]

    def used():
        return sum(req[c] for c, s in ctrs.items() if s in ("created", "running"))

    def create():
        if pods and rnd.random() < 0.3:
            p = rnd.choice(list(pods))
        else:
            n[0] += 1
            p = "p%d" % n[0]
            pc = pod_class(rnd, world["policy"])
            pods[p] = pc["qos"]
            ops.append({"op": "RunPod", "pod": p, "pods": pc})
        spec = light_ctr(rnd, pods[p])
        if used() + spec["cpureq"] > budget:
            spec = {"cpureq": 0, "cpulim": 0, "memlim": 0, "memreq": 0} if pods[p] == "BestEffort" else dict(spec, cpureq=100, cpulim=100 if pods[p] == "Guaranteed" else 0)
        n[1] += 1
        c = "c%d" % n[1]
        ops.append({"op": "Create", "pod": p, "c": c, "ctr": spec})
        ctrs[c], pod_of[c], req[c] = "created", p, spec["cpureq"]

    def lifecycle(k):
        for _ in range(k):
            r = rnd.random()
            live = [c for c, s in ctrs.items() if s in ("created", "running")]
            if r < 0.45 or not ctrs:
                create()
            elif r < 0.65:
                cs = [c for c, s in ctrs.items() if s == "created"]
                if cs:
                    c = rnd.choice(cs)
                    ops.append({"op": "Start", "pod": pod_of[c], "c": c})
                    ctrs[c] = "running"
            elif r < 0.85 and live:
                c = rnd.choice(live)
                ops.append({"op": "Stop", "pod": pod_of[c], "c": c})
                ctrs[c] = "stopped"
            else:
                cs = [c for c, s in ctrs.items() if s == "stopped"]
                if cs:
                    c = rnd.choice(cs)
                    ops.append({"op": "Remove", "pod": pod_of[c], "c": c})
                    del ctrs[c]

    def restart_and_sync():
        # half of the restarts cut the history in the MIDDLE of a request: the plugin dies while serving a CreateContainer
        # (the runtime then has no such container), a Stop or a Remove (which take effect in the runtime regardless), and
        # comes back with one of the cache snapshots it saved during that request
        if rnd.random() < 0.5:
            r = rnd.random()
            live = [c for c, s in ctrs.items() if s in ("created", "running")]
            if r < 0.5 or not ctrs:
                create()
                c = "c%d" % n[1]
                del ctrs[c]                                    # the creation never completed for the runtime
            elif r < 0.8 and live:
                c = rnd.choice(live)
                ops.append({"op": "Stop", "pod": pod_of[c], "c": c})
                ctrs[c] = "stopped"
            else:
                cs = [c for c, s in ctrs.items() if s == "stopped"]
                if cs:
                    c = rnd.choice(cs)
                    ops.append({"op": "Remove", "pod": pod_of[c], "c": c})
                    del ctrs[c]
            ops.append({"op": "RestartMid", "pick": rnd.random(), "tag": "restart-mid"})
        else:
            ops.append({"op": "Restart", "tag": "restart"})
        newpods, newctrs = {}, {}
        for c in list(ctrs):
            r = rnd.random()
            if r < 0.2:                               # gone while the plugin was down
                del ctrs[c]
            elif r < 0.3 and ctrs[c] == "created":
                ctrs[c] = "running"
            elif r < 0.4 and ctrs[c] in ("created", "running"):
                ctrs[c] = "stopped"
        for _ in range(rnd.choice([0, 0, 1, 2])):     # created while the plugin was down
            n[0] += 1
            p = "p%d" % n[0]
            pc = pod_class(rnd, world["policy"])
            pc["ann"] = {}        # a container the plugin never admitted must be admissible: no memory-type / balloon-type wishes
            pods[p] = pc["qos"]
            newpods[p] = pc
            n[1] += 1
            c = "c%d" % n[1]
            spec = light_ctr(rnd, pc["qos"])
            if used() + spec["cpureq"] > budget:
                spec = dict(spec, cpureq=100 if pc["qos"] != "BestEffort" else 0, cpulim=0)
            newctrs[c] = {"pod": p, "ctr": spec}
            ctrs[c], pod_of[c], req[c] = "running", p, spec["cpureq"]
        for p in list(pods):                          # pods without containers may be gone too
            if not any(pod_of[c] == p for c in ctrs) and rnd.random() < 0.5:
                del pods[p]
        ops.append({"op": "Sync", "pods_list": sorted(pods), "ctrs": dict(ctrs), "newpods": newpods, "newctrs": newctrs, "tag": "resync"})

    lifecycle(nops // 2)
    restart_and_sync()
    lifecycle(nops // 4)
    if rnd.random() < 0.5:
        restart_and_sync()
        lifecycle(nops // 4)
    for c in list(ctrs):
        if ctrs[c] in ("created", "running"):
            ops.append({"op": "Stop", "pod": pod_of[c], "c": c, "tag": "drain"})
    for c in list(ctrs):
        ops.append({"op": "Remove", "pod": pod_of[c], "c": c, "tag": "drain"})
    for p in list(pods):
        ops.append({"op": "StopPod", "pod": p, "tag": "drain"})
        ops.append({"op": "RemovePod", "pod": p, "tag": "drain"})
    return {"world": world, "ops": ops, "consistent": True}


# ----------------------------------------------------------------------------------------- C13: reconfiguration

def invalid_configs(world, rnd):
    cfg = world["config"]
    cpus = machine_cpus(world["machine"])
    bad = [dict(cfg, reservedResources={"cpu": "cpuset:foo"}),
           dict(cfg, availableResources={"cpu": "cpuset:%d" % cpus[-1]}, reservedResources={"cpu": "cpuset:%d" % cpus[0]}),
           dict(cfg, reservedResources={"cpu": "cpuset:999"}),
           dict(cfg, availableResources={"cpu": "cpuset:x-y"})]
    if world["policy"] == "balloons":
        t = copy.deepcopy(cfg.get("balloonTypes") or [{"name": "dyn"}])
        bad += [dict(cfg, balloonTypes=t + [copy.deepcopy(t[0])]),                                  # duplicate type
                dict(cfg, balloonTypes=[dict(t[0], minCPUs=4, maxCPUs=2)] + t[1:]),                 # ill-bounded
                dict(cfg, balloonTypes=[dict(t[0], loads=["nosuchload"])] + t[1:]),                 # undefined load class
                dict(cfg, balloonTypes=t + [{"name": "huge", "minBalloons": 4, "minCPUs": max(2, len(cpus) // 2)}])]  # unsatisfiable
    return bad


def pin_configs(world, rnd):
    """Configurations that differ from the booted one in pinning switches only (C12: opt-outs by configuration, incl. the
    policy's light-weight reconfiguration path), and the booted one itself (switching back)."""
    cfg = world["config"]
    out = [dict(cfg, pinMemory=not cfg.get("pinMemory", True)), dict(cfg, pinCPU=not cfg.get("pinCPU", True)), cfg]
    if world["policy"] == "balloons":
        t = copy.deepcopy(cfg.get("balloonTypes") or [])
        if t:
            out += [dict(cfg, balloonTypes=[dict(x, pinMemory=False) for x in t]),
                    dict(cfg, balloonTypes=[dict(t[0], pinMemory=False)] + t[1:]),
                    dict(cfg, balloonTypes=t[:-1] + [dict(t[-1], pinMemory=False)]),
                    dict(cfg, balloonTypes=[dict(x, pinMemory=True) for x in t])]
    return out


def valid_configs(world, rnd):
    cfg = world["config"]
    cpus = machine_cpus(world["machine"])
    iso = set(world["machine"].get("isolated") or [])
    cand = [c for c in cpus if c not in iso]
    out = [dict(cfg, pinMemory=not cfg.get("pinMemory", True)), dict(cfg, pinCPU=not cfg.get("pinCPU", True)),
           dict(cfg, reservedResources={"cpu": "cpuset:%d" % rnd.choice(cand)})]
    if len(cand) > 4:        # shrink the available set (keeping a reserved CPU inside it)
        keep = sorted(rnd.sample(cand, len(cand) - rnd.randint(1, 2)))
        out.append(dict(cfg, availableResources={"cpu": "cpuset:" + ",".join(map(str, keep))},
                        reservedResources={"cpu": "cpuset:%d" % keep[0]}))
    if world["policy"] == "ta":
        out += [dict(cfg, preferSharedCPUs=not cfg.get("preferSharedCPUs", False)), dict(cfg, reservedPoolNamespaces=["rsv-*", "other"])]
    else:
        t = copy.deepcopy(cfg.get("balloonTypes") or [])
        if t:
            # (only changes under which the containers already running still fit: widening, never narrowing, limits)
            out += [dict(cfg, balloonTypes=[dict(t[0], maxCPUs=0)] + t[1:]), dict(cfg, balloonTypes=t + [{"name": "extra", "minCPUs": 1, "maxCPUs": 2}]),
                    # defines the type that refused containers asked for: they stay refused
                    dict(cfg, balloonTypes=t + [{"name": "nosuchtype", "minCPUs": 1, "maxCPUs": 2}]),
                    dict(cfg, balloonTypes=[dict(t[0], shareIdleCPUsInSame="system")] + t[1:]),
                    # changes that only touch pinning switches / CPU classes (the policy's light reconfiguration path)
                    dict(cfg, balloonTypes=[dict(x, pinMemory=False) for x in t]),
                    dict(cfg, balloonTypes=[dict(t[0], pinMemory=False)] + t[1:]),
                    dict(cfg, balloonTypes=[dict(x, cpuClass="cls2-" + x["name"]) for x in t], idleCPUClass="idle2")]
    return out


def reconf_histories(world, rnd, nops):
    """Returns a triple [A, B, B2]: B is a lifecycle history with identical/valid reconfigurations injected; A additionally
    receives one INVALID configuration at a request boundary; B2 is a control identical to B."""
    base = lifecycle_history(world, rnd, nops, disorder=0.0, reconf_cfgs=valid_configs(world, rnd), sync=False)
    k = rnd.randrange(1, max(2, len(base["ops"]) - 12))
    bad = {"op": "Reconfigure", "config": rnd.choice(invalid_configs(world, rnd)), "tag": "invalid"}
    a = copy.deepcopy(base)
    a["ops"].insert(k, bad)
    a["twin"] = {"role": "A", "at": k}
    b = copy.deepcopy(base)
    b["twin"] = {"role": "B"}
    b2 = copy.deepcopy(base)
    b2["twin"] = {"role": "B2"}
    return [a, b, b2]


def _cmp_key(e):
    d = {k: v for k, v in e.items() if k not in ("h", "k", "msg", "tw", "tag")}
    # the order of updates inside one reply follows Go map iteration order: not a difference
    if "upd" in d:
        d["upd"] = sorted(d["upd"], key=lambda u: u["c"])
    if "pushed" in d:
        d["pushed"] = [sorted(b, key=lambda u: u["c"]) for b in d["pushed"]]
    if "st" in d and "pend" in d["st"]:
        d["st"] = dict(d["st"], pend=sorted(d["st"]["pend"]))
    return json.dumps(d, sort_keys=True)


def annotate_twins(trace_path, hs):
    """For every triple (A, B, B2) compare, line by line after the injected update, A with B and B with B2 and write
    the verdict into A's lines (field `tw`), for the trace spec to judge (Act_RejectedLeavesNoTrace)."""
    by_h = {}
    lines = []
    for l in open(trace_path):
        e = json.loads(l)
        lines.append(e)
        by_h.setdefault(e["h"], []).append(e)
    for i, h in enumerate(hs):
        tw = h.get("twin")
        if not tw or tw["role"] != "A":
            continue
        A, B, B2 = by_h.get(i, []), by_h.get(i + 1, []), by_h.get(i + 2, [])
        if not A or len(B) != len(B2) or len(A) != len(B) + 1:
            continue                                     # refused creations dropped different ops: not comparable
        at = tw["at"] + 1                                # +1: the reset line
        if at >= len(A) or A[at].get("ev") != "Reconfigure" or not A[at].get("err"):
            continue                                     # the "invalid" configuration was accepted: nothing to compare
        for j in range(at + 1, len(A)):
            same = _cmp_key(A[j]) == _cmp_key(B[j - 1])
            ctl = _cmp_key(B[j - 1]) == _cmp_key(B2[j - 1])
            diff = ""
            if not same:
                ka, kb = A[j], B[j - 1]
                diff = ",".join(sorted(k for k in set(ka) | set(kb) if k not in ("h", "k", "msg", "tw", "tag") and ka.get(k) != kb.get(k)))
            A[j]["tw"] = {"same": same, "ctl": ctl, "diff": diff}
    with open(trace_path, "w") as f:
        for e in lines:
            f.write(json.dumps(e, separators=(",", ":")) + "\n")


def run_histories(binp, hs, outdir, shards=None, timeout=900):
    """Run histories on the real code in parallel shards; returns the merged trace path."""
    import concurrent.futures as cf
    os.makedirs(outdir, exist_ok=True)
    sp = os.path.join(outdir, "histories.json")
    json.dump(hs, open(sp, "w"))
    shards = shards or min(vlib.NCPU, max(1, len(hs) // 8))
    per = (len(hs) + shards - 1) // shards
    shared = os.path.join(vlib.OUT, "fixtures-shared")
    os.makedirs(shared, exist_ok=True)

    def one(i):
        a, b = i * per, min(len(hs), (i + 1) * per)
        tp = os.path.join(outdir, "trace-%02d.ndjson" % i)
        if a >= b:
            open(tp, "w").close()
            return tp, 0, ""
        rc, out = vlib.sh([binp, "--script", sp, "--out", tp, "--scratch", os.path.join(outdir, "scratch-%02d" % i),
                           "--shared", shared, "--from", str(a), "--to", str(b)], timeout=timeout)
        return tp, rc, out
    with cf.ThreadPoolExecutor(max_workers=shards) as ex:
        res = list(ex.map(one, range(shards)))
    merged = os.path.join(outdir, "trace.ndjson")
    with open(merged, "w") as f:
        for tp, rc, out in res:
            if rc != 0:
                raise vlib.Inconclusive("harness shard failed rc=%s: %s" % (rc, out[-1500:]))
            f.write(open(tp).read())
            os.remove(tp)
    return merged
