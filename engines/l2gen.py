"""History generators for the L2 engines (real resource manager driven through its NRI handlers).

A history = {"world": {policy, machine|fixture, config, name}, "ops": [...]}; see harness/internal/l2/world.go.
Everything random is drawn from a random.Random seeded by the caller (VERIF_SEED)."""
import copy
import json
import os
import random

import vlib

RP = "resource-policy.nri.io"
ANN = {
    "shared": "prefer-shared-cpus." + RP, "isol": "prefer-isolated-cpus." + RP, "rsv": "prefer-reserved-cpus." + RP,
    "pcpu": "cpu.preserve." + RP, "pmem": "memory.preserve." + RP, "memtype": "memory-type." + RP,
    "hideht": "hide-hyperthreads." + RP, "balloon": "balloon.balloons." + RP,
}

_machines = None


def machines(binp):
    """Builtin generated machines (sysgen), as JSON, from the harness binary."""
    global _machines
    if _machines is None:
        rc, out = vlib.sh([binp, "--machines"], timeout=60)
        line = [l for l in out.splitlines() if l.startswith("MACHINES ")]
        if not line:
            raise vlib.Inconclusive("harness did not print its machines: " + out[-500:])
        _machines = json.loads(line[0][len("MACHINES "):])
    return _machines


def machine_cpus(m):
    cpus = []
    for p in m["packages"]:
        for d in p["dies"]:
            for n in d["nodes"]:
                for c in n.get("cores") or []:
                    cpus += c["cpus"]
    off = set(m.get("offline") or [])
    return sorted(c for c in cpus if c not in off)


# ----------------------------------------------------------------------------------------- topology-aware worlds

def ta_worlds(ms, rnd, n):
    """n worlds: machine x configuration variants the policy accepts."""
    out = []
    names = sorted(ms)
    for i in range(n):
        name = names[i % len(names)] if i < 2 * len(names) else rnd.choice(names)
        m = ms[name]
        cpus = machine_cpus(m)
        iso = set(m.get("isolated") or [])
        cand = [c for c in cpus if c not in iso]
        cfg = {"pinCPU": True, "pinMemory": True}
        k = rnd.random()
        if k < 0.55:
            cfg["reservedResources"] = {"cpu": "cpuset:%d" % cand[0]}
        elif k < 0.75:
            cfg["reservedResources"] = {"cpu": rnd.choice(["750m", "1", "1500m"])}
        else:
            r = sorted(rnd.sample(cand, min(2, len(cand))))
            cfg["reservedResources"] = {"cpu": "cpuset:" + ",".join(map(str, r))}
        if rnd.random() < 0.25 and len(cpus) > 4:
            keep = sorted(rnd.sample(cpus, max(4, len(cpus) - rnd.randint(1, 3))))
            rs = cfg["reservedResources"]["cpu"]
            if rs.startswith("cpuset:"):
                keep = sorted(set(keep) | {int(x) for x in rs[7:].split(",")})
            cfg["availableResources"] = {"cpu": "cpuset:" + ",".join(map(str, keep))}
        if rnd.random() < 0.12:
            cfg["pinCPU"] = False
        if rnd.random() < 0.12:
            cfg["pinMemory"] = False
        if rnd.random() < 0.2:
            cfg["preferSharedCPUs"] = True
        if rnd.random() < 0.3:
            cfg["reservedPoolNamespaces"] = ["rsv-*"]
        if rnd.random() < 0.2:
            cfg["preferIsolatedCPUs"] = rnd.random() < 0.5
        out.append({"policy": "ta", "machine": m, "config": cfg, "name": "%s-%d" % (name, i)})
    return out


# ----------------------------------------------------------------------------------------- balloons worlds

def balloon_types(rnd, ncpu):
    """A list of user balloon types (the builtin reserved/default types are filled in by the policy)."""
    menu = [
        {"name": "dyn", "minCPUs": 0, "maxCPUs": rnd.choice([0, 2, 4]), "namespaces": ["default"],
         "shareIdleCPUsInSame": rnd.choice(["", "numa", "package", "system"])},
        {"name": "solo", "preferNewBalloons": True, "minCPUs": 1, "maxCPUs": rnd.choice([1, 2]), "maxBalloons": rnd.choice([0, 2, 3]),
         "shareIdleCPUsInSame": rnd.choice(["", "system", "core"])},
        {"name": "pre", "minBalloons": 1, "minCPUs": rnd.choice([1, 2]), "maxCPUs": 4, "namespaces": ["other"],
         "hideHyperthreads": rnd.random() < 0.3},
        {"name": "spread", "preferSpreadingPods": True, "minCPUs": 1, "maxBalloons": 2, "namespaces": ["rsv-*"]},
        {"name": "nomem", "pinMemory": False, "minCPUs": 1, "maxCPUs": 2},
    ]
    k = rnd.randint(1, 4)
    return [copy.deepcopy(t) for t in rnd.sample(menu, k)]


def balloons_worlds(ms, rnd, n):
    out = []
    names = sorted(ms)
    for i in range(n):
        name = names[i % len(names)] if i < 2 * len(names) else rnd.choice(names)
        m = ms[name]
        cpus = machine_cpus(m)
        iso = set(m.get("isolated") or [])
        cand = [c for c in cpus if c not in iso]
        cfg = {"reservedResources": {"cpu": "cpuset:%d" % cand[0]} if rnd.random() < 0.7 else {"cpu": "1"},
               "balloonTypes": balloon_types(rnd, len(cpus)), "showContainersInNrt": True}
        if rnd.random() < 0.2 and len(cpus) > 4:
            keep = sorted(set(rnd.sample(cpus, len(cpus) - rnd.randint(1, 2))) | {cand[0]})
            cfg["availableResources"] = {"cpu": "cpuset:" + ",".join(map(str, keep))}
        if rnd.random() < 0.1:
            cfg["pinCPU"] = False
        if rnd.random() < 0.1:
            cfg["pinMemory"] = False
        if rnd.random() < 0.2:
            cfg["reservedPoolNamespaces"] = ["rsv-x"]
        out.append({"policy": "balloons", "machine": m, "config": cfg, "name": "B-%s-%d" % (name, i)})
    return out


def pod_class(rnd, policy="ta"):
    qos = rnd.choice(["Guaranteed", "Guaranteed", "Burstable", "Burstable", "BestEffort"])
    ns = rnd.choice(["default"] * 6 + ["kube-system", "rsv-a", "other"])
    ann = {}
    r = rnd.random
    if r() < 0.15:
        ann[ANN["shared"]] = rnd.choice(["true", "false"])
    if r() < 0.12:
        ann[ANN["isol"]] = rnd.choice(["true", "false"])
    if r() < 0.06:
        ann[ANN["rsv"]] = rnd.choice(["true", "false"])
    if r() < 0.08:
        ann[ANN["pcpu"]] = "true"
    if r() < 0.08:
        ann[ANN["pmem"]] = "true"
    if r() < 0.12:
        ann[ANN["memtype"]] = rnd.choice(["dram", "pmem", "dram,pmem", "hbm", "mixed"])
    if r() < 0.08:
        ann[ANN["hideht"]] = "true"
    if policy == "balloons":
        for k in ("shared", "isol", "rsv", "memtype"):
            ann.pop(ANN[k], None)
        if r() < 0.3:
            ann[ANN["balloon"]] = rnd.choice(["dyn", "solo", "pre", "spread", "nomem", "nosuchtype", "default", "reserved"])
    return {"ns": ns, "qos": qos, "ann": ann}


CPU_MENU = [0, 100, 250, 500, 999, 1000, 1000, 1500, 2000, 2000, 2500, 3000, 4000]


def ctr_class(rnd, qos, big_mem=False):
    if qos == "BestEffort":
        return {"cpureq": 0, "cpulim": 0, "memlim": 0, "memreq": 0}
    cpu = rnd.choice(CPU_MENU)
    if qos == "Guaranteed":
        cpu = max(cpu, 100)
        mem = rnd.choice([64, 128, 256, 512, 1024, 3000 if big_mem else 256])
        return {"cpureq": cpu, "cpulim": cpu, "memlim": mem, "memreq": mem}
    cpu = max(cpu, 100)
    lim = rnd.choice([0, cpu, cpu * 2])
    mem = rnd.choice([0, 128, 512, 2048, 3500 if big_mem else 512])
    return {"cpureq": cpu, "cpulim": lim, "memlim": mem, "memreq": rnd.choice([16, 64, 128, 256])}


def lifecycle_history(world, rnd, nops, disorder=0.0, reconf_cfgs=None, sync=True):
    """A history over one world.  With disorder=0 the environment is a runtime consistent with its own bookkeeping
    (create before start, stop before remove, containers stopped before their pod); disorder>0 injects events for
    unknown ids, duplicates and out-of-order lifecycle events (C14)."""
    ops = []
    pods = {}      # pod -> {"qos":..., "ctrs": [...], "stopped": bool}
    ctrs = {}      # c -> state: created|running|stopped
    pod_of = {}
    npod = [0]
    nctr = [0]

    def new_pod():
        npod[0] += 1
        p = "p%d" % npod[0]
        pc = pod_class(rnd, world["policy"])
        pods[p] = {"qos": pc["qos"], "ctrs": []}
        ops.append({"op": "RunPod", "pod": p, "pods": pc})
        return p

    def live():
        return [c for c, s in ctrs.items() if s in ("created", "running")]

    big = rnd.random() < 0.3
    while len(ops) < nops:
        k = rnd.random()
        if disorder and rnd.random() < disorder:
            kind = rnd.choice(["StopPod", "RemovePod", "Create", "Start", "Update", "Stop", "Remove", "dupCreate", "earlyRemovePod"])
            if kind in ("StopPod", "RemovePod"):
                ops.append({"op": kind, "pod": rnd.choice(["px", "p0"] + list(pods))})
            elif kind == "Create":
                ops.append({"op": "Create", "pod": rnd.choice(["px"] + list(pods)), "c": "cx%d" % len(ops),
                            "ctr": ctr_class(rnd, "Burstable")})
            elif kind == "dupCreate" and ctrs:
                c = rnd.choice(list(ctrs))
                ops.append({"op": "Create", "pod": pod_of[c], "c": c, "ctr": ctr_class(rnd, pods[pod_of[c]]["qos"])})
                ctrs[c] = "created"
            elif kind == "earlyRemovePod" and pods:
                p = rnd.choice(list(pods))
                ops.append({"op": "RemovePod", "pod": p})
            elif kind in ("Start", "Update", "Stop", "Remove"):
                c = rnd.choice(["cx"] + list(ctrs)) if ctrs else "cx"
                o = {"op": kind, "pod": pod_of.get(c, "px"), "c": c}
                if kind == "Update":
                    o["ctr"] = ctr_class(rnd, "Burstable")
                ops.append(o)
                if kind == "Stop" and c in ctrs:
                    ctrs[c] = "stopped"
                if kind == "Remove" and c in ctrs:
                    del ctrs[c]
            continue
        if k < 0.38 or not ctrs:
            if pods and rnd.random() < 0.25:
                p = rnd.choice(list(pods))
            else:
                p = new_pod()
            nctr[0] += 1
            c = "c%d" % nctr[0]
            spec = ctr_class(rnd, pods[p]["qos"], big)
            if rnd.random() < 0.15:
                spec["mems0"] = "0"
            ops.append({"op": "Create", "pod": p, "c": c, "ctr": spec})
            pods[p]["ctrs"].append(c)
            ctrs[c] = "created"          # if the plugin refuses, later events for it are harmless (unknown container)
            pod_of[c] = p
        elif k < 0.52:
            cs = [c for c, s in ctrs.items() if s == "created"]
            if cs:
                c = rnd.choice(cs)
                ops.append({"op": "Start", "pod": pod_of[c], "c": c})
                ctrs[c] = "running"
        elif k < 0.70:
            if live():
                c = rnd.choice(live())
                ops.append({"op": "Stop", "pod": pod_of[c], "c": c})
                ctrs[c] = "stopped"
        elif k < 0.80:
            cs = [c for c, s in ctrs.items() if s == "stopped"]
            if cs:
                c = rnd.choice(cs)
                ops.append({"op": "Remove", "pod": pod_of[c], "c": c})
                del ctrs[c]
        elif k < 0.88:
            if live():
                c = rnd.choice(live())
                ops.append({"op": "Update", "pod": pod_of[c], "c": c, "ctr": ctr_class(rnd, pods[pod_of[c]]["qos"], big)})
        elif k < 0.93:
            cfg = world["config"]
            if reconf_cfgs and rnd.random() < 0.5:
                cfg = rnd.choice(reconf_cfgs)
            ops.append({"op": "Reconfigure", "config": cfg})
        elif k < 0.97 and sync:
            # the runtime's truthful list
            ops.append({"op": "Sync", "pods_list": sorted(pods), "ctrs": {c: ("stopped" if s == "stopped" else s) for c, s in ctrs.items()}})
        else:
            # a whole pod goes away, in order
            ps = [p for p in pods if pods[p]["ctrs"]]
            if ps:
                p = rnd.choice(ps)
                for c in pods[p]["ctrs"]:
                    if ctrs.get(c) in ("created", "running"):
                        ops.append({"op": "Stop", "pod": p, "c": c})
                        ctrs[c] = "stopped"
                ops.append({"op": "StopPod", "pod": p})
                for c in pods[p]["ctrs"]:
                    if c in ctrs:
                        ops.append({"op": "Remove", "pod": p, "c": c})
                        del ctrs[c]
                ops.append({"op": "RemovePod", "pod": p})
                del pods[p]
    # drain: stop and remove everything, then probe that the plugin still serves
    for c in list(ctrs):
        if ctrs[c] in ("created", "running"):
            ops.append({"op": "Stop", "pod": pod_of[c], "c": c, "tag": "drain"})
    for c in list(ctrs):
        ops.append({"op": "Remove", "pod": pod_of[c], "c": c, "tag": "drain"})
    for p in list(pods):
        ops.append({"op": "StopPod", "pod": p, "tag": "drain"})
        ops.append({"op": "RemovePod", "pod": p, "tag": "drain"})
    ops.append({"op": "RunPod", "pod": "probe", "pods": {"ns": "default", "qos": "BestEffort"}, "tag": "probe"})
    ops.append({"op": "Create", "pod": "probe", "c": "probe-c", "ctr": {"cpureq": 0, "cpulim": 0, "memlim": 0, "memreq": 0}, "tag": "probe"})
    ops.append({"op": "Stop", "pod": "probe", "c": "probe-c", "tag": "probe"})
    ops.append({"op": "Remove", "pod": "probe", "c": "probe-c", "tag": "probe"})
    ops.append({"op": "StopPod", "pod": "probe", "tag": "drain"})
    ops.append({"op": "RemovePod", "pod": "probe", "tag": "drain"})
    return {"world": world, "ops": ops, "consistent": disorder == 0.0}


def run_histories(binp, hs, outdir, shards=None, timeout=900):
    """Run histories on the real code in parallel shards; returns the merged trace path."""
    import concurrent.futures as cf
    os.makedirs(outdir, exist_ok=True)
    sp = os.path.join(outdir, "histories.json")
    json.dump(hs, open(sp, "w"))
    shards = shards or min(vlib.NCPU, max(1, len(hs) // 8))
    per = (len(hs) + shards - 1) // shards
    shared = os.path.join(vlib.OUT, "fixtures-shared")
    os.makedirs(shared, exist_ok=True)

    def one(i):
        a, b = i * per, min(len(hs), (i + 1) * per)
        tp = os.path.join(outdir, "trace-%02d.ndjson" % i)
        if a >= b:
            open(tp, "w").close()
            return tp, 0, ""
        rc, out = vlib.sh([binp, "--script", sp, "--out", tp, "--scratch", os.path.join(outdir, "scratch-%02d" % i),
                           "--shared", shared, "--from", str(a), "--to", str(b)], timeout=timeout)
        return tp, rc, out
    with cf.ThreadPoolExecutor(max_workers=shards) as ex:
        res = list(ex.map(one, range(shards)))
    merged = os.path.join(outdir, "trace.ndjson")
    with open(merged, "w") as f:
        for tp, rc, out in res:
            if rc != 0:
                raise vlib.Inconclusive("harness shard failed rc=%s: %s" % (rc, out[-1500:]))
            f.write(open(tp).read())
            os.remove(tp)
    return merged
