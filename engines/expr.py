"""Engine: match expressions, affinity-weight clamp, balloon-type selection (C19).

1. laws of the specification: TLC exhaustively on MC_Expr (tiny universe: negation duality, valid => total,
   joint keys, clamp laws, selection laws)
2. input domain: defined by spec/ExprDom.tla (full products of the base universes) plus a seeded random sample
   of key structures / value lists / subjects / weights / type lists generated here and admitted by the spec
   only if inside its grammar (ExtraOK); TLC (ExprGen) serialises the domain for the driver
3. driver: harness/cmd/exprdrv runs the REAL Validate/Evaluate/KeyValue/ResolveRef, the real affinity annotation
   parser and the real chooseBalloonDef (+ AllocateResources/GetTopologyZones end to end) on every domain point
4. trace validation: TLC on Trace_Expr evaluates every record against Expr (chunks in parallel); the recorded
   domain must be exactly the domain the spec defines
5. verdict from real-code records only; known findings matched by (predicate, signature)
"""
import concurrent.futures as cf
import json
import os
import random
import re
import shutil
import time

import vlib

PROPS = ["C19"]

OPS = ["Equals", "NotEqual", "In", "NotIn", "Exists", "NotExist", "AlwaysTrue",
       "Matches", "MatchesNot", "MatchesAny", "MatchesNone"]
POS = {"Equals", "In", "Matches", "MatchesAny"}
NEG = {"NotEqual", "NotIn", "MatchesNot", "MatchesNone"}
KSEPS = [":", ",", ";", "|", "+", "=", "@", "#", "%", "&", "!", "~", "^", " ", "$", "<", ">", "(", ")", "'"]
VSEPS = KSEPS + ["-", "_", "*", "?", "["]
MAPKEYS = ["app", "io.test/tier", "x", "missing", "t", "k8s-app", "a.b_c-d"]
VALUES = ["a", "b", "ab", "abc", "", "*", "a*", "?", "[", "Burstable", "kube-system"]
PATTERNS = ["a", "b", "ab", "a*", "*", "?", "", "[", "*b", "a?", "[ab]", "[a-b]*", "b*", "??", "Burstable", "B*",
            "kube-system", "kube-*", "a:b", "a-*", "*:*", "*-*"]
QOS = ["BestEffort", "Burstable", "Guaranteed"]

SIZES = {  # (extra subjects, extra evals, extra weights, extra def lists)
    "quick": (6, 3000, 150, 120),
    "thorough": (40, 250000, 4000, 6000),
}


# --------------------------------------------------------------------------- seeded sample (inside the spec's grammar)

def rnd_sub(r, kind_ctr=True, p_odd=0.08):
    x = r.random()
    if x < p_odd:
        return r.choice([["uid"], ["pod", "tags", "t"], ["pod", "pod", "name"], ["bogus"], ["labels"], ["pod"], ["name", "x"]])
    base = r.choice([["name"], ["namespace"], ["qosclass"], ["id"], ["uid"], ["labels", r.choice(MAPKEYS)],
                     ["labels", r.choice(MAPKEYS)], ["tags", r.choice(MAPKEYS)]])
    if r.random() < 0.35:
        if base[0] == "tags":
            base = ["labels", base[1]]
        return ["pod"] + base
    return base


def rnd_key(r):
    x = r.random()
    if x < 0.3:
        return {"form": "single", "ksep": "", "vsep": "", "subs": [rnd_sub(r)]}
    n = r.choice([2, 2, 2, 3, 3, 4])      # a joint key joins several keys
    subs = [rnd_sub(r, p_odd=0.03) for _ in range(n)]
    if x < 0.45:
        return {"form": "simple", "ksep": "", "vsep": "", "subs": subs}
    return {"form": "full", "ksep": r.choice(KSEPS), "vsep": r.choice(VSEPS), "subs": subs}


def rnd_pairs(r, pmax):
    ks = r.sample(MAPKEYS, r.randint(0, pmax))
    return [[k, r.choice(VALUES)] for k in ks]


def rnd_pod(r, pid):
    return {"kind": "pod", "id": "xp%d" % pid, "name": r.choice(VALUES[:4] + ["pod-1"]), "ns": r.choice(["a", "b", "kube-system", "prod-x"]),
            "qos": r.choice(QOS), "uid": "xu%d" % pid, "labels": rnd_pairs(r, 4)}


def rnd_subject(r, i):
    if r.random() < 0.25:
        return rnd_pod(r, i)
    return {"kind": "ctr", "id": "xc%d" % i, "name": r.choice(VALUES[:4] + ["c"]), "labels": rnd_pairs(r, 4), "tags": rnd_pairs(r, 3),
            "pod": rnd_pod(r, i), "ann": {"ctr": [], "pod": [], "plain": []}}


def rnd_vl(r, pool=PATTERNS):
    n = r.choice([0, 1, 1, 1, 2, 2, 3, 4, 6])
    return [r.choice(pool) for _ in range(n)]


def rnd_weight(r):
    x = r.random()
    if x < 0.3:
        w = r.randint(-1100, 1100)
    elif x < 0.5:
        w = r.choice([1000, -1000]) + r.randint(-3, 3)
    elif x < 0.9:
        w = r.randint(-2 ** 31, 2 ** 31 - 1)
    else:
        w = r.choice([2 ** 31 - 1, -2 ** 31, -2 ** 31 + 1, 0])
    return {"anti": r.random() < 0.5, "w": w, "scope": r.random() < 0.5}


def single(sub):
    return {"form": "single", "ksep": "", "vsep": "", "subs": [sub]}


def rnd_def_expr(r):
    """A documented, well-formed container expression (no literal "*" with Equals/In/NotIn, no pod qosclass:
    those two are findings of the eval half and are kept out of the selection half)."""
    subs_menu = [["name"], ["namespace"], ["id"], ["labels", "app"], ["labels", "missing"], ["tags", "t"],
                 ["pod", "name"], ["pod", "namespace"], ["pod", "labels", "app"], ["pod", "uid"]]
    if r.random() < 0.7:
        key = single(r.choice(subs_menu))
    else:
        key = {"form": "full", "ksep": r.choice(KSEPS), "vsep": r.choice(["-", ":", "_", ","]),
               "subs": [r.choice(subs_menu) for _ in range(r.choice([2, 2, 3]))]}
    op = r.choice(OPS)
    pool = ["a", "b", "c", "kube-system", "prod-x", "rsv-1", "a-a", "b-a", "pod1", "pod?", "k1*", "a*", "?", "[", "*-a", "kube-*"]
    if op in ("Exists", "NotExist", "AlwaysTrue"):
        vals = []
    elif op in ("Equals", "NotEqual", "Matches", "MatchesNot"):
        vals = [r.choice(pool + (["*"] if op.startswith("Matches") else []))]
    else:
        vals = [r.choice(pool + (["*"] if op.startswith("Matches") else [])) for _ in range(r.choice([0, 1, 2, 3]))]
    return {"key": key, "op": op, "vals": vals}


def rnd_deflist(r):
    names = r.sample(["T1", "T2", "T3", "T4", "reserved", "default", "X"], r.choice([0, 1, 2, 2, 3, 3, 4]))
    defs = []
    for n in names:
        nss = [r.choice(["a", "b", "*", "prod-*", "kube-*", "kube-system", "rsv-*", "[", "?", "rsv-1"]) for _ in range(r.choice([0, 0, 1, 1, 2]))]
        exprs = [rnd_def_expr(r) for _ in range(r.choice([0, 0, 1, 1, 2]))]
        defs.append({"name": n, "nss": nss, "exprs": exprs})
    return {"defs": defs, "rsv": r.choice([[], [], ["rsv-*"], ["rsv-1", "b"], ["*"], ["["]]), "e2e": True}


def make_extra(seed, tier):
    r = random.Random("C19-%s-%d" % (tier, seed))
    nsub, nev, nw, ndl = SIZES[tier]
    if os.environ.get("VERIF_C19_SAMPLE") == "0":      # self-test: the base domain alone must satisfy the vacuity guard
        nsub, nev, nw, ndl = 0, 0, 0, 0
    subjects = [rnd_subject(r, i) for i in range(nsub)]
    ns_total = 7 + nsub          # 7 base subjects in ExprDom
    evals = [{"key": rnd_key(r), "s": r.randint(1, ns_total), "vl": rnd_vl(r)} for _ in range(nev)]
    return {"subjects": subjects, "evals": evals, "weights": [rnd_weight(r) for _ in range(nw)],
            "deflists": [rnd_deflist(r) for _ in range(ndl)],
            "eoff": 0, "neval": nev, "doff": 0, "ndefl": ndl}


def slice_extra(extra, dom, first, last, path):
    """The part of the seeded sample that trace records first..last (0-based global indices) refer to: every
    validator JVM then parses only its own slice (memory, start-up time)."""
    nbase, neval, nweight, nc, nbd = dom["nbaseeval"], dom["neval"], dom["nweight"], len(dom["cctrs"]), dom["nbasedeflists"]
    e_lo = min(max(first - nbase, 0), extra["neval"])
    e_hi = min(max(last + 1 - nbase, 0), extra["neval"])
    c0 = neval + nweight
    d_lo = min(max((first - c0) // nc - nbd, 0), extra["ndefl"]) if last >= c0 else 0
    d_hi = min(max((last - c0) // nc + 1 - nbd, 0), extra["ndefl"]) if last >= c0 else 0
    sl = {"subjects": extra["subjects"], "weights": extra["weights"],
          "evals": extra["evals"][e_lo:e_hi], "eoff": e_lo, "neval": extra["neval"],
          "deflists": extra["deflists"][d_lo:d_hi], "doff": d_lo, "ndefl": extra["ndefl"]}
    with open(path, "w") as f:
        json.dump(sl, f, separators=(",", ":"))
    return path


# --------------------------------------------------------------------------- pipeline pieces

def split_trace(path, nchunks, outdir):
    """header line + contiguous slices of the records, balanced by estimated validation cost
    (an eval record carries 11 operator results and costs about twice a weight/choose record)"""
    with open(path) as f:
        lines = f.read().splitlines()
    hdr, recs = lines[0], lines[1:]
    cost = [2 if l.startswith('{"ev":"eval"') else 1 for l in recs]
    per = max(1.0, sum(cost) / float(nchunks))
    files, start, acc = [], 0, 0
    for i, c in enumerate(cost):
        acc += c
        if acc >= per * (len(files) + 1) or i == len(recs) - 1:
            fp = os.path.join(outdir, "chunk%03d.ndjson" % len(files))
            with open(fp, "w") as f:
                f.write(hdr + "\n" + "\n".join(recs[start:i + 1]) + "\n")
            files.append((fp, start, i))
            start = i + 1
    return files, len(recs)


def validate_chunks(files, outdir, extra, dom, timeout):
    def one(item):
        fp, first, last = item
        md = os.path.join(outdir, "tv-" + os.path.basename(fp))
        os.makedirs(md, exist_ok=True)
        extra_path = slice_extra(extra, dom, first, last, os.path.join(md, "extra.json"))
        env = {"EXTRA_FILE": extra_path, "COV_FILE": os.path.join(md, "cov.ndjson"), "CNT_FILE": os.path.join(md, "cnt.ndjson"),
               # one JVM per chunk runs in parallel: keep each one's GC/JIT thread pools small
               "JDK_JAVA_OPTIONS": "-XX:ParallelGCThreads=2 -XX:CICompilerCount=2"}
        r = vlib.validate_trace("Trace_Expr", "Trace_Expr.cfg", fp, md, timeout=timeout, env=env, heap="3g")
        out = r["res"]["out"]
        m = re.search(r'"?LAST (-?\d+)"?', out)
        r["last"] = int(m.group(1)) if m else None
        m = re.search(r'"?DOMAIN (\d+)"?', out)
        r["domain"] = int(m.group(1)) if m else None
        r["cov"] = vlib.read_ndjson(env["COV_FILE"]) if os.path.exists(env["COV_FILE"]) else None
        r["cnt"] = vlib.read_ndjson(env["CNT_FILE"]) if os.path.exists(env["CNT_FILE"]) else []
        shutil.rmtree(os.path.join(md, "states"), ignore_errors=True)
        return r
    with cf.ThreadPoolExecutor(max_workers=min(len(files), vlib.NCPU)) as ex:
        return list(ex.map(one, files))


def required_tags():
    """Vacuity guard: what the validated records must have exercised (tags are computed by TLC from the SPEC's
    view of every record)."""
    need = set()
    for op in OPS:
        for kk in ("simple", "nested", "joint"):
            for pres in ("present", "absent"):
                if kk == "simple" and pres == "absent":
                    continue        # name, namespace, qosclass, id (, uid of a pod) always exist
                if op == "AlwaysTrue":
                    outs = ["true"]
                elif op == "Exists":
                    outs = ["true"] if pres == "present" else ["false"]
                elif op == "NotExist":
                    outs = ["false"] if pres == "present" else ["true"]
                elif op in POS:
                    outs = ["true", "false"] if pres == "present" else ["false"]
                else:
                    outs = ["true", "false"] if pres == "present" else ["true"]
                for o in outs:
                    need.add("eval|%s|%s|%s|%s" % (op, kk, pres, o))
        need.add("valid|" + op)
        need.add("rejected|" + op)
    for p in ("In", "Matches", "MatchesAny", "Exists"):
        need.add("dual|" + p)
    for t in ("all-subkeys", "some-subkeys", "no-subkey"):
        need.add("joint|" + t)
    need |= {"jointform|simple", "jointform|full"}
    need |= {"weight|default", "weight|in-range", "weight|at-bound", "weight|clamped-high", "weight|clamped-low",
             "weight|negation-overflow"}
    for b in ("annotation", "unknown-annotation", "expression", "namespace", "reserved-namespace", "default"):
        need.add("branch|" + b)
        need.add("landed|" + b)
    return need


def run(ctx):
    q = ctx.quick
    binp = vlib.build_harness(cmd="exprdrv")

    # 1. laws of the specification ---------------------------------------------------------------
    mc = vlib.tlc("MC_Expr", "MC_Expr.cfg", ctx.path("mc"), workers=vlib.NCPU, timeout=300)
    if not mc["ok"]:
        raise vlib.Inconclusive("MC_Expr did not pass: violated=%s error=%s\n%s" % (mc["violated"], mc["error"], mc["out"][-3000:]))

    vlib.log("MC_Expr: %d states in %.1fs" % (mc["distinct"], mc["wall_s"]))

    # 2. domain ----------------------------------------------------------------------------------
    if ctx.replay:
        # the domain is a function of (tier, seed): regenerate the one the violation was found on
        rp = json.load(open(ctx.replay))["replay"]
        extra = make_extra(int(rp["seed"]), rp["tier"])
    else:
        extra = make_extra(ctx.seed, ctx.tier)
    extra_path = ctx.path("extra.json")
    json.dump(extra, open(extra_path, "w"), separators=(",", ":"))
    dom_path = ctx.path("dom.json")
    g = vlib.tlc("ExprGen", "ExprGen.cfg", ctx.path("gen"), workers=1, timeout=600,
                 env={"EXTRA_FILE": extra_path, "DOM_FILE": dom_path}, heap="6g")
    if not g["ok"] or not os.path.exists(dom_path):
        raise vlib.Inconclusive("domain generation (ExprGen) failed: %s\n%s" % (g["error"], g["out"][-3000:]))
    m = re.search(r'"?DOMAIN (\d+)"?', g["out"])
    dom_total = int(m.group(1))

    vlib.log("domain: %d points, generated in %.1fs" % (dom_total, g["wall_s"]))

    # 3. the real code ---------------------------------------------------------------------------
    trace = ctx.path("trace.ndjson")
    scratch = ctx.path("drv")
    rc, out = vlib.sh("timeout 1500 %s --dom %s --out %s --scratch %s 2> %s" % (binp, dom_path, trace, scratch, ctx.path("driver.log")),
                      timeout=1600)
    shutil.rmtree(scratch, ignore_errors=True)
    if rc != 0:
        tail = open(ctx.path("driver.log")).read()[-3000:] if os.path.exists(ctx.path("driver.log")) else ""
        raise vlib.Inconclusive("driver failed rc=%d\n%s\n%s" % (rc, out[-2000:], tail))
    os.remove(ctx.path("driver.log"))

    vlib.log("driver done at %.1fs" % (time.time() - ctx.t0))

    # 4. trace validation ------------------------------------------------------------------------
    dom = json.load(open(dom_path))
    files, nrec = split_trace(trace, vlib.NCPU, ctx.out)
    results = validate_chunks(files, ctx.out, extra, dom, 900 if q else 3000)
    viols, counts, tags, consumed = [], {}, set(), 0
    hang = False
    for (fp, first, last), r in zip(files, results):
        if r["consumed"] is None or r["consumed"] != r["total"] or r["cov"] is None:
            raise vlib.Inconclusive("trace validation did not consume %s (%s of %s): %s\n%s" % (
                fp, r["consumed"], r["total"], r["res"]["error"], r["res"]["out"][-2500:]))
        if r["domain"] != dom_total:
            raise vlib.Inconclusive("%s: validator derived a domain of %s points, generator %s" % (fp, r["domain"], dom_total))
        consumed += r["consumed"] - 1
        for v in r["viols"]:
            v["chunk"] = os.path.basename(fp)
            viols.append(v)
            hang = hang or v["sig"] == "call-did-not-return"
        for c in r["cnt"]:
            k = "%s/%s" % (c["pred"], c["sig"])
            counts[k] = counts.get(k, 0) + c["n"]
        tags |= set(r["cov"])
        if not hang and r["last"] != last:
            raise vlib.Inconclusive("%s: last record index %s, expected %s" % (fp, r["last"], last))
    vlib.log("validated %d records in %d chunks at %.1fs (chunk wall %s); instances: %s" % (
        consumed, len(files), time.time() - ctx.t0, [int(r["res"]["wall_s"]) for r in results], counts))
    machinery = [v for v in viols if v["pred"] == "Trace"]
    real = [v for v in viols if v["pred"] != "Trace"]
    if not hang:
        # domain-coverage postcondition: the recorded domain is the domain the spec defines
        if nrec != dom_total:
            raise vlib.Inconclusive("the driver recorded %d points, the domain has %d" % (nrec, dom_total))
        if machinery:
            raise vlib.Inconclusive("trace rejected by the checking machinery: %s" % json.dumps(machinery[0], default=str)[:1500])
        missing = sorted(required_tags() - tags)
        if missing:
            raise vlib.Inconclusive("vacuity guard: never exercised: %s" % missing[:20])

    drift = sorted(t for t in tags if t.startswith("drift|"))
    sample = [json.loads(l) for l in open(trace).read().splitlines()[1:3]]
    for s in sample:
        s.pop("subs", None)
    for fp, _, _ in files:
        os.remove(fp)
        os.remove(os.path.join(ctx.out, "tv-" + os.path.basename(fp), "extra.json"))
    cov = {"states": mc["distinct"], "transitions": mc["generated"], "design_depth": mc["depth"],
           "design_config": "MC_Expr: 11 operators x 5 keys (2 single, 3 joint) x 9 subjects x 31 value lists; "
                            "86 type lists x 2 reserved-namespace settings x 48 containers",
           "traces_validated_against_impl": 1, "trace_events": consumed,
           "evaluations": dom["neval"] * len(OPS) + dom["nweight"] + dom["nchoose"],
           "domain_points": {"eval_records": dom["neval"], "operators_per_eval_record": len(OPS), "weight_records": dom["nweight"],
                             "choose_records": dom["nchoose"], "subjects": len(dom["subjects"]), "base_keys": len(dom["keys"]),
                             "base_value_lists": len(dom["vls"]), "seeded_eval_points": len(dom["extra"]),
                             "type_lists": len(dom["deflists"]), "selection_containers": len(dom["cctrs"])},
           "distinct_nontrivial": len([t for t in tags if not t.startswith("drift|")]),
           "rule": "one evaluation = one call of the real code (Validate+Evaluate of one operator on one (key, subject, value list); "
                   "GetAffinity of one annotated container; chooseBalloonDef [+ AllocateResources] of one (type list, container)) "
                   "whose result TLC compared with Expr; distinct = distinct coverage classes "
                   "(operator x key kind x present/absent x outcome, joint-key classes, clamp classes, selection clauses) "
                   "as classified by the specification",
           "coverage_classes": sorted(t for t in tags if not t.startswith("drift|")),
           "violation_instances": counts,
           "drift": drift,
           "predicates": ["Sem_Eval", "Sem_KeyValue", "Dual_Negation", "Val_ValidNeverFails", "Clamp_Weight", "Choose_Def", "Choose_Lands"],
           "samples": sample, "exhaustive": False}
    if ctx.replay:
        kfs = vlib.load_known_findings()
        for v in [x for x in real if not vlib.match_kf(kfs, ctx.pid, x)][:50]:
            print("replayed violation: %s" % json.dumps(v, default=str)[:700])
    payload = {"tier": json.load(open(ctx.replay))["replay"]["tier"] if ctx.replay else ctx.tier,
               "seed": json.load(open(ctx.replay))["replay"]["seed"] if ctx.replay else ctx.seed,
               "how": "./check C19 --replay <this file> regenerates the same domain (ExprDom base + the sample seeded by tier/seed) "
                      "and re-runs the real code on it; each violation carries the exact expression/subject or type list/container"} if real else None
    return vlib.verdict(ctx, real, "model_checking", cov,
                        ["TLC and the Json/IOUtils community modules",
                         "filepath.Match of the Go standard library is the glob relation (supplied to the specification as a table)",
                         "the driver renders nothing itself: key syntax, annotation keys and expected key values come from the specification",
                         "subjects are real cache pods/containers built through InsertPod/InsertContainer; their attributes are re-read "
                         "through the public getters before use",
                         "balloon types are exercised with default CPU parameters on a synthetic 8-CPU machine"], payload)
