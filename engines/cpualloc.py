"""Engine C08: contract of pkg/cpuallocator AllocateCpus/ReleaseCpus (input-space property of a pure function).

1. design check: TLC exhaustively on MC_CpuAlloc -- the behavioural contract model (state `from`, Allocate(n),
   Release(n), GiveBack) satisfies the contract as action properties; this is the assumption the policy specs use.
2. the Go driver (harness/cmd/cpuallocdrv) records the function graph of the REAL allocator over the domain
   CpuAlloc.tla defines: every subset of the online CPUs of generated <=8 (quick) / <=10 (thorough) CPU machines
   x every count 0..|from|+1 x 4 priorities x 16 flag sets x {Allocate, Release}; seeded subset samples on the
   recorded sysfs fixtures; every call repeated on a second allocator built from a second discovery.
3. TLC (Trace_CpuAlloc) evaluates the law on every record and checks, record by record, that the chunk holds exactly
   the canonical enumeration of its slice of the domain; Cover_CpuAlloc checks that the chunks tile the whole domain
   of the tier.  A driver that skips inputs => inconclusive (exit 2), never a verdict.
"""
import concurrent.futures as cf
import json
import os
import re
import shutil
import time

import vlib

PROPS = ["C08"]

PREDS = {"Act_AllocExact", "Act_ReleaseExact", "Act_OverAskFails", "Act_Deterministic"}

FX_TA = os.path.join(vlib.REPO, "cmd/plugins/topology-aware/policy/testdata/sysfs.tar.bz2")
FX_CA = os.path.join(vlib.REPO, "pkg/cpuallocator/testdata/sysfs.tar.bz2")
FIXTURE_CACHE = os.path.join(vlib.OUT, "C08-fixtures")

# generated machines (harness/internal/cpuallocdrv/machines.go): name -> number of online CPUs
MACHINES = {"llc2x2x2-epp": 8, "hybrid-2p4e": 8, "dies-clusters": 8, "asym-llc": 8, "mixed-cache8": 8, "2pkg-offline-bf": 6,
            "2pkg-interleaved6": 6, "llc6-smt": 6, "hybrid6-1p4e": 6, "dies-llc6": 6, "llc10-smt": 10, "hybrid10-3p4e-offline": 9, "2pkg-llc10": 10}
FIXTURES = {"fixture-desktop": (FX_TA, "sysfs/desktop/sys", 20), "fixture-server": (FX_TA, "sysfs/server/sys", 112),
            "fixture-2s4n40c": (FX_CA, "sysfs/2-socket-4-node-40-core/sys", 80)}


def _dir(ctx, name):
    d = os.path.join(ctx.out, name)
    os.makedirs(d, exist_ok=True)
    return d


def tier_plan(ctx):
    q = ctx.quick
    full = [("llc2x2x2-epp", 16), ("mixed-cache8", 16), ("llc6-smt", 4), ("hybrid6-1p4e", 4), ("dies-llc6", 4), ("2pkg-offline-bf", 4), ("2pkg-interleaved6", 4)]
    sample = [("fixture-desktop", 16, 4), ("fixture-server", 6, 6)]
    if not q:
        full += [("hybrid-2p4e", 16), ("dies-clusters", 16), ("asym-llc", 16),
                 ("llc10-smt", 64), ("hybrid10-3p4e-offline", 32), ("2pkg-llc10", 64)]
        sample = [("fixture-desktop", 300, 16), ("fixture-server", 160, 32), ("fixture-2s4n40c", 100, 16)]
    return full, sample


def write_plan(ctx, full, sample, replay=None):
    plan = {"seed": int(ctx.seed), "workers": vlib.NCPU, "scratch": _dir(ctx, "scratch"), "out": _dir(ctx, "tr"),
            "fixture_cache": FIXTURE_CACHE,
            "full": [{"m": m, "split": s} for m, s in full],
            "sample": [{"m": m, "archive": FIXTURES[m][0], "path": FIXTURES[m][1], "groups": g, "split": s} for m, g, s in sample]}
    if replay:
        plan["replay"] = replay
    p = ctx.path("plan.json")
    json.dump(plan, open(p, "w"), indent=1)
    return p, plan


def run_driver(ctx, binp, planp, timeout):
    rc, out = vlib.sh(["timeout", str(timeout), binp, "--plan", planp], timeout=timeout + 30)
    hang = os.path.join(ctx.out, "tr", "hang.ndjson")
    if os.path.exists(hang):
        return None, vlib.read_ndjson(hang)
    if rc != 0:
        raise vlib.Inconclusive("driver failed rc=%d:\n%s" % (rc, out[-3000:]))
    m = re.search(r"RECORDS (\d+) CALLS (\d+) CHUNKS (\d+) WALL_MS (\d+)", out)
    if not m:
        raise vlib.Inconclusive("driver printed no summary:\n%s" % out[-2000:])
    return {"records": int(m.group(1)), "calls": int(m.group(2)), "chunks": int(m.group(3)), "driver_wall_ms": int(m.group(4))}, None


def validate_chunk(ctx, fp, timeout):
    """TLC on one chunk.  Returns (cover, violations with the recorded call attached, stats)."""
    md = ctx.path("tv", os.path.basename(fp))
    # many JVMs run side by side: keep each one's GC and JIT thread pools small
    r = vlib.validate_trace("Trace_CpuAlloc", "Trace_CpuAlloc.cfg", fp, md, timeout=timeout, heap="1500m",
                            env={"JAVA_TOOL_OPTIONS": "-XX:ParallelGCThreads=2 -XX:CICompilerCount=2"})
    if r["consumed"] is None or r["consumed"] != r["total"]:
        raise vlib.Inconclusive("trace validation did not consume %s (%s of %s): %s\n%s" % (
            fp, r["consumed"], r["total"], r["res"]["error"], r["res"]["out"][-2500:]))
    covs = vlib.tlc_prints(r["res"]["out"], "COVER")
    if len(covs) != 1:
        raise vlib.Inconclusive("no coverage verdict for %s" % fp)
    # attach the recorded call to each violation (the line is the witness)
    want = {}
    for v in r["viols"]:
        want.setdefault(v["line"], []).append(v)
    viols = []
    if want:
        hdr = None
        with open(fp) as f:
            for ln, l in enumerate(f, 1):
                if ln == 1:
                    hdr = json.loads(l)
                if ln not in want:
                    continue
                e = json.loads(l)
                for v in want[ln]:
                    v = dict(v)
                    v.update({"m": hdr["m"], "chunk": os.path.basename(fp),
                              "call": {"m": hdr["m"], "op": e["op"], "from": e["from"], "n": e["n"], "prio": e["prio"], "flags": e["flags"]},
                              "outcome": {"err": e["err"], "res": e["res"], "after": e["after"], "err2": e["err2"], "res2": e["res2"],
                                          "after2": e["after2"], "panic": e.get("panic")}})
                    viols.append(v)
    st = {"lines": r["consumed"]}
    if not viols and not ctx.keep:
        os.remove(fp)
    shutil.rmtree(md, ignore_errors=True)
    return covs[0], viols, st


def cover_check(ctx, covers, expect):
    cp, ep = ctx.path("cover.ndjson"), ctx.path("expect.ndjson")
    vlib.write_ndjson(cp, covers)
    vlib.write_ndjson(ep, expect)
    r = vlib.tlc("Cover_CpuAlloc", "Cover_CpuAlloc.cfg", _dir(ctx, "cv"), workers=1, timeout=120,
                 env={"COVER_FILE": cp, "EXPECT_FILE": ep})
    t = vlib.tlc_prints(r["out"], "TILES")
    if not r["ok"] or len(t) != 1:
        raise vlib.Inconclusive("coverage check did not run: %s\n%s" % (r["error"], r["out"][-2000:]))
    return t[0]


def validate_all(ctx, files, timeout):
    with cf.ThreadPoolExecutor(max_workers=vlib.NCPU) as ex:
        return list(ex.map(lambda fp: validate_chunk(ctx, fp, timeout), files))


def run(ctx):
    q = ctx.quick
    ctx.keep = bool(os.environ.get("VERIF_KEEP"))
    binp = vlib.build_harness(cmd="cpuallocdrv")
    os.makedirs(FIXTURE_CACHE, exist_ok=True)

    if ctx.replay:
        rp = json.load(open(ctx.replay))
        calls = rp["replay"]["calls"]
        fx = sorted({c["m"] for c in calls if c["m"] in FIXTURES})
        planp, _ = write_plan(ctx, [], [(m, 0, 1) for m in fx], replay=calls)
        _, hang = run_driver(ctx, binp, planp, 600)
        if hang:
            vs = [{"pred": "Act_AllocExact", "sig": "call-did-not-return", "call": h} for h in hang]
        else:
            ctx.keep = True
            files = sorted(os.path.join(ctx.out, "tr", f) for f in os.listdir(os.path.join(ctx.out, "tr")) if f.startswith("chunk-"))
            vs = [v for _, vv, _ in validate_all(ctx, files, 300) for v in vv]
        for v in vs:
            print("replayed violation:", json.dumps(v)[:500])
        return vlib.verdict(ctx, vs, "model_checking", {"states": 1, "transitions": 1, "traces_validated_against_impl": len(calls),
                                                         "samples": calls[:1]}, ["replay"], {"calls": calls})

    # 1. design check --------------------------------------------------------------------------
    mc = vlib.tlc("MC_CpuAlloc", "MC_CpuAlloc.cfg", _dir(ctx, "mc"), workers=vlib.NCPU, timeout=300)
    if not mc["ok"]:
        raise vlib.Inconclusive("design model check did not pass: violated=%s error=%s\n%s" % (mc["violated"], mc["error"], mc["out"][-3000:]))

    vlib.log("design MC: %d distinct states, %.1fs (t=%.0fs)" % (mc["distinct"], mc["wall_s"], time.time() - ctx.t0))

    # 2. function graph of the real code ------------------------------------------------------------
    full, sample = tier_plan(ctx)
    planp, plan = write_plan(ctx, full, sample)
    drv, hang = run_driver(ctx, binp, planp, 400 if q else 3000)
    if hang:
        vs = [{"pred": "Act_AllocExact", "sig": "call-did-not-return", "call": h} for h in hang]
        return vlib.verdict(ctx, vs, "model_checking", {"states": mc["distinct"], "transitions": mc["generated"],
                                                         "traces_validated_against_impl": 0, "samples": hang[:1]}, [], None)
    vlib.log("driver: %s (t=%.0fs)" % (drv, time.time() - ctx.t0))
    trd = os.path.join(ctx.out, "tr")
    index = vlib.read_ndjson(os.path.join(trd, "index.ndjson"))
    files = [os.path.join(trd, i["file"]) for i in index]
    shutil.rmtree(os.path.join(ctx.out, "scratch"), ignore_errors=True)

    # 3. TLC: law on every record + per-chunk domain check; then the cross-chunk coverage postcondition ----
    sample_line = open(files[0]).read().splitlines()[1:3]
    results = validate_all(ctx, files, 900 if q else 3000)
    vlib.log("TLC validated %d chunks (t=%.0fs)" % (len(files), time.time() - ctx.t0))
    covers = [c for c, _, _ in results]
    viols = [v for _, vv, _ in results for v in vv]
    expect = [{"m": m, "kind": "full", "ncpu": MACHINES[m], "groups": 0} for m, _ in full] + \
             [{"m": m, "kind": "sample", "ncpu": FIXTURES[m][2], "groups": g} for m, g, _ in sample]
    tiles = cover_check(ctx, covers, expect)
    if not tiles["ok"]:
        badc = [c for c in covers if not c["ok"]][:3]
        raise vlib.Inconclusive("the recorded domain is not the domain CpuAlloc defines for this tier: machines %s; first bad chunks: %s" %
                                (tiles["bad"], json.dumps(badc)[:1500]))
    consumed = sum(s["lines"] for _, _, s in results)
    STATS = ("alloc_ok_proper", "release_ok_proper", "overask_alloc_err", "overask_release", "alloc_all", "zero", "distinct_proper")
    st = {k: sum(i[k] for i in index) for k in STATS}
    if consumed != drv["records"] + len(files):
        raise vlib.Inconclusive("TLC consumed %d lines, the driver wrote %d records in %d chunks" % (consumed, drv["records"], len(files)))

    # vacuity guard --------------------------------------------------------------------------------
    empty = [k for k in ("alloc_ok_proper", "release_ok_proper", "overask_alloc_err", "overask_release", "alloc_all") if st[k] == 0]
    if empty:
        raise vlib.Inconclusive("drivers never exercised: %s" % empty)

    mine = [v for v in viols if v["pred"] in PREDS]
    if len(mine) != len(viols):
        raise vlib.Inconclusive("trace spec reported an unknown predicate: %s" % sorted({v["pred"] for v in viols} - PREDS))
    # replay payload: one call per (pred, sig, machine) of the violations
    seen, calls = set(), []
    for v in mine:
        key = (v["pred"], v["sig"], v["m"])
        if key not in seen and len(calls) < 40:
            seen.add(key)
            calls.append(v["call"])
    cov = {"states": mc["distinct"], "transitions": mc["generated"], "design_depth": mc["depth"],
           "design_config": "MC_CpuAlloc: CPUs=0..5, all counts 0..7, Allocate/Release/GiveBack; 4 action properties + TypeOK",
           "traces_validated_against_impl": len(files), "trace_events": drv["records"], "evaluations": drv["records"],
           "real_calls": drv["calls"], "distinct_nontrivial": st["distinct_proper"],
           "rule": "one evaluation = one recorded call (inputs, result, error, *from after, and the same call repeated on a second "
                   "allocator) on which TLC evaluated AllocLaw/ReleaseLaw/OverAskLaw/Det; distinct_nontrivial = distinct inputs (machine, op, from, n, prio, flags) with 0 < n < |from| that succeeded, "
                   "i.e. calls in which the allocator had to choose (counted by the driver)",
           "domain": {"full_machines": {m: MACHINES[m] for m, _ in full}, "sampled_fixtures": {m: g for m, g, _ in sample},
                      "coverage_postcondition": tiles},
           "exercised": {k: st[k] for k in st if k != "distinct_proper"},
           "driver_wall_ms": drv["driver_wall_ms"], "predicates": sorted(PREDS),
           "samples": [json.loads(l) for l in sample_line],
           "exhaustive": True,
           "exhaustive_note": "exhaustive over all subsets/counts/priorities/flag sets of the listed generated machines; "
                              "seeded samples (VERIF_SEED) on the recorded fixtures"}
    if not ctx.keep and not mine:
        shutil.rmtree(trd, ignore_errors=True)
    return vlib.verdict(ctx, mine, "model_checking", cov,
                        ["TLC and the Json community module",
                         "the spec is the contract, not the selection heuristic (which CPUs are chosen is left open by the property)",
                         "Intel SST priorities are not exercised (need /dev/isst_interface); cpufreq/EPP/hybrid priorities are",
                         "candidate sets are subsets of the online CPUs, as the property states"],
                        {"calls": calls})
