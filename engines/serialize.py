"""Engine: serialized request processing (C15).

  1. design check: TLC exhaustively on Serialize.tla
       a. the lock protocol of the request handlers AS THEY ARE TODAY (3 concurrent requests of every handler kind):
          Inv_Mutex restricted to the kinds that lock correctly, Inv_AtMostOne, deadlock freedom, termination under weak
          fairness; every handler kind named in the constant UnlockedKinds is a DEVIATION of the code from the
          architecture's rule (take the lock before touching cache/policy): for each of them TLC must find the
          Inv_Mutex counterexample when it is no longer excused (otherwise the model is wrong -> inconclusive)
       b. the pod-resource rendezvous (wait channel created before the fetch goroutine starts): Act_ReadSeesFetch;
          the OLD ordering (channel created inside the goroutine) must violate it
  2. drivers: seeded sessions (world x rounds x 4-8 goroutine programs) -- the Go scheduler decides the interleaving
  3. the REAL resource manager, concurrently (harness/cmd/concdrv, built without and with the race detector)
  4. TLC validates the round records against Trace_Serialize (Inv_AtMostOne, Inv_Mutex, Act_Terminates, Act_NoPanic,
     Act_SequentialEquivalent, Act_ReadSeesFetch) and the serialized histories against Trace_L2 (C01-C05 predicates);
     race-detector reports become `unsynchronized-access` records of the same trace
  5. verdict from real-code traces only
"""
import concurrent.futures as cf
import copy
import json
import os
import random
import re
import shutil
import time

import vlib
from engines import l2 as l2eng
from engines import l2gen
from engines.memalloc import validate_chunks

PROPS = ["C15"]

PREDS = {"Inv_AtMostOne", "Inv_Mutex", "Act_Terminates", "Act_NoPanic", "Act_SequentialEquivalent", "Act_ReadSeesFetch"}
L2_OWNERS = ["C01", "C02", "C03", "C04", "C05"]
L2_PREDS = set().union(*[l2eng.PREDS[p] for p in L2_OWNERS])

KINDS = ["RunPodSandbox", "StopPodSandbox", "RemovePodSandbox", "CreateContainer", "StartContainer", "UpdateContainer",
         "StopContainer", "RemoveContainer", "Synchronize", "Reconfigure"]


# ----------------------------------------------------------------------------------------------- session generator

def gen_session(world, rnd, nrounds, sid):
    """One world, `nrounds` rounds of 4-8 goroutine programs.  Every goroutine drives its OWN pods and containers through
    a consistent lifecycle (any interleaving of the goroutines is a legal request sequence); some goroutines touch shared
    objects: updates of containers that stay alive during the round, reconfiguration, Synchronize (last round only)."""
    pods = {}      # pod -> {"qos", "ctrs": [ids], "stopped": bool}
    ctrs = {}      # ctr -> created | running | stopped
    pod_of = {}
    rounds = []
    policy = world["policy"]
    big = rnd.random() < 0.2
    bulk_last = rnd.random() < 0.55
    for r in range(nrounds):
        bulk = bulk_last and r == nrounds - 1
        clean = (not bulk) and rnd.random() < 0.45     # no handler that works outside the lock today
        k = rnd.randint(4, 8)
        procs = []
        free_pods = [p for p in pods]
        rnd.shuffle(free_pods)
        carried = set()

        def life(g):
            ops = []
            p = "p%d_%d_%d" % (sid, r, g)
            pc = l2gen.pod_class(rnd, policy)
            pods[p] = {"qos": pc["qos"], "ctrs": []}
            ops.append({"op": "RunPod", "pod": p, "pods": pc})
            for j in range(rnd.choice([1, 1, 2])):
                c = "c%d_%d_%d_%d" % (sid, r, g, j)
                spec = l2gen.ctr_class(rnd, pc["qos"], big)
                ops.append({"op": "Create", "pod": p, "c": c, "ctr": spec})
                pods[p]["ctrs"].append(c)
                pod_of[c] = p
                ctrs[c] = "created"
                if rnd.random() < 0.8:
                    ops.append({"op": "Start", "pod": p, "c": c})
                    ctrs[c] = "running"
                if rnd.random() < 0.35:
                    ops.append({"op": "Update", "pod": p, "c": c, "ctr": l2gen.ctr_class(rnd, pc["qos"], big)})
            if rnd.random() < 0.5:
                ops += finish(p, full=not clean and rnd.random() < 0.7)
            return ops

        def finish(p, full):
            ops = []
            for c in pods[p]["ctrs"]:
                if ctrs.get(c) in ("created", "running"):
                    ops.append({"op": "Stop", "pod": p, "c": c})
                    ctrs[c] = "stopped"
            if full:
                ops.append({"op": "StopPod", "pod": p})
            for c in list(pods[p]["ctrs"]):
                if c in ctrs:
                    ops.append({"op": "Remove", "pod": p, "c": c})
                    del ctrs[c]
            if full:
                ops.append({"op": "RemovePod", "pod": p})
                del pods[p]
            else:
                pods[p]["ctrs"] = []
            return ops

        def carry(p):
            ops = []
            for c in pods[p]["ctrs"]:
                if ctrs.get(c) == "created" and rnd.random() < 0.7:
                    ops.append({"op": "Start", "pod": p, "c": c})
                    ctrs[c] = "running"
                if ctrs.get(c) in ("created", "running") and rnd.random() < 0.4:
                    ops.append({"op": "Update", "pod": p, "c": c, "ctr": l2gen.ctr_class(rnd, pods[p]["qos"], big)})
            if rnd.random() < 0.6 or not ops:
                ops += finish(p, full=not clean)
            return ops

        roles = []
        for g in range(k):
            x = rnd.random()
            if bulk:
                roles.append("sync" if g == 0 else rnd.choice(["reconf", "touch", "touch", "sync" if rnd.random() < 0.3 else "touch"]))
            elif x < 0.45 or not pods:
                roles.append("life")
            elif x < 0.70:
                roles.append("carry")
            elif x < 0.88:
                roles.append("touch")
            else:
                roles.append("reconf")
        # the pods whose lifecycle moves on in this round
        for g, role in enumerate(roles):
            if role == "carry":
                cand = [p for p in free_pods if p not in carried]
                if cand:
                    carried.add(cand[0])
                    roles[g] = ("carry", cand[0])
                else:
                    roles[g] = "life"
        # containers that stay alive during the whole round: nobody changes their lifecycle
        stable = [c for c, s in ctrs.items() if s in ("created", "running") and pod_of[c] not in carried]
        snapshot_pods = sorted(pods)
        snapshot_ctrs = {c: s for c, s in ctrs.items()}
        for g, role in enumerate(roles):
            if isinstance(role, tuple):
                procs.append(carry(role[1]))
            elif role == "life":
                procs.append(life(g))
            elif role == "touch":
                ops = []
                for _ in range(rnd.randint(1, 3)):
                    if stable:
                        c = rnd.choice(stable)
                        ops.append({"op": "Update", "pod": pod_of[c], "c": c,
                                    "ctr": l2gen.ctr_class(rnd, pods[pod_of[c]]["qos"], big), "tag": "shared"})
                    else:
                        ops.append({"op": "Reconfigure", "config": world["config"]})
                procs.append(ops)
            elif role == "reconf":
                procs.append([{"op": "Reconfigure", "config": reconf_variant(world, rnd)} for _ in range(rnd.randint(1, 2))])
            elif role == "sync":
                procs.append([{"op": "Sync", "pods_list": snapshot_pods, "ctrs": snapshot_ctrs}])
        rounds.append({"gmp": rnd.choice([1, 2, 16]), "seed": rnd.randrange(1 << 30), "procs": procs, "bulk": bulk})
    return {"world": world, "rounds": rounds}


def reconf_variant(world, rnd):
    cfg = copy.deepcopy(world["config"])
    if rnd.random() < 0.35:
        if world["policy"] == "ta":
            cfg["preferSharedCPUs"] = not cfg.get("preferSharedCPUs", False)
        else:
            cfg["reservedPoolNamespaces"] = [] if cfg.get("reservedPoolNamespaces") else ["rsv-x"]
    return cfg


def gen_sessions(ctx, binp, nsessions, nrounds, salt=0):
    rnd = random.Random(ctx.seed * 104729 + 15 + salt)
    ms = l2gen.machines(binp)
    worlds = l2gen.ta_worlds(ms, rnd, (nsessions + 1) // 2) + l2gen.balloons_worlds(ms, rnd, nsessions // 2)
    rnd.shuffle(worlds)
    return [gen_session(w, rnd, nrounds, i) for i, w in enumerate(worlds[:nsessions])]
